// Package recdrv is a recording, fault-injecting and parking database/sql driver
// that wraps mattn/go-sqlite3. Every call gorm makes through database/sql is
// appended to a sequence-numbered event log together with its context value,
// connection / transaction / statement ids and bound values.
package recdrv

import (
	"context"
	"database/sql"
	"database/sql/driver"
	"errors"
	"fmt"
	"io"
	"reflect"
	"sync"
	"sync/atomic"

	sqlite3 "github.com/mattn/go-sqlite3"
)

type Kind string

const (
	KConnect   Kind = "connect"
	KBegin     Kind = "begin"
	KPrepare   Kind = "prepare"
	KExec      Kind = "exec"
	KQuery     Kind = "query"
	KStmtExec  Kind = "stmt-exec"
	KStmtQuery Kind = "stmt-query"
	KStmtClose Kind = "stmt-close"
	KRowsClose Kind = "rows-close"
	// KRowsNext: the first step of a result set (only recorded and offered to the hook when Recorder.NextFaults is
	// set): SQLite reports the constraint violation of an INSERT ... RETURNING while stepping, not from the query call
	KRowsNext  Kind = "rows-next"
	KCommit    Kind = "commit"
	KRollback  Kind = "rollback"
	KConnClose Kind = "conn-close"
)

// Event is one driver call.
type Event struct {
	Seq    int64
	Kind   Kind
	Conn   int64
	Tx     int64 // id of the transaction open on the connection (0 = none)
	Stmt   int64
	Query  string
	Args   []driver.NamedValue
	CtxVal interface{}     // ctx.Value(Recorder.CtxKey)
	CtxErr error           // ctx.Err() at call time
	Ctx    context.Context // the context object the call received (to ask Done/Err/Deadline later)
	Err    error           // result of the call (filled after the call)
	Inject bool            // the error was injected
}

func (e Event) String() string {
	s := fmt.Sprintf("#%d %s c%d t%d", e.Seq, e.Kind, e.Conn, e.Tx)
	if e.Stmt != 0 {
		s += fmt.Sprintf(" s%d", e.Stmt)
	}
	if e.Query != "" {
		s += " " + e.Query
	}
	if len(e.Args) > 0 {
		s += " ["
		for i, a := range e.Args {
			if i > 0 {
				s += ", "
			}
			s += fmt.Sprintf("%#v", a.Value)
		}
		s += "]"
	}
	if e.Err != nil {
		s += " ERR=" + e.Err.Error()
	}
	return s
}

// IsStatement reports whether the event sends SQL text or executes a statement.
func (e Event) IsStatement() bool {
	switch e.Kind {
	case KPrepare, KExec, KQuery, KStmtExec, KStmtQuery:
		return true
	}
	return false
}

// Hook is consulted before every faultable call (begin, prepare, exec, query,
// stmt-exec, stmt-query, commit, rollback). It may block (parking) and may
// return an error to inject instead of performing the call.
type Hook func(ev *Event) error

// Recorder holds the event log and the counters derived from it (updated under
// the same mutex, so the monitor's own state is never the race).
type Recorder struct {
	// NextFaults: the first Next of every result set is an event (rows-next) and a fault point
	NextFaults bool
	mu         sync.Mutex
	events     []Event
	seq        int64
	ids        int64
	OpenTx     int
	OpenStmts  int
	OpenRows   int
	OpenConns  int
	hook       atomic.Value // Hook
	CtxKey     interface{}
	openStmtQ  map[int64]string
	crashed    int32
	live       map[int64]*conn
	// FirstIDMode makes LastInsertId report the first id of a multi-row insert
	// (MySQL-like) instead of the last (SQLite).
	FirstIDMode bool
	Recording   bool
}

func NewRecorder() *Recorder { return &Recorder{Recording: true} }

func (r *Recorder) SetHook(h Hook) {
	if h == nil {
		r.hook.Store(Hook(func(*Event) error { return nil }))
		return
	}
	r.hook.Store(h)
}

// ErrCrash, returned by a Hook, simulates the death of the process as far as the database
// can tell: every open connection is dropped on the spot (SQLite rolls back whatever
// transaction was open on it, nothing else is undone), the call and every later call fail
// with driver.ErrBadConn and no new connection can be made until Uncrash.
var ErrCrash = errors.New("verif: simulated crash")

func (r *Recorder) Crashed() bool { return atomic.LoadInt32(&r.crashed) == 1 }

func (r *Recorder) Uncrash() { atomic.StoreInt32(&r.crashed, 0) }

func (r *Recorder) callHook(ev *Event) error {
	if r.Crashed() {
		return driver.ErrBadConn
	}
	if h, ok := r.hook.Load().(Hook); ok && h != nil {
		err := h(ev)
		if err == ErrCrash {
			atomic.StoreInt32(&r.crashed, 1)
			r.mu.Lock()
			conns := make([]*conn, 0, len(r.live))
			for _, c := range r.live {
				conns = append(conns, c)
			}
			r.live = map[int64]*conn{}
			r.mu.Unlock()
			for _, c := range conns {
				c.bad = true
				c.base.Close()
			}
			return driver.ErrBadConn
		}
		return err
	}
	return nil
}

// Mark returns the current length of the log.
func (r *Recorder) Mark() int {
	r.mu.Lock()
	defer r.mu.Unlock()
	return len(r.events)
}

// Since returns a copy of the events recorded after mark.
func (r *Recorder) Since(mark int) []Event {
	r.mu.Lock()
	defer r.mu.Unlock()
	if mark > len(r.events) {
		mark = len(r.events)
	}
	out := make([]Event, len(r.events)-mark)
	copy(out, r.events[mark:])
	return out
}

func (r *Recorder) Reset() {
	r.mu.Lock()
	r.events = r.events[:0]
	r.mu.Unlock()
}

// OpenStmtQueries lists the driver statements that are still open.
func (r *Recorder) OpenStmtQueries() []string {
	r.mu.Lock()
	defer r.mu.Unlock()
	var out []string
	for _, q := range r.openStmtQ {
		out = append(out, q)
	}
	return out
}

type Counters struct{ OpenTx, OpenStmts, OpenRows, OpenConns int }

func (r *Recorder) Counters() Counters {
	r.mu.Lock()
	defer r.mu.Unlock()
	return Counters{r.OpenTx, r.OpenStmts, r.OpenRows, r.OpenConns}
}

func (r *Recorder) nextID() int64 { return atomic.AddInt64(&r.ids, 1) }

// begin records the call and returns its index in the log.
func (r *Recorder) record(ev *Event) int {
	r.mu.Lock()
	defer r.mu.Unlock()
	r.seq++
	ev.Seq = r.seq
	if !r.Recording {
		return -1
	}
	r.events = append(r.events, *ev)
	return len(r.events) - 1
}

func (r *Recorder) finish(idx int, seq int64, err error, inject bool, delta func()) {
	r.mu.Lock()
	defer r.mu.Unlock()
	if idx >= 0 && idx < len(r.events) && r.events[idx].Seq == seq {
		r.events[idx].Err = err
		r.events[idx].Inject = inject
	}
	if delta != nil {
		delta()
	}
}

// Connector opens wrapped SQLite connections.
type Connector struct {
	DSN string
	Rec *Recorder
	drv *Driver
}

type Driver struct{ c *Connector }

func (d *Driver) Open(name string) (driver.Conn, error) { return d.c.Connect(context.Background()) }

func NewConnector(dsn string, rec *Recorder) *Connector {
	c := &Connector{DSN: dsn, Rec: rec}
	c.drv = &Driver{c}
	return c
}

// Open returns a *sql.DB on a recording connector.
func Open(dsn string, rec *Recorder) *sql.DB { return sql.OpenDB(NewConnector(dsn, rec)) }

func (c *Connector) Driver() driver.Driver { return c.drv }

func (c *Connector) Connect(ctx context.Context) (driver.Conn, error) {
	if c.Rec.Crashed() {
		return nil, errors.New("verif: no connection after the simulated crash")
	}
	base, err := (&sqlite3.SQLiteDriver{}).Open(c.DSN)
	if err != nil {
		return nil, err
	}
	cn := &conn{base: base.(*sqlite3.SQLiteConn), rec: c.Rec, id: c.Rec.nextID()}
	ev := &Event{Kind: KConnect, Conn: cn.id}
	idx := c.Rec.record(ev)
	c.Rec.finish(idx, ev.Seq, nil, false, func() {
		c.Rec.OpenConns++
		if c.Rec.live == nil {
			c.Rec.live = map[int64]*conn{}
		}
		c.Rec.live[cn.id] = cn
	})
	return cn, nil
}

type conn struct {
	base *sqlite3.SQLiteConn
	rec  *Recorder
	id   int64
	tx   int64 // accessed only from the goroutine owning the connection (database/sql guarantees)
	bad  bool
}

func (c *conn) ev(ctx context.Context, k Kind, q string, args []driver.NamedValue) *Event {
	e := &Event{Kind: k, Conn: c.id, Tx: atomic.LoadInt64(&c.tx), Query: q}
	if len(args) > 0 {
		e.Args = append([]driver.NamedValue(nil), args...)
	}
	if ctx != nil {
		if c.rec.CtxKey != nil {
			e.CtxVal = ctx.Value(c.rec.CtxKey)
		}
		e.CtxErr = ctx.Err()
		e.Ctx = ctx
	}
	return e
}

func (c *conn) Prepare(query string) (driver.Stmt, error) {
	return c.PrepareContext(context.Background(), query)
}

func (c *conn) PrepareContext(ctx context.Context, query string) (driver.Stmt, error) {
	e := c.ev(ctx, KPrepare, query, nil)
	sid := c.rec.nextID()
	e.Stmt = sid
	idx := c.rec.record(e)
	if err := c.rec.callHook(e); err != nil {
		c.rec.finish(idx, e.Seq, err, true, nil)
		return nil, err
	}
	st, err := c.base.PrepareContext(ctx, query)
	if err != nil {
		c.rec.finish(idx, e.Seq, err, false, nil)
		return nil, err
	}
	c.rec.finish(idx, e.Seq, nil, false, func() {
		c.rec.OpenStmts++
		if c.rec.openStmtQ == nil {
			c.rec.openStmtQ = map[int64]string{}
		}
		c.rec.openStmtQ[sid] = fmt.Sprintf("conn %d tx %d: %s", c.id, e.Tx, query)
	})
	return &stmt{base: st.(*sqlite3.SQLiteStmt), c: c, id: sid, query: query}, nil
}

func (c *conn) Close() error {
	e := c.ev(nil, KConnClose, "", nil)
	idx := c.rec.record(e)
	err := c.base.Close()
	c.rec.finish(idx, e.Seq, err, false, func() {
		c.rec.OpenConns--
		delete(c.rec.live, c.id)
	})
	return err
}

func (c *conn) Begin() (driver.Tx, error) { return c.BeginTx(context.Background(), driver.TxOptions{}) }

func (c *conn) BeginTx(ctx context.Context, opts driver.TxOptions) (driver.Tx, error) {
	e := c.ev(ctx, KBegin, "BEGIN", nil)
	idx := c.rec.record(e)
	if err := c.rec.callHook(e); err != nil {
		c.rec.finish(idx, e.Seq, err, true, nil)
		return nil, err
	}
	t, err := c.base.BeginTx(ctx, opts)
	if err != nil {
		c.rec.finish(idx, e.Seq, err, false, nil)
		return nil, err
	}
	id := c.rec.nextID()
	atomic.StoreInt64(&c.tx, id)
	c.rec.finish(idx, e.Seq, nil, false, func() {
		c.rec.OpenTx++
		if idx >= 0 {
			c.rec.events[idx].Tx = id
		}
	})
	return &tx{base: t, c: c, id: id}, nil
}

func (c *conn) ExecContext(ctx context.Context, query string, args []driver.NamedValue) (driver.Result, error) {
	e := c.ev(ctx, KExec, query, args)
	idx := c.rec.record(e)
	if err := c.rec.callHook(e); err != nil {
		c.rec.finish(idx, e.Seq, err, true, nil)
		return nil, err
	}
	res, err := c.base.ExecContext(ctx, query, args)
	c.rec.finish(idx, e.Seq, err, false, nil)
	if err == nil && c.rec.FirstIDMode {
		res = firstIDResult{res}
	}
	return res, err
}

func (c *conn) QueryContext(ctx context.Context, query string, args []driver.NamedValue) (driver.Rows, error) {
	e := c.ev(ctx, KQuery, query, args)
	idx := c.rec.record(e)
	if err := c.rec.callHook(e); err != nil {
		c.rec.finish(idx, e.Seq, err, true, nil)
		return nil, err
	}
	rs, err := c.base.QueryContext(ctx, query, args)
	if err != nil {
		c.rec.finish(idx, e.Seq, err, false, nil)
		return nil, err
	}
	c.rec.finish(idx, e.Seq, nil, false, func() { c.rec.OpenRows++ })
	return &rows{base: rs.(*sqlite3.SQLiteRows), c: c, query: query}, nil
}

func (c *conn) Ping(ctx context.Context) error { return c.base.Ping(ctx) }

func (c *conn) ResetSession(ctx context.Context) error {
	if c.bad {
		return driver.ErrBadConn
	}
	return nil
}

func (c *conn) IsValid() bool { return !c.bad }

// firstIDResult converts SQLite's "last id of the batch" into "first id of the
// batch" (what MySQL reports), to drive gorm's non-reversed back-fill arithmetic.
type firstIDResult struct{ driver.Result }

func (r firstIDResult) LastInsertId() (int64, error) {
	id, err := r.Result.LastInsertId()
	if err != nil {
		return id, err
	}
	n, err := r.Result.RowsAffected()
	if err != nil || n <= 0 {
		return id, nil
	}
	return id - n + 1, nil
}

type tx struct {
	base driver.Tx
	c    *conn
	id   int64
}

func (t *tx) Commit() error {
	e := t.c.ev(nil, KCommit, "COMMIT", nil)
	idx := t.c.rec.record(e)
	if err := t.c.rec.callHook(e); err != nil {
		// "commit failed, the server aborted the transaction"
		t.base.Rollback()
		atomic.StoreInt64(&t.c.tx, 0)
		t.c.rec.finish(idx, e.Seq, err, true, func() { t.c.rec.OpenTx-- })
		return err
	}
	err := t.base.Commit()
	atomic.StoreInt64(&t.c.tx, 0)
	t.c.rec.finish(idx, e.Seq, err, false, func() { t.c.rec.OpenTx-- })
	return err
}

func (t *tx) Rollback() error {
	e := t.c.ev(nil, KRollback, "ROLLBACK", nil)
	idx := t.c.rec.record(e)
	t.c.rec.callHook(e) // may park; errors on rollback are not injected
	err := t.base.Rollback()
	atomic.StoreInt64(&t.c.tx, 0)
	t.c.rec.finish(idx, e.Seq, err, false, func() { t.c.rec.OpenTx-- })
	return err
}

type stmt struct {
	base   *sqlite3.SQLiteStmt
	c      *conn
	id     int64
	query  string
	closed int32
}

func (s *stmt) Close() error {
	e := s.c.ev(nil, KStmtClose, s.query, nil)
	e.Stmt = s.id
	idx := s.c.rec.record(e)
	err := s.base.Close()
	first := atomic.CompareAndSwapInt32(&s.closed, 0, 1)
	s.c.rec.finish(idx, e.Seq, err, false, func() {
		if first {
			s.c.rec.OpenStmts--
			delete(s.c.rec.openStmtQ, s.id)
		}
	})
	return err
}

func (s *stmt) NumInput() int { return s.base.NumInput() }

func (s *stmt) Exec(args []driver.Value) (driver.Result, error) {
	return nil, errors.New("recdrv: Exec without context not supported")
}

func (s *stmt) Query(args []driver.Value) (driver.Rows, error) {
	return nil, errors.New("recdrv: Query without context not supported")
}

func (s *stmt) ExecContext(ctx context.Context, args []driver.NamedValue) (driver.Result, error) {
	e := s.c.ev(ctx, KStmtExec, s.query, args)
	e.Stmt = s.id
	idx := s.c.rec.record(e)
	if err := s.c.rec.callHook(e); err != nil {
		s.c.rec.finish(idx, e.Seq, err, true, nil)
		return nil, err
	}
	res, err := s.base.ExecContext(ctx, args)
	s.c.rec.finish(idx, e.Seq, err, false, nil)
	if err == nil && s.c.rec.FirstIDMode {
		res = firstIDResult{res}
	}
	return res, err
}

func (s *stmt) QueryContext(ctx context.Context, args []driver.NamedValue) (driver.Rows, error) {
	e := s.c.ev(ctx, KStmtQuery, s.query, args)
	e.Stmt = s.id
	idx := s.c.rec.record(e)
	if err := s.c.rec.callHook(e); err != nil {
		s.c.rec.finish(idx, e.Seq, err, true, nil)
		return nil, err
	}
	rs, err := s.base.QueryContext(ctx, args)
	if err != nil {
		s.c.rec.finish(idx, e.Seq, err, false, nil)
		return nil, err
	}
	s.c.rec.finish(idx, e.Seq, nil, false, func() { s.c.rec.OpenRows++ })
	return &rows{base: rs.(*sqlite3.SQLiteRows), c: s.c, query: s.query}, nil
}

type rows struct {
	base   *sqlite3.SQLiteRows
	c      *conn
	closed int32
	query  string
	nexted int32
}

func (r *rows) Columns() []string { return r.base.Columns() }
func (r *rows) Close() error {
	err := r.base.Close()
	if atomic.CompareAndSwapInt32(&r.closed, 0, 1) {
		e := r.c.ev(nil, KRowsClose, "", nil)
		idx := r.c.rec.record(e)
		r.c.rec.finish(idx, e.Seq, err, false, func() { r.c.rec.OpenRows-- })
	}
	return err
}
func (r *rows) Next(dest []driver.Value) error {
	if r.c.rec.NextFaults && atomic.CompareAndSwapInt32(&r.nexted, 0, 1) {
		e := r.c.ev(nil, KRowsNext, r.query, nil)
		idx := r.c.rec.record(e)
		if herr := r.c.rec.callHook(e); herr != nil {
			r.c.rec.finish(idx, e.Seq, herr, true, nil)
			return herr
		}
		r.c.rec.finish(idx, e.Seq, nil, false, nil)
	}
	err := r.base.Next(dest)
	if err != nil && err != io.EOF {
		return err
	}
	return err
}
func (r *rows) ColumnTypeDatabaseTypeName(i int) string { return r.base.ColumnTypeDatabaseTypeName(i) }
func (r *rows) ColumnTypeNullable(i int) (bool, bool)   { return r.base.ColumnTypeNullable(i) }
func (r *rows) ColumnTypeScanType(i int) reflect.Type   { return r.base.ColumnTypeScanType(i) }

// ErrInjected is the distinctive sentinel used by fault plans.
type ErrInjected struct {
	At string
	// Cause, when set, is wrapped (errors.Is sees it): a driver may fail with any error value
	Cause error
}

func (e *ErrInjected) Error() string {
	if e.Cause != nil {
		return "verif: injected fault at " + e.At + ": " + e.Cause.Error()
	}
	return "verif: injected fault at " + e.At
}

func (e *ErrInjected) Unwrap() error { return e.Cause }

// FailNth returns a hook failing the n-th (1-based) faultable call (commit included,
// rollback excluded) with the given error; *count reports how many were seen.
func FailNth(n int, err error, count *int64) Hook {
	return func(ev *Event) error {
		if ev.Kind == KRollback {
			return nil
		}
		k := atomic.AddInt64(count, 1)
		if int(k) == n {
			return err
		}
		return nil
	}
}

package pred

import (
	"database/sql"
	"fmt"
	"strings"

	"gorm.io/gorm"
	"gorm.io/gorm/clause"

	"verif/core"
)

// Unit is one logical condition unit in a concrete rendering: what is handed to
// Where/Not/Or/an inline finisher argument (query, args...), its meaning when used
// positively and its meaning under Not according to the property statement.
// Neg == nil means the statement does not define the negation of this unit
// (such units are never generated under Not).
type Unit struct {
	Form  string
	Desc  string
	Query func(root *gorm.DB) (interface{}, []interface{})
	Pos   *Node
	Neg   *Node
	// Canon is true when the rendering uses only single spaces around upper-case AND/OR.
	Canon bool
}

// Style controls how hostile raw-string renderings are.
type Style struct {
	Whitespace bool // tabs, newlines, multiple spaces, none around parentheses
	Case       bool // and / And / AND
	Parens     bool // redundant parentheses
}

type rawRenderer struct {
	r     *core.Rand
	st    Style
	named bool
	sb    strings.Builder
	args  []interface{}
	names map[string]interface{}
	n     int
	canon bool
}

func (w *rawRenderer) kw(k string) string {
	if w.st.Case {
		switch w.r.Intn(3) {
		case 0:
			w.canon = w.canon && true
			return k
		case 1:
			w.canon = false
			return strings.ToLower(k)
		default:
			w.canon = false
			return k[:1] + strings.ToLower(k[1:])
		}
	}
	return k
}

func (w *rawRenderer) sp() string {
	if w.st.Whitespace {
		switch w.r.Intn(6) {
		case 0:
			w.canon = false
			return "\t"
		case 1:
			w.canon = false
			return "\n"
		case 2:
			w.canon = false
			return "  "
		case 3:
			w.canon = false
			return " \n\t "
		}
	}
	return " "
}

func (w *rawRenderer) bind(v interface{}) string {
	if w.named {
		w.n++
		name := fmt.Sprintf("p%d", w.n)
		w.names[name] = v
		return "@" + name
	}
	w.args = append(w.args, v)
	return "?"
}

func (w *rawRenderer) atom(n *Node) string {
	switch n.Cmp {
	case "ISNULL":
		return n.Col + " IS NULL"
	case "NOTNULL":
		return n.Col + " IS NOT NULL"
	case "IN":
		// "IN (@name)" is not a supported spelling for named slices (gorm binds the whole
		// list as one parenthesised group): named renderings use "IN @name" only
		if !w.named && w.r.Bool() {
			return n.Col + " IN (" + w.bind(n.Val) + ")"
		}
		return n.Col + " IN " + w.bind(n.Val)
	}
	return n.Col + " " + n.Cmp + " " + w.bind(n.Val)
}

// render writes the tree; parent is the kind of the enclosing operator.
func (w *rawRenderer) render(n *Node, parent Kind, top bool) string {
	switch n.Kind {
	case Atom:
		s := w.atom(n)
		if w.st.Parens && w.r.Chance(1, 5) {
			return "(" + s + ")"
		}
		return s
	case Not:
		inner := w.render(n.Kids[0], Not, false)
		k := n.Kids[0]
		// NOT binds tighter than comparison operators only for atoms written in parentheses
		if !(k.Kind == Atom && strings.HasPrefix(inner, "(")) {
			inner = "(" + inner + ")"
		}
		return w.kw("NOT") + w.spNot() + inner
	}
	op := "AND"
	if n.Kind == Or {
		op = "OR"
	}
	parts := make([]string, len(n.Kids))
	for i, k := range n.Kids {
		parts[i] = w.render(k, n.Kind, false)
	}
	var sb strings.Builder
	for i, p := range parts {
		if i > 0 {
			l, rgt := w.sp(), w.sp()
			// no whitespace at all is legal next to a parenthesis
			if w.st.Whitespace && strings.HasSuffix(parts[i-1], ")") && w.r.Chance(1, 4) {
				l = ""
				w.canon = false
			}
			if w.st.Whitespace && strings.HasPrefix(p, "(") && w.r.Chance(1, 4) {
				rgt = ""
				w.canon = false
			}
			sb.WriteString(l + w.kw(op) + rgt)
		}
		sb.WriteString(p)
	}
	s := sb.String()
	need := !top && (parent == Not || (parent == And && n.Kind == Or) || (parent == Or && n.Kind == And && w.r.Bool()) || parent == n.Kind && w.r.Bool())
	if need || (w.st.Parens && w.r.Chance(1, 5)) {
		return "(" + s + ")"
	}
	return s
}

func (w *rawRenderer) spNot() string {
	if w.st.Whitespace && w.r.Chance(1, 3) {
		w.canon = false
		return core.Pick(w.r, []string{"\t", "\n", "  "})
	}
	return " "
}

// RawUnit renders tree as a raw string with '?' (or @named) arguments.
// emptySomeIN empties the list of some IN atoms (an empty, non-nil slice: the filter list that turned out empty).
// Only raw-string units get them: there gorm writes (NULL) for the list, whatever stands around it; clause.IN and the
// map form have a reading of their own for the negated empty list (IS NOT NULL), which the statement does not fix.
func emptySomeIN(r *core.Rand, n *Node) {
	if n.Kind == Atom {
		if n.Cmp == "IN" && r.Chance(1, 4) {
			switch n.Val.(type) {
			case []int64:
				n.Val = []int64{}
			case []string:
				n.Val = []string{}
			}
		}
		return
	}
	for _, k := range n.Kids {
		emptySomeIN(r, k)
	}
}

func RawUnit(r *core.Rand, tree *Node, st Style, named bool) *Unit {
	emptySomeIN(r, tree)
	w := &rawRenderer{r: r, st: st, named: named, names: map[string]interface{}{}, canon: true}
	s := w.render(tree, True, true)
	u := &Unit{Form: "raw", Pos: tree, Neg: NotOf(tree), Canon: w.canon}
	if named {
		u.Form = "named"
		names := w.names
		mode := r.Intn(2)
		if len(names) == 0 {
			// a string without arguments is a plain raw condition
			u.Form = "raw"
		}
		u.Desc = fmt.Sprintf("%q named%v", s, names)
		u.Query = func(*gorm.DB) (interface{}, []interface{}) {
			if len(names) == 0 {
				return s, nil
			}
			if mode == 0 {
				return s, []interface{}{names}
			}
			var args []interface{}
			for i := 1; i <= len(names); i++ {
				k := fmt.Sprintf("p%d", i)
				args = append(args, sql.Named(k, names[k]))
			}
			return s, args
		}
		return u
	}
	args := w.args
	u.Desc = fmt.Sprintf("%q %v", s, args)
	u.Query = func(*gorm.DB) (interface{}, []interface{}) { return s, args }
	return u
}

// eqAtoms returns k atoms on distinct columns expressible in a map.
func eqAtoms(r *core.Rand, k int, forStruct bool) []*Node {
	cols := []string{"a", "b", "s", "t"}
	perm := r.Perm(len(cols))
	var out []*Node
	for _, pi := range perm {
		if len(out) == k {
			break
		}
		col := cols[pi]
		isInt := col == "a" || col == "b"
		if forStruct {
			// zero struct fields add no condition: only non-zero values express an atom
			if isInt {
				out = append(out, &Node{Kind: Atom, Col: col, Cmp: "=", Val: int64(r.Range(1, 3))})
			} else {
				out = append(out, &Node{Kind: Atom, Col: col, Cmp: "=", Val: core.Pick(r, []string{"ab", "abc", "b", "ba", "c"})})
			}
			continue
		}
		switch r.Intn(6) {
		case 0:
			if col == "b" || col == "t" {
				out = append(out, &Node{Kind: Atom, Col: col, Cmp: "ISNULL"})
				continue
			}
			fallthrough
		case 1:
			if isInt {
				xs := make([]int64, r.Range(1, 3))
				for i := range xs {
					xs[i] = int64(r.Intn(4))
				}
				out = append(out, &Node{Kind: Atom, Col: col, Cmp: "IN", Val: xs})
			} else {
				xs := make([]string, r.Range(1, 3))
				for i := range xs {
					xs[i] = core.Pick(r, StrPool)
				}
				out = append(out, &Node{Kind: Atom, Col: col, Cmp: "IN", Val: xs})
			}
		default:
			if isInt {
				out = append(out, &Node{Kind: Atom, Col: col, Cmp: "=", Val: int64(r.Intn(4))})
			} else {
				out = append(out, &Node{Kind: Atom, Col: col, Cmp: "=", Val: core.Pick(r, StrPool)})
			}
		}
	}
	return out
}

func negEach(atoms []*Node) *Node {
	k := make([]*Node, len(atoms))
	for i, a := range atoms {
		k[i] = NotOf(a)
	}
	return AndOf(k...)
}

// MapUnit: map[string]interface{} with 1..3 keys (nil = IS NULL, slice = IN).
func MapUnit(r *core.Rand) *Unit {
	atoms := eqAtoms(r, r.Range(1, 3), false)
	m := map[string]interface{}{}
	for _, a := range atoms {
		switch a.Cmp {
		case "ISNULL":
			// NULL as the caller may write it: nil, a nil pointer, or a nullable wrapper that is not valid
			switch r.Intn(4) {
			case 0:
				if a.Col == "b" {
					m[a.Col] = sql.NullInt64{}
				} else {
					m[a.Col] = sql.NullString{}
				}
			case 1:
				if a.Col == "b" {
					m[a.Col] = (*int64)(nil)
				} else {
					m[a.Col] = (*string)(nil)
				}
			default:
				m[a.Col] = nil
			}
		default:
			m[a.Col] = a.Val
		}
	}
	// gorm orders map keys alphabetically; order is irrelevant for an AND of atoms
	return &Unit{Form: "map", Desc: fmt.Sprintf("map%v", m), Canon: true,
		Query: func(*gorm.DB) (interface{}, []interface{}) { return m, nil },
		Pos:   AndOf(atoms...), Neg: negEach(atoms)}
}

// StructUnit: Row value (or pointer) whose non-zero fields are the atoms.
func StructUnit(r *core.Rand) *Unit {
	atoms := eqAtoms(r, r.Range(1, 3), true)
	var row Row
	for _, a := range atoms {
		switch a.Col {
		case "a":
			row.A = a.Val.(int64)
		case "b":
			v := a.Val.(int64)
			row.B = &v
		case "s":
			row.S = a.Val.(string)
		case "t":
			v := a.Val.(string)
			row.T = &v
		}
	}
	ptr := r.Bool()
	return &Unit{Form: "struct", Desc: "Row" + row.String(), Canon: true,
		Query: func(*gorm.DB) (interface{}, []interface{}) {
			if ptr {
				cp := row
				return &cp, nil
			}
			return row, nil
		},
		Pos: AndOf(atoms...), Neg: negEach(atoms)}
}

func clauseAtom(a *Node) clause.Expression {
	col := clause.Column{Name: a.Col}
	switch a.Cmp {
	case "=":
		return clause.Eq{Column: col, Value: a.Val}
	case "<>":
		return clause.Neq{Column: col, Value: a.Val}
	case "<":
		return clause.Lt{Column: col, Value: a.Val}
	case ">":
		return clause.Gt{Column: col, Value: a.Val}
	case "<=":
		return clause.Lte{Column: col, Value: a.Val}
	case ">=":
		return clause.Gte{Column: col, Value: a.Val}
	case "LIKE":
		return clause.Like{Column: col, Value: a.Val}
	case "ISNULL":
		return clause.Eq{Column: col, Value: nullValue(a.Col, len(a.Col)+len(fmt.Sprint(a.Val)))}
	case "NOTNULL":
		return clause.Neq{Column: col, Value: nullValue(a.Col, 1)}
	case "IN":
		var vals []interface{}
		switch xs := a.Val.(type) {
		case []int64:
			for _, x := range xs {
				vals = append(vals, x)
			}
		case []string:
			for _, x := range xs {
				vals = append(vals, x)
			}
		}
		return clause.IN{Column: col, Values: vals}
	}
	panic("clauseAtom")
}

// nullValue: the NULL of a clause.Eq / clause.Neq as nil, a nullable wrapper that is not valid, or a nil
// pointer (k varies the form deterministically).
func nullValue(col string, k int) interface{} {
	switch k % 3 {
	case 1:
		if col == "b" {
			return sql.NullInt64{}
		}
		return sql.NullString{}
	case 2:
		if col == "b" {
			return (*int64)(nil)
		}
		return (*string)(nil)
	}
	return nil
}

func clauseTree(n *Node) clause.Expression {
	switch n.Kind {
	case Atom:
		return clauseAtom(n)
	case Not:
		return clause.Not(clauseTree(n.Kids[0]))
	}
	ks := make([]clause.Expression, len(n.Kids))
	for i, k := range n.Kids {
		ks[i] = clauseTree(k)
	}
	if n.Kind == And {
		return clause.And(ks...)
	}
	return clause.Or(ks...)
}

// randClauseTree: And/Or nesting over atoms; Not only over atoms and OR groups
// (negation "as a whole" is defined for those).
func randClauseTree(r *core.Rand, depth int) *Node {
	if depth <= 0 || r.Chance(1, 3) {
		return RandAtom(r)
	}
	mk := func(k Kind) *Node {
		n := r.Range(2, 3)
		ks := make([]*Node, n)
		for i := range ks {
			ks[i] = randClauseTree(r, depth-1)
			// flatten same-kind children so that And/Or always have >= 2 members of another kind
			for ks[i].Kind == k {
				ks[i] = RandAtom(r)
			}
		}
		return &Node{Kind: k, Kids: ks}
	}
	switch r.Intn(5) {
	case 0:
		if r.Bool() {
			return NotOf(RandAtom(r))
		}
		return NotOf(mk(Or))
	case 1, 2:
		return mk(And)
	}
	return mk(Or)
}

// ClauseUnit: clause.Expression tree.
func ClauseUnit(r *core.Rand, depth int) *Unit {
	tree := randClauseTree(r, depth)
	u := &Unit{Form: "clause", Desc: "clause:" + tree.String(), Pos: tree, Canon: true,
		Query: func(*gorm.DB) (interface{}, []interface{}) { return clauseTree(tree), nil }}
	switch tree.Kind {
	case Atom, Or, Not:
		u.Neg = NotOf(tree)
	case And:
		// "every member false"; defined by the statement for AND-combined units. gorm
		// negates member-wise only when a member is itself negatable: require one atom.
		hasAtom := false
		for _, k := range tree.Kids {
			if k.Kind == Atom {
				hasAtom = true
			}
		}
		if hasAtom {
			u.Neg = negEach(tree.Kids)
		}
	}
	return u
}

// simple sub-units for grouped builders
func simpleUnit(r *core.Rand, st Style) *Unit {
	switch r.Intn(5) {
	case 0:
		return MapUnit(r)
	case 1:
		return ClauseUnit(r, 0)
	case 2:
		return RawUnit(r, RandTree(r, 1), st, false)
	default:
		return RawUnit(r, RandAtom(r), st, false)
	}
}

type GroupStep struct {
	Op string // where | or | not
	U  *Unit
}

// Infix evaluates a chain of (op, unit) left to right with AND binding tighter than OR.
func Infix(steps []GroupStep) *Node {
	var groups []*Node
	var cur []*Node
	for _, s := range steps {
		var n *Node
		switch s.Op {
		case "where":
			n = s.U.Pos
		case "not":
			n = s.U.Neg
		case "or":
			if cur != nil {
				groups = append(groups, AndOf(cur...))
			}
			cur = nil
			n = s.U.Pos
		}
		cur = append(cur, n)
	}
	if cur != nil {
		groups = append(groups, AndOf(cur...))
	}
	if len(groups) == 0 {
		return &Node{Kind: True}
	}
	return OrOf(groups...)
}

func applyStep(db *gorm.DB, root *gorm.DB, s GroupStep) *gorm.DB {
	q, args := s.U.Query(root)
	switch s.Op {
	case "where":
		return db.Where(q, args...)
	case "not":
		return db.Not(q, args...)
	default:
		return db.Or(q, args...)
	}
}

// GroupUnit: db.Where(root.Where(u1).Or(u2)...), always built from the root handle.
func GroupUnit(r *core.Rand, st Style) *Unit {
	n := r.Range(2, 3)
	kind := r.Intn(3) // 0 pure AND, 1 pure OR, 2 mixed
	steps := make([]GroupStep, n)
	negatable := false
	for i := range steps {
		u := simpleUnit(r, st)
		op := "where"
		if i > 0 {
			switch kind {
			case 1:
				op = "or"
			case 2:
				op = core.Pick(r, []string{"where", "or"})
			}
		}
		if op == "where" && u.Form != "raw" && len(membersOf(u.Pos)) == 1 {
			negatable = true
		}
		steps[i] = GroupStep{op, u}
	}
	pos := Infix(steps)
	descs := make([]string, n)
	allCanon := true
	pureAnd, pureOr := true, true
	for i, s := range steps {
		descs[i] = s.Op + "(" + s.U.Desc + ")"
		allCanon = allCanon && s.U.Canon
		if i > 0 && s.Op != "where" {
			pureAnd = false
		}
		if i > 0 && s.Op != "or" {
			pureOr = false
		}
	}
	u := &Unit{Form: "group", Desc: "group[" + strings.Join(descs, ".") + "]", Pos: pos, Canon: allCanon,
		Query: func(root *gorm.DB) (interface{}, []interface{}) {
			db := root.Session(&gorm.Session{})
			for _, s := range steps {
				db = applyStep(db, root, s)
			}
			return db, nil
		}}
	switch {
	case pureOr:
		u.Neg = NotOf(pos)
	case pureAnd && negatable:
		// every member false, members = the units of the group; multi-atom members
		// (maps) contribute each atom
		var ms []*Node
		for _, s := range steps {
			ms = append(ms, NotOf(s.U.Pos))
		}
		// a multi-field map member is itself AND-combined; the statement does not say how
		// nesting composes, so only single-condition and raw members are generated here
		ok := true
		for _, s := range steps {
			if s.U.Form == "map" && len(membersOf(s.U.Pos)) > 1 {
				ok = false
			}
		}
		if ok {
			u.Neg = AndOf(ms...)
		}
	}
	return u
}

func membersOf(n *Node) []*Node {
	if n.Kind == And {
		return n.Kids
	}
	return []*Node{n}
}

// MultiUnit: several condition values handed to ONE Where / Or / inline call, e.g.
// db.Where(db.Where(a).Or(b), db.Where(c).Or(d)) or db.Find(&x, clause.Eq{..}, db.Where(a).Or(b)):
// every argument is a unit of its own and the call means their AND. Not is not generated for it.
func MultiUnit(r *core.Rand, st Style) *Unit {
	n := r.Range(2, 3)
	ms := make([]*Unit, n)
	descs := make([]string, n)
	pos := make([]*Node, n)
	canon := true
	for i := range ms {
		switch r.Intn(4) {
		case 0:
			ms[i] = ClauseUnit(r, 1)
		case 1:
			ms[i] = MapUnit(r)
		default:
			ms[i] = GroupUnit(r, st)
		}
		descs[i] = ms[i].Desc
		pos[i] = ms[i].Pos
		canon = canon && ms[i].Canon
	}
	return &Unit{Form: "multi", Desc: "multi[" + strings.Join(descs, " , ") + "]", Pos: AndOf(pos...), Canon: canon,
		Query: func(root *gorm.DB) (interface{}, []interface{}) {
			var all []interface{}
			for _, m := range ms {
				q, _ := m.Query(root)
				all = append(all, q)
			}
			return all[0], all[1:]
		}}
}

// RandUnit picks a form.
func RandUnit(r *core.Rand, st Style) *Unit {
	if r.Chance(1, 12) {
		return MultiUnit(r, st)
	}
	switch r.Intn(10) {
	case 0, 1, 2:
		return RawUnit(r, RandTree(r, r.Range(0, 3)), st, false)
	case 3:
		return RawUnit(r, RandTree(r, r.Range(0, 2)), st, true)
	case 4, 5:
		return MapUnit(r)
	case 6:
		return StructUnit(r)
	case 7:
		return ClauseUnit(r, 2)
	default:
		return GroupUnit(r, st)
	}
}

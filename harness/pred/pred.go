// Package pred is the reference side of the row-level engines (C02, C08, C15):
// an in-memory table, condition trees with a three-valued evaluator, and
// generators that render one logical unit in every form gorm accepts.
package pred

import (
	"fmt"
	"sort"
	"strings"

	"verif/core"
)

// Row is the model used by the row-level engines.
type Row struct {
	ID   int64 `gorm:"primaryKey"`
	A    int64
	B    *int64
	S    string
	T    *string
	Mark int64
}

func (Row) TableName() string { return "rws" }

func (r Row) String() string {
	b, t := "NULL", "NULL"
	if r.B != nil {
		b = fmt.Sprint(*r.B)
	}
	if r.T != nil {
		t = fmt.Sprintf("%q", *r.T)
	}
	return fmt.Sprintf("{id:%d a:%d b:%s s:%q t:%s}", r.ID, r.A, b, r.S, t)
}

// TV is a three-valued truth value.
type TV int8

const (
	F TV = 0
	T TV = 1
	U TV = 2
)

func and3(x, y TV) TV {
	if x == F || y == F {
		return F
	}
	if x == U || y == U {
		return U
	}
	return T
}
func or3(x, y TV) TV {
	if x == T || y == T {
		return T
	}
	if x == U || y == U {
		return U
	}
	return F
}
func not3(x TV) TV {
	switch x {
	case T:
		return F
	case F:
		return T
	}
	return U
}

type Kind int

const (
	Atom Kind = iota
	And
	Or
	Not
	True // the empty condition
)

// Node is a condition tree.
type Node struct {
	Kind Kind
	Kids []*Node
	Col  string      // a b s t id
	Cmp  string      // = <> < > IN LIKE ISNULL NOTNULL
	Val  interface{} // int64 | string | []int64 | []string
}

func AndOf(k ...*Node) *Node {
	if len(k) == 1 {
		return k[0]
	}
	return &Node{Kind: And, Kids: k}
}
func OrOf(k ...*Node) *Node {
	if len(k) == 1 {
		return k[0]
	}
	return &Node{Kind: Or, Kids: k}
}
func NotOf(k *Node) *Node { return &Node{Kind: Not, Kids: []*Node{k}} }

func (n *Node) String() string {
	switch n.Kind {
	case True:
		return "TRUE"
	case Atom:
		switch n.Cmp {
		case "ISNULL":
			return n.Col + " IS NULL"
		case "NOTNULL":
			return n.Col + " IS NOT NULL"
		}
		return fmt.Sprintf("%s %s %v", n.Col, n.Cmp, n.Val)
	case Not:
		return "NOT(" + n.Kids[0].String() + ")"
	}
	op := " AND "
	if n.Kind == Or {
		op = " OR "
	}
	parts := make([]string, len(n.Kids))
	for i, k := range n.Kids {
		parts[i] = k.String()
	}
	return "(" + strings.Join(parts, op) + ")"
}

// colVal returns (value, isNull) of a column; ints as int64, text as string.
func colVal(r *Row, col string) (interface{}, bool) {
	switch col {
	case "id":
		return r.ID, false
	case "a":
		return r.A, false
	case "b":
		if r.B == nil {
			return nil, true
		}
		return *r.B, false
	case "s":
		return r.S, false
	case "t":
		if r.T == nil {
			return nil, true
		}
		return *r.T, false
	case "mark":
		return r.Mark, false
	}
	panic("pred: unknown column " + col)
}

func cmp(x, y interface{}) int {
	switch a := x.(type) {
	case int64:
		b := y.(int64)
		if a < b {
			return -1
		} else if a > b {
			return 1
		}
		return 0
	case string:
		return strings.Compare(a, y.(string))
	}
	panic("pred: cmp")
}

// Like implements SQLite's LIKE: ASCII letters match regardless of case (row values may hold upper-case
// letters, so LIKE and = disagree on them: a LIKE without wildcard is not an equality).
func Like(s, p string) bool {
	return like(strings.ToLower(s), strings.ToLower(p))
}

func like(s, p string) bool {
	if p == "" {
		return s == ""
	}
	switch p[0] {
	case '%':
		for i := 0; i <= len(s); i++ {
			if like(s[i:], p[1:]) {
				return true
			}
		}
		return false
	case '_':
		return len(s) > 0 && like(s[1:], p[1:])
	}
	return len(s) > 0 && s[0] == p[0] && like(s[1:], p[1:])
}

// Eval evaluates the tree on a row in SQL's three-valued logic.
func (n *Node) Eval(r *Row) TV {
	switch n.Kind {
	case True:
		return T
	case And:
		v := T
		for _, k := range n.Kids {
			v = and3(v, k.Eval(r))
		}
		return v
	case Or:
		v := F
		for _, k := range n.Kids {
			v = or3(v, k.Eval(r))
		}
		return v
	case Not:
		return not3(n.Kids[0].Eval(r))
	}
	v, null := colVal(r, n.Col)
	switch n.Cmp {
	case "ISNULL":
		if null {
			return T
		}
		return F
	case "NOTNULL":
		if null {
			return F
		}
		return T
	}
	if null {
		return U
	}
	b2t := func(b bool) TV {
		if b {
			return T
		}
		return F
	}
	switch n.Cmp {
	case "=":
		return b2t(cmp(v, n.Val) == 0)
	case "<>":
		return b2t(cmp(v, n.Val) != 0)
	case "<":
		return b2t(cmp(v, n.Val) < 0)
	case ">":
		return b2t(cmp(v, n.Val) > 0)
	case "<=":
		return b2t(cmp(v, n.Val) <= 0)
	case ">=":
		return b2t(cmp(v, n.Val) >= 0)
	case "LIKE":
		return b2t(Like(v.(string), n.Val.(string)))
	case "IN":
		// an empty list is written as (NULL): x IN (NULL) is unknown for every x, and so is its negation
		switch xs := n.Val.(type) {
		case []int64:
			if len(xs) == 0 {
				return U
			}
		case []string:
			if len(xs) == 0 {
				return U
			}
		}
		switch xs := n.Val.(type) {
		case []int64:
			for _, x := range xs {
				if x == v.(int64) {
					return T
				}
			}
		case []string:
			for _, x := range xs {
				if x == v.(string) {
					return T
				}
			}
		}
		return F
	}
	panic("pred: bad cmp " + n.Cmp)
}

// Select returns the ids of the rows for which the tree is TRUE, ascending.
func (n *Node) Select(rows []Row) []int64 {
	var out []int64
	for i := range rows {
		if n.Eval(&rows[i]) == T {
			out = append(out, rows[i].ID)
		}
	}
	sort.Slice(out, func(i, j int) bool { return out[i] < out[j] })
	return out
}

// ---- random tables -------------------------------------------------------

var StrPool = []string{"ab", "abc", "b", "ba", "", "c"}

// RowStrPool: what rows hold; the upper-case variants equal a condition value only under LIKE
var RowStrPool = []string{"ab", "abc", "b", "ba", "", "c", "Ab", "B", "aB"}

func RandTable(r *core.Rand, maxRows int) []Row {
	n := r.Intn(maxRows + 1)
	rows := make([]Row, n)
	for i := range rows {
		rows[i] = Row{ID: int64(i + 1), A: int64(r.Intn(4)), S: core.Pick(r, RowStrPool), Mark: 0}
		if r.Chance(2, 3) {
			v := int64(r.Intn(4))
			rows[i].B = &v
		}
		if r.Chance(2, 3) {
			v := core.Pick(r, RowStrPool)
			rows[i].T = &v
		}
	}
	return rows
}

// InsertSQL renders the table as one raw INSERT (the write path of gorm is not trusted).
func InsertSQL(table string, rows []Row) (string, []interface{}) {
	if len(rows) == 0 {
		return "", nil
	}
	var sb strings.Builder
	sb.WriteString("INSERT INTO " + table + "(id,a,b,s,t,mark) VALUES ")
	var args []interface{}
	for i, r := range rows {
		if i > 0 {
			sb.WriteByte(',')
		}
		sb.WriteString("(?,?,?,?,?,?)")
		var b, t interface{}
		if r.B != nil {
			b = *r.B
		}
		if r.T != nil {
			t = *r.T
		}
		args = append(args, r.ID, r.A, b, r.S, t, r.Mark)
	}
	return sb.String(), args
}

// ---- random atoms / trees --------------------------------------------------

var likePats = []string{"a%", "%b", "_b%", "%", "ab", "%a%", "b_"}

// AtomCols is the column pool of RandAtom (engines whose oracle needs id-free
// conditions remove "id").
var AtomCols = []string{"a", "a", "b", "b", "s", "s", "t", "t", "id"}

func RandAtom(r *core.Rand) *Node {
	col := core.Pick(r, AtomCols)
	isInt := col == "a" || col == "b" || col == "id"
	nullable := col == "b" || col == "t"
	k := r.Intn(10)
	if nullable && k == 0 {
		return &Node{Kind: Atom, Col: col, Cmp: "ISNULL"}
	}
	if nullable && k == 1 {
		return &Node{Kind: Atom, Col: col, Cmp: "NOTNULL"}
	}
	if isInt {
		hi := 4
		if col == "id" {
			hi = 9
		}
		switch k % 5 {
		case 0:
			return &Node{Kind: Atom, Col: col, Cmp: "=", Val: int64(r.Intn(hi))}
		case 1:
			return &Node{Kind: Atom, Col: col, Cmp: "<>", Val: int64(r.Intn(hi))}
		case 2:
			return &Node{Kind: Atom, Col: col, Cmp: core.Pick(r, []string{"<", "<="}), Val: int64(r.Intn(hi))}
		case 3:
			return &Node{Kind: Atom, Col: col, Cmp: core.Pick(r, []string{">", ">="}), Val: int64(r.Intn(hi))}
		}
		n := r.Range(1, 3)
		xs := make([]int64, n)
		for i := range xs {
			xs[i] = int64(r.Intn(hi))
		}
		return &Node{Kind: Atom, Col: col, Cmp: "IN", Val: xs}
	}
	switch k % 5 {
	case 0:
		return &Node{Kind: Atom, Col: col, Cmp: "=", Val: core.Pick(r, StrPool)}
	case 1:
		return &Node{Kind: Atom, Col: col, Cmp: "<>", Val: core.Pick(r, StrPool)}
	case 2:
		return &Node{Kind: Atom, Col: col, Cmp: core.Pick(r, []string{"<", ">", "<=", ">="}), Val: core.Pick(r, StrPool)}
	case 3:
		return &Node{Kind: Atom, Col: col, Cmp: "LIKE", Val: core.Pick(r, likePats)}
	}
	n := r.Range(1, 3)
	xs := make([]string, n)
	for i := range xs {
		xs[i] = core.Pick(r, StrPool)
	}
	return &Node{Kind: Atom, Col: col, Cmp: "IN", Val: xs}
}

// RandTree returns a random tree of nesting depth <= depth.
func RandTree(r *core.Rand, depth int) *Node {
	if depth <= 0 || r.Chance(1, 3) {
		return RandAtom(r)
	}
	switch r.Intn(5) {
	case 0:
		return NotOf(RandTree(r, depth-1))
	case 1, 2:
		n := r.Range(2, 3)
		k := make([]*Node, n)
		for i := range k {
			k[i] = RandTree(r, depth-1)
		}
		return &Node{Kind: And, Kids: k}
	default:
		n := r.Range(2, 3)
		k := make([]*Node, n)
		for i := range k {
			k[i] = RandTree(r, depth-1)
		}
		return &Node{Kind: Or, Kids: k}
	}
}

func IDsEqual(a, b []int64) bool {
	if len(a) != len(b) {
		return false
	}
	for i := range a {
		if a[i] != b[i] {
			return false
		}
	}
	return true
}

func SortIDs(a []int64) []int64 {
	sort.Slice(a, func(i, j int) bool { return a[i] < a[j] })
	return a
}

// Package dialects holds the dialectors used by the engines: VSQLite (SQLite with
// selectable RETURNING support and honest savepoint errors) and two database-less
// dialectors for DryRun observation ('?' and '$n' placeholder styles).
package dialects

import (
	"regexp"
	"strconv"
	"strings"

	"gorm.io/driver/sqlite"
	"gorm.io/gorm"
	"gorm.io/gorm/callbacks"
	"gorm.io/gorm/clause"
	"gorm.io/gorm/logger"
	"gorm.io/gorm/migrator"
	"gorm.io/gorm/schema"
)

// VSQLite embeds the stock SQLite dialector.
type VSQLite struct {
	sqlite.Dialector
	NoReturning bool
	// NotReversed registers callbacks with LastInsertIDReversed=false (pair with
	// recdrv.Recorder.FirstIDMode).
	NotReversed bool
}

func (d VSQLite) Initialize(db *gorm.DB) error {
	db.ConnPool = d.Conn
	cfg := &callbacks.Config{LastInsertIDReversed: !d.NotReversed}
	if !d.NoReturning {
		cfg.CreateClauses = []string{"INSERT", "VALUES", "ON CONFLICT", "RETURNING"}
		cfg.UpdateClauses = []string{"UPDATE", "SET", "FROM", "WHERE", "RETURNING"}
		cfg.DeleteClauses = []string{"DELETE", "FROM", "WHERE", "RETURNING"}
	}
	callbacks.RegisterDefaultCallbacks(db, cfg)
	for k, v := range d.Dialector.ClauseBuilders() {
		db.ClauseBuilders[k] = v
	}
	return nil
}

func (d VSQLite) Migrator(db *gorm.DB) gorm.Migrator {
	return sqlite.Migrator{Migrator: migrator.Migrator{Config: migrator.Config{
		DB:                          db,
		Dialector:                   d,
		CreateIndexAfterCreateTable: true,
	}}}
}

// SavePoint / RollbackTo return the statement's error (the stock SQLite dialector,
// an external module, swallows it; MySQL/Postgres dialectors return it).
func (d VSQLite) SavePoint(tx *gorm.DB, name string) error {
	return tx.Exec("SAVEPOINT " + name).Error
}

func (d VSQLite) RollbackTo(tx *gorm.DB, name string) error {
	return tx.Exec("ROLLBACK TO SAVEPOINT " + name).Error
}

var regexpNumeric = regexp.MustCompile(`\$(\d+)`)

// Dummy is a database-less dialector. Numbered selects '$n' placeholders and
// double-quote quoting (the Postgres algorithm), otherwise '?' and back-ticks.
type Dummy struct {
	Numbered bool
}

func (d Dummy) Name() string { return "dummy" }

func (d Dummy) Initialize(db *gorm.DB) error {
	callbacks.RegisterDefaultCallbacks(db, &callbacks.Config{
		CreateClauses:        []string{"INSERT", "VALUES", "ON CONFLICT", "RETURNING"},
		UpdateClauses:        []string{"UPDATE", "SET", "FROM", "WHERE", "RETURNING"},
		DeleteClauses:        []string{"DELETE", "FROM", "WHERE", "RETURNING"},
		LastInsertIDReversed: true,
	})
	return nil
}

func (d Dummy) DefaultValueOf(field *schema.Field) clause.Expression {
	return clause.Expr{SQL: "DEFAULT"}
}

func (d Dummy) Migrator(*gorm.DB) gorm.Migrator { return nil }

func (d Dummy) BindVarTo(writer clause.Writer, stmt *gorm.Statement, v interface{}) {
	if d.Numbered {
		writer.WriteByte('$')
		writer.WriteString(strconv.Itoa(len(stmt.Vars)))
		return
	}
	writer.WriteByte('?')
}

func (d Dummy) QuoteTo(writer clause.Writer, str string) {
	q := "`"
	if d.Numbered {
		q = `"`
	}
	parts := strings.Split(str, ".")
	for i, p := range parts {
		if i > 0 {
			writer.WriteByte('.')
		}
		writer.WriteString(q)
		writer.WriteString(strings.ReplaceAll(p, q, q+q))
		writer.WriteString(q)
	}
}

func (d Dummy) Explain(sql string, vars ...interface{}) string {
	if d.Numbered {
		return logger.ExplainSQL(sql, regexpNumeric, `'`, vars...)
	}
	return logger.ExplainSQL(sql, nil, `"`, vars...)
}

func (d Dummy) DataTypeOf(*schema.Field) string { return "" }

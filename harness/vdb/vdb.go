// Package vdb opens gorm handles on the recording driver and provides the
// observation helpers shared by the engines (table dumps, logical clock).
package vdb

import (
	"database/sql"
	"fmt"
	"os"
	"path/filepath"
	"sort"
	"strings"
	"sync/atomic"
	"time"

	"gorm.io/driver/sqlite"
	"gorm.io/gorm"
	"gorm.io/gorm/logger"

	"verif/dialects"
	"verif/recdrv"
)

// Clock is a logical clock: every call to Now advances by one second from a fixed
// epoch, so no deciding oracle depends on wall-clock time.
type Clock struct{ n int64 }

var Epoch = time.Date(2030, 1, 2, 3, 4, 5, 0, time.UTC)

func (c *Clock) Now() time.Time {
	k := atomic.AddInt64(&c.n, 1)
	return Epoch.Add(time.Duration(k) * time.Second)
}
func (c *Clock) Reset()       { atomic.StoreInt64(&c.n, 0) }
func (c *Clock) Ticks() int64 { return atomic.LoadInt64(&c.n) }

type Options struct {
	// File: path of a database file ("" = private in-memory database).
	File        string
	NoReturning bool
	FirstID     bool // recdrv first-id mode + LastInsertIDReversed=false
	Config      gorm.Config
	MaxOpen     int
	DSNExtra    string
	CtxKey      interface{}
	WallClock   bool
}

type Handle struct {
	DB    *gorm.DB
	SQL   *sql.DB
	Rec   *recdrv.Recorder
	Clock *Clock
	path  string
}

var memSeq int64

// Open opens a gorm handle over recdrv+SQLite.
func Open(o Options) (*Handle, error) {
	rec := recdrv.NewRecorder()
	rec.CtxKey = o.CtxKey
	rec.FirstIDMode = o.FirstID
	var dsn string
	if o.File == "" {
		dsn = fmt.Sprintf("file:vmem%d_%d?mode=memory&cache=shared&_busy_timeout=60000", os.Getpid(), atomic.AddInt64(&memSeq, 1))
	} else {
		dsn = "file:" + o.File + "?_journal_mode=WAL&_busy_timeout=60000&_synchronous=OFF"
	}
	if o.DSNExtra != "" {
		dsn += "&" + o.DSNExtra
	}
	sdb := recdrv.Open(dsn, rec)
	if o.MaxOpen > 0 {
		sdb.SetMaxOpenConns(o.MaxOpen)
	}
	// keep one connection so that a shared in-memory database survives
	sdb.SetMaxIdleConns(16)
	sdb.SetConnMaxLifetime(0)
	cfg := o.Config
	clk := &Clock{}
	if cfg.NowFunc == nil && !o.WallClock {
		cfg.NowFunc = clk.Now
	}
	if cfg.Logger == nil {
		cfg.Logger = logger.Discard
	}
	d := dialects.VSQLite{Dialector: sqlite.Dialector{Conn: sdb}, NoReturning: o.NoReturning, NotReversed: o.FirstID}
	db, err := gorm.Open(d, &cfg)
	if err != nil {
		sdb.Close()
		return nil, err
	}
	return &Handle{DB: db, SQL: sdb, Rec: rec, Clock: clk, path: o.File}, nil
}

func (h *Handle) Close() {
	h.Rec.SetHook(nil)
	h.SQL.Close()
	if h.path != "" {
		os.Remove(h.path)
		os.Remove(h.path + "-wal")
		os.Remove(h.path + "-shm")
	}
}

// TempFile returns a database path inside dir.
func TempFile(dir, name string) string { return filepath.Join(dir, name+".db") }

// Tables lists user tables.
func Tables(sdb *sql.DB) []string {
	rows, err := sdb.Query("SELECT name FROM sqlite_master WHERE type='table' AND name NOT LIKE 'sqlite_%' ORDER BY name")
	if err != nil {
		return nil
	}
	defer rows.Close()
	var out []string
	for rows.Next() {
		var n string
		rows.Scan(&n)
		out = append(out, n)
	}
	return out
}

// Dump returns a canonical text dump of all rows of the given tables (all user
// tables when none given): one line per row, sorted, values rendered with %#v-like
// stable formatting.
func Dump(sdb *sql.DB, tables ...string) string {
	if len(tables) == 0 {
		tables = Tables(sdb)
	}
	var sb strings.Builder
	for _, t := range tables {
		lines := DumpTable(sdb, t)
		sb.WriteString("== " + t + "\n")
		for _, l := range lines {
			sb.WriteString(l)
			sb.WriteByte('\n')
		}
	}
	return sb.String()
}

// DumpTable returns the sorted rows of one table as strings.
func DumpTable(sdb *sql.DB, table string) []string {
	rows, err := sdb.Query("SELECT * FROM `" + table + "`")
	if err != nil {
		return []string{"ERR " + err.Error()}
	}
	defer rows.Close()
	cols, _ := rows.Columns()
	var out []string
	for rows.Next() {
		vals := make([]interface{}, len(cols))
		ptrs := make([]interface{}, len(cols))
		for i := range vals {
			ptrs[i] = &vals[i]
		}
		rows.Scan(ptrs...)
		var sb strings.Builder
		for i, c := range cols {
			if i > 0 {
				sb.WriteString(" | ")
			}
			sb.WriteString(c + "=" + Render(vals[i]))
		}
		out = append(out, sb.String())
	}
	sort.Strings(out)
	return out
}

// Render formats a value read from SQLite canonically.
func Render(v interface{}) string {
	switch x := v.(type) {
	case nil:
		return "NULL"
	case []byte:
		return fmt.Sprintf("x%q", string(x))
	case string:
		return fmt.Sprintf("%q", x)
	case time.Time:
		return "t" + x.UTC().Format(time.RFC3339Nano)
	default:
		return fmt.Sprintf("%v", x)
	}
}

// RowMaps returns the rows of a query as maps.
func RowMaps(sdb *sql.DB, q string, args ...interface{}) ([]map[string]interface{}, error) {
	rows, err := sdb.Query(q, args...)
	if err != nil {
		return nil, err
	}
	defer rows.Close()
	cols, _ := rows.Columns()
	var out []map[string]interface{}
	for rows.Next() {
		vals := make([]interface{}, len(cols))
		ptrs := make([]interface{}, len(cols))
		for i := range vals {
			ptrs[i] = &vals[i]
		}
		if err := rows.Scan(ptrs...); err != nil {
			return nil, err
		}
		m := map[string]interface{}{}
		for i, c := range cols {
			m[c] = vals[i]
		}
		out = append(out, m)
	}
	return out, rows.Err()
}

// Ints returns the first column of a query as int64s.
func Ints(sdb *sql.DB, q string, args ...interface{}) []int64 {
	rows, err := sdb.Query(q, args...)
	if err != nil {
		return nil
	}
	defer rows.Close()
	var out []int64
	for rows.Next() {
		var n int64
		rows.Scan(&n)
		out = append(out, n)
	}
	return out
}

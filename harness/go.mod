module verif

go 1.21

require (
	github.com/anishathalye/porcupine v1.3.0
	github.com/mattn/go-sqlite3 v1.14.24
	gorm.io/driver/sqlite v1.5.6
	gorm.io/gorm v1.25.12
)

require (
	github.com/jinzhu/inflection v1.0.0 // indirect
	github.com/jinzhu/now v1.1.5 // indirect
	golang.org/x/text v0.20.0 // indirect
)

replace gorm.io/gorm => /repo

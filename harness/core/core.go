// Package core is the runner shared by all engines: deterministic case lists,
// child processes per batch (log-before-execute, so that a process-fatal event is
// attributed to the case that was running), merging of observations, evidence,
// known findings and the exit-code contract (0 held / 1 violation / 2 inconclusive).
package core

import (
	"encoding/json"
	"fmt"
	"os"
	"runtime/debug"
	"sort"
	"strings"
	"sync"
)

const VerifDir = "/verif"

// Engine describes one property monitor.
type Engine struct {
	ID          string
	Level       string // exploration | fault_enumeration
	Rule        string
	Assumptions []string
	// Cases returns the number of cases for a tier (a function of tier only: fixed case lists).
	Cases func(tier string) int
	// Batch returns the number of cases per child process.
	Batch func(tier string) int
	// Run executes case c.Case and records observations on c.
	Run func(c *Ctx)
	// Init is called once per child before the first case.
	Init func(c *Ctx)
	// Exhaustive reports whether the tier enumerates a finite space completely.
	Exhaustive func(tier string) bool
	// ChildEnv returns extra environment for a child working in dir.
	ChildEnv func(dir string, batch int) []string
	// PostChild is called in the parent after a child finished (e.g. to parse race logs).
	PostChild func(dir string, batch int, res *Result)
	// Parallel children (default 16).
	Parallel int
	// MinNontrivial: fewer distinct non-trivial shapes than this is inconclusive.
	MinNontrivial int
	// ChildTimeoutS per batch (default 900).
	ChildTimeoutS int
	// ClassifyFatal maps the output of a child that died to a violation signature
	// (default "fatal").
	ClassifyFatal func(output string) string
	// Extra coverage keys computed by the parent from merged counts.
	Extra func(res *Result) map[string]interface{}
}

type Violation struct {
	Case   int         `json:"case"`
	Sig    string      `json:"sig"`
	Detail interface{} `json:"detail"`
}

// Result is what one child reports (and what the parent merges into).
type Result struct {
	Evaluations int              `json:"evaluations"`
	Shapes      []uint64         `json:"shapes"`
	Counts      map[string]int64 `json:"counts"`
	Samples     []interface{}    `json:"samples"`
	Violations  []Violation      `json:"violations"`
	Inconcl     []string         `json:"inconclusive"`
	shapeSet    map[uint64]struct{}
	mu          sync.Mutex
}

func newResult() *Result {
	return &Result{Counts: map[string]int64{}, shapeSet: map[uint64]struct{}{}}
}

// Ctx is handed to Engine.Run for one case.
type Ctx struct {
	Prop     string
	Tier     string
	Seed     uint64
	Case     int
	R        *Rand
	Dir      string // scratch directory of this child (removed by the parent)
	Verbose  bool   // replay mode
	Thorough bool
	res      *Result
	log      *os.File
	nviol    int
}

func (c *Ctx) Logf(format string, a ...interface{}) {
	if c.log != nil {
		fmt.Fprintf(c.log, format+"\n", a...)
	}
	if c.Verbose {
		fmt.Printf(format+"\n", a...)
	}
}

// Shape registers a distinct non-trivial case shape.
func (c *Ctx) Shape(parts ...interface{}) {
	h := Hash64(fmt.Sprint(parts...))
	c.res.mu.Lock()
	c.res.shapeSet[h] = struct{}{}
	c.res.mu.Unlock()
}

func (c *Ctx) Add(name string, n int) {
	c.res.mu.Lock()
	c.res.Counts[name] += int64(n)
	c.res.mu.Unlock()
}
func (c *Ctx) Inc(name string) { c.Add(name, 1) }

// Sample keeps a few literal cases for the evidence file.
func (c *Ctx) Sample(v interface{}) {
	c.res.mu.Lock()
	if len(c.res.Samples) < 3 {
		c.res.Samples = append(c.res.Samples, v)
	}
	c.res.mu.Unlock()
}

// WantSample is true while this child still collects samples (avoid building them otherwise).
func (c *Ctx) WantSample() bool {
	c.res.mu.Lock()
	defer c.res.mu.Unlock()
	return len(c.res.Samples) < 3
}

// Violation records a refutation with a signature (used for known-finding matching).
func (c *Ctx) Violation(sig string, detail interface{}) {
	c.res.mu.Lock()
	c.nviol++
	if len(c.res.Violations) < 200 {
		c.res.Violations = append(c.res.Violations, Violation{Case: c.Case, Sig: sig, Detail: detail})
	}
	c.res.Counts["violations_raw"]++
	c.res.mu.Unlock()
	if c.Verbose {
		b, _ := json.MarshalIndent(detail, "", "  ")
		fmt.Printf("VIOLATION-DETAIL sig=%s\n%s\n", sig, b)
	}
}

func (c *Ctx) Violated() bool { return c.nviol > 0 }

// Inconclusive records that something prevented a verdict (never folded into pass/fail).
func (c *Ctx) Inconclusive(reason string) {
	c.res.mu.Lock()
	if len(c.res.Inconcl) < 50 {
		c.res.Inconcl = append(c.res.Inconcl, fmt.Sprintf("case %d: %s", c.Case, reason))
	}
	c.res.Counts["inconclusive_cases"]++
	c.res.mu.Unlock()
}

func (r *Result) finish() {
	r.Shapes = r.Shapes[:0]
	for h := range r.shapeSet {
		r.Shapes = append(r.Shapes, h)
	}
	sort.Slice(r.Shapes, func(i, j int) bool { return r.Shapes[i] < r.Shapes[j] })
}

func (r *Result) merge(o *Result) {
	r.Evaluations += o.Evaluations
	for _, h := range o.Shapes {
		r.shapeSet[h] = struct{}{}
	}
	for k, v := range o.Counts {
		r.Counts[k] += v
	}
	for _, s := range o.Samples {
		if len(r.Samples) < 8 {
			r.Samples = append(r.Samples, s)
		}
	}
	r.Violations = append(r.Violations, o.Violations...)
	r.Inconcl = append(r.Inconcl, o.Inconcl...)
}

// runCase executes one case under recover; a panic escaping gorm on generated
// (valid) input is recorded as a violation with signature "panic".
func runCase(e *Engine, c *Ctx) {
	defer func() {
		if r := recover(); r != nil {
			st := string(debug.Stack())
			c.Violation("panic", map[string]interface{}{"panic": fmt.Sprint(r), "stack": trimStack(st)})
		}
	}()
	e.Run(c)
}

func trimStack(s string) string {
	lines := strings.Split(s, "\n")
	if len(lines) > 40 {
		lines = lines[:40]
	}
	return strings.Join(lines, "\n")
}

package core

import (
	"bufio"
	"encoding/json"
	"flag"
	"fmt"
	"os"
	"os/exec"
	"path/filepath"
	"sort"
	"strconv"
	"strings"
	"sync"
	"time"
)

type finding struct {
	Prop, ID, Sig, Text string
}

func loadFindings(prop string) []finding {
	var out []finding
	f, err := os.Open(filepath.Join(VerifDir, "KNOWN_FINDINGS.txt"))
	if err != nil {
		return nil
	}
	defer f.Close()
	sc := bufio.NewScanner(f)
	sc.Buffer(make([]byte, 1<<20), 1<<20)
	for sc.Scan() {
		line := strings.TrimSpace(sc.Text())
		if !strings.HasPrefix(line, "finding:") {
			continue
		}
		rest := strings.TrimSpace(strings.TrimPrefix(line, "finding:"))
		head, text, _ := strings.Cut(rest, "::")
		fd := finding{Text: strings.TrimSpace(text)}
		for _, kv := range strings.Fields(head) {
			k, v, _ := strings.Cut(kv, "=")
			switch k {
			case "property":
				fd.Prop = v
			case "id":
				fd.ID = v
			case "sig":
				fd.Sig = v
			}
		}
		if fd.Prop == prop && fd.Sig != "" {
			out = append(out, fd)
		}
	}
	return out
}

// Main is the entry point of every engine binary.
func Main(e *Engine) {
	tier := flag.String("tier", envOr("VERIF_TIER", "quick"), "quick|thorough")
	seedS := flag.String("seed", envOr("VERIF_SEED", "1"), "seed")
	child := flag.Bool("child", false, "internal: run a batch")
	lo := flag.Int("lo", 0, "internal")
	hi := flag.Int("hi", 0, "internal")
	dir := flag.String("dir", "", "internal: scratch dir")
	batch := flag.Int("batch", 0, "internal")
	replay := flag.String("replay", "", "replay file")
	one := flag.Int("case", -1, "run a single case verbosely")
	par := flag.Int("par", 0, "parallel children")
	flag.Parse()
	seed, err := strconv.ParseUint(*seedS, 10, 64)
	if err != nil {
		seed = Hash64(*seedS)
	}
	if *replay != "" {
		var rp struct {
			Property string `json:"property"`
			Seed     uint64 `json:"seed"`
			Case     int    `json:"case"`
			Tier     string `json:"tier"`
		}
		b, err := os.ReadFile(*replay)
		if err != nil || json.Unmarshal(b, &rp) != nil {
			fmt.Println("INCONCLUSIVE property=" + e.ID + " reason=bad-replay-file")
			os.Exit(2)
		}
		seed, *tier, *one = rp.Seed, rp.Tier, rp.Case
	}
	if *one >= 0 {
		d, _ := os.MkdirTemp(filepath.Join(VerifDir, ".work"), e.ID+".replay.")
		defer os.RemoveAll(d)
		res := newResult()
		c := &Ctx{Prop: e.ID, Tier: *tier, Thorough: *tier == "thorough", Seed: seed, Dir: d, Verbose: true, res: res}
		if e.Init != nil {
			e.Init(c)
		}
		c.Case = *one
		c.R = NewRand(CaseSeed(seed, e.ID, *one))
		runCase(e, c)
		res.Evaluations = 1
		if len(res.Violations) > 0 {
			fmt.Printf("VIOLATION property=%s replay=%s\n", e.ID, *replay)
			os.RemoveAll(d)
			os.Exit(1)
		}
		fmt.Println("case held")
		return
	}
	if *child {
		runChild(e, *tier, seed, *lo, *hi, *dir, *batch)
		return
	}
	os.Exit(runParent(e, *tier, seed, *par))
}

func envOr(k, d string) string {
	if v := os.Getenv(k); v != "" {
		return v
	}
	return d
}

func runChild(e *Engine, tier string, seed uint64, lo, hi int, dir string, batch int) {
	logf, _ := os.OpenFile(filepath.Join(dir, fmt.Sprintf("b%d.log", batch)), os.O_CREATE|os.O_WRONLY|os.O_APPEND, 0o644)
	res := newResult()
	c := &Ctx{Prop: e.ID, Tier: tier, Thorough: tier == "thorough", Seed: seed, Dir: dir, res: res, log: logf}
	if e.Init != nil {
		e.Init(c)
	}
	for i := lo; i < hi; i++ {
		fmt.Fprintf(logf, "CASE %d\n", i)
		c.Case = i
		c.nviol = 0
		c.R = NewRand(CaseSeed(seed, e.ID, i))
		runCase(e, c)
		res.Evaluations++
		// checkpoint so that a later fatal does not lose earlier observations
		if (i-lo)%64 == 63 || i == hi-1 {
			writeResult(res, filepath.Join(dir, fmt.Sprintf("b%d.%d.json", batch, lo)))
		}
	}
	fmt.Fprintf(logf, "DONE\n")
	writeResult(res, filepath.Join(dir, fmt.Sprintf("b%d.%d.json", batch, lo)))
}

func writeResult(res *Result, path string) {
	res.mu.Lock()
	res.finish()
	b, err := json.Marshal(res)
	res.mu.Unlock()
	if err != nil {
		// a sample or detail was not serialisable: degrade rather than lose the batch
		res.Samples = nil
		for i := range res.Violations {
			res.Violations[i].Detail = fmt.Sprint(res.Violations[i].Detail)
		}
		b, _ = json.Marshal(res)
	}
	tmp := path + ".tmp"
	os.WriteFile(tmp, b, 0o644)
	os.Rename(tmp, path)
}

func lastCase(logPath string) (int, bool) {
	b, err := os.ReadFile(logPath)
	if err != nil {
		return 0, false
	}
	lines := strings.Split(string(b), "\n")
	last, done := -1, false
	for _, l := range lines {
		if strings.HasPrefix(l, "CASE ") {
			if n, err := strconv.Atoi(strings.TrimPrefix(l, "CASE ")); err == nil {
				last = n
			}
		}
		if l == "DONE" {
			done = true
		}
	}
	return last, done
}

func tail(path string, n int) string {
	b, _ := os.ReadFile(path)
	if len(b) > n {
		b = b[len(b)-n:]
	}
	return string(b)
}

func head(path string, n int) string {
	b, _ := os.ReadFile(path)
	if len(b) > n {
		b = b[:n]
	}
	return string(b)
}

func runParent(e *Engine, tier string, seed uint64, par int) int {
	start := time.Now()
	n := e.Cases(tier)
	bs := 64
	if e.Batch != nil {
		bs = e.Batch(tier)
	}
	if par <= 0 {
		par = e.Parallel
	}
	if par <= 0 {
		par = 16
	}
	os.MkdirAll(filepath.Join(VerifDir, ".work"), 0o755)
	os.Remove(filepath.Join(VerifDir, ".work", e.ID+".last_violations.json"))
	work, err := os.MkdirTemp(filepath.Join(VerifDir, ".work"), e.ID+".")
	if err != nil {
		fmt.Printf("INCONCLUSIVE property=%s reason=workdir:%v\n", e.ID, err)
		return 2
	}
	defer os.RemoveAll(work)
	exe, _ := os.Executable()
	timeoutS := e.ChildTimeoutS
	if timeoutS <= 0 {
		timeoutS = 900
	}

	total := newResult()
	var mu sync.Mutex
	var inconclusive []string
	type job struct{ b, lo, hi int }
	jobs := make(chan job, 1024)
	var wg sync.WaitGroup
	for w := 0; w < par; w++ {
		wg.Add(1)
		go func() {
			defer wg.Done()
			for j := range jobs {
				lo := j.lo
				for attempt := 0; lo < j.hi; attempt++ {
					dir := filepath.Join(work, fmt.Sprintf("b%d_%d", j.b, attempt))
					os.MkdirAll(dir, 0o755)
					out := filepath.Join(dir, "out.txt")
					args := []string{"-s", "QUIT", "-k", "20", strconv.Itoa(timeoutS), exe, "-child", "-tier", tier, "-seed", strconv.FormatUint(seed, 10),
						"-lo", strconv.Itoa(lo), "-hi", strconv.Itoa(j.hi), "-dir", dir, "-batch", strconv.Itoa(j.b)}
					cmd := exec.Command("timeout", args...)
					of, _ := os.Create(out)
					cmd.Stdout, cmd.Stderr = of, of
					cmd.Env = append(os.Environ(), "GOTRACEBACK=all")
					if e.ChildEnv != nil {
						cmd.Env = append(cmd.Env, e.ChildEnv(dir, j.b)...)
					}
					runErr := cmd.Run()
					of.Close()
					res := newResult()
					if b, err := os.ReadFile(filepath.Join(dir, fmt.Sprintf("b%d.%d.json", j.b, lo))); err == nil {
						json.Unmarshal(b, res)
						if res.Counts == nil {
							res.Counts = map[string]int64{}
						}
					}
					last, done := lastCase(filepath.Join(dir, fmt.Sprintf("b%d.log", j.b)))
					if e.PostChild != nil {
						e.PostChild(dir, j.b, res)
					}
					next := j.hi
					if !done {
						code := -1
						if ee, ok := runErr.(*exec.ExitError); ok {
							code = ee.ExitCode()
						}
						if last < lo {
							mu.Lock()
							inconclusive = append(inconclusive, fmt.Sprintf("batch %d died before its first case (exit %d): %s", j.b, code, tail(out, 600)))
							mu.Unlock()
						} else if code == 124 || code == 137 {
							// watchdog: inconclusive, never a verdict
							mu.Lock()
							inconclusive = append(inconclusive, fmt.Sprintf("watchdog fired in case %d (batch %d)", last, j.b))
							mu.Unlock()
							os.WriteFile(filepath.Join(VerifDir, ".work", fmt.Sprintf("%s.watchdog.%d.txt", e.ID, last)), []byte(tail(out, 200000)), 0o644)
						} else {
							// the checkpointed result may lag behind: evaluations are taken from the log
							res.Evaluations = last - lo + 1
							fsig := "fatal"
							if e.ClassifyFatal != nil {
								fsig = e.ClassifyFatal(head(out, 60000))
							}
							res.Violations = append(res.Violations, Violation{Case: last, Sig: fsig, Detail: map[string]interface{}{
								"exit": code, "output_head": head(out, 3000)}})
							res.Counts["fatal_cases"]++
							next = last + 1
							if next < j.hi {
								lo = next
								mu.Lock()
								total.merge(res)
								mu.Unlock()
								continue
							}
						}
					}
					mu.Lock()
					total.merge(res)
					mu.Unlock()
					os.RemoveAll(dir)
					lo = next
					_ = lo
					break
				}
			}
		}()
	}
	b := 0
	for lo := 0; lo < n; lo += bs {
		hi := lo + bs
		if hi > n {
			hi = n
		}
		jobs <- job{b, lo, hi}
		b++
	}
	close(jobs)
	wg.Wait()

	// verdict
	findings := loadFindings(e.ID)
	knownHit := map[string]int{}
	var fresh []Violation
	sort.Slice(total.Violations, func(i, j int) bool { return total.Violations[i].Case < total.Violations[j].Case })
	for _, v := range total.Violations {
		matched := false
		for _, f := range findings {
			if f.Sig == v.Sig {
				knownHit[f.ID]++
				matched = true
				break
			}
		}
		if !matched {
			fresh = append(fresh, v)
		}
	}
	for _, f := range findings {
		fmt.Printf("KNOWN-FINDING: property=%s id=%s hits=%d %s\n", e.ID, f.ID, knownHit[f.ID], f.Text)
	}
	replayDir := filepath.Join(VerifDir, "replays", e.ID)
	if old, _ := filepath.Glob(filepath.Join(replayDir, fmt.Sprintf("%s-s%d-*.json", tier, seed))); len(old) > 0 {
		for _, f := range old {
			os.Remove(f)
		}
	}
	if len(fresh) > 0 {
		os.MkdirAll(replayDir, 0o755)
	}
	if len(total.Violations) > 0 {
		// keep the file small but diverse: at most 150 per signature, 3000 in all
		var all []Violation
		perSig := map[string]int{}
		for _, v := range total.Violations {
			if perSig[v.Sig] < 150 && len(all) < 3000 {
				all = append(all, v)
				perSig[v.Sig]++
			}
		}
		ab, _ := json.Marshal(all)
		os.WriteFile(filepath.Join(VerifDir, ".work", e.ID+".last_violations.json"), ab, 0o644)
	}
	seenSig := map[string]int{}
	for vi, v := range fresh {
		seenSig[v.Sig]++
		if seenSig[v.Sig] > 5 {
			continue
		}
		p := filepath.Join(replayDir, fmt.Sprintf("%s-s%d-c%d-%d.json", tier, seed, v.Case, vi))
		rb, _ := json.MarshalIndent(map[string]interface{}{"property": e.ID, "seed": seed, "case": v.Case, "tier": tier, "sig": v.Sig, "detail": v.Detail}, "", " ")
		os.WriteFile(p, rb, 0o644)
		fmt.Printf("VIOLATION property=%s replay=%s\n", e.ID, p)
		fmt.Printf("  sig=%s case=%d\n", v.Sig, v.Case)
	}
	distinct := len(total.shapeSet)
	min := e.MinNontrivial
	if min < 2 {
		min = 2
	}
	if distinct < min {
		inconclusive = append(inconclusive, fmt.Sprintf("only %d distinct non-trivial cases observed (need %d)", distinct, min))
	}
	if total.Evaluations < n && len(inconclusive) == 0 {
		inconclusive = append(inconclusive, fmt.Sprintf("only %d of %d cases were executed", total.Evaluations, n))
	}
	if ic := total.Counts["inconclusive_cases"]; ic > 0 && ic*10 > int64(n) {
		inconclusive = append(inconclusive, fmt.Sprintf("%d of %d cases inconclusive: %v", ic, n, firstN(total.Inconcl, 3)))
	}

	// evidence
	cov := map[string]interface{}{
		"evaluations":         total.Evaluations,
		"distinct_nontrivial": distinct,
		"rule":                e.Rule,
		"samples":             total.Samples,
		"counters":            total.Counts,
		"exhaustive":          e.Exhaustive != nil && e.Exhaustive(tier),
		"known_findings_hit":  knownHit,
		"inconclusive":        firstN(append(inconclusive, total.Inconcl...), 10),
	}
	if len(total.Samples) == 0 {
		cov["samples"] = []interface{}{"(no sample recorded)"}
	}
	if e.Extra != nil {
		for k, v := range e.Extra(total) {
			cov[k] = v
		}
	}
	ev := map[string]interface{}{
		"property_id": e.ID,
		"tier":        tier,
		"seed":        seed,
		"level":       e.Level,
		"coverage":    cov,
		"assumptions": e.Assumptions,
		"wall_s":      time.Since(start).Seconds(),
		"violations":  len(fresh),
	}
	evDir := filepath.Join(VerifDir, "evidence")
	if d := os.Getenv("VERIF_EVIDENCE_DIR"); d != "" {
		evDir = d // experiments against a scratch copy must not overwrite the real evidence
	}
	os.MkdirAll(evDir, 0o755)
	eb, _ := json.MarshalIndent(ev, "", " ")
	if total.Evaluations > 0 && distinct >= 2 {
		os.WriteFile(filepath.Join(evDir, e.ID+".json"), eb, 0o644)
	}

	fmt.Printf("SUMMARY property=%s tier=%s seed=%d evaluations=%d distinct_nontrivial=%d violations=%d known=%d wall=%.1fs\n",
		e.ID, tier, seed, total.Evaluations, distinct, len(fresh), len(total.Violations)-len(fresh), time.Since(start).Seconds())
	keys := make([]string, 0, len(total.Counts))
	for k := range total.Counts {
		keys = append(keys, k)
	}
	sort.Strings(keys)
	for _, k := range keys {
		fmt.Printf("  %s=%d\n", k, total.Counts[k])
	}
	if len(fresh) > 0 {
		return 1
	}
	if len(inconclusive) > 0 {
		for _, s := range inconclusive {
			fmt.Printf("INCONCLUSIVE property=%s reason=%s\n", e.ID, strings.ReplaceAll(s, "\n", " | "))
		}
		return 2
	}
	return 0
}

func firstN(xs []string, n int) []string {
	if len(xs) > n {
		return xs[:n]
	}
	if xs == nil {
		return []string{}
	}
	return xs
}

package core

import "hash/fnv"

// Rand is a splitmix64 PRNG; every random choice of every engine derives from
// (VERIF_SEED, property, case index) through it.
type Rand struct{ s uint64 }

func NewRand(seed uint64) *Rand { return &Rand{s: seed} }

func (r *Rand) U64() uint64 {
	r.s += 0x9e3779b97f4a7c15
	z := r.s
	z = (z ^ (z >> 30)) * 0xbf58476d1ce4e5b9
	z = (z ^ (z >> 27)) * 0x94d049bb133111eb
	return z ^ (z >> 31)
}

// Intn returns a value in [0,n). n<=0 yields 0.
func (r *Rand) Intn(n int) int {
	if n <= 0 {
		return 0
	}
	return int(r.U64() % uint64(n))
}

// Range returns a value in [lo,hi] inclusive.
func (r *Rand) Range(lo, hi int) int {
	if hi <= lo {
		return lo
	}
	return lo + r.Intn(hi-lo+1)
}

func (r *Rand) Bool() bool { return r.U64()&1 == 1 }

// Chance returns true with probability num/den.
func (r *Rand) Chance(num, den int) bool { return r.Intn(den) < num }

func (r *Rand) Fork() *Rand { return NewRand(r.U64()) }

func (r *Rand) Perm(n int) []int {
	p := make([]int, n)
	for i := range p {
		p[i] = i
	}
	for i := n - 1; i > 0; i-- {
		j := r.Intn(i + 1)
		p[i], p[j] = p[j], p[i]
	}
	return p
}

func Pick[T any](r *Rand, xs []T) T { return xs[r.Intn(len(xs))] }

func Hash64(s string) uint64 {
	h := fnv.New64a()
	h.Write([]byte(s))
	return h.Sum64()
}

// CaseSeed mixes the run seed, the property and the case index.
func CaseSeed(seed uint64, prop string, i int) uint64 {
	r := NewRand(seed*0x9e3779b97f4a7c15 ^ Hash64(prop))
	r.U64()
	r2 := NewRand(r.U64() ^ (uint64(i)+1)*0xd1342543de82ef95)
	return r2.U64()
}

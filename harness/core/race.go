package core

import (
	"os"
	"path/filepath"
	"regexp"
	"strings"
)

var raceHead = regexp.MustCompile(`(?m)^WARNING: DATA RACE`)
var raceFrame = regexp.MustCompile(`(?m)^  ([^\s(]+(?:\([^)]*\))?[^\s(]*)\(`)

// ScanRaceLogs parses the race detector's log files (GORACE log_path=<dir>/race) of one
// child and turns every report into a violation whose signature is the first gorm frame
// of each of the two accesses (line numbers are not part of it).
func ScanRaceLogs(dir string, res *Result, classify func(report, sig string) string) {
	files, _ := filepath.Glob(filepath.Join(dir, "race.*"))
	for _, f := range files {
		b, err := os.ReadFile(f)
		if err != nil {
			continue
		}
		for _, blk := range strings.Split(string(b), "==================") {
			if !raceHead.MatchString(blk) {
				continue
			}
			res.Counts["race_reports"]++
			sig := "race:" + RaceSig(blk)
			if classify != nil {
				sig = classify(blk, sig)
			}
			res.Counts["race_sig "+sig]++
			if len(res.Violations) < 60 {
				if len(blk) > 7000 {
					blk = blk[:7000]
				}
				res.Violations = append(res.Violations, Violation{Case: -1, Sig: sig, Detail: map[string]interface{}{"report": blk}})
			}
		}
	}
}

// RaceSig: first gorm.io/gorm function of each access stack, in the order reported.
func RaceSig(blk string) string {
	var sig []string
	for _, p := range strings.Split(blk, "\n\n") {
		head := strings.TrimSpace(p)
		if !(strings.HasPrefix(head, "WARNING: DATA RACE") || strings.HasPrefix(head, "Write at") || strings.HasPrefix(head, "Read at") ||
			strings.HasPrefix(head, "Previous write") || strings.HasPrefix(head, "Previous read")) {
			continue
		}
		found := ""
		for _, l := range strings.Split(p, "\n") {
			l = strings.TrimSpace(l)
			if strings.HasPrefix(l, "gorm.io/gorm") && strings.HasSuffix(l, ")") {
				if i := strings.LastIndex(l, "("); i > 0 {
					found = l[:i]
				}
				break
			}
		}
		if found == "" {
			found = "(no gorm frame)"
		}
		sig = append(sig, found)
	}
	return strings.Join(sig, "<>")
}

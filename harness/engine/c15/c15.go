// Package c15: all read paths agree; batched reads visit every row exactly once in key order.
//
// Oracle: the rows the harness inserted (raw SQL), filtered by the C02 reference
// evaluator, ordered, then offset/limit applied by the model of the statement (later
// positive values override, negative values cancel). Every read path is compared with
// that reference, so all paths agree pairwise. FindInBatches gets a callback with a
// logical batch bound: a cursor that does not advance is a violation, not a hang.
package c15

import (
	"context"
	"database/sql"
	"errors"
	"fmt"
	"math"
	"sort"
	"strings"

	"gorm.io/gorm"
	"gorm.io/gorm/clause"

	"verif/core"
	"verif/pred"
	"verif/vdb"
)

var H *vdb.Handle

func initEnv(c *core.Ctx) {
	h, err := vdb.Open(vdb.Options{})
	if err != nil {
		panic(err)
	}
	if err := h.DB.AutoMigrate(&pred.Row{}); err != nil {
		panic(err)
	}
	H = h
}

func load(rows []pred.Row) {
	if _, err := H.SQL.Exec("DELETE FROM rws"); err != nil {
		panic(err)
	}
	if q, args := pred.InsertSQL("rws", rows); q != "" {
		if _, err := H.SQL.Exec(q, args...); err != nil {
			panic(err)
		}
	}
	// aux: one row per row of rws (rid = id, lvl = a), for chains that carry joins
	if _, err := H.SQL.Exec("CREATE TABLE IF NOT EXISTS aux(rid integer primary key, lvl integer); DELETE FROM aux; INSERT INTO aux(rid, lvl) SELECT id, a FROM rws"); err != nil {
		panic(err)
	}
}

func maxN(tier string) int {
	if tier == "thorough" {
		return 40
	}
	return 12
}

func reps(tier string) int {
	if tier == "thorough" {
		return 6
	}
	return 16
}

// lo is one Limit/Offset call.
type lo struct {
	limit bool
	v     int
	cl    bool // spelled as Clauses(clause.Limit{...}) (what Limit / Offset do themselves)
}

func (x lo) String() string {
	switch {
	case x.limit && x.cl:
		return fmt.Sprintf("Clauses(clause.Limit{Limit: &[%d]})", x.v)
	case x.limit:
		return fmt.Sprintf("Limit(%d)", x.v)
	case x.cl:
		return fmt.Sprintf("Clauses(clause.Limit{Offset: %d})", x.v)
	}
	return fmt.Sprintf("Offset(%d)", x.v)
}

func (x lo) apply(db *gorm.DB) *gorm.DB {
	switch {
	case x.limit && x.cl:
		v := x.v
		return db.Clauses(clause.Limit{Limit: &v})
	case x.limit:
		return db.Limit(x.v)
	case x.cl:
		return db.Clauses(clause.Limit{Offset: x.v})
	}
	return db.Offset(x.v)
}

// fold applies the statement's model: later positive values override earlier ones,
// negative values cancel. limit<0 means "no limit".
func fold(calls []lo) (limit, offset int) {
	limit, offset = -1, 0
	for _, c := range calls {
		if c.limit {
			if c.v < 0 {
				limit = -1
			} else {
				limit = c.v
			}
		} else {
			if c.v < 0 {
				offset = 0
			} else {
				offset = c.v
			}
		}
	}
	return
}

func window(rows []pred.Row, limit, offset int) []pred.Row {
	if offset > len(rows) {
		offset = len(rows)
	}
	rows = rows[offset:]
	if limit >= 0 && limit < len(rows) {
		rows = rows[:limit]
	}
	return rows
}

type chain struct {
	steps []pred.GroupStep
	calls []lo
	order string // "", "id", "id desc", "a desc, id", "s, id desc"
	// scope != "": steps[split:] (and, with scopeWindow, Order / Limit / Offset too) are applied inside one
	// Scopes(func) call; the kind says what the function hands back:
	//   plain          the handle it built on
	//   session        a new session of it            return d.Where(..).Session(&gorm.Session{})
	//   session-first  built on a new session         return d.Session(&gorm.Session{}).Where(..)
	//   ctx            built on d.WithContext(ctx)
	//   debug          return d.Where(..).Debug()
	scope       string
	split       int
	scopeWindow bool
}

var scopeKinds = []string{"plain", "session", "session-first", "ctx", "debug"}

type scopeCtxKey struct{}

func (cc chain) plain() chain {
	cc.scope, cc.split, cc.scopeWindow = "", 0, false
	return cc
}

func stepsDesc(steps []pred.GroupStep) []string {
	parts := []string{}
	for _, s := range steps {
		parts = append(parts, fmt.Sprintf("%s(%s)", strings.Title(s.Op), s.U.Desc))
	}
	return parts
}

func (cc chain) windowDesc() []string {
	parts := []string{}
	if cc.order != "" {
		parts = append(parts, fmt.Sprintf("Order(%q)", cc.order))
	}
	for _, c := range cc.calls {
		parts = append(parts, c.String())
	}
	return parts
}

func (cc chain) desc() string {
	var parts []string
	if cc.scope == "" {
		parts = append(stepsDesc(cc.steps), cc.windowDesc()...)
	} else {
		parts = stepsDesc(cc.steps[:cc.split])
		inner := stepsDesc(cc.steps[cc.split:])
		if cc.scopeWindow {
			inner = append(inner, cc.windowDesc()...)
		}
		switch cc.scope {
		case "session":
			inner = append(inner, "Session(&gorm.Session{})")
		case "debug":
			inner = append(inner, "Debug()")
		case "session-first":
			inner = append([]string{"Session(&gorm.Session{})"}, inner...)
		case "ctx":
			inner = append([]string{"WithContext(ctx)"}, inner...)
		}
		body := "d"
		if len(inner) > 0 {
			body = "d." + strings.Join(inner, ".")
		}
		parts = append(parts, fmt.Sprintf("Scopes(func(d *gorm.DB) *gorm.DB { return %s })", body))
		if !cc.scopeWindow {
			parts = append(parts, cc.windowDesc()...)
		}
	}
	if len(parts) == 0 {
		return "db"
	}
	return "db." + strings.Join(parts, ".")
}

func applySteps(db *gorm.DB, steps []pred.GroupStep) *gorm.DB {
	for _, s := range steps {
		q, args := s.U.Query(H.DB)
		switch s.Op {
		case "where":
			db = db.Where(q, args...)
		case "not":
			db = db.Not(q, args...)
		default:
			db = db.Or(q, args...)
		}
	}
	return db
}

func (cc chain) applyWindow(db *gorm.DB) *gorm.DB {
	if cc.order != "" {
		db = db.Order(cc.order)
	}
	for _, c := range cc.calls {
		db = c.apply(db)
	}
	return db
}

func (cc chain) build(db *gorm.DB) *gorm.DB {
	if cc.scope == "" {
		return cc.applyWindow(applySteps(db, cc.steps))
	}
	db = applySteps(db, cc.steps[:cc.split])
	inner := cc.steps[cc.split:]
	db = db.Scopes(func(d *gorm.DB) *gorm.DB {
		switch cc.scope {
		case "session-first":
			d = d.Session(&gorm.Session{})
		case "ctx":
			d = d.WithContext(context.WithValue(context.Background(), scopeCtxKey{}, 1))
		}
		d = applySteps(d, inner)
		if cc.scopeWindow {
			d = cc.applyWindow(d)
		}
		switch cc.scope {
		case "session":
			d = d.Session(&gorm.Session{})
		case "debug":
			d = d.Debug()
		}
		return d
	})
	if !cc.scopeWindow {
		db = cc.applyWindow(db)
	}
	return db
}

func sortRows(rows []pred.Row, order string) []pred.Row {
	out := append([]pred.Row(nil), rows...)
	less := func(i, j int) bool { return out[i].ID < out[j].ID }
	switch order {
	case "id desc":
		less = func(i, j int) bool { return out[i].ID > out[j].ID }
	case "a desc, id":
		less = func(i, j int) bool {
			if out[i].A != out[j].A {
				return out[i].A > out[j].A
			}
			return out[i].ID < out[j].ID
		}
	case "s, id desc":
		less = func(i, j int) bool {
			if out[i].S != out[j].S {
				return out[i].S < out[j].S
			}
			return out[i].ID > out[j].ID
		}
	}
	sort.SliceStable(out, less)
	return out
}

func (cc chain) reference(table []pred.Row) (matching, windowed []pred.Row) {
	p := pred.Infix(cc.steps)
	for i := range table {
		if p.Eval(&table[i]) == pred.T {
			matching = append(matching, table[i])
		}
	}
	matching = sortRows(matching, cc.order)
	l, o := fold(cc.calls)
	return matching, window(matching, l, o)
}

func rowEq(a, b pred.Row) bool {
	if a.ID != b.ID || a.A != b.A || a.S != b.S || a.Mark != b.Mark {
		return false
	}
	if (a.B == nil) != (b.B == nil) || (a.B != nil && *a.B != *b.B) {
		return false
	}
	if (a.T == nil) != (b.T == nil) || (a.T != nil && *a.T != *b.T) {
		return false
	}
	return true
}

func rowsEq(a, b []pred.Row) bool {
	if len(a) != len(b) {
		return false
	}
	for i := range a {
		if !rowEq(a[i], b[i]) {
			return false
		}
	}
	return true
}

func ids(rows []pred.Row) []int64 {
	out := make([]int64, len(rows))
	for i, r := range rows {
		out[i] = r.ID
	}
	return out
}

func fromMap(m map[string]interface{}) (pred.Row, error) {
	var r pred.Row
	get := func(k string) (interface{}, error) {
		v, ok := m[k]
		if !ok {
			return nil, fmt.Errorf("map lacks key %q", k)
		}
		// with a Model, gorm scans map values into the schema's field types: nullable
		// columns arrive as (possibly nil) pointers
		switch x := v.(type) {
		case *int64:
			if x == nil {
				return nil, nil
			}
			return *x, nil
		case *string:
			if x == nil {
				return nil, nil
			}
			return *x, nil
		}
		return v, nil
	}
	toInt := func(v interface{}) (int64, error) {
		switch x := v.(type) {
		case *int64:
			if x != nil {
				return *x, nil
			}
		case int64:
			return x, nil
		case int:
			return int64(x), nil
		}
		return 0, fmt.Errorf("not an integer: %T %v", v, v)
	}
	var err error
	var v interface{}
	if v, err = get("id"); err != nil {
		return r, err
	}
	if r.ID, err = toInt(v); err != nil {
		return r, err
	}
	if v, err = get("a"); err != nil {
		return r, err
	}
	if r.A, err = toInt(v); err != nil {
		return r, err
	}
	if v, err = get("mark"); err != nil {
		return r, err
	}
	if r.Mark, err = toInt(v); err != nil {
		return r, err
	}
	if v, err = get("b"); err != nil {
		return r, err
	}
	if v != nil {
		n, e := toInt(v)
		if e != nil {
			return r, e
		}
		r.B = &n
	}
	if v, err = get("s"); err != nil {
		return r, err
	}
	s, ok := v.(string)
	if !ok {
		return r, fmt.Errorf("s not a string: %T", v)
	}
	r.S = s
	if v, err = get("t"); err != nil {
		return r, err
	}
	if v != nil {
		s, ok := v.(string)
		if !ok {
			return r, fmt.Errorf("t not a string: %T", v)
		}
		r.T = &s
	}
	return r, nil
}

type checker struct {
	c     *core.Ctx
	r     *core.Rand // random choices of the blocks (own stream, so that a block can be repeated literally)
	cc    chain
	table []pred.Row
	// prev != nil: every slice / array destination has been used before - it still holds the rows of an
	// earlier read (chain prev) when the chain under test is read into it
	prev     *chain
	problems []string
	// classes of their own (precise signatures)
	scanStale []string // Scan of an empty result into a slice that was used before
	mapAppend []string // Find into a []map that was used before
	// several read paths on one handle (reuse.go)
	reusedHandle []string // a step disagrees after other reads on the same handle, and agrees on a handle of its own
	rowDiffers   []string // Row() itself disagrees with the rows Find returns
	// chains that carry a Select of some columns (selected.go)
	selCols   []string // a read path disagrees with the reference on the selected columns
	selReused []string // ... only after other reads on the same reusable handle
}

func (k *checker) add(f string, a ...interface{}) {
	k.problems = append(k.problems, fmt.Sprintf(f, a...))
}

// ordered reports whether the chain fixes a total order (then lists are compared in order).
func (k *checker) cmpRows(path string, got, want []pred.Row) {
	if k.cc.order == "" {
		// no explicit order: compare as sets unless a window makes order matter (the
		// generator always adds an order then)
		got = sortRows(got, "id")
		want = sortRows(want, "id")
	}
	if !rowsEq(got, want) {
		k.add("%s returned ids %v, reference %v (values compared too)", path, ids(got), ids(want))
	}
}

func (k *checker) used() string {
	if k.prev == nil {
		return ""
	}
	return " [destination used before]"
}

func mapsToRows(ms []map[string]interface{}) ([]pred.Row, error) {
	b := make([]pred.Row, 0, len(ms))
	for _, m := range ms {
		r, err := fromMap(m)
		if err != nil {
			return b, err
		}
		b = append(b, r)
	}
	return b, nil
}

func (k *checker) readPaths(want []pred.Row, matching []pred.Row) {
	root := H.DB.Session(&gorm.Session{})
	cc := k.cc
	prev := k.prev
	u := k.used()
	model := func() *gorm.DB { return root.Model(&pred.Row{}) }
	// Find -> []Row
	var a []pred.Row
	if prev != nil {
		prev.build(root).Find(&a)
	}
	res := cc.build(root).Find(&a)
	if res.Error != nil {
		k.add("Find error %v", res.Error)
	} else {
		k.cmpRows("Find(&[]Row)"+u, a, want)
		if res.RowsAffected != int64(len(a)) {
			k.add("Find%s RowsAffected=%d, %d rows returned", u, res.RowsAffected, len(a))
		}
	}
	// Find -> []*Row
	var ap []*pred.Row
	if prev != nil {
		prev.build(root).Find(&ap)
	}
	if res = cc.build(root).Find(&ap); res.Error != nil {
		k.add("Find(&[]*Row) error %v", res.Error)
	} else {
		b := make([]pred.Row, len(ap))
		for i, p := range ap {
			b[i] = *p
		}
		k.cmpRows("Find(&[]*Row)"+u, b, want)
		if res.RowsAffected != int64(len(ap)) {
			k.add("Find(&[]*Row)%s RowsAffected=%d, %d rows returned", u, res.RowsAffected, len(ap))
		}
	}
	// Find -> array
	var arr [48]pred.Row
	if prev != nil {
		prev.build(root).Find(&arr)
	}
	if res = cc.build(root).Find(&arr); res.Error != nil {
		k.add("Find(&[48]Row) error %v", res.Error)
	} else {
		n := int(res.RowsAffected)
		if n > len(arr) {
			n = len(arr)
		}
		k.cmpRows("Find(&[48]Row)"+u, append([]pred.Row(nil), arr[:n]...), want)
		if int(res.RowsAffected) != len(want) {
			k.add("Find(&[48]Row)%s RowsAffected=%d want %d", u, res.RowsAffected, len(want))
		}
		for i := n; i < len(arr); i++ {
			if !rowEq(arr[i], pred.Row{}) {
				k.add("Find(&[48]Row)%s reported %d rows, but element %d of the array holds %s", u, n, i, arr[i])
				break
			}
		}
	}
	// Find -> []map
	var ms []map[string]interface{}
	if res = cc.build(model()).Find(&ms); res.Error != nil {
		k.add("Find(&[]map) error %v", res.Error)
	} else {
		b, err := mapsToRows(ms)
		if err != nil {
			k.add("Find(&[]map): %v", err)
		}
		k.cmpRows("Find(&[]map)", b, want)
		if res.RowsAffected != int64(len(ms)) {
			k.add("Find(&[]map) RowsAffected=%d, %d rows", res.RowsAffected, len(ms))
		}
	}
	if prev != nil {
		// the same into a []map that was used before
		var ms2 []map[string]interface{}
		prev.build(model()).Find(&ms2)
		held := len(ms2)
		if res = cc.build(model()).Find(&ms2); res.Error != nil {
			k.add("Find(&[]map)%s error %v", u, res.Error)
		} else if b, err := mapsToRows(ms2); err != nil {
			k.add("Find(&[]map)%s: %v", u, err)
		} else if held > 0 && len(ms2) == held+len(want) && res.RowsAffected == int64(len(want)) {
			k.mapAppend = append(k.mapAppend, fmt.Sprintf("var ms []map[string]interface{}; %s.Find(&ms) (%d rows); %s.Find(&ms): RowsAffected=%d, ms holds %d maps (ids %v): the rows of the earlier read are still in front; Find into a []Row used the same way holds ids %v",
				strings.Replace(prev.desc(), "db", "db.Model(&Row{})", 1), held, strings.Replace(cc.desc(), "db", "db.Model(&Row{})", 1), res.RowsAffected, len(ms2), ids(b), ids(want)))
		} else {
			k.cmpRows("Find(&[]map)"+u, b, want)
			if res.RowsAffected != int64(len(ms2)) {
				k.add("Find(&[]map)%s RowsAffected=%d, %d rows", u, res.RowsAffected, len(ms2))
			}
		}
	}
	// Scan
	var sc []pred.Row
	if res = cc.build(model()).Scan(&sc); res.Error != nil {
		k.add("Scan error %v", res.Error)
	} else {
		k.cmpRows("Scan(&[]Row)", sc, want)
		if res.RowsAffected != int64(len(sc)) {
			k.add("Scan RowsAffected=%d, %d rows", res.RowsAffected, len(sc))
		}
	}
	if prev != nil {
		var sc2 []pred.Row
		prev.build(model()).Scan(&sc2)
		held := append([]pred.Row(nil), sc2...)
		if res = cc.build(model()).Scan(&sc2); res.Error != nil {
			k.add("Scan%s error %v", u, res.Error)
		} else if len(want) == 0 && len(held) > 0 && res.RowsAffected == 0 && rowsEq(sc2, held) {
			k.scanStale = append(k.scanStale, fmt.Sprintf("var out []Row; %s.Scan(&out) (%d rows); %s.Scan(&out): the chain selects no row, RowsAffected=0, but out still holds the %d rows of the earlier read (ids %v); Find into a []Row used the same way is emptied",
				strings.Replace(prev.desc(), "db", "db.Model(&Row{})", 1), len(held), strings.Replace(cc.desc(), "db", "db.Model(&Row{})", 1), len(sc2), ids(sc2)))
		} else {
			k.cmpRows("Scan(&[]Row)"+u, sc2, want)
			if res.RowsAffected != int64(len(sc2)) {
				k.add("Scan%s RowsAffected=%d, %d rows", u, res.RowsAffected, len(sc2))
			}
		}
	}
	// Rows + ScanRows (one record variable for all rows, as in the documented loop)
	rows, err := cc.build(model()).Rows()
	if err != nil {
		k.add("Rows error %v", err)
	} else {
		var b []pred.Row
		var r pred.Row
		for rows.Next() {
			if e := H.DB.ScanRows(rows, &r); e != nil {
				k.add("ScanRows error %v", e)
				break
			}
			b = append(b, r)
		}
		rows.Close()
		k.cmpRows("Rows+ScanRows", b, want)
	}
	// Pluck per column
	var pid []int64
	if prev != nil {
		prev.build(model()).Pluck("id", &pid)
	}
	if res = cc.build(model()).Pluck("id", &pid); res.Error != nil {
		k.add("Pluck(id) error %v", res.Error)
	} else {
		w := ids(want)
		g := pid
		if cc.order == "" {
			g = pred.SortIDs(append([]int64(nil), pid...))
			w = pred.SortIDs(w)
		}
		if !pred.IDsEqual(g, w) {
			k.add("Pluck(id)%s %v, reference %v", u, g, w)
		}
		if res.RowsAffected != int64(len(pid)) {
			k.add("Pluck%s RowsAffected=%d, %d values", u, res.RowsAffected, len(pid))
		}
	}
	if cc.order != "" {
		var ps []string
		if prev != nil {
			prev.build(model()).Pluck("s", &ps)
		}
		if res = cc.build(model()).Pluck("s", &ps); res.Error != nil {
			k.add("Pluck(s) error %v", res.Error)
		} else {
			w := make([]string, len(want))
			for i, r := range want {
				w[i] = r.S
			}
			if strings.Join(ps, "\x00") != strings.Join(w, "\x00") || len(ps) != len(w) {
				k.add("Pluck(s)%s %q, reference %q", u, ps, w)
			}
			if res.RowsAffected != int64(len(ps)) {
				k.add("Pluck(s)%s RowsAffected=%d, %d values", u, res.RowsAffected, len(ps))
			}
		}
		var pb []sql.NullInt64
		if prev != nil {
			prev.build(model()).Pluck("b", &pb)
		}
		if res = cc.build(model()).Pluck("b", &pb); res.Error != nil {
			k.add("Pluck(b) error %v", res.Error)
		} else if len(pb) != len(want) {
			k.add("Pluck(b)%s %d values, reference %d", u, len(pb), len(want))
		} else {
			for i, r := range want {
				if pb[i].Valid != (r.B != nil) || (r.B != nil && pb[i].Int64 != *r.B) {
					k.add("Pluck(b)[%d]=%v, reference row %s", i, pb[i], r)
					break
				}
			}
		}
		var pt []sql.NullString
		if prev != nil {
			prev.build(model()).Pluck("t", &pt)
		}
		if res = cc.build(model()).Pluck("t", &pt); res.Error != nil {
			k.add("Pluck(t) error %v", res.Error)
		} else if len(pt) != len(want) {
			k.add("Pluck(t)%s %d values, reference %d", u, len(pt), len(want))
		} else {
			for i, r := range want {
				if pt[i].Valid != (r.T != nil) || (r.T != nil && pt[i].String != *r.T) {
					k.add("Pluck(t)[%d] differs from reference row %s", i, r)
					break
				}
			}
		}
	}
	// Count: only without limit/offset (statement)
	if len(cc.calls) == 0 {
		var n int64
		if res = cc.build(model()).Count(&n); res.Error != nil {
			k.add("Count error %v", res.Error)
		} else if n != int64(len(matching)) {
			k.add("Count=%d, Find returns %d rows", n, len(matching))
		}
	}
	// the pagination idiom: Count, then keep chaining on the handle Count returned (gorm
	// restores what Count changed for exactly this use); with and without a Session in front. Not through Scopes:
	// what the handle returned by Count holds after a scope handed back a new session is not fixed by the statement
	if len(cc.calls) == 0 && cc.order != "" && cc.scope == "" {
		for _, viaSession := range []bool{false, true} {
			h := cc.build(model())
			if viaSession {
				h = h.Session(&gorm.Session{})
			}
			var n int64
			tx := h.Count(&n)
			if tx.Error != nil {
				k.add("Count error %v", tx.Error)
				continue
			}
			kk := len(matching)/2 + 1
			var page []pred.Row
			if res := tx.Limit(kk).Find(&page); res.Error != nil {
				k.add("Find after Count error %v", res.Error)
			} else {
				w := matching
				if len(w) > kk {
					w = w[:kk]
				}
				if !rowsEq(page, w) {
					k.add("Count(&n).Limit(%d).Find (session in front: %v) returned ids %v, the chain without Count returns %v", kk, viaSession, ids(page), ids(w))
				}
			}
			if n != int64(len(matching)) {
				k.add("Count=%d, Find returns %d rows", n, len(matching))
			}
		}
	}
	// single-record finders: only without explicit order/limit/offset
	if len(cc.calls) == 0 && cc.order == "" {
		byID := sortRows(matching, "id")
		for _, name := range []string{"First", "Last", "Take", "First*", "TakeMap", "First[]", "Last[]*", "Take[]", "Take[]map", "First[2]", "First(id)", "Last(id)", "Take(s)"} {
			var r pred.Row
			var e error
			var ra int64
			partial := false // the destination holds one column only
			switch name {
			case "First":
				x := cc.build(root).First(&r)
				e, ra = x.Error, x.RowsAffected
			case "Last":
				x := cc.build(root).Last(&r)
				e, ra = x.Error, x.RowsAffected
			case "Take":
				x := cc.build(root).Take(&r)
				e, ra = x.Error, x.RowsAffected
			case "First*":
				p := &pred.Row{}
				x := cc.build(root).First(&p)
				e, ra = x.Error, x.RowsAffected
				r = *p
			case "First[]", "Take[]":
				// a single-record finder keeps its meaning whatever the destination holds: one record, or not found
				var rs []pred.Row
				if prev != nil {
					prev.build(root).Find(&rs)
				}
				var x *gorm.DB
				if name == "Take[]" {
					x = cc.build(root).Take(&rs)
				} else {
					x = cc.build(root).First(&rs)
				}
				e, ra = x.Error, x.RowsAffected
				if e == nil && len(rs) != 1 {
					k.add("%s%s filled the slice with %d records", name, u, len(rs))
				}
				if len(rs) > 0 {
					r = rs[0]
				}
			case "Last[]*":
				var rs []*pred.Row
				if prev != nil {
					prev.build(root).Find(&rs)
				}
				x := cc.build(root).Last(&rs)
				e, ra = x.Error, x.RowsAffected
				if e == nil && len(rs) != 1 {
					k.add("%s%s filled the slice with %d records", name, u, len(rs))
				}
				if len(rs) > 0 {
					r = *rs[0]
				}
			case "First[2]":
				var rs [2]pred.Row
				if prev != nil {
					prev.build(root).Find(&rs)
				}
				x := cc.build(root).First(&rs)
				e, ra = x.Error, x.RowsAffected
				r = rs[0]
				if e == nil && !rowEq(rs[1], pred.Row{}) {
					k.add("%s%s found one record, but the second element of the array holds %s", name, u, rs[1])
				}
			case "Take[]map":
				var ms []map[string]interface{}
				x := cc.build(model()).Take(&ms)
				e, ra = x.Error, x.RowsAffected
				if e == nil && len(ms) != 1 {
					k.add("%s filled the slice with %d maps", name, len(ms))
				}
				if e == nil && len(ms) > 0 {
					r, e = fromMap(ms[0])
				}
			case "TakeMap":
				m := map[string]interface{}{}
				x := cc.build(model()).Take(&m)
				e, ra = x.Error, x.RowsAffected
				if e == nil {
					r, e = fromMap(m)
				}
			case "First(id)", "Last(id)":
				// primitive destination: one column of the record
				partial = true
				var id int64
				var x *gorm.DB
				if name == "First(id)" {
					x = cc.build(model().Select("id")).First(&id)
				} else {
					x = cc.build(model().Select("id")).Last(&id)
				}
				e, ra = x.Error, x.RowsAffected
				r.ID = id
			case "Take(s)":
				partial = true
				var s string
				x := cc.build(model().Select("s")).Take(&s)
				e, ra = x.Error, x.RowsAffected
				r.S = s
			}
			if len(byID) == 0 {
				if !errors.Is(e, gorm.ErrRecordNotFound) {
					k.add("%s on an empty match returned error %v (id %d, RowsAffected %d), want ErrRecordNotFound", name, e, r.ID, ra)
				}
				continue
			}
			if e != nil {
				k.add("%s error %v although %d rows match", name, e, len(byID))
				continue
			}
			if ra != 1 {
				k.add("%s RowsAffected=%d", name, ra)
			}
			eq := rowEq
			if partial {
				eq = func(x, y pred.Row) bool {
					if name == "Take(s)" {
						return x.S == y.S
					}
					return x.ID == y.ID
				}
			}
			switch name {
			case "First", "First*", "First[]", "First[2]", "First(id)":
				if !eq(r, byID[0]) {
					k.add("%s returned %s, lowest key match is %s", name, r, byID[0])
				}
			case "Last", "Last[]*", "Last(id)":
				if !eq(r, byID[len(byID)-1]) {
					k.add("%s returned %s, highest key match is %s", name, r, byID[len(byID)-1])
				}
			default:
				found := false
				for _, m := range byID {
					if eq(r, m) {
						found = true
					}
				}
				if !found {
					k.add("%s returned %s which is not a matching row", name, r)
				}
			}
		}
	}
}

// sortKeys sorts by keys such as "a desc", "s", "mark", "id desc" (left to right).
func sortKeys(rows []pred.Row, keys []string) []pred.Row {
	out := append([]pred.Row(nil), rows...)
	sort.SliceStable(out, func(i, j int) bool {
		for _, k := range keys {
			f := strings.Fields(k)
			c := 0
			switch f[0] {
			case "a":
				c = cmpInt(out[i].A, out[j].A)
			case "s":
				c = strings.Compare(out[i].S, out[j].S)
			case "id":
				c = cmpInt(out[i].ID, out[j].ID)
			}
			if len(f) > 1 {
				c = -c
			}
			if c != 0 {
				return c < 0
			}
		}
		return false
	})
	return out
}

func cmpInt(a, b int64) int {
	switch {
	case a < b:
		return -1
	case a > b:
		return 1
	}
	return 0
}

// sharedBase: the read paths of one chain as an application writes them - one reusable base, handles
// derived from it first, the base used again, the derived handles run afterwards. 0..3 Order calls on
// the base (none of them on the key) leave the clause's slice with or without spare capacity.
// joined: the chain carries a hand-built FROM clause with an inner join (a filter: lvl >= x) and a Joins() call
// (a left join that filters nothing) and is executed more than once: Count then Find on the chain value, Find
// twice, and a handle derived from the executed chain. Every execution returns the chain's rows with lvl >= x.
func (k *checker) joined(matching []pred.Row) {
	r := k.r
	// what a chain value that went through a session-returning scope holds after its first execution is not the
	// subject here: the joined chain is built without Scopes
	cc := k.cc.plain()
	if len(cc.calls) != 0 {
		return
	}
	x := int64(r.Intn(4))
	var want []pred.Row
	for _, m := range matching {
		if m.A >= x {
			want = append(want, m)
		}
	}
	want = sortRows(want, "id")
	mk := func() *gorm.DB {
		root := H.DB.Session(&gorm.Session{})
		from := clause.From{Joins: []clause.Join{{Type: clause.InnerJoin, Table: clause.Table{Name: "aux", Alias: "x1"},
			ON: clause.Where{Exprs: []clause.Expression{clause.Expr{SQL: "x1.rid = rws.id AND x1.lvl >= ?", Vars: []interface{}{x}}}}}}}
		cq := cc
		cq.order = ""
		return cq.build(root.Model(&pred.Row{}).Clauses(from).Joins("LEFT JOIN aux x2 ON x2.rid = rws.id")).Order("rws.id")
	}
	what := fmt.Sprintf("%s with Clauses(From{INNER JOIN aux x1 ON ... x1.lvl >= %d}).Joins(LEFT JOIN aux x2)", cc.desc(), x)
	check := func(step string, res *gorm.DB, got []pred.Row) {
		if res.Error != nil {
			k.add("%s: %s error %v", what, step, res.Error)
		} else if !rowsEq(got, want) {
			k.add("%s: %s returned ids %v, the chain run once returns %v", what, step, ids(got), ids(want))
		}
	}
	// (a) Count, then Find on the chain value
	tx := mk()
	var n int64
	if res := tx.Count(&n); res.Error != nil {
		k.add("%s: Count error %v", what, res.Error)
	} else if n != int64(len(want)) {
		k.add("%s: Count=%d, reference %d", what, n, len(want))
	}
	var a1 []pred.Row
	check("Find after Count on the chain value", tx.Find(&a1), a1)
	// (b) Find twice, then through a handle derived from the executed chain
	tx = mk()
	var b1, b2, b3 []pred.Row
	check("first Find", tx.Find(&b1), b1)
	check("second Find on the chain value", tx.Find(&b2), b2)
	h := tx.Session(&gorm.Session{})
	check("Find through a Session derived from the executed chain", h.Find(&b3), b3)
	k.c.Inc("joined_chains_executed_repeatedly")
}

func (k *checker) sharedBase(matching []pred.Row) {
	r := k.r
	root := H.DB.Session(&gorm.Session{})
	cc := k.cc
	cc.order = ""
	ords := []string{"a desc", "s", "mark"}[:r.Intn(4)]
	db := cc.build(root)
	for _, o := range ords {
		db = db.Order(o)
	}
	var base *gorm.DB
	if r.Bool() {
		base = db.Session(&gorm.Session{})
	} else {
		base = db.WithContext(context.Background())
	}
	l, off := fold(cc.calls)
	ref := func(last string) []pred.Row {
		return window(sortKeys(matching, append(append([]string(nil), ords...), last)), l, off)
	}
	what := fmt.Sprintf("base := %s%s.Session(..)", cc.desc(), func() string {
		d := ""
		for _, o := range ords {
			d += fmt.Sprintf(".Order(%q)", o)
		}
		return d
	}())
	hDesc := base.Order("id desc")
	hAsc := base.Order("id")
	// the base is used in between (First and Last add their own key order to a copy of the base's)
	var f, la pred.Row
	base.First(&f)
	base.Last(&la)
	var viaBase []pred.Row
	if res := base.Order("id").Find(&viaBase); res.Error != nil {
		k.add("%s; base.Order(\"id\").Find error %v", what, res.Error)
	} else {
		k.cmpRows(what+"; base.Order(\"id\").Find", viaBase, ref("id"))
	}
	var d, e []pred.Row
	if res := hDesc.Find(&d); res.Error != nil {
		k.add("%s; derived handle error %v", what, res.Error)
	} else {
		k.cmpRows(what+"; hDesc := base.Order(\"id desc\"); base.First; base.Last; hDesc.Find", d, ref("id desc"))
	}
	if res := hAsc.Find(&e); res.Error != nil {
		k.add("%s; derived handle error %v", what, res.Error)
	} else {
		k.cmpRows(what+"; hAsc := base.Order(\"id\"); ...; hAsc.Find", e, ref("id"))
	}
	k.c.Inc("shared_base_blocks")
	k.c.Inc(fmt.Sprintf("shared_base_with_%d_order_calls", len(ords)))
}

func failingRead(c *core.Ctx, n int) {
	const special = 99999
	if _, err := H.SQL.Exec("INSERT INTO rws(id,a,s,mark) VALUES (?,?,'x',0)", special, int64(math.MinInt64)); err != nil {
		panic(err)
	}
	defer H.SQL.Exec("DELETE FROM rws WHERE id = ?", special)
	root := H.DB.Session(&gorm.Session{})
	// the failing row is the first (or only) one the statement produces
	q := func() *gorm.DB {
		return root.Model(&pred.Row{}).Select("id, abs(a) AS a, s").Where("id = ?", special)
	}
	type res struct {
		name string
		err  error
		rows int64
	}
	var rs []res
	{
		var out []pred.Row
		r := q().Find(&out)
		rs = append(rs, res{"Find(&[]Row)", r.Error, int64(len(out))})
	}
	{
		var out []map[string]interface{}
		r := q().Find(&out)
		rs = append(rs, res{"Find(&[]map)", r.Error, int64(len(out))})
	}
	{
		var out []pred.Row
		r := q().Scan(&out)
		rs = append(rs, res{"Scan(&[]Row)", r.Error, int64(len(out))})
	}
	{
		var out pred.Row
		r := q().Scan(&out)
		rs = append(rs, res{"Scan(&Row)", r.Error, r.RowsAffected})
	}
	{
		var out map[string]interface{}
		r := q().Scan(&out)
		rs = append(rs, res{"Scan(&map)", r.Error, r.RowsAffected})
	}
	{
		var out []int64
		r := root.Model(&pred.Row{}).Where("id = ?", special).Pluck("abs(a)", &out)
		rs = append(rs, res{"Pluck(abs(a))", r.Error, int64(len(out))})
	}
	{
		var out pred.Row
		r := q().Take(&out)
		rs = append(rs, res{"Take(&Row)", r.Error, r.RowsAffected})
	}
	{
		rows, err := q().Rows()
		cnt := int64(0)
		if err == nil {
			for rows.Next() {
				cnt++
			}
			err = rows.Err()
			rows.Close()
		}
		rs = append(rs, res{"Rows()+Next+Err", err, cnt})
	}
	var failed, ok []string
	for _, x := range rs {
		if x.err != nil {
			failed = append(failed, x.name)
		} else {
			ok = append(ok, fmt.Sprintf("%s (rows %d)", x.name, x.rows))
		}
	}
	c.Inc("failing_read_blocks")
	if len(failed) > 0 && len(ok) > 0 {
		c.Violation("FailingRead", map[string]interface{}{"chain": `Model(&Row{}).Select("id, abs(a) AS a, s").Where("id = ?", k) on a row whose a is the smallest int64`,
			"problems": []string{fmt.Sprintf("the read fails at run time (%v): reported by %v, but these paths reported success: %v", rs[0].err, failed, ok)}})
		return
	}
	if len(failed) == len(rs) {
		c.Shape("failing-read", n)
	}
}

var errBound = errors.New("verif: batch bound exceeded")

// batches runs FindInBatches and checks it against want (rows Find would return, pk order).
func (k *checker) batches(bs int, want []pred.Row, dest string) {
	k.batchesOn(k.cc.build(H.DB.Session(&gorm.Session{})), bs, want, dest)
}

// batchesOn: the same on a given handle (used once).
func (k *checker) batchesOn(h *gorm.DB, bs int, want []pred.Row, dest string) {
	bound := len(k.table)/bs + 3
	n := 0
	var got []pred.Row
	var sizes []int
	cb := func(batch []pred.Row, tx *gorm.DB, no int) error {
		n++
		if n > bound {
			return errBound
		}
		if no != n {
			k.add("batch number %d passed to callback #%d", no, n)
		}
		if tx.RowsAffected != int64(len(batch)) {
			k.add("batch %d: tx.RowsAffected=%d, %d rows", no, tx.RowsAffected, len(batch))
		}
		sizes = append(sizes, len(batch))
		got = append(got, batch...)
		return nil
	}
	var res *gorm.DB
	if dest == "ptr" {
		var out []*pred.Row
		res = h.FindInBatches(&out, bs, func(tx *gorm.DB, no int) error {
			b := make([]pred.Row, len(out))
			for i, p := range out {
				b[i] = *p
			}
			return cb(b, tx, no)
		})
	} else {
		var out []pred.Row
		res = h.FindInBatches(&out, bs, func(tx *gorm.DB, no int) error {
			return cb(append([]pred.Row(nil), out...), tx, no)
		})
	}
	if errors.Is(res.Error, errBound) {
		k.add("FindInBatches(batch=%d) did not finish within %d batches for %d rows: first ids delivered %v", bs, bound, len(k.table), firstN(ids(got), 12))
		return
	}
	if res.Error != nil {
		k.add("FindInBatches error %v", res.Error)
		return
	}
	for i, s := range sizes {
		if s > bs {
			k.add("batch %d has %d rows, requested size %d", i+1, s, bs)
		}
		if s == 0 {
			k.add("batch %d is empty", i+1)
		}
	}
	if !rowsEq(got, want) {
		k.add("FindInBatches(batch=%d) delivered ids %v, Find returns %v", bs, ids(got), ids(want))
	}
	if res.RowsAffected != int64(len(got)) {
		k.add("FindInBatches RowsAffected=%d, delivered %d rows", res.RowsAffected, len(got))
	}
}

func firstN(x []int64, n int) []int64 {
	if len(x) > n {
		return x[:n]
	}
	return x
}

func genSteps(r *core.Rand, allowOr bool) []pred.GroupStep {
	n := r.Range(1, 3)
	var steps []pred.GroupStep
	for i := 0; i < n; i++ {
		ops := []string{"where", "where", "not"}
		if i > 0 && allowOr {
			ops = append(ops, "or", "or")
		}
		op := core.Pick(r, ops)
		var u *pred.Unit
		for try := 0; ; try++ {
			u = pred.RandUnit(r, pred.Style{})
			if op != "not" || u.Neg != nil {
				break
			}
			if try > 8 {
				op = "where"
				break
			}
		}
		steps = append(steps, pred.GroupStep{Op: op, U: u})
	}
	return steps
}

func run(c *core.Ctx) {
	N := maxN(c.Tier)
	R := reps(c.Tier)
	i := c.Case
	rep := i % R
	i /= R
	bs := i%(N+2) + 1
	n := i / (N + 2)
	r := c.R
	// table with gaps in the key sequence
	table := pred.RandTable(r, 0)
	id := int64(0)
	for len(table) < n {
		id += int64(r.Range(1, 3))
		t := pred.RandTable(r.Fork(), 1)
		for len(t) == 0 {
			t = pred.RandTable(r.Fork(), 1)
		}
		t[0].ID = id
		table = append(table, t[0])
	}
	load(table)
	rereadByKey(c)
	nullableBlob(c)
	var steps []pred.GroupStep
	if rep > 0 {
		steps = genSteps(r, true)
	}
	base := chain{steps: steps}
	matching, _ := base.reference(table)
	m := len(matching)
	c.Logf("GRID n=%d bs=%d rep=%d chain=%s", n, bs, rep, base.desc())

	tableRows := func() []string {
		rows := []string{}
		for _, rw := range table {
			rows = append(rows, rw.String())
		}
		return rows
	}
	// classes with a signature of their own are reported once per case
	once := map[string]bool{}
	report := func(k *checker, what string) bool {
		emit := func(sig string, problems []string, limit bool) {
			if len(problems) == 0 || (limit && once[sig]) {
				return
			}
			once[sig] = true
			d := map[string]interface{}{"chain": k.cc.desc(), "problems": problems, "table": tableRows(), "batch_size": bs}
			if k.prev != nil {
				d["destinations_used_before_with"] = k.prev.desc()
			}
			c.Violation(sig, d)
		}
		emit(what, k.problems, strings.Contains(what, ":"))
		emit("Scan:used-slice-kept-on-empty-result", k.scanStale, true)
		emit("Find[]map:used-slice-appended-to", k.mapAppend, true)
		emit("ReadPaths:reused-handle", k.reusedHandle, true)
		emit("Row:differs-from-Find", k.rowDiffers, true)
		emit("ReadPaths:selected-columns", k.selCols, true)
		emit("ReadPaths:selected-columns:reused-handle", k.selReused, true)
		return len(k.problems) > 0
	}
	// through a Scopes call (one chain in three; two in three of these hand back a new session)
	withScope := func(cc chain, window bool) chain {
		if !r.Chance(1, 3) {
			return cc
		}
		cc.scope = core.Pick(r, scopeKinds)
		cc.split = r.Intn(len(cc.steps) + 1)
		cc.scopeWindow = window && r.Bool()
		c.Inc("chains_through_scope_" + cc.scope)
		return cc
	}

	// (1) FindInBatches over the whole limit x offset grid for this (n, bs, condition)
	limits := []int{-2} // -2 = no Limit call
	for l := 0; l <= m+1; l++ {
		limits = append(limits, l)
	}
	offsets := []int{-2}
	for o := 1; o <= m+1; o++ {
		offsets = append(offsets, o)
	}
	bad := 0
	fib := func(cc chain, dest string) bool {
		_, want := cc.reference(table)
		k := &checker{c: c, cc: cc, table: table}
		k.batches(bs, want, dest)
		c.Inc("findinbatches_runs")
		sig := "FindInBatches"
		if len(k.problems) > 0 && cc.scope != "" {
			// the same chain without Scopes is fine: the class is "conditions that arrive through a scope"
			k2 := &checker{c: c, cc: cc.plain(), table: table}
			k2.batches(bs, want, dest)
			if len(k2.problems) == 0 {
				sig = "FindInBatches:through-scope"
			}
		}
		if report(k, sig) {
			if sig == "FindInBatches" {
				bad++
			}
			return true
		}
		return false
	}
	for _, l := range limits {
		for _, o := range offsets {
			cc := base
			if l != -2 {
				cc.calls = append(cc.calls, lo{limit: true, v: l, cl: r.Chance(1, 6)})
			}
			if o != -2 {
				cc.calls = append(cc.calls, lo{limit: false, v: o, cl: r.Chance(1, 6)})
			}
			if l != -2 && o != -2 && r.Bool() {
				cc.calls[0], cc.calls[1] = cc.calls[1], cc.calls[0]
			}
			// FindInBatches reads the chain's Limit/Offset before any scope runs: the window stays outside the scope
			cc = withScope(cc, false)
			_, want := cc.reference(table)
			if fib(cc, core.Pick(r, []string{"val", "ptr"})) {
				if bad > 3 {
					return
				}
				continue
			}
			if len(want) > 0 {
				c.Shape("fib", n, bs, l, o, len(steps) > 0, len(want))
			}
		}
	}
	// (2) override / cancel sequences and all other read paths
	orders := []string{"id", "id desc", "a desc, id", "s, id desc"}
	for t := 0; t < 8; t++ {
		cc := base
		switch {
		case t == 1:
			cc.order = core.Pick(r, orders)
		case t >= 2 && t < 6:
			nc := r.Range(1, 4)
			for j := 0; j < nc; j++ {
				v := r.Range(1, m+2)
				if r.Chance(1, 4) {
					v = -1
				}
				cc.calls = append(cc.calls, lo{limit: r.Bool(), v: v, cl: r.Chance(1, 6)})
			}
			cc.order = core.Pick(r, orders)
		case t >= 6:
			// an empty page: Limit(0) as the only Limit call, anywhere among 0..2 Offset calls
			nc := r.Intn(3)
			for j := 0; j < nc; j++ {
				v := r.Range(1, m+2)
				if r.Chance(1, 4) {
					v = -1
				}
				cc.calls = append(cc.calls, lo{limit: false, v: v, cl: r.Chance(1, 6)})
			}
			at := r.Intn(len(cc.calls) + 1)
			cc.calls = append(cc.calls[:at:at], append([]lo{{limit: true, v: 0, cl: r.Chance(1, 3)}}, cc.calls[at:]...)...)
			cc.order = core.Pick(r, orders)
		}
		cc = withScope(cc, true)
		// every second time the destinations have been used before: by the whole table, by all matching rows, or by a page
		var prev *chain
		if r.Bool() {
			p := chain{order: cc.order}
			switch r.Intn(3) {
			case 1:
				p.steps = cc.steps
			case 2:
				p.order = "id"
				p.calls = []lo{{limit: true, v: r.Range(1, 3)}}
			}
			prev = &p
			c.Inc("read_path_comparisons_into_used_destinations")
		}
		seed := r.U64()
		runAll := func(cc chain, prev *chain) *checker {
			mt, want := cc.reference(table)
			k := &checker{c: c, r: core.NewRand(seed), cc: cc, table: table, prev: prev}
			k.readPaths(want, mt)
			k.sharedBase(mt)
			k.joined(mt)
			k.reused(want, mt)
			k.selected(want, mt)
			return k
		}
		_, want := cc.reference(table)
		k := runAll(cc, prev)
		c.Inc("read_path_comparisons")
		sig := "ReadPaths"
		if len(k.problems) > 0 && (cc.scope != "" || prev != nil) && len(runAll(cc.plain(), nil).problems) == 0 {
			// the chain read directly into fresh destinations is fine: name what made the difference
			switch {
			case cc.scope != "" && len(runAll(cc, nil).problems) > 0:
				sig = "ReadPaths:through-scope"
			case prev != nil && len(runAll(cc.plain(), prev).problems) > 0:
				sig = "ReadPaths:used-destination"
			default:
				sig = "ReadPaths:through-scope+used-destination"
			}
		}
		if report(k, sig) {
			continue
		}
		if len(want) > 0 || (len(cc.calls) > 0 && prev != nil) || (cc.scope != "" && t == 0) {
			c.Shape("read", n, len(cc.calls), cc.order, len(steps), len(want) == len(table), cc.scope, prev != nil)
		}
		// FindInBatches with override/cancel sequences (pk order only)
		if (cc.order == "id" || cc.order == "") && !cc.scopeWindow {
			cc2 := cc
			cc2.order = ""
			fib(cc2, "val")
		}
	}
	// (3) a read that fails while the database produces its first row (abs() of the smallest integer
	// overflows at run time, after the query itself was accepted): the read paths agree here too - none of
	// them may report success where the others report the error
	if rep == 0 {
		failingRead(c, n)
	}
	if c.WantSample() && n > 3 && rep > 0 {
		c.Sample(map[string]interface{}{"rows": n, "batch_size": bs, "chain": base.desc(), "matching_ids": ids(matching),
			"grid": fmt.Sprintf("FindInBatches over limit in {none,0..%d} x offset in {none,1..%d}", m+1, m+1)})
	}
}

var Engine = &core.Engine{
	ID:    "C15",
	Level: "exploration",
	Rule: "grid: every table size 0..12 (quick) / 0..40 (thorough) x every batch size 1..N+2 x repetitions (first without condition, others with a random C02 chain incl. Or); for each grid point FindInBatches is run for every limit in {none, 0..m+1} x offset in {none, 1..m+1} (m = matching rows) and compared with the reference window; " +
		"then Find into []T/[]*T/array/[]map, Scan, Rows+ScanRows (one record variable for all rows), Pluck per column, Count, First/Last/Take (struct, pointer, map, slices, array, and one column into a primitive) are compared with the reference for 8 windows per grid point: none, order only, 4 random override/cancel sequences of Limit/Offset, and 2 empty pages (Limit(0) as the only Limit call among 0..2 Offset calls); Limit/Offset are spelled as methods or as Clauses(clause.Limit{..}); " +
		"one chain in three (also in the FindInBatches grid) hands a suffix of its conditions - for the read paths sometimes Order/Limit/Offset too - over through Scopes(func), the function returning the handle it built on, a new session of it (Session, Debug) or a chain built on a new session of it (Session, WithContext); " +
		"every second time each slice / array destination has been used before (it still holds the whole table, all matching rows or a page when the chain under test is read into it; an array must be zero beyond the rows reported); " +
		"all of it once more from one reusable base (0..3 Order calls) whose derived handles are run after the base was used again, and on a chain with hand-built joins executed repeatedly; a read that fails at run time while the first row is produced must fail on every path; " +
		"and 2..5 read paths one after another on ONE REUSABLE handle made of the chain (Session(&gorm.Session{}), WithContext, Debug, a session of a session; bound to the model; the chain may carry Scopes): random steps out of Row() (scanned column by column: the first row of the chain, sql.ErrNoRows when the chain selects none, Limit(0) included), Rows+ScanRows, Find into []T, into []map, into a slice of a two-column struct, Scan, Count (chains without Limit/Offset), Pluck(id), Pluck(s), First / Last / Take (no order, no window), FindInBatches (key order, random batch size), any path at any position; every step is compared with the reference, a panic inside a step is that step's result. " +
		"The same on chains that carry a Select of 1..6 of the model's columns in a random sequence (spelled Select(\"c1\", \"c2\", ..), Select([]string{..}) or Select([]string{\"c1\"}, \"c2\", ..); as the first or the last call of the chain; the chain may carry Scopes, Order, Limit/Offset): 2..5 read paths one after another on one reusable handle of it (Session, WithContext, Debug, session of a session), or one read path on the chain value itself: Find into []T and []*T (selected columns hold the reference values, the others are zero), Find into []map, Scan, Rows+ScanRows, Pluck of EACH SELECTED column (the column of the rows Find returns, RowsAffected = values), Count (no Limit/Offset), First / Last / Take (no order, no window), FindInBatches (key selected, key order); a panic inside a step is that step's result. " +
		"Signatures: ReadPaths / FindInBatches, with the suffix :through-scope, :used-destination when the same chain read directly into fresh destinations is fine; classes of their own (once per case): Scan:used-slice-kept-on-empty-result, Find[]map:used-slice-appended-to; on one handle: ReadPaths:reused-handle (a step disagrees with the reference after other reads on the handle, the same step first on a handle built the same way agrees), Row:differs-from-Find (Row() itself, also as the first step); chains with selected columns: ReadPaths:selected-columns, and ReadPaths:selected-columns:reused-handle when the same step as the first one on a handle built the same way agrees. " +
		"distinct = (size, batch, limit, offset, conditioned, rows delivered) resp. (size, calls, order, units, scope kind, used destinations) resp. (handle kind, first step, steps, last step, calls, order) of an agreeing sequence on one handle that delivered rows resp. (handle kind, Select spelling, columns, Select first/last, first step, steps, window, order) of an agreeing sequence on a chain with selected columns that delivered rows; non-trivial = at least one row delivered, or an empty window read into used destinations, or single-record finders through a scope",
	Assumptions: []string{
		"keys have gaps; rows are inserted with raw SQL",
		"Limit(0) is only used as the sole Limit call (LIMIT 0: Find returns nothing); mixed zero/positive sequences are not covered by the statement's override/cancel sentence and are not generated",
		"paths with a window always carry an explicit total order; FindInBatches is compared in primary-key order only",
		"Count is compared only on chains without Limit/Offset, single-record finders only without explicit order/limit/offset (as the statement says)",
		"FindInBatches gets its Limit/Offset on the chain itself, never from inside a scope (it reads them before scopes run); the conditions may come from a scope",
		"not generated, because the statement does not fix it: chaining on the handle returned by Count when the chain went through Scopes (after a scope that hands back a new session the handle keeps SELECT count(*)); re-executing a chain value that carries Scopes; single-record finders into a struct that already holds a key (the key becomes a condition); maps as used destinations of Take",
		"excluded as documented misuse: a chain value (h := db.Model(..).Where(..), no Session / WithContext / Debug behind it) executed more than once - the sequences of several reads run on reusable handles only (the older joined block, which re-executes a chain value with Find and Count only, is unchanged); destinations of these sequences are fresh, ScanRows is called on the root handle; Row() is read with SELECT * of the model (columns in table order) and, without an explicit order, may deliver any row of the chain",
		"chains with selected columns: not generated, because the statement does not fix it: Pluck of a column that is NOT among the selected ones (with one selected column Pluck keeps that column: the Select(expr).Pluck(alias) idiom), several columns in one Select string (\"id, a\" stays one raw select item, Pluck keeps it), Count on a chain whose only selected column is nullable (count(column) leaves out NULLs), FindInBatches without the key among the selected columns (the key is the cursor), Row(); Pluck destinations are []int64 / []string / []sql.NullInt64 / []sql.NullString - slices of POINTERS to primitives ([]*int64, []*string) are not generated: Pluck of a column holding NULL into them fails on every chain (with or without Select) with 'converting NULL to int64 is unsupported', a matter of the destination kind, not of the chain",
	},
	Cases:         func(tier string) int { return (maxN(tier) + 1) * (maxN(tier) + 2) * reps(tier) },
	Batch:         func(tier string) int { return 48 },
	Run:           run,
	Init:          initEnv,
	Exhaustive:    func(string) bool { return true },
	MinNontrivial: 500,
}

package c15

import (
	"context"
	"database/sql"
	"errors"
	"fmt"
	"sort"
	"strings"

	"gorm.io/gorm"

	"verif/pred"
)

// ---- chains that carry a Select of some of the model's columns ------------------------------------------------
//
// An application narrows a chain to the columns it needs (Select("id", "s"), Select([]string{"a", "b", "t"}),
// Select([]string{"id"}, "mark")), makes a reusable handle of it and reads it on several paths: Find into the
// model's struct (the columns that were not selected stay zero), Find into maps, Scan, Rows+ScanRows, Pluck of one
// of the selected columns, Count, First / Last / Take, FindInBatches. Every path reports, for the selected columns,
// the values of the reference rows; Pluck of a selected column reports that column of the rows Find returns.

var selColumns = []string{"id", "a", "b", "s", "t", "mark"}

// selSpec: 1..6 columns of the model in a random sequence, and how the Select call is spelled.
type selSpec struct {
	cols  []string
	form  string // varargs | slice | slice+args
	first bool   // Select is the first call of the chain (else the last one)
}

var selForms = []string{"varargs", "slice", "slice+args"}

func strArgs(s []string) []interface{} {
	out := make([]interface{}, len(s))
	for i, x := range s {
		out[i] = x
	}
	return out
}

func (s selSpec) apply(db *gorm.DB) *gorm.DB {
	switch s.form {
	case "slice":
		return db.Select(append([]string(nil), s.cols...))
	case "slice+args":
		return db.Select(append([]string(nil), s.cols[:1]...), strArgs(s.cols[1:])...)
	}
	return db.Select(s.cols[0], strArgs(s.cols[1:])...)
}

func (s selSpec) desc() string {
	q := make([]string, len(s.cols))
	for i, c := range s.cols {
		q[i] = fmt.Sprintf("%q", c)
	}
	switch s.form {
	case "slice":
		return "Select([]string{" + strings.Join(q, ", ") + "})"
	case "slice+args":
		return "Select([]string{" + q[0] + "}" + strings.Join(append([]string{""}, q[1:]...), ", ") + ")"
	}
	return "Select(" + strings.Join(q, ", ") + ")"
}

func (s selSpec) has(col string) bool {
	for _, c := range s.cols {
		if c == col {
			return true
		}
	}
	return false
}

// cell: one column of a row as text (NULL apart from every value).
func cell(r pred.Row, col string) string {
	switch col {
	case "id":
		return fmt.Sprint(r.ID)
	case "a":
		return fmt.Sprint(r.A)
	case "mark":
		return fmt.Sprint(r.Mark)
	case "s":
		return fmt.Sprintf("%q", r.S)
	case "b":
		if r.B == nil {
			return "NULL"
		}
		return fmt.Sprint(*r.B)
	case "t":
		if r.T == nil {
			return "NULL"
		}
		return fmt.Sprintf("%q", *r.T)
	}
	panic("column " + col)
}

// project: the row with the selected columns only.
func (s selSpec) project(r pred.Row) pred.Row {
	var o pred.Row
	for _, c := range s.cols {
		switch c {
		case "id":
			o.ID = r.ID
		case "a":
			o.A = r.A
		case "b":
			o.B = r.B
		case "s":
			o.S = r.S
		case "t":
			o.T = r.T
		case "mark":
			o.Mark = r.Mark
		}
	}
	return o
}

func (s selSpec) line(r pred.Row) string {
	parts := make([]string, len(s.cols))
	for i, c := range s.cols {
		parts[i] = c + ":" + cell(r, c)
	}
	return "{" + strings.Join(parts, " ") + "}"
}

func (s selSpec) lines(rows []pred.Row) []string {
	out := make([]string, len(rows))
	for i, r := range rows {
		out[i] = s.line(r)
	}
	return out
}

// mapCell: what a map destination holds for a column, as text.
func mapCell(v interface{}, col string) (string, error) {
	for i := 0; i < 2; i++ {
		switch x := v.(type) {
		case *interface{}:
			if x == nil {
				v = nil
			} else {
				v = *x
			}
		case *int64:
			if x == nil {
				v = nil
			} else {
				v = *x
			}
		case *string:
			if x == nil {
				v = nil
			} else {
				v = *x
			}
		}
	}
	switch x := v.(type) {
	case nil:
		return "NULL", nil
	case int64:
		return fmt.Sprint(x), nil
	case int:
		return fmt.Sprint(x), nil
	case string:
		if col == "s" || col == "t" {
			return fmt.Sprintf("%q", x), nil
		}
	case []byte:
		if col == "s" || col == "t" {
			return fmt.Sprintf("%q", string(x)), nil
		}
	}
	return "", fmt.Errorf("column %s came back as %T %v", col, v, v)
}

// cmpLines compares what a path delivered with the reference (in order when the chain fixes one).
func (k *checker) cmpLines(path string, got, want []string) {
	if k.cc.order == "" {
		got, want = append([]string(nil), got...), append([]string(nil), want...)
		sort.Strings(got)
		sort.Strings(want)
	}
	if len(got) != len(want) || strings.Join(got, "\x00") != strings.Join(want, "\x00") {
		k.add("%s returned %v, the reference rows hold %v", path, got, want)
	}
}

// structLines: rows read into the model's struct; a column that was not selected must be zero.
func (k *checker) structLines(path string, s selSpec, got []pred.Row) []string {
	for _, r := range got {
		if !rowEq(r, s.project(r)) {
			k.add("%s: a column that is not selected holds a value: %s mark:%d", path, r, r.Mark)
			break
		}
	}
	return s.lines(got)
}

func (k *checker) selOps(cc chain, s selSpec, want, matching []pred.Row) []rop {
	wl := s.lines(want)
	ops := []rop{
		{"h.Find(&[]Row)", func(h *gorm.DB) {
			var a []pred.Row
			res := h.Find(&a)
			if res.Error != nil {
				k.add("Find error %v", res.Error)
				return
			}
			k.cmpLines("Find(&[]Row)", k.structLines("Find(&[]Row)", s, a), wl)
			if res.RowsAffected != int64(len(a)) {
				k.add("Find RowsAffected=%d, %d rows returned", res.RowsAffected, len(a))
			}
		}},
		{"h.Find(&[]*Row)", func(h *gorm.DB) {
			var a []*pred.Row
			res := h.Find(&a)
			if res.Error != nil {
				k.add("Find(&[]*Row) error %v", res.Error)
				return
			}
			b := make([]pred.Row, len(a))
			for i, p := range a {
				b[i] = *p
			}
			k.cmpLines("Find(&[]*Row)", k.structLines("Find(&[]*Row)", s, b), wl)
			if res.RowsAffected != int64(len(a)) {
				k.add("Find(&[]*Row) RowsAffected=%d, %d rows returned", res.RowsAffected, len(a))
			}
		}},
		{"h.Find(&[]map)", func(h *gorm.DB) {
			var ms []map[string]interface{}
			res := h.Find(&ms)
			if res.Error != nil {
				k.add("Find(&[]map) error %v", res.Error)
				return
			}
			got := make([]string, len(ms))
			for i, m := range ms {
				parts := make([]string, len(s.cols))
				for j, c := range s.cols {
					v, ok := m[c]
					if !ok {
						k.add("Find(&[]map): row %d lacks the selected column %q (keys %d)", i+1, c, len(m))
						return
					}
					t, err := mapCell(v, c)
					if err != nil {
						k.add("Find(&[]map): %v", err)
						return
					}
					parts[j] = c + ":" + t
				}
				got[i] = "{" + strings.Join(parts, " ") + "}"
			}
			k.cmpLines("Find(&[]map)", got, wl)
			if res.RowsAffected != int64(len(ms)) {
				k.add("Find(&[]map) RowsAffected=%d, %d rows", res.RowsAffected, len(ms))
			}
		}},
		{"h.Scan(&[]Row)", func(h *gorm.DB) {
			var a []pred.Row
			res := h.Scan(&a)
			if res.Error != nil {
				k.add("Scan error %v", res.Error)
				return
			}
			k.cmpLines("Scan(&[]Row)", k.structLines("Scan(&[]Row)", s, a), wl)
			if res.RowsAffected != int64(len(a)) {
				k.add("Scan RowsAffected=%d, %d rows", res.RowsAffected, len(a))
			}
		}},
		{"h.Rows() + ScanRows", func(h *gorm.DB) {
			rows, err := h.Rows()
			if err != nil {
				k.add("Rows error %v", err)
				return
			}
			var a []pred.Row
			for rows.Next() {
				var r pred.Row
				if e := H.DB.ScanRows(rows, &r); e != nil {
					k.add("ScanRows error %v", e)
					break
				}
				a = append(a, r)
			}
			rows.Close()
			k.cmpLines("Rows+ScanRows", k.structLines("Rows+ScanRows", s, a), wl)
		}},
	}
	// Pluck of each selected column: the column of the rows Find returns
	for _, col := range s.cols {
		col := col
		w := make([]string, len(want))
		for i, r := range want {
			w[i] = cell(r, col)
		}
		name := fmt.Sprintf("h.Pluck(%q, &[]T)", col)
		ops = append(ops, rop{name, func(h *gorm.DB) {
			var got []string
			var res *gorm.DB
			switch {
			case col == "s":
				var d []string
				res = h.Pluck(col, &d)
				for _, x := range d {
					got = append(got, fmt.Sprintf("%q", x))
				}
			case col == "t":
				var d []sql.NullString
				res = h.Pluck(col, &d)
				for _, x := range d {
					if !x.Valid {
						got = append(got, "NULL")
					} else {
						got = append(got, fmt.Sprintf("%q", x.String))
					}
				}
			case col == "b":
				var d []sql.NullInt64
				res = h.Pluck(col, &d)
				for _, x := range d {
					if !x.Valid {
						got = append(got, "NULL")
					} else {
						got = append(got, fmt.Sprint(x.Int64))
					}
				}
			default:
				var d []int64
				res = h.Pluck(col, &d)
				for _, x := range d {
					got = append(got, fmt.Sprint(x))
				}
			}
			if res.Error != nil {
				k.add("Pluck(%s) error %v", col, res.Error)
				return
			}
			k.cmpLines("Pluck("+col+")", got, w)
			if res.RowsAffected != int64(len(got)) {
				k.add("Pluck(%s) RowsAffected=%d, %d values", col, res.RowsAffected, len(got))
			}
		}})
	}
	// Count: chains without limit / offset; one selected column makes it count(column), which leaves out NULLs
	if len(cc.calls) == 0 && (len(s.cols) > 1 || (s.cols[0] != "b" && s.cols[0] != "t")) {
		ops = append(ops, rop{"h.Count(&n)", func(h *gorm.DB) {
			var n int64
			if res := h.Count(&n); res.Error != nil {
				k.add("Count error %v", res.Error)
			} else if n != int64(len(matching)) {
				k.add("Count=%d, Find returns %d rows", n, len(matching))
			}
		}})
	}
	// single-record finders: without explicit order / limit / offset
	if len(cc.calls) == 0 && cc.order == "" {
		byID := sortRows(matching, "id")
		for _, name := range []string{"First", "Last", "Take"} {
			name := name
			ops = append(ops, rop{"h." + name + "(&Row{})", func(h *gorm.DB) {
				var r pred.Row
				var x *gorm.DB
				switch name {
				case "First":
					x = h.First(&r)
				case "Last":
					x = h.Last(&r)
				default:
					x = h.Take(&r)
				}
				if len(byID) == 0 {
					if !errors.Is(x.Error, gorm.ErrRecordNotFound) {
						k.add("%s on an empty match returned error %v, want ErrRecordNotFound", name, x.Error)
					}
					return
				}
				if x.Error != nil {
					k.add("%s error %v although %d rows match", name, x.Error, len(byID))
					return
				}
				if x.RowsAffected != 1 {
					k.add("%s RowsAffected=%d", name, x.RowsAffected)
				}
				got := k.structLines(name, s, []pred.Row{r})[0]
				switch name {
				case "First":
					if got != s.line(byID[0]) {
						k.add("First returned %s, the lowest key match holds %s", got, s.line(byID[0]))
					}
				case "Last":
					if got != s.line(byID[len(byID)-1]) {
						k.add("Last returned %s, the highest key match holds %s", got, s.line(byID[len(byID)-1]))
					}
				default:
					found := false
					for _, m := range byID {
						found = found || got == s.line(m)
					}
					if !found {
						k.add("Take returned %s which no matching row holds", got)
					}
				}
			}})
		}
	}
	// FindInBatches: the key must be among the selected columns (it is the cursor), primary-key order
	if s.has("id") && (cc.order == "" || cc.order == "id") && !cc.scopeWindow {
		bs := k.r.Range(1, len(want)+2)
		pw := make([]pred.Row, 0, len(want))
		for _, r := range sortRows(want, "id") {
			pw = append(pw, s.project(r))
		}
		ops = append(ops, rop{fmt.Sprintf("h.FindInBatches(&[]Row, %d, cb)", bs), func(h *gorm.DB) {
			k.batchesOn(h, bs, pw, "val")
		}})
	}
	return ops
}

// selKinds: a reusable handle of the chain (as in reuse.go), or the chain value itself, executed once.
var selKinds = []string{"session", "ctx", "debug", "session-of-session", "session", "once"}

func (k *checker) selected(want, matching []pred.Row) {
	r := k.r
	cc := k.cc
	perm := r.Perm(len(selColumns))
	n := 1 + r.Intn(len(selColumns))
	if r.Chance(1, 2) {
		n = r.Range(2, 3)
	}
	s := selSpec{form: selForms[r.Intn(len(selForms))], first: r.Bool()}
	for _, i := range perm[:n] {
		s.cols = append(s.cols, selColumns[i])
	}
	kind := selKinds[r.Intn(len(selKinds))]
	mk := func() *gorm.DB {
		h := H.DB.Session(&gorm.Session{}).Model(&pred.Row{})
		if s.first {
			h = cc.build(s.apply(h))
		} else {
			h = s.apply(cc.build(h))
		}
		switch kind {
		case "session":
			h = h.Session(&gorm.Session{})
		case "ctx":
			h = h.WithContext(context.Background())
		case "debug":
			h = h.Debug()
		case "session-of-session":
			h = h.Session(&gorm.Session{}).Session(&gorm.Session{})
		}
		return h
	}
	what := "db.Model(&Row{})"
	if s.first {
		what = strings.Replace(cc.desc(), "db", what+"."+s.desc(), 1)
	} else {
		what = strings.Replace(cc.desc(), "db", what, 1) + "." + s.desc()
	}
	what = "h := " + what
	switch kind {
	case "session":
		what += ".Session(&gorm.Session{})"
	case "ctx":
		what += ".WithContext(ctx)"
	case "debug":
		what += ".Debug()"
	case "session-of-session":
		what += ".Session(&gorm.Session{}).Session(&gorm.Session{})"
	}
	all := k.selOps(cc, s, want, matching)
	var plucks []rop
	for _, op := range all {
		if strings.HasPrefix(op.name, "h.Pluck") {
			plucks = append(plucks, op)
		}
	}
	steps := r.Range(2, 5)
	if kind == "once" {
		// a chain value is executed once
		steps = 1
	}
	var ops []rop
	for ; steps > 0; steps-- {
		if r.Chance(1, 3) {
			ops = append(ops, plucks[r.Intn(len(plucks))])
		} else {
			ops = append(ops, all[r.Intn(len(all))])
		}
	}

	h := mk()
	var seq []string
	ok := true
	for i, op := range ops {
		seq = append(seq, op.name)
		probs := k.collect(func() { op.run(h) })
		if len(probs) == 0 {
			continue
		}
		ok = false
		msg := fmt.Sprintf("%s; %s: the last step: %s", what, strings.Join(seq, "; "), strings.Join(probs, " | "))
		if i > 0 && len(k.collect(func() { op.run(mk()) })) == 0 {
			k.selReused = append(k.selReused, msg+" [the same step as the first one on a handle built the same way agrees with the reference]")
		} else {
			k.selCols = append(k.selCols, msg)
		}
		// after a disagreement what the handle holds is unknown
		break
	}
	k.c.Inc("selected_column_sequences")
	k.c.Inc("selected_column_sequences_on_" + kind)
	k.c.Inc(fmt.Sprintf("selected_column_sequences_with_%d_columns", len(s.cols)))
	k.c.Add("selected_column_steps", len(ops))
	if ok && len(want) > 0 {
		k.c.Shape("select", kind, s.form, len(s.cols), s.first, strings.SplitN(ops[0].name, "(", 2)[0], len(ops), len(cc.calls) > 0, cc.order != "")
	}
}

package c15

import (
	"database/sql"
	"errors"
	"fmt"

	"gorm.io/gorm"

	"verif/core"
)

// ---- re-reading a record by the key it carries (single and composite primary keys) ---------------------------

// CK has a two-part key; several rows share each part, so a comparison of one key part against the other part's
// column, or of one part only, selects the wrong rows.
type CK struct {
	ID  int64  `gorm:"primaryKey;autoIncrement:false"`
	Loc string `gorm:"primaryKey"`
	V   string
}

func (CK) TableName() string { return "rwk" }

// Blobby has a nullable BLOB column: NULL, zero-length and non-empty values must look the same on every read path.
type Blobby struct {
	ID   int64 `gorm:"primaryKey"`
	Data []byte
	N    sql.NullInt64
}

func (Blobby) TableName() string { return "blobs" }

var extraReady bool

func extraInit() {
	if extraReady {
		return
	}
	if err := H.DB.AutoMigrate(&CK{}, &Blobby{}); err != nil {
		panic(err)
	}
	extraReady = true
}

func rereadByKey(c *core.Ctx) {
	extraInit()
	r := c.R
	if _, err := H.SQL.Exec("DELETE FROM rwk"); err != nil {
		panic(err)
	}
	locs := []string{"de", "en", "fr", "1", "2"}
	present := map[string]bool{}
	var keys []CK
	for id := int64(1); id <= 3; id++ {
		for _, l := range locs {
			if r.Intn(3) > 0 {
				k := CK{ID: id, Loc: l, V: fmt.Sprintf("v%d%s", id, l)}
				if _, err := H.SQL.Exec("INSERT INTO rwk(id,loc,v) VALUES (?,?,?)", k.ID, k.Loc, k.V); err != nil {
					panic(err)
				}
				present[fmt.Sprintf("%d/%s", k.ID, k.Loc)] = true
				keys = append(keys, k)
			}
		}
	}
	var problems []string
	add := func(f string, a ...interface{}) { problems = append(problems, fmt.Sprintf(f, a...)) }
	for t := 0; t < 4; t++ {
		k := CK{ID: int64(1 + r.Intn(3)), Loc: core.Pick(r, locs)}
		want := present[fmt.Sprintf("%d/%s", k.ID, k.Loc)]
		wantV := fmt.Sprintf("v%d%s", k.ID, k.Loc)
		root := H.DB.Session(&gorm.Session{})
		for _, path := range []string{"First", "Take", "Last", "Find", "Model.Scan", "Model.Rows"} {
			rec := k
			var res *gorm.DB
			var gotV string
			n := int64(-1)
			switch path {
			case "First":
				res = root.First(&rec)
				gotV = rec.V
			case "Take":
				res = root.Take(&rec)
				gotV = rec.V
			case "Last":
				res = root.Last(&rec)
				gotV = rec.V
			case "Find":
				res = root.Find(&rec)
				gotV, n = rec.V, res.RowsAffected
			case "Model.Scan":
				var out []CK
				res = root.Model(&rec).Scan(&out)
				n = int64(len(out))
				if len(out) > 0 {
					gotV = out[0].V
				}
			case "Model.Rows":
				q := root.Model(&rec)
				rows, err := q.Rows()
				res = q
				if err != nil {
					add("%s with key (%d,%q): %v", path, k.ID, k.Loc, err)
					continue
				}
				n = 0
				for rows.Next() {
					var o CK
					if e := q.ScanRows(rows, &o); e != nil {
						add("%s: %v", path, e)
					}
					gotV = o.V
					n++
				}
				rows.Close()
			}
			single := path == "First" || path == "Take" || path == "Last"
			switch {
			case single && want && (res.Error != nil || gotV != wantV):
				add("%s(&CK{ID:%d, Loc:%q}) returned (%q, %v), the row with that key holds %q", path, k.ID, k.Loc, gotV, res.Error, wantV)
			case single && !want && !errors.Is(res.Error, gorm.ErrRecordNotFound):
				add("%s(&CK{ID:%d, Loc:%q}) returned error %v (v %q), no row has that key: want ErrRecordNotFound", path, k.ID, k.Loc, res.Error, gotV)
			case !single && res.Error != nil:
				add("%s with key (%d,%q): %v", path, k.ID, k.Loc, res.Error)
			case !single && want && (n != 1 || gotV != wantV):
				add("%s of a record carrying the key (%d,%q) returned %d rows (%q), the row with that key holds %q", path, k.ID, k.Loc, n, gotV, wantV)
			case !single && !want && n != 0:
				add("%s of a record carrying the key (%d,%q) returned %d rows, no row has that key", path, k.ID, k.Loc, n)
			}
		}
	}
	c.Inc("records_reread_by_composite_key")
	if len(problems) > 0 {
		c.Violation("reread-by-key", map[string]interface{}{"problems": problems, "rows": fmt.Sprintf("%v", keys)})
	} else {
		c.Shape("reread", len(keys))
	}
}

// nullableBlob: a NULL, a zero-length and a non-empty BLOB (and a NULL / non-NULL integer) read through structs, maps
// bound to the model, maps without a model (Table, Raw), Take into one map, Scan and Rows+ScanRows: NULL is nil on
// every path and nothing else is.
func nullableBlob(c *core.Ctx) {
	extraInit()
	r := c.R
	if _, err := H.SQL.Exec("DELETE FROM blobs"); err != nil {
		panic(err)
	}
	type rowT struct {
		null bool
		data []byte
		n    sql.NullInt64
	}
	var want []rowT
	for id := 1; id <= 4; id++ {
		var rt rowT
		switch r.Intn(3) {
		case 0:
			rt.null = true
		case 1:
			rt.data = []byte{}
		default:
			rt.data = []byte(fmt.Sprintf("b%d", id))
		}
		if r.Bool() {
			rt.n = sql.NullInt64{Int64: int64(id * 10), Valid: true}
		}
		var d interface{}
		if !rt.null {
			d = rt.data
		}
		var n interface{}
		if rt.n.Valid {
			n = rt.n.Int64
		}
		if _, err := H.SQL.Exec("INSERT INTO blobs(id,data,n) VALUES (?,?,?)", id, d, n); err != nil {
			panic(err)
		}
		want = append(want, rt)
	}
	var problems []string
	add := func(f string, a ...interface{}) { problems = append(problems, fmt.Sprintf(f, a...)) }
	root := H.DB.Session(&gorm.Session{})
	asBytes := func(v interface{}) (b []byte, isNil bool, ok bool) {
		switch x := v.(type) {
		case nil:
			return nil, true, true
		case []byte:
			return x, x == nil, true
		case string:
			return []byte(x), false, true
		case *[]byte:
			if x == nil {
				return nil, true, true
			}
			return *x, *x == nil, true
		case sql.RawBytes:
			return []byte(x), x == nil, true
		case *sql.RawBytes:
			if x == nil {
				return nil, true, true
			}
			return []byte(*x), *x == nil, true
		case *interface{}:
			if x == nil || *x == nil {
				return nil, true, true
			}
			return asBytesPlain(*x)
		}
		return nil, false, false
	}
	checkMaps := func(path string, ms []map[string]interface{}, err error) {
		if err != nil {
			add("%s: %v", path, err)
			return
		}
		if len(ms) != len(want) {
			add("%s returned %d rows, want %d", path, len(ms), len(want))
			return
		}
		for i, m := range ms {
			b, isNil, ok := asBytes(m["data"])
			if !ok {
				add("%s row %d: data came back as %T", path, i+1, m["data"])
				continue
			}
			if isNil != want[i].null {
				add("%s row %d: data is NULL in the table: %v, came back nil: %v (value %#v)", path, i+1, want[i].null, isNil, m["data"])
			} else if !isNil && string(b) != string(want[i].data) {
				add("%s row %d: data %q, the table holds %q", path, i+1, b, want[i].data)
			}
			nv := m["n"]
			if p, isPtr := nv.(*interface{}); isPtr && p != nil {
				nv = *p
			}
			if (nv == nil) == want[i].n.Valid {
				add("%s row %d: n is NULL in the table: %v, came back %#v", path, i+1, !want[i].n.Valid, m["n"])
			}
		}
	}
	// structs
	var ss []Blobby
	if err := root.Order("id").Find(&ss).Error; err != nil || len(ss) != len(want) {
		add("Find(&[]Blobby): %d rows, error %v", len(ss), err)
	} else {
		for i, s := range ss {
			if (s.Data == nil) != want[i].null || string(s.Data) != string(want[i].data) || s.N != want[i].n {
				add("Find(&[]Blobby) row %d: data %#v n %v, the table holds NULL=%v %q n %v", i+1, s.Data, s.N, want[i].null, want[i].data, want[i].n)
			}
		}
	}
	var m1, m2, m3, m4 []map[string]interface{}
	checkMaps("Model(&Blobby{}).Find(&[]map)", m1, root.Model(&Blobby{}).Order("id").Find(&m1).Error)
	checkMaps(`Table("blobs").Find(&[]map)`, m2, root.Table("blobs").Order("id").Find(&m2).Error)
	checkMaps(`Raw("SELECT * FROM blobs ORDER BY id").Scan(&[]map)`, m3, root.Raw("SELECT * FROM blobs ORDER BY id").Scan(&m3).Error)
	checkMaps(`Table("blobs").Scan(&[]map)`, m4, root.Table("blobs").Order("id").Scan(&m4).Error)
	// Take into one map, row by row; Rows + ScanRows into a map
	var m5, m6 []map[string]interface{}
	var err5, err6 error
	for id := 1; id <= len(want); id++ {
		one := map[string]interface{}{}
		if e := root.Table("blobs").Where("id = ?", id).Take(&one).Error; e != nil {
			err5 = e
		}
		m5 = append(m5, one)
	}
	checkMaps(`Table("blobs").Where(id).Take(&map)`, m5, err5)
	q := root.Table("blobs").Order("id")
	if rows, e := q.Rows(); e != nil {
		err6 = e
	} else {
		for rows.Next() {
			one := map[string]interface{}{}
			if e := q.ScanRows(rows, &one); e != nil {
				err6 = e
			}
			m6 = append(m6, one)
		}
		rows.Close()
	}
	checkMaps(`Table("blobs").Rows() + ScanRows(&map)`, m6, err6)
	c.Inc("nullable_blob_tables_read_on_every_path")
	if len(problems) > 0 {
		c.Violation("nullable-values", map[string]interface{}{"problems": problems})
	}
}

func asBytesPlain(v interface{}) ([]byte, bool, bool) {
	switch x := v.(type) {
	case nil:
		return nil, true, true
	case []byte:
		return x, x == nil, true
	case string:
		return []byte(x), false, true
	}
	return nil, false, false
}

package c15

import (
	"context"
	"database/sql"
	"errors"
	"fmt"
	"strings"

	"gorm.io/gorm"

	"verif/pred"
)

// ---- several read paths, one after another, on ONE handle -----------------------------------------------------
//
// An application builds a chain once and makes a handle of it that may be used again
// (h := db.Model(&Row{}).Where(..).Order(..).Limit(..).Session(&gorm.Session{}), or WithContext / Debug of the chain)
// and reads it more than once: a Row() to peek, Count for the pager, Find for the page, Rows to stream, Pluck,
// First / Last / Take, FindInBatches. 2..5 read paths are run in a random sequence on the handle; every step
// reports what the same step reports on a handle of its own: the rows of the reference.
//
// A chain value itself (no Session / WithContext behind it) executed more than once is documented misuse and is
// not generated.

// rop is one read path, run on a given handle; problems go to k.problems (collected by the caller).
type rop struct {
	name string
	run  func(h *gorm.DB)
}

// rowIDA is a destination with two of the model's columns.
type rowIDA struct {
	ID int64
	A  int64
}

const smallFind = "h.Find(&[]struct{ID, A})"

// rowOf reads the one row Row() delivers (SELECT *: the columns in table order).
func rowOf(row *sql.Row) (pred.Row, error) {
	var r pred.Row
	var b sql.NullInt64
	var t sql.NullString
	if row == nil {
		return r, errors.New("Row() returned nil")
	}
	if err := row.Scan(&r.ID, &r.A, &b, &r.S, &t, &r.Mark); err != nil {
		return r, err
	}
	if b.Valid {
		r.B = &b.Int64
	}
	if t.Valid {
		r.T = &t.String
	}
	return r, nil
}

func (k *checker) collect(f func()) []string {
	saved := k.problems
	k.problems = nil
	func() {
		// a panic inside one step is that step's result (the case goes on)
		defer func() {
			if p := recover(); p != nil {
				k.add("%s%v", panicked, p)
			}
		}()
		f()
	}()
	out := k.problems
	k.problems = saved
	return out
}

const panicked = "PANIC: "

func (k *checker) reuseOps(cc chain, want, matching []pred.Row) (clean, last []rop) {
	clean = []rop{
		{"h.Row().Scan(cols...)", func(h *gorm.DB) {
			got, err := rowOf(h.Row())
			switch {
			case len(want) == 0 && !errors.Is(err, sql.ErrNoRows):
				k.add("Row() delivered a row (id %d, error %v), the chain selects no row (Find returns none): want sql.ErrNoRows", got.ID, err)
			case len(want) == 0:
			case err != nil:
				k.add("Row() error %v, the chain selects %d rows", err, len(want))
			case cc.order != "" && !rowEq(got, want[0]):
				k.add("Row() delivered %s, the first row of the chain is %s", got, want[0])
			case cc.order == "":
				found := false
				for _, w := range want {
					found = found || rowEq(got, w)
				}
				if !found {
					k.add("Row() delivered %s, which is not a row of the chain (ids %v)", got, ids(want))
				}
			}
		}},
		{"h.Rows() + ScanRows", func(h *gorm.DB) {
			rows, err := h.Rows()
			if err != nil {
				k.add("Rows error %v", err)
				return
			}
			var b []pred.Row
			var r pred.Row
			for rows.Next() {
				if e := H.DB.ScanRows(rows, &r); e != nil {
					k.add("ScanRows error %v", e)
					break
				}
				b = append(b, r)
			}
			rows.Close()
			k.cmpRows("Rows+ScanRows", b, want)
		}},
		{"h.Find(&[]Row)", func(h *gorm.DB) {
			var a []pred.Row
			if res := h.Find(&a); res.Error != nil {
				k.add("Find error %v", res.Error)
			} else {
				k.cmpRows("Find(&[]Row)", a, want)
				if res.RowsAffected != int64(len(a)) {
					k.add("Find RowsAffected=%d, %d rows returned", res.RowsAffected, len(a))
				}
			}
		}},
		{"h.Find(&[]map)", func(h *gorm.DB) {
			var ms []map[string]interface{}
			if res := h.Find(&ms); res.Error != nil {
				k.add("Find(&[]map) error %v", res.Error)
			} else {
				b, err := mapsToRows(ms)
				if err != nil {
					k.add("Find(&[]map): %v", err)
				}
				k.cmpRows("Find(&[]map)", b, want)
				if res.RowsAffected != int64(len(ms)) {
					k.add("Find(&[]map) RowsAffected=%d, %d rows", res.RowsAffected, len(ms))
				}
			}
		}},
		{"h.Scan(&[]Row)", func(h *gorm.DB) {
			var sc []pred.Row
			if res := h.Scan(&sc); res.Error != nil {
				k.add("Scan error %v", res.Error)
			} else {
				k.cmpRows("Scan(&[]Row)", sc, want)
				if res.RowsAffected != int64(len(sc)) {
					k.add("Scan RowsAffected=%d, %d rows", res.RowsAffected, len(sc))
				}
			}
		}},
	}
	// a struct that holds some of the columns only (gorm then selects just these): ids and a are compared
	clean = append(clean, rop{smallFind, func(h *gorm.DB) {
		var sm []rowIDA
		res := h.Find(&sm)
		if res.Error != nil {
			k.add("Find(&[]struct{ID, A}) error %v", res.Error)
			return
		}
		got := make([]pred.Row, len(sm))
		w := make([]pred.Row, len(want))
		for i, x := range sm {
			got[i] = pred.Row{ID: x.ID, A: x.A}
		}
		for i, x := range want {
			w[i] = pred.Row{ID: x.ID, A: x.A}
		}
		k.cmpRows("Find(&[]struct{ID, A})", got, w)
		if res.RowsAffected != int64(len(sm)) {
			k.add("Find(&[]struct{ID, A}) RowsAffected=%d, %d rows returned", res.RowsAffected, len(sm))
		}
	}})
	// Count: only without limit/offset (statement); what the handle Count returns holds after a scope handed back a
	// new session is not fixed, the count itself is
	if len(cc.calls) == 0 {
		clean = append(clean, rop{"h.Count(&n)", func(h *gorm.DB) {
			var n int64
			if res := h.Count(&n); res.Error != nil {
				k.add("Count error %v", res.Error)
			} else if n != int64(len(matching)) {
				k.add("Count=%d, Find returns %d rows", n, len(matching))
			}
		}})
	}
	last = append(last, rop{`h.Pluck("id", &[]int64)`, func(h *gorm.DB) {
		var pid []int64
		res := h.Pluck("id", &pid)
		if res.Error != nil {
			k.add("Pluck(id) error %v", res.Error)
			return
		}
		g, w := pid, ids(want)
		if cc.order == "" {
			g, w = pred.SortIDs(append([]int64(nil), pid...)), pred.SortIDs(w)
		}
		if !pred.IDsEqual(g, w) {
			k.add("Pluck(id) %v, reference %v", g, w)
		}
		if res.RowsAffected != int64(len(pid)) {
			k.add("Pluck RowsAffected=%d, %d values", res.RowsAffected, len(pid))
		}
	}})
	if cc.order != "" {
		last = append(last, rop{`h.Pluck("s", &[]string)`, func(h *gorm.DB) {
			var ps []string
			res := h.Pluck("s", &ps)
			if res.Error != nil {
				k.add("Pluck(s) error %v", res.Error)
				return
			}
			w := make([]string, len(want))
			for i, r := range want {
				w[i] = r.S
			}
			if len(ps) != len(w) || strings.Join(ps, "\x00") != strings.Join(w, "\x00") {
				k.add("Pluck(s) %q, reference %q", ps, w)
			}
		}})
	}
	// single-record finders: only without explicit order/limit/offset (statement)
	if len(cc.calls) == 0 && cc.order == "" {
		byID := sortRows(matching, "id")
		for _, name := range []string{"First", "Last", "Take"} {
			name := name
			last = append(last, rop{"h." + name + "(&Row{})", func(h *gorm.DB) {
				var r pred.Row
				var x *gorm.DB
				switch name {
				case "First":
					x = h.First(&r)
				case "Last":
					x = h.Last(&r)
				default:
					x = h.Take(&r)
				}
				if len(byID) == 0 {
					if !errors.Is(x.Error, gorm.ErrRecordNotFound) {
						k.add("%s on an empty match returned error %v (id %d), want ErrRecordNotFound", name, x.Error, r.ID)
					}
					return
				}
				if x.Error != nil {
					k.add("%s error %v although %d rows match", name, x.Error, len(byID))
					return
				}
				if x.RowsAffected != 1 {
					k.add("%s RowsAffected=%d", name, x.RowsAffected)
				}
				switch name {
				case "First":
					if !rowEq(r, byID[0]) {
						k.add("First returned %s, lowest key match is %s", r, byID[0])
					}
				case "Last":
					if !rowEq(r, byID[len(byID)-1]) {
						k.add("Last returned %s, highest key match is %s", r, byID[len(byID)-1])
					}
				default:
					found := false
					for _, m := range byID {
						found = found || rowEq(r, m)
					}
					if !found {
						k.add("Take returned %s which is not a matching row", r)
					}
				}
			}})
		}
	}
	// FindInBatches: primary-key order only, Limit/Offset on the chain itself
	if (cc.order == "" || cc.order == "id") && !cc.scopeWindow {
		bs := k.r.Range(1, len(want)+2)
		last = append(last, rop{fmt.Sprintf("h.FindInBatches(&[]Row, %d, cb)", bs), func(h *gorm.DB) {
			k.batchesOn(h, bs, sortRows(want, "id"), "val")
		}})
	}
	return clean, last
}

// reuseKinds: the ways an application makes a handle that may be used again from a chain.
var reuseKinds = []string{"session", "ctx", "debug", "session-of-session"}

func (k *checker) reused(want, matching []pred.Row) {
	r := k.r
	kind := reuseKinds[r.Intn(len(reuseKinds))]
	cc := k.cc
	mk := func() *gorm.DB {
		h := cc.build(H.DB.Session(&gorm.Session{}).Model(&pred.Row{}))
		switch kind {
		case "session":
			h = h.Session(&gorm.Session{})
		case "ctx":
			h = h.WithContext(context.Background())
		case "debug":
			h = h.Debug()
		case "session-of-session":
			h = h.Session(&gorm.Session{}).Session(&gorm.Session{})
		}
		return h
	}
	what := "h := " + strings.Replace(cc.desc(), "db", "db.Model(&Row{})", 1)
	switch kind {
	case "session":
		what += ".Session(&gorm.Session{})"
	case "ctx":
		what += ".WithContext(ctx)"
	case "debug":
		what += ".Debug()"
	case "session-of-session":
		what += ".Session(&gorm.Session{}).Session(&gorm.Session{})"
	}
	clean, last := k.reuseOps(cc, want, matching)
	// a reusable handle gives every finisher a statement of its own: any read path at any position
	all := append(append([]rop(nil), clean...), last...)
	var ops []rop
	for n := r.Range(2, 5); n > 0; n-- {
		if r.Chance(2, 3) {
			ops = append(ops, clean[r.Intn(len(clean))])
		} else {
			ops = append(ops, all[r.Intn(len(all))])
		}
	}

	saved := k.cc
	k.cc = cc
	defer func() { k.cc = saved }()

	h := mk()
	var seq []string
	ok := true
	for i, op := range ops {
		seq = append(seq, op.name)
		probs := k.collect(func() { op.run(h) })
		if len(probs) == 0 {
			continue
		}
		ok = false
		msg := fmt.Sprintf("%s; %s: the last step: %s", what, strings.Join(seq, "; "), strings.Join(probs, " | "))
		// the same step on a handle of its own
		alone := k.collect(func() { op.run(mk()) })
		switch {
		case i > 0 && len(alone) == 0:
			k.reusedHandle = append(k.reusedHandle, msg+" [the same step as the first one on a handle built the same way agrees with the reference]")
		case strings.HasPrefix(op.name, "h.Row()"):
			k.rowDiffers = append(k.rowDiffers, msg)
		default:
			k.problems = append(k.problems, msg)
		}
		// after a disagreement what the handle holds is unknown
		break
	}
	k.c.Inc("reused_handle_sequences")
	k.c.Inc("reused_handle_sequences_on_" + kind)
	k.c.Add("reused_handle_steps", len(ops))
	if ok && len(want) > 0 {
		k.c.Shape("reuse", kind, ops[0].name, len(ops), strings.SplitN(ops[len(ops)-1].name, "(", 2)[0], len(cc.calls), cc.order)
	}
}

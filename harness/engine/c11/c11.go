// Package c11: eager loading attaches to each record exactly its own associated rows.
//
// Oracle: a reference join over the in-memory copy of the rows the harness inserted with raw
// SQL. Five worlds of one relation family (single string key, single integer key, composite
// string+string, integer+string, integer+integer) with key values hostile to a string
// identity; every Preload / Joins / Association().Find result is compared record by record
// (scalar columns and, recursively, every relation field: requested relations must hold
// exactly the reference rows, unrequested ones must stay empty).
//
// Beyond the key contents the workload varies: the ORDER of the columns of every model (a
// nullable column, the soft-delete column or an embedded audit struct in front of the row
// identity, see models.go), the destination (fresh, or REUSED: a struct / slice that already
// holds earlier records with arbitrary rows in their relation fields), the finisher for a struct
// destination (First | Take | Last | Find), the handle (fresh chain, or second execution of a
// chain frozen with Session), the soft-delete scope (in force, lifted for the whole query by
// Unscoped(), or lifted for one preloaded relation by a scope function) and the parent value of
// Association().Find (one record, or a slice of 1-4 records - duplicates and soft-deleted rows
// included - whose keys share parts crosswise).
//
// Every Node also carries a second, non-primary unique key K and relations that reference K instead
// of the primary key (has-many / belongs-to in all worlds, polymorphic has-many / has-one with
// `foreignKey:K` in the single-key worlds); K values are preferably the primary key of another node.
// Joins operations carry 1-8 association joins; a quarter of all operations are derived from a
// SHARED handle: the first steps of the chain are frozen with Session(&gorm.Session{}) and two
// queries are derived from that handle - the compared one and a sibling adding joins / preloads /
// conditions of its own (same relations under other conditions included), derived before or after
// it and executed before it or not at all.
//
// A third root model, Org (5 of 16 operations), has relations inside EMBEDDED structs (models.go): a
// belongs-to Home of its own and belongs-to relations of the same name in a named embedded struct and
// in a second one embedded in the first, has-many / has-one with names unique in the model on the
// embedded levels, relations in anonymously embedded structs (S1), value / pointer embedding and
// every declaration order. Preload names them by their embedded path, Joins / Association().Find /
// sometimes Preload by the plain name; Preload(clause.Associations) must load all of them.
//
// Call order: a quarter of the Preload directives are the LAST of 2-3 Preload calls of the chain for
// the same name (earlier calls under other conditions or none, at the start of the chain or right
// before: only the last call counts), some Preload calls are made by a db.Scopes function, about a third
// of the conditions are DISJUNCTIONS of two alternatives on v (scope function tx.Where(a).Or(b), grouped
// tx.Where(db.Where(a).Or(b)), inline "a OR b": the children attached are those satisfying (a OR b), the
// key condition and the soft-delete scope - soft-deleted children matching only the first alternative
// included in the data), and a
// quarter of the Association().Find calls go through Association(rel).Unscoped() (same rows expected:
// the soft-delete scope is the handle's).
package c11

import (
	"errors"
	"fmt"
	"reflect"
	"runtime/debug"
	"sort"
	"strings"

	"gorm.io/gorm"
	"gorm.io/gorm/clause"

	"verif/core"
)

// ---- what an operation asks gorm to load ---------------------------------------------

type loadNode struct {
	c    *cond
	kids map[string]*loadNode
	// conditions of earlier Preload calls for the same name that the last call replaced (only to measure
	// whether they would have made a difference; never part of the expectation)
	prior []priorCall
}

func (n *loadNode) child(name string) *loadNode {
	if n.kids == nil {
		n.kids = map[string]*loadNode{}
	}
	k := n.kids[name]
	if k == nil {
		k = &loadNode{}
		n.kids[name] = k
	}
	return k
}

// dir is one Preload / Joins directive. path is the CANONICAL relation path (relation names as in the
// reference model, an embedded relation by its embedded path); what gorm is given is gormArg.
type dir struct {
	path  string
	c     *cond
	inner bool
	plain bool // Preload: the first relation is addressed by its plain name (embedded relation with a unique name)
	// Preload: EARLIER Preload calls of the same chain that name the same relation (same argument) under
	// other conditions or none; the last call (this directive) decides, the earlier ones must not show
	prior []priorCall
	// Preload: the call is made by a function registered with db.Scopes (it runs when the query is executed);
	// never for a name the chain preloads more than once
	scoped bool
}

// priorCall is a Preload call that a later call of the same chain for the same name replaces.
type priorCall struct {
	c     *cond // nil: without conditions
	early bool  // made at the very start of the chain (else immediately before the call that replaces it)
}

// gormArg is the path as handed to gorm: Joins (and Preload with plain set) name the first relation
// by its plain name, Preload by its embedded path.
func gormArg(root *model, path string, plain bool) string {
	first := splitPath(root, path)[0]
	if plain && first.plain() != "" {
		return first.plain() + strings.TrimPrefix(path, first.name)
	}
	return path
}

type op struct {
	kind     string // preload | assoc-all | joins | assoc-find
	root     *model
	dest     string // struct | slice | ptrslice
	filter   []int64
	dup      bool
	preloads []dir
	all      bool
	allCond  *cond
	allPrior []priorCall // earlier Preload(clause.Associations, ...) calls of the same chain (replaced by the last one)
	joins    []dir
	// assoc-find: Model(&parent) | Model(&[]T{parents...}) | Model(&[]*T{parents...}); parents may
	// repeat and may be soft-deleted rows (only their key values are used)
	parents  []*row
	pshape   string // struct | slice | ptrslice
	relName  string
	findCond *cond
	// assoc-find: Association(rel).Unscoped().Find(..): Unscoped() of the ASSOCIATION chooses what Delete /
	// Replace / Clear remove; the soft-delete scope of the rows Find reads stays that of the handle
	assocUnscoped bool
	// the whole query runs under Unscoped() (called first or last in the chain): the soft-delete scope
	// is lifted for the parents and for every relation loaded
	unscoped     bool
	unscopedLast bool
	// struct destinations: First | Take | Last | Find
	fin string
	// reused destination: what the destination holds BEFORE the call. struct: one element, the
	// record of the row that is read again, with arbitrary rows in its relation fields; slices:
	// arbitrary earlier records; assoc-find: arbitrary earlier rows of the relation's model
	reuse bool
	pre   []staleRec
	// the chain is frozen with Session(&gorm.Session{}) and executed twice (first into a fresh
	// destination of the same shape that is thrown away); the second execution is compared
	twice bool
	// the chain is split: its first sib.cut steps are put on ONE handle frozen with
	// Session(&gorm.Session{}), from which two chains are derived - the rest of this chain (compared)
	// and a sibling that adds joins / preloads / conditions of its own (see sibling)
	sib *sibling
}

// sibling describes a second query derived from the same frozen handle as the compared one. What
// it asks for must not show in the compared query (and the other way round), whichever of the two
// is derived first and whether or not the sibling is executed before the compared one.
type sibling struct {
	cut   int  // number of leading chain steps carried by the shared handle
	first bool // the sibling is derived BEFORE the compared chain
	exec  bool // the sibling is executed (result thrown away) before the compared chain
	// what the sibling adds to the shared handle, in this order
	joins    []dir
	preloads []dir
	filter   []int64
	unscoped bool
	// Association().Find: base := db.Model(parents).Session(..); the sibling is base.Association(relName)
	// (executed with cond when exec is set)
	relName       string
	cond          *cond
	assocUnscoped bool // the sibling is base.Association(relName).Unscoped()
}

// step is one call of a query chain.
type step struct {
	kind  string // unscoped | join | all | preload | dup | filter
	desc  string
	apply func(*gorm.DB) *gorm.DB
	prior bool // a Preload call that a later call of the chain replaces
}

func priorStep(s step) step { s.prior = true; return s }

func joinStep(root *model, d dir) step {
	fn := "Joins"
	if d.inner {
		fn = "InnerJoins"
	}
	arg := gormArg(root, d.path, true)
	desc := fmt.Sprintf(".%s(%q", fn, arg)
	if d.c != nil {
		desc += ", " + d.c.String()
	}
	return step{kind: "join", desc: desc + ")", apply: func(db *gorm.DB) *gorm.DB {
		if d.inner {
			return db.InnerJoins(arg, d.c.args()...)
		}
		return db.Joins(arg, d.c.args()...)
	}}
}

func preloadStep(root *model, d dir) step {
	arg := gormArg(root, d.path, d.plain)
	desc := fmt.Sprintf(".Preload(%q", arg)
	if d.c != nil {
		desc += ", " + d.c.String()
	}
	if d.scoped {
		return step{kind: "preload", desc: ".Scopes(func(tx *gorm.DB) *gorm.DB { return tx" + desc + ") })", apply: func(db *gorm.DB) *gorm.DB {
			return db.Scopes(func(tx *gorm.DB) *gorm.DB { return tx.Preload(arg, d.c.args()...) })
		}}
	}
	return step{kind: "preload", desc: desc + ")", apply: func(db *gorm.DB) *gorm.DB { return db.Preload(arg, d.c.args()...) }}
}

func allStep(c *cond) step {
	desc := ".Preload(clause.Associations"
	if c != nil {
		desc += ", " + c.String()
	}
	return step{kind: "all", desc: desc + ")", apply: func(db *gorm.DB) *gorm.DB { return db.Preload(clause.Associations, c.args()...) }}
}

func filterStep(table string, us []int64) step {
	return step{kind: "filter", desc: fmt.Sprintf(".Where(%s.u IN %v)", table, us), apply: func(db *gorm.DB) *gorm.DB {
		vals := make([]interface{}, len(us))
		for i, u := range us {
			vals[i] = u
		}
		return db.Where(clause.IN{Column: clause.Column{Table: clause.CurrentTable, Name: "u"}, Values: vals})
	}}
}

func unscopedStep() step {
	return step{kind: "unscoped", desc: ".Unscoped()", apply: func(db *gorm.DB) *gorm.DB { return db.Unscoped() }}
}

// steps lists the calls of the chain of a parent query in the order they are made.
func (o *op) steps() []step {
	var out []step
	if o.unscoped && !o.unscopedLast {
		out = append(out, unscopedStep())
	}
	// Preload calls that a later call for the same name replaces: at the very start of the chain ...
	for _, p := range o.allPrior {
		if p.early {
			out = append(out, priorStep(allStep(p.c)))
		}
	}
	for _, d := range o.preloads {
		for _, p := range d.prior {
			if p.early {
				out = append(out, priorStep(preloadStep(o.root, dir{path: d.path, c: p.c, plain: d.plain})))
			}
		}
	}
	for _, d := range o.joins {
		out = append(out, joinStep(o.root, d))
	}
	if o.all {
		// ... or immediately before it
		for _, p := range o.allPrior {
			if !p.early {
				out = append(out, priorStep(allStep(p.c)))
			}
		}
		out = append(out, allStep(o.allCond))
	}
	for _, d := range o.preloads {
		for _, p := range d.prior {
			if !p.early {
				out = append(out, priorStep(preloadStep(o.root, dir{path: d.path, c: p.c, plain: d.plain})))
			}
		}
		out = append(out, preloadStep(o.root, d))
	}
	if o.dup {
		out = append(out, step{kind: "dup", desc: fmt.Sprintf(`.Joins("JOIN %s ON 1 = 1")`, dupTable), apply: func(db *gorm.DB) *gorm.DB { return db.Joins("JOIN " + dupTable + " ON 1 = 1") }})
	}
	if o.filter != nil {
		out = append(out, filterStep(o.root.table, o.filter))
	}
	if o.unscoped && o.unscopedLast {
		out = append(out, unscopedStep())
	}
	return out
}

// steps lists what the sibling adds to the shared handle.
func (sb *sibling) steps(root *model) []step {
	var out []step
	for _, d := range sb.joins {
		out = append(out, joinStep(root, d))
	}
	for _, d := range sb.preloads {
		out = append(out, preloadStep(root, d))
	}
	if sb.filter != nil {
		out = append(out, filterStep(root.table, sb.filter))
	}
	if sb.unscoped {
		out = append(out, unscopedStep())
	}
	return out
}

func descOf(steps []step) string {
	var sb strings.Builder
	for _, s := range steps {
		sb.WriteString(s.desc)
	}
	return sb.String()
}

func applyAll(db *gorm.DB, steps []step) *gorm.DB {
	for _, s := range steps {
		db = s.apply(db)
	}
	return db
}

// genSibling splits the chain of o and draws a sibling query for the shared handle.
func genSibling(r *core.Rand, ds *dataset, o *op) *sibling {
	sb := &sibling{first: r.Bool(), exec: r.Bool()}
	if o.kind == "assoc-find" {
		sb.relName = core.Pick(r, addressable(o.root)).name
		if r.Bool() {
			sb.relName = o.relName
		}
		if r.Bool() || (sb.relName == o.relName && o.findCond == nil) {
			sb.cond = genCond(r, "args", "map", "args-or")
		}
		sb.assocUnscoped = r.Chance(1, 4)
		return sb
	}
	steps := o.steps()
	sb.cut = r.Range(0, len(steps))
	firstJoin := 0
	for i, s := range steps {
		if s.kind == "join" {
			firstJoin = i
			break
		}
	}
	if len(o.joins) >= 2 && r.Chance(3, 4) {
		// the shared handle carries some of the joins, the compared chain adds the others (half of the
		// time just the last one: a common handle and one more relation per query is the usual pattern)
		sb.cut = firstJoin + r.Range(1, len(o.joins)-1)
		if r.Bool() {
			sb.cut = firstJoin + len(o.joins) - 1
		}
	}
	base := map[string]bool{}
	var own []dir
	for i, d := range o.joins {
		if firstJoin+i < sb.cut {
			base[d.path] = true
		} else {
			own = append(own, d)
		}
	}
	inner := r.Chance(1, 3)
	if len(o.joins) > 0 || r.Chance(1, 4) {
		for i, n := 0, r.Range(1, 2); i < n; i++ {
			var d dir
			if d = core.Pick(r, append([]dir{{}}, own...)); d.path != "" && depthOf(o.root, d.path) == 1 && r.Bool() {
				// a relation the compared chain joins itself, under another condition (or none)
				d.c = nil
				if r.Chance(2, 3) {
					d.c = genCond(r, "join-on")
				}
			} else {
				d = dir{path: walk(r, o.root, core.Pick(r, []int{1, 1, 2, 3}), true)}
				if d.path != "" && depthOf(o.root, d.path) == 1 && r.Chance(1, 3) {
					d.c = genCond(r, "join-on")
				}
			}
			d.inner = inner
			if d.path != "" && !base[d.path] {
				sb.joins = append(sb.joins, d)
			}
		}
	}
	for i, n := 0, r.Intn(3); i < n; i++ {
		var d dir
		if len(o.preloads) > 0 && r.Bool() {
			d = dir{path: core.Pick(r, o.preloads).path}
		} else {
			d = dir{path: walk(r, o.root, r.Range(1, 2), false)}
		}
		if r.Chance(2, 3) {
			d.c = genCond(r, "args", "map", "scope", "scope-unscoped")
		}
		if d.path != "" {
			sb.preloads = append(sb.preloads, d)
		}
	}
	sb.unscoped = r.Chance(1, 6)
	if r.Bool() || (len(sb.joins) == 0 && len(sb.preloads) == 0 && !sb.unscoped) {
		sb.filter = []int64{}
		for _, rw := range ds.rows[o.root] {
			if r.Bool() {
				sb.filter = append(sb.filter, rw.u)
			}
		}
	}
	return sb
}

// baseJoins is the number of association joins carried by the shared handle when BOTH derived
// chains add a join of their own (-1 otherwise).
func (o *op) baseJoins() int {
	if o.sib == nil || len(o.sib.joins) == 0 {
		return -1
	}
	n, own := 0, 0
	for i, s := range o.steps() {
		if s.kind == "join" {
			if i < o.sib.cut {
				n++
			} else {
				own++
			}
		}
	}
	if own == 0 {
		return -1
	}
	return n
}

// staleRec is one record held by a reused destination: the scalar columns of row rw and, per
// relation field, rows that were "loaded earlier" (they may or may not still belong to rw).
type staleRec struct {
	rw   *row
	rels map[string][]*row
}

// genStale draws the earlier content of the relation fields of a record of model m: for about two
// thirds of the relations 1 (single-valued) or 1-2 rows, half of the time rows whose key still
// matches (live or soft-deleted, whatever their payload: rows that a condition or the soft-delete
// scope now excludes), else any row of the target table (the link is gone or never existed).
func genStale(r *core.Rand, ds *dataset, m *model, rw *row) staleRec {
	s := staleRec{rw: rw, rels: map[string][]*row{}}
	for _, rl := range m.rels {
		all := ds.rows[rl.target]
		if len(all) == 0 || r.Chance(1, 3) {
			continue
		}
		pool := all
		if linked := ds.linked(rl, rw); len(linked) > 0 && r.Bool() {
			pool = linked
		}
		n := 1
		if !rl.single {
			n = r.Range(1, 2)
		}
		for i := 0; i < n; i++ {
			s.rels[rl.name] = append(s.rels[rl.name], core.Pick(r, pool))
		}
	}
	return s
}

func (s staleRec) String() string {
	var names []string
	for n := range s.rels {
		names = append(names, n)
	}
	sort.Strings(names)
	parts := []string{fmt.Sprintf("<row u=%d>", s.rw.u)}
	for _, n := range names {
		parts = append(parts, fmt.Sprintf("%s: <rows u=%v>", n, usOfRowsUnsorted(s.rels[n])))
	}
	return "{" + strings.Join(parts, ", ") + "}"
}

func usOfRowsUnsorted(rows []*row) []int64 {
	out := make([]int64, len(rows))
	for i, r := range rows {
		out[i] = r.u
	}
	return out
}

// build makes the Go value of a stale record (pointer to the struct).
func (s staleRec) build(m *model) reflect.Value {
	p := fill(m, s.rw)
	for name, rows := range s.rels {
		f := fieldAt(p.Elem(), m.rel(name).goPath(), true)
		tm := m.rel(name).target
		switch f.Kind() {
		case reflect.Slice:
			sl := reflect.MakeSlice(f.Type(), 0, len(rows)+2)
			for _, rw := range rows {
				if f.Type().Elem().Kind() == reflect.Ptr {
					sl = reflect.Append(sl, fill(tm, rw))
				} else {
					sl = reflect.Append(sl, fill(tm, rw).Elem())
				}
			}
			f.Set(sl)
		case reflect.Ptr:
			f.Set(fill(tm, rows[0]))
		case reflect.Struct:
			f.Set(fill(tm, rows[0]).Elem())
		}
	}
	return p
}

func (c *cond) String() string {
	if c == nil {
		return ""
	}
	switch c.form {
	case "map":
		return fmt.Sprintf(`map[string]interface{}{"v": %d}`, c.x)
	case "scope":
		return fmt.Sprintf(`func(tx *gorm.DB) *gorm.DB { return tx.Where("v %s ?", %d) }`, c.op, c.x)
	case "scope-order":
		return fmt.Sprintf(`func(tx *gorm.DB) *gorm.DB { return tx.Where("v %s ?", %d).Order("v desc") }`, c.op, c.x)
	case "scope-unscoped":
		return fmt.Sprintf(`func(tx *gorm.DB) *gorm.DB { return tx.Unscoped().Where("v %s ?", %d) }`, c.op, c.x)
	case "scope-or":
		return fmt.Sprintf(`func(tx *gorm.DB) *gorm.DB { return tx.Where("v %s ?", %d).Or("v %s ?", %d) }`, c.op, c.x, c.op2, c.x2)
	case "scope-or-group":
		return fmt.Sprintf(`func(tx *gorm.DB) *gorm.DB { return tx.Where(tx.Session(&gorm.Session{NewDB: true}).Where("v %s ?", %d).Or("v %s ?", %d)) }`, c.op, c.x, c.op2, c.x2)
	case "args-or":
		return fmt.Sprintf(`"v %s ? OR v %s ?", %d, %d`, c.op, c.op2, c.x, c.x2)
	case "join-on":
		return fmt.Sprintf(`db.Where(clause.%s{Column: clause.Column{Table: clause.CurrentTable, Name: "v"}, Value: %d})`, map[string]string{">=": "Gte", "<": "Lt", "=": "Eq"}[c.op], c.x)
	}
	return fmt.Sprintf(`"v %s ?", %d`, c.op, c.x)
}

func (c *cond) args() []interface{} {
	if c == nil {
		return nil
	}
	q := "v " + c.op + " ?"
	x := c.x
	switch c.form {
	case "map":
		return []interface{}{map[string]interface{}{"v": x}}
	case "scope":
		return []interface{}{func(tx *gorm.DB) *gorm.DB { return tx.Where(q, x) }}
	case "scope-order":
		return []interface{}{func(tx *gorm.DB) *gorm.DB { return tx.Where(q, x).Order("v desc") }}
	case "scope-unscoped":
		return []interface{}{func(tx *gorm.DB) *gorm.DB { return tx.Unscoped().Where(q, x) }}
	case "scope-or":
		q2, x2 := "v "+c.op2+" ?", c.x2
		return []interface{}{func(tx *gorm.DB) *gorm.DB { return tx.Where(q, x).Or(q2, x2) }}
	case "scope-or-group":
		q2, x2 := "v "+c.op2+" ?", c.x2
		return []interface{}{func(tx *gorm.DB) *gorm.DB {
			return tx.Where(tx.Session(&gorm.Session{NewDB: true}).Where(q, x).Or(q2, x2))
		}}
	case "args-or":
		return []interface{}{"v " + c.op + " ? OR v " + c.op2 + " ?", x, c.x2}
	case "join-on":
		col := clause.Column{Table: clause.CurrentTable, Name: "v"}
		var e clause.Expression
		switch c.op {
		case ">=":
			e = clause.Gte{Column: col, Value: x}
		case "<":
			e = clause.Lt{Column: col, Value: x}
		default:
			e = clause.Eq{Column: col, Value: x}
		}
		return []interface{}{H.DB.Where(e)}
	}
	return []interface{}{q, x}
}

func genCond(r *core.Rand, forms ...string) *cond {
	c := &cond{form: core.Pick(r, forms), op: core.Pick(r, []string{">=", "<", "="}), x: int64(r.Range(1, 2))}
	if c.form == "map" {
		c.op = "="
	}
	if c.alt() {
		// two alternatives that are not the same condition (values of v are 0..3)
		for c.op2 == "" || (c.op2 == c.op && c.x2 == c.x) {
			c.op2, c.x2 = core.Pick(r, []string{">=", "<", "=", "="}), int64(r.Range(0, 3))
		}
	}
	return c
}

// genPrior draws the 1-2 earlier Preload calls of a chain for a name whose LAST call carries final:
// with conditions when the last call has none (the last call lifts them), else without conditions (1/3)
// or with conditions drawn independently.
func genPrior(r *core.Rand, final *cond, forms ...string) []priorCall {
	var out []priorCall
	for i, n := 0, core.Pick(r, []int{1, 1, 1, 2}); i < n; i++ {
		p := priorCall{early: r.Bool()}
		if final == nil || r.Chance(2, 3) {
			p.c = genCond(r, forms...)
		}
		out = append(out, p)
	}
	return out
}

// walk draws a relation path starting at m.
func walk(r *core.Rand, m *model, depth int, singleOnly bool, skip ...func(*rel) bool) string {
	var segs []string
	for d := 0; d < depth; d++ {
		var cands []*rel
		for _, rl := range m.rels {
			// (singleOnly: a path for Joins, whose first relation must have a plain name)
			if (!singleOnly || (rl.single && rl.plain() != "")) && !(len(skip) > 0 && skip[0](rl)) {
				cands = append(cands, rl)
			}
		}
		if len(cands) == 0 {
			break
		}
		rl := core.Pick(r, cands)
		segs = append(segs, rl.name)
		m = rl.target
	}
	return strings.Join(segs, ".")
}

func targetOf(m *model, path string) *model {
	for _, rl := range splitPath(m, path) {
		m = rl.target
	}
	return m
}

// addressable lists the relations of m that Association() can name (all of them but the embedded
// relations shadowed by an own relation of the same name).
func addressable(m *model) []*rel {
	var out []*rel
	for _, rl := range m.rels {
		if rl.plain() != "" {
			out = append(out, rl)
		}
	}
	return out
}

func commonSegments(a, b string) int {
	x, y := strings.Split(a, "."), strings.Split(b, ".")
	n := 0
	for n < len(x) && n < len(y) && x[n] == y[n] {
		n++
	}
	return n
}

func isPrefixOrEqual(p, of string) bool { return p == of || strings.HasPrefix(of, p+".") }

func liveRows(ds *dataset, m *model) []*row {
	var out []*row
	for _, rw := range ds.rows[m] {
		if ds.live(m, rw) {
			out = append(out, rw)
		}
	}
	return out
}

func genOp(r *core.Rand, ds *dataset) *op {
	w := ds.w
	o := &op{}
	o.root = w.node
	switch x := r.Intn(16); {
	case x < 3:
		o.root = w.item
	case x < 8:
		// relations in embedded structs, next to an own relation of the same name
		o.root = w.org
	}
	switch x := r.Intn(20); {
	case x < 8:
		o.kind = "preload"
	case x < 10:
		o.kind = "assoc-all"
	case x < 15:
		o.kind = "joins"
	default:
		o.kind = "assoc-find"
	}
	o.unscoped = r.Chance(1, 5)
	o.unscopedLast = o.unscoped && r.Chance(1, 3)
	// rows a parent can be drawn from: the live ones, under Unscoped() all of them
	live := liveRows(ds, o.root)
	if o.unscoped {
		live = ds.rows[o.root]
	}
	if o.kind == "assoc-find" {
		// the parents are values the caller holds: any row of the table, soft-deleted or not
		if len(ds.rows[o.root]) == 0 {
			o.root = w.node
		}
		if all := ds.rows[o.root]; len(all) == 0 {
			o.kind = "preload"
			live = nil
		} else {
			o.pshape = core.Pick(r, []string{"struct", "struct", "slice", "ptrslice"})
			n := 1
			if o.pshape != "struct" {
				n = r.Range(1, 4)
			}
			for i := 0; i < n; i++ {
				o.parents = append(o.parents, core.Pick(r, all))
			}
			o.relName = core.Pick(r, addressable(o.root)).name
			o.dest = core.Pick(r, []string{"slice", "ptrslice"})
			if r.Chance(1, 3) {
				o.findCond = genCond(r, "args", "map", "args-or")
			}
			o.assocUnscoped = r.Chance(1, 4)
			if tgt := ds.rows[o.root.rel(o.relName).target]; len(tgt) > 0 && r.Chance(1, 4) {
				o.reuse = true
				for i, n := 0, r.Range(1, 3); i < n; i++ {
					o.pre = append(o.pre, staleRec{rw: core.Pick(r, tgt)})
				}
			}
			if r.Chance(1, 4) {
				o.sib = genSibling(r, ds, o)
			}
			return o
		}
	}
	// destination and parent filter
	o.dest = core.Pick(r, []string{"struct", "slice", "slice", "ptrslice", "ptrslice"})
	if o.dest == "struct" {
		if len(live) == 0 {
			o.dest = "slice"
		} else {
			rw := core.Pick(r, live)
			o.filter = []int64{rw.u}
			o.fin = core.Pick(r, []string{"First", "First", "First", "Take", "Last", "Find"})
			if r.Chance(2, 5) {
				o.reuse = true
				o.pre = []staleRec{genStale(r, ds, o.root, rw)}
			}
		}
	} else if r.Chance(1, 3) {
		for _, rw := range ds.rows[o.root] {
			if r.Chance(2, 3) {
				o.filter = append(o.filter, rw.u)
			}
		}
		if o.filter == nil {
			o.filter = []int64{}
		}
	}
	if o.dest != "struct" && len(ds.rows[o.root]) > 0 && r.Chance(1, 6) {
		o.reuse = true
		for i, n := 0, r.Range(1, 3); i < n; i++ {
			o.pre = append(o.pre, genStale(r, ds, o.root, core.Pick(r, ds.rows[o.root])))
		}
	}
	preloadForms := []string{"args", "args", "map", "scope", "scope-order", "scope-unscoped", "scope-or", "scope-or-group", "args-or"}
	// under Unscoped() a has-one with several candidates cannot be joined (the JOIN multiplies the parent)
	noJoin := func(rl *rel) bool { return o.unscoped && ds.ambiguous(rl) }
	addPreload := func(path string, allowCond bool) {
		if path == "" {
			return
		}
		for _, d := range o.preloads {
			if d.path == path {
				return
			}
		}
		d := dir{path: path}
		if allowCond && r.Chance(1, 3) {
			d.c = genCond(r, preloadForms...)
		}
		// the relation was named by an EARLIER Preload call of the chain already, under other conditions
		if r.Chance(1, 4) {
			d.prior = genPrior(r, d.c, "args", "map", "scope", "scope-unscoped", "scope-or", "args-or")
		} else if r.Chance(1, 8) {
			// the call is made by a scope of the query
			d.scoped = true
		}
		// an embedded relation whose name is unique in the model: sometimes by that plain name (one name
		// per relation and query: gorm keeps an entry per NAME, each loading the relation field anew)
		if first := splitPath(o.root, path)[0]; first.plain() != "" && first.plain() != first.name {
			// (never next to Preload(clause.Associations), which names embedded relations by their path)
			d.plain = r.Chance(1, 4) && !o.all
			for _, e := range o.preloads {
				if splitPath(o.root, e.path)[0] == first {
					d.plain = e.plain
				}
			}
		}
		o.preloads = append(o.preloads, d)
	}
	switch o.kind {
	case "preload":
		for i, n := 0, r.Range(1, 3); i < n; i++ {
			addPreload(walk(r, o.root, r.Range(1, 3), false), true)
		}
		o.dup = o.dest != "struct" && r.Chance(1, 4)
	case "assoc-all":
		o.all = true
		if r.Chance(1, 3) {
			o.allCond = genCond(r, "args", "map", "scope", "scope-or", "args-or")
		}
		if r.Chance(1, 5) {
			o.allPrior = genPrior(r, o.allCond, "args", "map", "scope", "scope-or")
		}
		if r.Chance(1, 2) {
			if p := walk(r, o.root, r.Range(2, 3), false); p != "" && depthOf(o.root, p) >= 2 {
				addPreload(p, true)
			}
		}
		o.dup = o.dest != "struct" && r.Chance(1, 4)
	case "joins":
		// 1 (half of the operations), 2, or 3-8 distinct paths (as far as the model has that many)
		nj := 1
		switch x := r.Intn(12); {
		case x >= 8:
			nj = r.Range(3, 8)
		case x >= 6:
			nj = 2
		}
		inner := r.Chance(1, 4)
		for i := 0; i < nj*3 && len(o.joins) < nj; i++ {
			p := walk(r, o.root, core.Pick(r, []int{1, 1, 2, 2, 3}), true, noJoin)
			if p == "" {
				continue
			}
			dup := false
			for _, d := range o.joins {
				dup = dup || d.path == p
			}
			if !dup {
				o.joins = append(o.joins, dir{path: p, inner: inner})
			}
		}
		if len(o.joins) == 0 { // cannot happen (a belongs-to is never ambiguous); keeps the generator total
			o.unscoped, o.unscopedLast = false, false
			o.joins = []dir{{path: walk(r, o.root, 1, true), inner: inner}}
		}
		// ON conditions: on depth-1 joins that no other joined path runs through
		for i, d := range o.joins {
			if depthOf(o.root, d.path) > 1 {
				continue
			}
			free := true
			for _, e := range o.joins {
				free = free && !strings.HasPrefix(e.path, d.path+".")
			}
			if free && r.Chance(1, 3) {
				o.joins[i].c = genCond(r, "join-on")
			}
		}
		// preloads next to / below the joins
		for i, n := 0, r.Intn(3); i < n; i++ {
			var p string
			if r.Bool() {
				j := core.Pick(r, o.joins).path
				if sub := walk(r, targetOf(o.root, j), r.Range(1, 2), false); sub != "" {
					p = j + "." + sub
				}
			} else {
				p = walk(r, o.root, r.Range(1, 2), false)
			}
			covered := false
			for _, j := range o.joins {
				covered = covered || isPrefixOrEqual(p, j.path)
			}
			addPreload(p, !covered)
		}
		o.dup = o.dest != "struct" && r.Chance(1, 6)
	}
	// a scope function calling Unscoped() lifts the scope of the relation it is attached to; what it
	// means for relations loaded BELOW that one is not fixed by the statement: only on paths that no
	// other Preload extends
	for i, d := range o.preloads {
		if !d.c.lifts() {
			continue
		}
		for _, e := range o.preloads {
			if e.path != d.path && isPrefixOrEqual(d.path, e.path) {
				c := *d.c
				c.form = "scope"
				o.preloads[i].c = &c
			}
		}
	}
	o.twice = r.Chance(1, 5)
	// (a handle that carries several joins is shared more often: more state to keep apart)
	if !o.twice && (r.Chance(1, 4) || (len(o.joins) >= 3 && r.Bool())) {
		o.sib = genSibling(r, ds, o)
	}
	return o
}

func (o *op) tree() *loadNode {
	t := &loadNode{}
	if o.all {
		for _, rl := range o.root.rels {
			t.child(rl.name).c = o.allCond
			t.child(rl.name).prior = o.allPrior
		}
	}
	for _, d := range o.joins {
		n := t
		for _, rl := range splitPath(o.root, d.path) {
			n = n.child(rl.name)
		}
		n.c = d.c
	}
	for _, d := range o.preloads {
		n := t
		for _, rl := range splitPath(o.root, d.path) {
			n = n.child(rl.name)
		}
		if d.c != nil {
			n.c = d.c
		}
		if d.prior != nil {
			n.prior = d.prior
		}
	}
	return t
}

// repeats reports whether some Preload call of the chain is replaced by a later one.
func (o *op) repeats() bool {
	for _, d := range o.preloads {
		if len(d.prior) > 0 {
			return true
		}
	}
	return len(o.allPrior) > 0
}

// withoutPrior is the same operation with every relation preloaded by ONE call (the last one).
// danglingOr reports whether a Preload call of the compared chain that is in force carries a scope
// function ending in an ungrouped Or: tx.Where(a).Or(b).
func (o *op) danglingOr() bool {
	if o.all && o.allCond != nil && o.allCond.form == "scope-or" {
		return true
	}
	for _, d := range o.preloads {
		if d.c != nil && d.c.form == "scope-or" {
			return true
		}
	}
	return false
}

// groupedOr is the same operation with every such scope function written with a grouped condition,
// tx.Where(db.Where(a).Or(b)): the same condition (a OR b) by the statement.
func (o *op) groupedOr() *op {
	grp := func(c *cond) *cond {
		if c == nil || c.form != "scope-or" {
			return c
		}
		g := *c
		g.form = "scope-or-group"
		return &g
	}
	c := *o
	c.allCond = grp(o.allCond)
	c.preloads = append([]dir{}, o.preloads...)
	for i := range c.preloads {
		c.preloads[i].c = grp(c.preloads[i].c)
	}
	return &c
}

func (o *op) withoutPrior() *op {
	c := *o
	c.allPrior = nil
	c.preloads = append([]dir{}, o.preloads...)
	for i := range c.preloads {
		c.preloads[i].prior = nil
	}
	if o.sib != nil && o.kind != "assoc-find" {
		sb := *o.sib
		sb.cut = 0
		for _, s := range o.steps()[:o.sib.cut] {
			if !s.prior {
				sb.cut++
			}
		}
		c.sib = &sb
	}
	return &c
}

func (o *op) desc() string {
	var sb strings.Builder
	if o.reuse {
		var el []string
		for _, s := range o.pre {
			el = append(el, s.String())
		}
		switch {
		case o.kind == "assoc-find":
			fmt.Fprintf(&sb, "%s := <%s of %s>{%s}; ", o.dest, o.dest, o.root.rel(o.relName).target.name, strings.Join(el, ", "))
		case o.dest == "struct":
			fmt.Fprintf(&sb, "dest := %s%s; ", o.root.name, el[0])
		default:
			fmt.Fprintf(&sb, "dest := <%s of %s>{%s}; ", o.dest, o.root.name, strings.Join(el, ", "))
		}
	}
	if o.kind == "assoc-find" {
		if o.sib != nil {
			sb.WriteString("base := ")
		}
		sb.WriteString("db")
		if o.unscoped && !o.unscopedLast {
			sb.WriteString(".Unscoped()")
		}
		switch o.pshape {
		case "struct":
			fmt.Fprintf(&sb, ".Model(&%s{u=%d})", o.root.name, o.parents[0].u)
		case "slice":
			fmt.Fprintf(&sb, ".Model(&[]%s{<rows u=%v>})", o.root.name, usOfRowsUnsorted(o.parents))
		default:
			fmt.Fprintf(&sb, ".Model(&[]*%s{<rows u=%v>})", o.root.name, usOfRowsUnsorted(o.parents))
		}
		if o.unscoped && o.unscopedLast {
			sb.WriteString(".Unscoped()")
		}
		if o.sib != nil {
			au := map[bool]string{true: ".Unscoped()"}
			own := fmt.Sprintf("q := base.Association(%q)%s; ", o.root.rel(o.relName).plain(), au[o.assocUnscoped])
			sib := fmt.Sprintf("sib := base.Association(%q)%s; ", o.root.rel(o.sib.relName).plain(), au[o.sib.assocUnscoped])
			sb.WriteString(".Session(&gorm.Session{}); ")
			if o.sib.first {
				sb.WriteString(sib + own)
			} else {
				sb.WriteString(own + sib)
			}
			if o.sib.exec {
				fmt.Fprintf(&sb, "sib.Find(&[]%s{}", o.root.rel(o.sib.relName).target.name)
				if o.sib.cond != nil {
					sb.WriteString(", " + o.sib.cond.String())
				}
				sb.WriteString("); ")
			}
			fmt.Fprintf(&sb, "q.Find(&%s", o.dest)
		} else {
			fmt.Fprintf(&sb, ".Association(%q)%s.Find(&%s", o.root.rel(o.relName).plain(), map[bool]string{true: ".Unscoped()"}[o.assocUnscoped], o.dest)
		}
		if o.findCond != nil {
			sb.WriteString(", " + o.findCond.String())
		}
		sb.WriteString(")")
		return sb.String()
	}
	steps := o.steps()
	if o.sib != nil {
		own := "q := base" + descOf(steps[o.sib.cut:]) + "; "
		sib := "sib := base" + descOf(o.sib.steps(o.root)) + "; "
		sb.WriteString("base := db" + descOf(steps[:o.sib.cut]) + ".Session(&gorm.Session{}); ")
		if o.sib.first {
			sb.WriteString(sib + own)
		} else {
			sb.WriteString(own + sib)
		}
		if o.sib.exec {
			fmt.Fprintf(&sb, "sib.Find(&[]%s{}); ", o.root.name)
		}
		sb.WriteString("q")
	} else {
		sb.WriteString("db" + descOf(steps))
	}
	if o.twice {
		sb.WriteString(".Session(&gorm.Session{}) <executed twice, second result compared> ")
	}
	switch {
	case o.reuse && o.dest == "struct":
		fmt.Fprintf(&sb, ".%s(&dest)", o.fin)
	case o.reuse:
		sb.WriteString(".Find(&dest)")
	case o.dest == "struct":
		fmt.Fprintf(&sb, ".%s(&%s{})", o.fin, o.root.name)
	case o.dest == "slice":
		fmt.Fprintf(&sb, ".Find(&[]%s{})", o.root.name)
	default:
		fmt.Fprintf(&sb, ".Find(&[]*%s{})", o.root.name)
	}
	return sb.String()
}

// ---- comparison ---------------------------------------------------------------------

type problem struct {
	rl    *rel
	msg   string
	path  string // relation path from the root record to the deviating relation field
	nokey bool   // the owner's key tuple of rl is entirely NULL / zero ("no key" for gorm)
}

type checker struct {
	ds       *dataset
	problems []problem
	attached int // children found attached where expected (non-trivial work)
	parents  int
	relKinds map[string]int
	unscoped bool // the whole query runs under Unscoped()
	lifted   int  // soft-deleted rows found attached where the lifted scope demands them
	// relation fields loaded as the LAST Preload call demands where the conditions of an earlier, replaced
	// call would have given other rows
	replaced int
	// Association(rel).Unscoped().Find: soft-deleted rows of the parents rightly NOT returned
	withheld int
	// soft-deleted rows found attached to a requested relation whose soft-delete scope is in force
	dead int
}

func (k *checker) add(rl *rel, f string, a ...interface{}) {
	if len(k.problems) < 12 {
		k.problems = append(k.problems, problem{rl: rl, msg: fmt.Sprintf(f, a...)})
	}
}

func deref(v reflect.Value) reflect.Value {
	for v.Kind() == reflect.Ptr {
		if v.IsNil() {
			return reflect.Value{}
		}
		v = v.Elem()
	}
	return v
}

func uOf(v reflect.Value) int64 { return v.FieldByName("U").Int() }

func renderField(v reflect.Value) string {
	if v.Kind() == reflect.Ptr {
		if v.IsNil() {
			return "NULL"
		}
		v = v.Elem()
	}
	switch v.Kind() {
	case reflect.Int64:
		return renderVal(v.Int())
	case reflect.String:
		return renderVal(v.String())
	}
	return "?"
}

// scalars compares the scalar columns of a loaded record with the inserted row.
func (k *checker) scalars(m *model, got reflect.Value, want *row, where string, rl *rel) {
	for _, cl := range m.cols {
		g := "NULL" // (a column of a pointer-embedded struct that is nil)
		if f := fieldAt(got, cl.goPath(), false); f.IsValid() {
			g = renderField(f)
		}
		w := renderVal(want.vals[cl.name])
		if g != w {
			k.add(rl, "%s: column %s loaded as %s, inserted row has %s", where, cl.name, g, w)
		}
	}
	// which rows may appear at all is decided by the reference join (soft-delete scope or Unscoped);
	// here the column only has to be read faithfully
	if m.soft && got.FieldByName("DeletedAt").Interface().(gorm.DeletedAt).Valid != want.deleted {
		k.add(rl, "%s: deleted_at loaded as set=%v, inserted row has set=%v", where, !want.deleted, want.deleted)
	}
}

// kidsOf lists the records held by a relation field.
func (k *checker) kidsOf(f reflect.Value, where string, rl *rel) []reflect.Value {
	var out []reflect.Value
	switch f.Kind() {
	case reflect.Slice:
		for i := 0; i < f.Len(); i++ {
			e := deref(f.Index(i))
			if !e.IsValid() {
				k.add(rl, "%s: nil element in the loaded slice", where)
				continue
			}
			out = append(out, e)
		}
	case reflect.Ptr:
		if !f.IsNil() {
			out = append(out, f.Elem())
		}
	case reflect.Struct:
		if uOf(f) != 0 {
			out = append(out, f)
		} else if !f.IsZero() {
			k.add(rl, "%s: value-typed relation has no row identity but is not the zero value: %+v", where, f.Interface())
		}
	}
	return out
}

func usOfRows(rows []*row) []int64 {
	out := make([]int64, len(rows))
	for i, r := range rows {
		out[i] = r.u
	}
	sort.Slice(out, func(i, j int) bool { return out[i] < out[j] })
	return out
}

func usOfVals(vs []reflect.Value) []int64 {
	out := make([]int64, len(vs))
	for i, v := range vs {
		out[i] = uOf(v)
	}
	sort.Slice(out, func(i, j int) bool { return out[i] < out[j] })
	return out
}

func sameInts(a, b []int64) bool {
	if len(a) != len(b) {
		return false
	}
	for i := range a {
		if a[i] != b[i] {
			return false
		}
	}
	return true
}

// record compares one loaded record of model m with the inserted row and, recursively, its
// relation fields with the reference join.
//
// reused: got is a destination that held earlier content before the call; relation fields that
// were not requested keep whatever they held (not fixed by the statement: not compared).
func (k *checker) record(m *model, got reflect.Value, want *row, t *loadNode, where string, via *rel, reused bool, path ...string) {
	n0 := len(k.problems)
	k.scalars(m, got, want, where, via)
	for i := n0; i < len(k.problems); i++ {
		k.problems[i].path = strings.Join(path, ".")
	}
	for _, rl := range m.rels {
		f := fieldAt(got, rl.goPath(), false)
		w := fmt.Sprintf("%s.%s", where, rl.name)
		var kids []reflect.Value
		if f.IsValid() {
			kids = k.kidsOf(f, w, rl)
		}
		var sub *loadNode
		if t != nil {
			sub = t.kids[rl.name]
		}
		if sub == nil {
			if len(kids) > 0 && !reused {
				k.add(rl, "%s: not requested, but rows u=%v are attached", w, usOfVals(kids))
			}
			continue
		}
		k.relKinds[string(rl.kind)]++
		if m.groups != nil {
			// relations of a model with embedded structs, by the number of named embedding levels above them
			k.relKinds[fmt.Sprintf("on_embedding_level_%d", rl.level)]++
		}
		exp := k.ds.expected(rl, want, sub.c, k.unscoped)
		if rl.single && len(exp) > 1 && len(kids) == 1 {
			// lifted scope, several candidates for a single-valued relation (never joined, see genOp):
			// which one is held is not fixed by the statement - any ONE of them
			for _, e := range exp {
				if e.u == uOf(kids[0]) {
					exp = []*row{e}
					break
				}
			}
		}
		gu, wu := usOfVals(kids), usOfRows(exp)
		for _, e := range exp {
			if sameInts(gu, wu) && !k.ds.live(rl.target, e) {
				k.lifted++
			}
		}
		if !sameInts(gu, wu) {
			// (rows attached although the soft-delete scope in force excludes them: a class of its own)
			if rl.target.soft && !k.unscoped && !sub.c.lifts() {
				for _, u := range gu {
					if t := k.ds.byU(rl.target, u); t != nil && t.deleted {
						k.dead++
					}
				}
			}
			k.add(rl, "%s (%s, owner key %s): attached rows u=%v, reference join gives u=%v", w, rl.kind, want.tuple(rl.ownerCols), gu, wu)
			if n := len(k.problems); n > 0 && k.problems[n-1].rl == rl {
				k.problems[n-1].nokey = allZero(want.tuple(rl.ownerCols))
				k.problems[n-1].path = strings.Join(append(append([]string{}, path...), rl.name), ".")
			}
			continue
		}
		k.attached += len(kids)
		for _, pc := range sub.prior {
			if !sameInts(usOfRows(k.ds.expected(rl, want, pc.c, k.unscoped)), wu) {
				k.replaced++
				break
			}
		}
		sort.Slice(kids, func(i, j int) bool { return uOf(kids[i]) < uOf(kids[j]) })
		for _, kid := range kids {
			k.record(rl.target, kid, k.ds.byU(rl.target, uOf(kid)), sub, fmt.Sprintf("%s[u=%d]", w, uOf(kid)), rl, false, append(append([]string{}, path...), rl.name)...)
		}
	}
}

// resolves reports whether an inner-joined path exists for parent p.
func (ds *dataset) resolves(m *model, p *row, d dir, unscoped bool) bool {
	segs := splitPath(m, d.path)
	for i, rl := range segs {
		var c *cond
		if i == len(segs)-1 {
			c = d.c
		}
		cands := ds.expected(rl, p, c, unscoped)
		if len(cands) == 0 {
			return false
		}
		p, m = cands[0], rl.target
	}
	return true
}

func (ds *dataset) parentsOf(o *op) []*row {
	var out []*row
	cands := liveRows(ds, o.root)
	if o.unscoped {
		cands = ds.rows[o.root]
	}
	for _, rw := range cands {
		if o.filter != nil {
			in := false
			for _, u := range o.filter {
				in = in || u == rw.u
			}
			if !in {
				continue
			}
		}
		ok := true
		for _, d := range o.joins {
			if d.inner && !ds.resolves(o.root, rw, d, o.unscoped) {
				ok = false
			}
		}
		if ok {
			out = append(out, rw)
			if o.dup {
				out = append(out, rw)
			}
		}
	}
	return out
}

// fill builds the Go value of a row (scalar fields only).
func fill(m *model, rw *row) reflect.Value {
	p := reflect.New(m.typ)
	for _, cl := range m.cols {
		v := rw.vals[cl.name]
		if v == nil {
			continue
		}
		f := fieldAt(p.Elem(), cl.goPath(), true)
		x := reflect.ValueOf(v)
		if cl.ptr {
			np := reflect.New(f.Type().Elem())
			np.Elem().Set(x)
			f.Set(np)
		} else {
			f.Set(x)
		}
	}
	return p
}

func relsOfTree(m *model, t *loadNode, out *[]*rel) {
	for name, sub := range t.kids {
		rl := m.rel(name)
		*out = append(*out, rl)
		relsOfTree(rl.target, sub, out)
	}
}

// preFill puts earlier records into a destination slice ([]T or []*T).
func preFill(sl reflect.Value, m *model, pre []staleRec) {
	s := reflect.MakeSlice(sl.Type(), 0, len(pre))
	for _, sr := range pre {
		if sl.Type().Elem().Kind() == reflect.Ptr {
			s = reflect.Append(s, sr.build(m))
		} else {
			s = reflect.Append(s, sr.build(m).Elem())
		}
	}
	sl.Set(s)
}

func execOp(ds *dataset, o *op) *checker {
	k := &checker{ds: ds, relKinds: map[string]int{}, unscoped: o.unscoped}
	root := H.DB.Session(&gorm.Session{})
	if o.kind == "assoc-find" {
		rl := o.root.rel(o.relName)
		var parent reflect.Value
		switch o.pshape {
		case "slice":
			parent = reflect.New(reflect.SliceOf(o.root.typ))
			for _, rw := range o.parents {
				parent.Elem().Set(reflect.Append(parent.Elem(), fill(o.root, rw).Elem()))
			}
		case "ptrslice":
			parent = reflect.New(reflect.SliceOf(reflect.PtrTo(o.root.typ)))
			for _, rw := range o.parents {
				parent.Elem().Set(reflect.Append(parent.Elem(), fill(o.root, rw)))
			}
		default:
			parent = fill(o.root, o.parents[0])
		}
		elem := rl.target.typ
		var out reflect.Value
		if o.dest == "ptrslice" {
			out = reflect.New(reflect.SliceOf(reflect.PtrTo(elem)))
		} else {
			out = reflect.New(reflect.SliceOf(elem))
		}
		if o.reuse {
			preFill(out.Elem(), rl.target, o.pre)
		}
		adb := root
		if o.unscoped && !o.unscopedLast {
			adb = adb.Unscoped()
		}
		adb = adb.Model(parent.Interface())
		if o.unscoped && o.unscopedLast {
			adb = adb.Unscoped()
		}
		var assoc *gorm.Association
		if o.sib != nil {
			base := adb.Session(&gorm.Session{})
			var sa *gorm.Association
			if o.sib.first {
				sa = base.Association(o.root.rel(o.sib.relName).plain())
				assoc = base.Association(rl.plain())
			} else {
				assoc = base.Association(rl.plain())
				sa = base.Association(o.root.rel(o.sib.relName).plain())
			}
			if o.sib.assocUnscoped {
				sa = sa.Unscoped()
			}
			if o.assocUnscoped {
				assoc = assoc.Unscoped()
			}
			if o.sib.exec {
				sa.Find(reflect.New(reflect.SliceOf(o.root.rel(o.sib.relName).target.typ)).Interface(), o.sib.cond.args()...)
			}
		} else {
			assoc = adb.Association(rl.plain())
			if o.assocUnscoped {
				assoc = assoc.Unscoped()
			}
		}
		err := assoc.Find(out.Interface(), o.findCond.args()...)
		if err != nil {
			k.add(rl, "error: %v", err)
			return k
		}
		k.relKinds[string(rl.kind)]++
		if o.root.groups != nil {
			k.relKinds[fmt.Sprintf("on_embedding_level_%d", rl.level)]++
		}
		kids := k.kidsOf(out.Elem(), "result", rl)
		// the rows of ANY of the given parents, each once (set union over the distinct parents)
		var exp []*row
		var keys []string
		seenP, seenE := map[int64]bool{}, map[int64]bool{}
		for _, pr := range o.parents {
			if seenP[pr.u] {
				continue
			}
			seenP[pr.u] = true
			keys = append(keys, pr.tuple(rl.ownerCols).String())
			for _, e := range ds.expected(rl, pr, o.findCond, o.unscoped) {
				if !seenE[e.u] {
					seenE[e.u] = true
					exp = append(exp, e)
				}
			}
		}
		k.parents = len(seenP)
		if rl.kind == many2many && len(seenP) > 1 {
			// several parents of a many2many: how often a row linked to more than one of them is
			// returned is not fixed by the statement - compared as a set
			var uniq []reflect.Value
			seenK := map[int64]bool{}
			for _, kid := range kids {
				if !seenK[uOf(kid)] {
					seenK[uOf(kid)] = true
					uniq = append(uniq, kid)
				}
			}
			kids = uniq
		}
		gu, wu := usOfVals(kids), usOfRows(exp)
		if !sameInts(gu, wu) {
			k.add(rl, "Association(%q).Find (%s, owner keys %s): returned rows u=%v, reference join gives u=%v", o.relName, rl.kind, strings.Join(keys, " "), gu, wu)
			return k
		}
		k.attached = len(kids)
		for _, e := range exp {
			if !ds.live(rl.target, e) {
				k.lifted++
			}
		}
		if o.assocUnscoped && !o.unscoped {
			seenW := map[int64]bool{}
			for _, pr := range o.parents {
				for _, e := range ds.join(rl, pr, o.findCond, true) {
					if !ds.live(rl.target, e) && !seenW[e.u] {
						seenW[e.u] = true
						k.withheld++
					}
				}
			}
		}
		for _, kid := range kids {
			k.record(rl.target, kid, ds.byU(rl.target, uOf(kid)), nil, fmt.Sprintf("result[u=%d]", uOf(kid)), rl, false)
		}
		return k
	}

	db := root
	if steps := o.steps(); o.sib != nil {
		base := applyAll(root, steps[:o.sib.cut]).Session(&gorm.Session{})
		var sdb *gorm.DB
		if o.sib.first {
			sdb = applyAll(base, o.sib.steps(o.root))
			db = applyAll(base, steps[o.sib.cut:])
		} else {
			db = applyAll(base, steps[o.sib.cut:])
			sdb = applyAll(base, o.sib.steps(o.root))
		}
		if o.sib.exec {
			sdb.Find(reflect.New(reflect.SliceOf(o.root.typ)).Interface())
		}
	} else {
		db = applyAll(root, steps)
	}
	if o.twice {
		db = db.Session(&gorm.Session{})
		switch o.dest {
		case "struct":
			p := reflect.New(o.root.typ).Interface()
			switch o.fin {
			case "Take":
				db.Take(p)
			case "Last":
				db.Last(p)
			case "Find":
				db.Find(p)
			default:
				db.First(p)
			}
		case "slice":
			db.Find(reflect.New(reflect.SliceOf(o.root.typ)).Interface())
		default:
			db.Find(reflect.New(reflect.SliceOf(reflect.PtrTo(o.root.typ))).Interface())
		}
	}
	want := ds.parentsOf(o)
	tree := o.tree()
	var records []reflect.Value
	var err error
	switch o.dest {
	case "struct":
		p := reflect.New(o.root.typ)
		if o.reuse {
			p = o.pre[0].build(o.root)
		}
		var res *gorm.DB
		switch o.fin {
		case "Take":
			res = db.Take(p.Interface())
		case "Last":
			res = db.Last(p.Interface())
		case "Find":
			res = db.Find(p.Interface())
		default:
			res = db.First(p.Interface())
		}
		err = res.Error
		if errors.Is(err, gorm.ErrRecordNotFound) || (err == nil && o.fin == "Find" && res.RowsAffected == 0) {
			if len(want) > 0 {
				k.add(nil, "%s: no record found although parent u=%d is selected and within the soft-delete scope of the query", o.fin, want[0].u)
			}
			return k
		}
		if err == nil {
			records = append(records, p.Elem())
		}
	case "slice":
		p := reflect.New(reflect.SliceOf(o.root.typ))
		if o.reuse {
			preFill(p.Elem(), o.root, o.pre)
		}
		err = db.Find(p.Interface()).Error
		for i := 0; err == nil && i < p.Elem().Len(); i++ {
			records = append(records, p.Elem().Index(i))
		}
	default:
		p := reflect.New(reflect.SliceOf(reflect.PtrTo(o.root.typ)))
		if o.reuse {
			preFill(p.Elem(), o.root, o.pre)
		}
		err = db.Find(p.Interface()).Error
		for i := 0; err == nil && i < p.Elem().Len(); i++ {
			e := p.Elem().Index(i)
			if e.IsNil() {
				k.add(nil, "nil parent pointer in the result")
				continue
			}
			records = append(records, e.Elem())
		}
	}
	if err != nil {
		k.add(nil, "error: %v", err)
		return k
	}
	gu, wu := usOfVals(records), usOfRows(want)
	if !sameInts(gu, wu) {
		k.add(nil, "parents returned u=%v, expected u=%v", gu, wu)
		return k
	}
	k.parents = len(records)
	for _, rec := range records {
		u := uOf(rec)
		k.record(o.root, rec, ds.byU(o.root, u), tree, fmt.Sprintf("%s[u=%d]", o.root.name, u), nil, o.reuse && o.dest == "struct")
	}
	return k
}

// signature of a failed operation: a specific one for the recognised classes of genuine
// deviation, else the (single) hazard class measured on the relations involved, else generic.
func signature(ds *dataset, o *op, k *checker) string {
	sig := signature0(ds, o, k)
	if o.root.groups == nil || strings.HasPrefix(sig, "panic") {
		return sig
	}
	// a root model with relations in embedded structs: classes of their own
	for _, p := range k.problems {
		if strings.HasPrefix(p.msg, "error:") {
			return "error:" + o.kind + ":model-with-embedded-relations"
		}
	}
	for _, p := range k.problems {
		if p.rl != nil && p.rl.owner == o.root && p.rl.level > 0 {
			return sig + ":embedded-relation"
		}
	}
	return sig + ":model-with-embedded-relations"
}

func signature0(ds *dataset, o *op, k *checker) string {
	var rels []*rel
	for _, p := range k.problems {
		if strings.HasPrefix(p.msg, "panic: reflect: call of reflect.Value.Field on zero Value") && o.dest == "struct" {
			for _, j := range o.joins {
				for _, pl := range o.preloads {
					if commonSegments(j.path, pl.path) >= 2 {
						return "panic-nil-joined-relation"
					}
				}
			}
		}
		if strings.HasPrefix(p.msg, "panic:") {
			return "panic"
		}
		if strings.HasPrefix(p.msg, "error: IN(...) element has") && o.kind == "assoc-find" {
			if rl := o.root.rel(o.relName); rl.composite() && anyAllZero(o.parents, rl.ownerCols) {
				return "assoc-find-empty-composite-key"
			}
		}
		if p.rl != nil {
			rels = append(rels, p.rl)
		}
	}
	if len(rels) == 0 {
		if o.kind == "assoc-find" {
			rels = append(rels, o.root.rel(o.relName))
		} else {
			relsOfTree(o.root, o.tree(), &rels)
		}
	}
	classes := map[string]bool{}
	for _, rl := range rels {
		hz := ds.hazards(rl)
		if len(hz) == 0 {
			// a mismatching relation without any known hazard: not attributable to key contents
			alt := true
			for _, r2 := range rels {
				alt = alt && r2.alt
			}
			if alt {
				return "mismatch:" + o.kind + ":non-primary-referenced-key"
			}
			return "mismatch:" + o.kind
		}
		for _, h := range hz {
			classes[h] = true
		}
	}
	if len(classes) == 1 {
		for h := range classes {
			return h
		}
	}
	if len(classes) > 1 {
		return "mixed-key-hazards"
	}
	return "mismatch:" + o.kind
}

// embeddedClass names the two recognised classes of failure that need a relation in an embedded
// struct (checked before any counterfactual attribution; "" otherwise):
//
//	embedded-relation-not-preloaded:join-of-same-name   every deviating relation field is an embedded
//	    relation that the query preloads (itself or a path through it) while it JOINS another relation
//	    of the model with the same field name (the own Home joined, Site.Home / Site.Geo.Home preloaded);
//	    into a reused struct also the columns of / relations below the record that field still holds
//	assoc-all-reloads-embedded-relation:nested-preload-lost   Preload(clause.Associations) next to a nested
//	    Preload through an embedded relation that also has a plain name: every deviating relation
//	    field lies BELOW that embedded relation
func embeddedClass(o *op, k *checker) string {
	if o.root.groups == nil || o.kind == "assoc-find" || len(k.problems) == 0 {
		return ""
	}
	bare := func(rl *rel) string { p := rl.goPath(); return p[len(p)-1] }
	joinClass, allClass := true, o.all
	for _, p := range k.problems {
		if p.rl == nil || p.path == "" {
			return ""
		}
		e := splitPath(o.root, p.path)[0]
		if e.level == 0 {
			return ""
		}
		preloaded := false
		for _, d := range o.preloads {
			preloaded = preloaded || isPrefixOrEqual(e.name, d.path)
		}
		joined := false
		for _, j := range o.joins {
			if f := splitPath(o.root, j.path)[0]; f != e && f.plain() == bare(e) {
				joined = true
			}
		}
		// (a reused struct keeps the earlier record in the relation field: when that happens to be the right
		// row, what deviates are its stale columns and the relations below it)
		joinClass = joinClass && preloaded && joined && (p.path == e.name || (o.reuse && o.dest == "struct" && isPrefixOrEqual(e.name, p.path)))
		extended := false
		for _, d := range o.preloads {
			extended = extended || strings.HasPrefix(d.path, e.name+".")
		}
		allClass = allClass && p.path != e.name && e.plain() != "" && extended
	}
	switch {
	case joinClass:
		return "embedded-relation-not-preloaded:join-of-same-name"
	case allClass:
		return "assoc-all-reloads-embedded-relation:nested-preload-lost"
	}
	return ""
}

func anyAllZero(rows []*row, cols []string) bool {
	for _, rw := range rows {
		if allZero(rw.tuple(cols)) {
			return true
		}
	}
	return false
}

// staleSignature names a failure that occurs only because the destination held earlier content:
// destination shape and, for every deviating relation field, how it was to be loaded (preload |
// joins | assoc-find), the relation kind and, when that parent's key tuple for the relation is
// entirely NULL / zero (gorm then has no key to look up), the suffix no-owner-key.
func staleSignature(o *op, k *checker) string {
	set := map[string]bool{}
	for _, p := range k.problems {
		if p.rl == nil {
			continue
		}
		mech := "preload"
		if o.kind == "assoc-find" {
			mech = "assoc-find"
		}
		for _, j := range o.joins {
			if p.path != "" && isPrefixOrEqual(p.path, j.path) {
				mech = "joins"
			}
		}
		c := mech
		if mech != "joins" {
			// a joined relation is scanned from the parent's own row: its kind and key play no part
			c += ":" + string(p.rl.kind)
			if p.nokey {
				c += ":no-owner-key"
			}
		}
		set[c] = true
	}
	var classes []string
	for c := range set {
		classes = append(classes, c)
	}
	sort.Strings(classes)
	if len(classes) == 0 {
		classes = []string{o.kind}
	}
	return "stale-on-reused-destination:" + o.dest + ":" + strings.Join(classes, "+")
}

func distinctRows(rows []*row) int {
	seen := map[int64]bool{}
	for _, rw := range rows {
		seen[rw.u] = true
	}
	return len(seen)
}

// mechanisms lists how the deviating relation fields were to be loaded (preload | joins |
// assoc-find; parents when the set of parent records itself deviates), for signatures.
func mechanisms(o *op, k *checker) string {
	set := map[string]bool{}
	for _, p := range k.problems {
		mech := "preload"
		switch {
		case o.kind == "assoc-find":
			mech = "assoc-find"
		case p.rl == nil:
			mech = "parents"
			for _, j := range o.joins {
				if j.inner {
					mech = "parents-of-inner-joins"
				}
			}
		default:
			for _, j := range o.joins {
				if p.path != "" && isPrefixOrEqual(p.path, j.path) {
					mech = "joins"
				}
			}
		}
		set[mech] = true
	}
	var out []string
	for m := range set {
		out = append(out, m)
	}
	sort.Strings(out)
	return strings.Join(out, "+")
}

// safeExec turns a panic escaping gorm into a problem (so that it gets a signature of its own).
func safeExec(ds *dataset, o *op) (k *checker) {
	defer func() {
		if r := recover(); r != nil {
			st := strings.Split(string(debug.Stack()), "\n")
			var frames []string
			for _, l := range st {
				if strings.Contains(l, "/repo/") {
					frames = append(frames, strings.TrimSpace(l))
				}
			}
			if len(frames) > 8 {
				frames = frames[:8]
			}
			k = &checker{ds: ds, relKinds: map[string]int{}}
			k.add(nil, "panic: %v at %s", r, strings.Join(frames, " <- "))
		}
	}()
	return execOp(ds, o)
}

const opsPerCase = 8

func worldOf(i int) *world {
	// composite worlds are emphasised: SS IS II S1 I1 SS IS SS
	return worlds[[]int{0, 1, 2, 3, 4, 0, 1, 0}[i%8]]
}

func run(c *core.Ctx) {
	w := worldOf(c.Case)
	p := profile((c.Case / 8) % 4)
	ds := genDataset(c.R, w, p)
	ds.insert()
	c.Inc("graphs")
	c.Inc("world_" + w.name)
	c.Inc("profile_" + profileNames[p])
	hz := map[string]bool{}
	for _, m := range w.models {
		for _, rl := range m.rels {
			for _, h := range ds.hazards(rl) {
				hz[h] = true
			}
		}
	}
	for h := range hz {
		c.Inc("graphs_with_" + h)
	}
	if len(hz) == 0 {
		c.Inc("graphs_without_hazard")
	}
	for i := 0; i < opsPerCase; i++ {
		o := genOp(c.R, ds)
		desc := o.desc()
		c.Logf("OP %s", desc)
		k := safeExec(ds, o)
		c.Inc("ops")
		c.Inc("op_" + o.kind)
		c.Inc("dest_" + o.dest)
		if o.dup {
			c.Inc("ops_with_duplicate_parents")
		}
		if o.root.groups != nil {
			c.Inc("ops_on_model_with_embedded_relations_" + o.kind)
			for _, d := range o.joins {
				if splitPath(o.root, d.path)[0].level > 0 {
					c.Inc("joins_of_embedded_relation_by_plain_name")
				}
			}
			for _, d := range o.preloads {
				if d.plain {
					c.Inc("preloads_of_embedded_relation_by_plain_name")
				} else if l := splitPath(o.root, d.path)[0].level; l > 0 {
					c.Inc(fmt.Sprintf("preloads_by_embedded_path_level_%d", l))
				}
			}
		}
		if o.reuse {
			c.Inc("ops_into_reused_" + o.dest)
		}
		if o.fin != "" {
			c.Inc("struct_finisher_" + o.fin)
		}
		if o.twice {
			c.Inc("ops_second_execution_of_session_handle")
		}
		if o.unscoped {
			c.Inc("ops_unscoped_" + o.kind)
		}
		if o.sib != nil {
			c.Inc("ops_with_sibling_on_shared_session_handle_" + o.kind)
			if n := o.baseJoins(); n >= 0 {
				c.Inc(fmt.Sprintf("sibling_both_add_a_join_to_shared_handle_with_%d_joins", n))
			}
		}
		if len(o.joins) > 0 {
			c.Inc(fmt.Sprintf("ops_with_%d_association_joins", len(o.joins)))
		}
		for _, d := range o.preloads {
			if d.c.lifts() {
				c.Inc("preloads_with_unscoped_scope_function")
			}
			if len(d.prior) > 0 && d.c == nil {
				c.Inc("preloads_repeated_last_call_lifts_the_conditions")
			} else if len(d.prior) > 0 {
				c.Inc("preloads_repeated_last_call_with_conditions")
			}
			if d.scoped {
				c.Inc("preloads_registered_by_a_scope_of_the_query")
			}
		}
		if len(o.allPrior) > 0 {
			c.Inc("preload_associations_repeated")
		}
		if o.assocUnscoped {
			c.Inc("assoc_find_on_unscoped_association")
		}
		c.Add("relation_fields_where_a_replaced_preload_call_would_differ", k.replaced)
		c.Add("assoc_find_on_unscoped_association_soft_deleted_rows_withheld", k.withheld)
		if o.kind == "assoc-find" {
			c.Inc(fmt.Sprintf("assoc_find_model_%s_%d_distinct_parents", o.pshape, distinctRows(o.parents)))
		}
		c.Add("soft_deleted_rows_attached_under_lifted_scope", k.lifted)
		c.Add("parents_checked", k.parents)
		c.Add("children_attached", k.attached)
		for kind, n := range k.relKinds {
			c.Add("relation_checks_"+kind, n)
		}
		if len(k.problems) > 0 {
			msgs := []string{}
			for _, p := range k.problems {
				msgs = append(msgs, p.msg)
			}
			sig := signature(ds, o, k)
			detail := map[string]interface{}{
				"world": w.name, "profile": profileNames[p], "operation": desc, "problems": msgs, "tables": ds.dump(),
				"note": "rows inserted with raw SQL; u is a unique row id, a/b (ta/tb) are the key parts, boss_*/own_*/node_* the foreign keys, n a nullable payload",
			}
			// attribute to a reused destination / a reused handle / Unscoped() / several parents only
			// counterfactually: the first single dimension whose removal makes the call agree
			attributed := false
			// (a counterfactual, so tried before the pattern-matched classes of the embedded-relation root)
			if o.danglingOr() {
				grouped := o.groupedOr()
				if kf := safeExec(ds, grouped); len(kf.problems) == 0 {
					attributed = true
					sig = "ungrouped-or-in-preload-scope-captures-key-condition:" + mechanisms(o, k)
					if k.dead > 0 {
						// (the soft-delete clause of the statement alone: rows out of scope are attached)
						sig = "ungrouped-or-in-preload-scope-escapes-soft-delete-scope:" + mechanisms(o, k)
					}
					detail["counterfactual"] = "the same chain with the scope function written as one grouped condition, tx.Where(db.Where(a).Or(b)), agrees with the reference join: " + grouped.desc()
				}
			}
			if !attributed && o.repeats() {
				single := o.withoutPrior()
				if kf := safeExec(ds, single); len(kf.problems) == 0 {
					attributed = true
					sig = "repeated-preload-earlier-call-in-force:" + mechanisms(o, k)
					detail["counterfactual"] = "the same chain with ONE Preload call per relation (the last one) agrees with the reference join: " + single.desc()
				}
			}
			if cls := embeddedClass(o, k); !attributed && cls != "" {
				attributed = true
				sig = cls
			}
			if !attributed && o.assocUnscoped {
				plain := *o
				plain.assocUnscoped = false
				if kf := safeExec(ds, &plain); len(kf.problems) == 0 {
					attributed = true
					sig = "unscoped-association:assoc-find:" + string(o.root.rel(o.relName).kind)
					detail["counterfactual"] = "the same call without Unscoped() on the association agrees with the reference join: " + plain.desc()
				}
			}
			if !attributed && o.reuse {
				fresh := *o
				fresh.reuse, fresh.pre = false, nil
				if kf := safeExec(ds, &fresh); len(kf.problems) == 0 {
					attributed = true
					sig = staleSignature(o, k)
					detail["counterfactual"] = "the same call into a fresh zero-valued destination agrees with the reference join: " + fresh.desc()
				}
			}
			if !attributed && o.twice {
				once := *o
				once.twice = false
				if kf := safeExec(ds, &once); len(kf.problems) == 0 {
					attributed = true
					sig = "second-execution-of-session-handle:" + o.kind
					detail["counterfactual"] = "the first execution of the same chain agrees with the reference join: " + once.desc()
				}
			}
			if !attributed && o.sib != nil {
				alone := *o
				alone.sib = nil
				if kf := safeExec(ds, &alone); len(kf.problems) == 0 {
					attributed = true
					sig = "sibling-on-shared-session-handle:" + mechanisms(o, k)
					detail["counterfactual"] = "the same chain built in one go, without the sibling query derived from the shared handle, agrees with the reference join: " + alone.desc()
				}
			}
			if !attributed && o.unscoped {
				// the same call within the soft-delete scope (a soft-deleted parent selected for a struct
				// destination is then out of scope, which the reference accounts for)
				scoped := *o
				scoped.unscoped, scoped.unscopedLast = false, false
				if kf := safeExec(ds, &scoped); len(kf.problems) == 0 {
					attributed = true
					sig = "unscoped:" + mechanisms(o, k)
					detail["counterfactual"] = "the same call without Unscoped() agrees with the reference join: " + scoped.desc()
				}
			}
			if !attributed && o.kind == "assoc-find" && distinctRows(o.parents) > 1 {
				ok := true
				seen := map[int64]bool{}
				for _, pr := range o.parents {
					if seen[pr.u] {
						continue
					}
					seen[pr.u] = true
					one := *o
					one.parents = []*row{pr}
					if kf := safeExec(ds, &one); len(kf.problems) > 0 {
						ok = false
					}
				}
				if ok {
					rl := o.root.rel(o.relName)
					sig = "assoc-find-several-parents:" + string(rl.kind)
					if rl.composite() {
						sig += ":composite-key"
					}
					detail["counterfactual"] = "the same call for each of the parents alone (same container shape) agrees with the reference join"
				}
			}
			if o.root.groups != nil && !strings.Contains(sig, "embedded") {
				sig += ":model-with-embedded-relations"
			}
			c.Inc("sig_" + sig)
			c.Violation(sig, detail)
			continue
		}
		if k.attached > 0 {
			paths := []string{}
			for _, d := range o.joins {
				paths = append(paths, "J:"+d.path+fmt.Sprint(d.inner, d.c != nil))
			}
			for _, d := range o.preloads {
				f := ""
				if d.c != nil {
					f = d.c.form
				}
				for _, pc := range d.prior {
					f += ":after"
					if pc.c != nil {
						f += "-" + pc.c.form
					}
				}
				paths = append(paths, "P:"+d.path+":"+f+fmt.Sprint(d.plain, d.scoped))
			}
			sort.Strings(paths)
			b := k.attached
			if b > 3 {
				b = 3
			}
			c.Shape(w.name, profileNames[p], o.kind, o.root.name, o.relName, o.dest, o.fin, o.reuse, o.twice, o.dup, o.all, o.allCond != nil, o.findCond != nil, strings.Join(paths, "|"), b,
				o.unscoped, o.pshape, distinctRows(o.parents) > 1, o.sib != nil, len(o.allPrior) > 0, o.assocUnscoped)
			c.Inc("nontrivial_ops")
			if c.WantSample() && i == 3 {
				c.Sample(map[string]interface{}{"world": w.name, "profile": profileNames[p], "operation": desc, "parents": k.parents, "children_attached": k.attached, "tables": ds.dump()})
			}
		}
	}
}

var Engine = &core.Engine{
	ID:    "C11",
	Level: "exploration",
	Rule: "per case one random data graph (raw-SQL inserted) in one of five worlds of the same relation family - key = string | integer | string+string | integer+string | integer+integer (composite worlds 6 of 8 cases) - " +
		"with self-referential belongs-to/has-many, has-many + belongs-to back, has-one, many2many (composite join keys on both sides), polymorphic has-many and polymorphic has-one on the same table (single-key worlds; the has-one is also joined); every Node also has a second NON-primary unique key k (never zero, about half of the values are the first primary-key part of ANOTHER node) and relations that reference k instead of the primary key: has-many Extra / belongs-to Patron (`foreignKey:AltK;references:K`, all worlds, value and pointer foreign keys) and polymorphic has-many Shots / has-one Seal (`polymorphic:Owner;foreignKey:K`, single-key worlds; owner_id of a picture holds a primary key or a k of some node whatever its type value), a mismatch on such relations only is signed mismatch:<kind>:non-primary-referenced-key; the column order differs per world: the models that single-valued relations point to start with an embedded audit struct {DeletedAt, N} | a nullable foreign key | a nullable payload N | DeletedAt | the never-NULL row id (control), N is NULL in about half of the rows, so joined rows with leading NULL columns exist in four worlds; key parts drawn from hostile pools ('_' ',' spaces, 'nil', '0', '', leading zeros, clusters (s1,s2_s3)/(s1_s2,s3) that collide only after joining), " +
		"composite keys also sharing one part with / being the CROSS of two other keys ((a,1),(b,2) next to (a,2)), foreign keys existing / dangling (preferably re-splits or crosses of existing keys) / NULL / partially NULL / zero part, soft-deleted rows in every soft-delete table; each graph is biased by one of four profiles (clean | separator clusters | partial NULL next to the text 'nil' | integer part 0) and the hazards it really carries are measured per relation, so a mismatch is signed composite-key-collision / null-part-vs-nil-text / zero-int-key-part only when that is the single hazard of the relations involved (hazard-free relations must match exactly: signature mismatch:*); x 8 operations: Preload of 1-3 random relation paths of depth 1-3 (conditions as args, map, scope function, scope with Order), Preload(clause.Associations) (+condition, +nested path), " +
		"Joins/InnerJoins of 1 (half), 2 or 3-8 distinct single-valued paths of depth 1-3 (ON conditions on depth-1 joins that no other joined path runs through) combined with Preloads below/next to them, Association(rel).Find (+conditions) into []T/[]*T " +
		"on Model(&record) or Model(&[]T) / Model(&[]*T) holding 1-4 records drawn from ALL rows of the table (repeats and soft-deleted records included: only their key values count; expected = set union of the reference rows of the distinct parents); parents into struct (First | Take | Last | Find), []T, []*T, optionally every parent twice in the result (also next to association joins); " +
		"soft-delete scope: 1/5 of all operations of every kind run under Unscoped() (called first, or last in the chain): soft-deleted parents are then selected and every relation - preloaded at any depth, attached by Joins/InnerJoins (ON clause), returned by Association().Find - must also hold its soft-deleted rows; a Preload condition may be a scope function calling Unscoped() (lifts the scope of that one relation); the deleted_at column of every loaded row is compared with the inserted row; " +
		"destination fresh or REUSED (2/5 of the struct, 1/6 of the slice destinations, 1/4 of the Association().Find results): it already holds earlier records - a struct holds the record of the row that is read again - whose relation fields carry 1-2 arbitrary rows (rows whose key still matches but that are soft-deleted or excluded by the condition, or rows of another parent): after the call every REQUESTED relation must hold exactly the reference rows; 1/5 of the chains are frozen with Session(&gorm.Session{}) and executed twice, the second execution is compared; " +
		"SHARED handle: 1/4 of the other operations (1/2 of those with 3+ joins) split their chain at a random step - with several joins mostly between the joins, half of the time before the last join, so the handle carries 0-7 joins - : base := db.<first steps>.Session(&gorm.Session{}); q := base.<remaining steps>; sib := base.<1-2 joins: a relation q joins itself under another / no ON condition, or another path; 0-2 Preloads: a path q preloads itself under another condition, or another path; Where; Unscoped()>, q and sib derived in either order, sib executed before q or never; q is compared (Association().Find: base := db.Model(parents).Session(..), q/sib := base.Association(rel / same or other rel), sib.Find with another condition); a failure that disappears when the chain is built in one go is signed sibling-on-shared-session-handle:<preload|joins|assoc-find|parents|parents-of-inner-joins>; " +
		"a failure that disappears with a fresh destination is signed stale-on-reused-destination:<dest>:<preload|joins|assoc-find>[:<relation kind>[:no-owner-key]], one that disappears on the first execution second-execution-of-session-handle:<kind>, one that disappears without the sibling sibling-on-shared-session-handle:*, " +
		"REPEATED Preload: 1/4 of the Preload directives (1/5 of the Preload(clause.Associations)) are the LAST of 2-3 Preload calls of the same chain for the same name; the 1-2 earlier calls carry conditions (args | map | scope function | scope function calling Unscoped()) when the last call has none (the last call lifts them), else none (1/3) or independently drawn ones; an earlier call stands at the very start of the chain (before the joins; with a shared handle the cut may fall between the calls, so the handle carries the conditional Preload and q replaces it) or immediately before the last call; only the last call counts for the reference join (the counter relation_fields_where_a_replaced_preload_call_would_differ measures how often an earlier call would have given other rows); a failure that disappears when every relation is preloaded by its last call alone is signed repeated-preload-earlier-call-in-force:<preload|joins|parents>; 1/8 of the other Preload directives are made by a function registered with db.Scopes (run when the query is executed); " +
		"Association(rel).Unscoped().Find: 1/4 of the Association().Find operations (and of their siblings) call Unscoped() on the ASSOCIATION: the rows returned must be the same as without it (the soft-delete scope is that of the handle; counter ..._soft_deleted_rows_withheld = soft-deleted rows of the parents rightly not returned); a failure that disappears without it is signed unscoped-association:assoc-find:<relation kind> (both counterfactuals are tried before the others); " +
		"one that disappears without Unscoped() unscoped:<preload|joins|assoc-find|parents|parents-of-inner-joins>, an Association().Find on several parents that agrees for each parent alone assoc-find-several-parents:<relation kind>[:composite-key] (tried in this order); " +
		"ROOT MODEL: Node (8/16 of the operations), Item (3/16) or Org (5/16): a soft-delete model whose relations partly live in EMBEDDED structs - Org.Home (its OWN belongs-to Node), Org.Site.Home and Org.Site.Geo.Home (belongs-to relations of the SAME name in a named embedded struct `embedded;embeddedPrefix:site_` and in a second one embedded in the first: two embedding levels), Org.Site.Crew (has-many Node: Node.boss = the Site key) and Org.Site.Geo.Card (has-one Card: Card.node = the Geo key; I1: Site.Card, so that Geo holds nothing but a relation named like one of Site), S1 also Site.Annex (relation in a struct embedded ANONYMOUSLY in Site) and Mentor (anonymously embedded in the Org); every level has a key tuple of the world's key type drawn like a foreign key aimed at the nodes (existing / dangling / NULL / partially NULL / zero part); shapes per world: own Home declared before / after Site, Site.Home before / after Geo, Geo embedded by value / by pointer (II), the outer struct called Site or Base (IS: plain relation names then sort after the struct's name), explicit foreignKey tags with per-level field names or none with the same field name HomeA on both embedded levels (I1), pointer / value key parts; Preload names an embedded relation by its embedded path (\"Site.Geo.Home\", nested paths continue into the Node family), the plain name Home is the model's own relation for Preload, Joins and Association(); Crew / Card / Annex (unique names) are joined and given to Association() by their plain name, and preloaded by it in 1/4 of the cases (one name per relation and query); Preload(clause.Associations) must load the relations of every level; reused destinations, sessions, siblings, Unscoped as for the other roots; failures on this root are signed <class>:embedded-relation (a deviating relation of an embedded level) | <class>:model-with-embedded-relations | error:<kind>:model-with-embedded-relations, and two recognised classes embedded-relation-not-preloaded:join-of-same-name (the query joins a relation, e.g. the own Home, and preloads an embedded relation with the same field name, which stays empty) and assoc-all-reloads-embedded-relation:nested-preload-lost (Preload(clause.Associations) next to a nested Preload through an embedded relation with a unique name: the rows below it are missing); " +
		"DISJUNCTIVE conditions: of the conditions of Preload / Preload(clause.Associations) / Association().Find (and of replaced earlier calls and siblings) about 1/3 are a disjunction of two alternatives on v (a OR b, drawn independently over all values of v, so soft-deleted children matching only the FIRST alternative occur): a scope function ending in an ungrouped Or, func(tx) { return tx.Where(a).Or(b) } (Preload only), a scope function with one grouped condition, tx.Where(db.Where(a).Or(b)), or inline arguments (\"v = ? OR v < ?\", x, y); each parent must hold exactly its own children satisfying (a OR b) and the soft-delete scope; a failure that disappears when the ungrouped scope function is written grouped is signed ungrouped-or-in-preload-scope-escapes-soft-delete-scope:<mechanisms> when a soft-deleted row is attached under a scope in force, else ungrouped-or-in-preload-scope-captures-key-condition:<mechanisms>; " +
		"distinct = (world, operation kind, root, relation paths with condition forms, destination, finisher, reused flag, second-execution flag, duplicate flag, attached-children bucket, Unscoped flag, shape of the Association() parent value, several parents, shared-handle flag, forms of the replaced earlier Preload calls, scope-registered flag, Unscoped() on the association); non-trivial = at least one child row was attached where the reference join expects it",
	Assumptions: []string{
		"a record whose referenced key parts are ALL zero-valued (0 / '') is never generated as a match target: gorm treats an all-zero key as 'no key' (GetIdentityFieldValuesMap skips it); keys with SOME zero part are generated",
		"has-one: at most one live child row per owner key (which of several candidates is picked is not fixed by the statement); any number of soft-deleted candidates. Where the soft-delete scope is lifted and a has-one owner has several candidates: a preloaded has-one may hold any ONE of them, and such a relation is never part of a Joins path (the JOIN would multiply the parent row); Association().Find returns all of them",
		"Unscoped() lifts the soft-delete scope of the whole query: parents, every preloaded level, joined relations, Association().Find (gorm copies Statement.Unscoped into every preload query and reads it when it writes a join's ON clause). A scope function calling Unscoped() is only attached to a Preload path that no other Preload extends (whether it reaches the levels below is not fixed by the statement) and never to Preload(clause.Associations)",
		"Association().Find on several parents: the result is compared with the set union of the parents' reference rows; for has-one / has-many / belongs-to / polymorphic every row must be returned once, for many2many the number of times a row linked to several of the parents is returned is not compared (not fixed by the statement); the parent records carry only their scalar columns",
		"a reused destination holds, in its scalar fields, the current column values of the row that is read again (so First(&dest) adds the primary-key condition of that very row); relation fields of a reused STRUCT that the call does not request keep what they held (not fixed by the statement: not compared); elements of reused slices are re-created by gorm and compared like fresh ones",
		"non-pointer scalar columns are never NULL (gorm leaves a non-pointer field of a reused destination untouched when the column is NULL: plain scanning, not part of this property)",
		"polymorphic has-one: at most one row per (owner key, type value)",
		"conditions only mention the payload column v; a condition is only attached to the last segment of a path; Joins ON-conditions only on depth-1 joins whose relation is not the first segment of another joined path of the same query (gorm writes one JOIN per alias, the first path that needs it decides the ON clause; and it applies the condition of a nested path to every hop); a Preload whose path is (a prefix of) a joined path carries no condition (gorm takes the joined rows); the same path is never joined twice in one query",
		"queries derived from one handle are only derived after Session(&gorm.Session{}) (gorm's contract for reusing a handle); the sibling's own result is not compared (every role - derived first / second, executed after the other was derived / executed - is taken by the compared query in some case)",
		"the non-primary key k is unique among all rows of the table (soft-deleted ones included), never zero and never NULL",
		"SQLite semantics of equality: binary, case- and space-sensitive text comparison; NULL equals nothing",
		"join-table rows never contain NULL; key columns of parents are never NULL",
		"relations in embedded structs: an embedded relation shadowed by the model's own relation of the same name is addressed by its embedded path only (Preload); an embedded relation whose name is unique in the model is also addressed by its plain name (the only name Joins and Association() resolve); within one query a relation is preloaded under ONE name (plain or embedded path; gorm keeps one entry per name and each loads the field anew), and never by its plain name next to Preload(clause.Associations); an own foreign key field with the same NAME as a foreign key field of an embedded struct is not generated (which field gorm's naming convention / a foreignKey tag picks for the own relation is schema parsing, not part of this property: observed on the unchanged tree to be the LAST declared field of that name, i.e. the embedded one); all-zero non-NULL key tuples of an Org level are not generated (referenced key of has-many / has-one)",
		"several Preload calls of one chain for the same name (same argument text): the conditions given are those of the LAST call (gorm keeps one entry per name, a later call replaces it, with or without conditions); the same relation is never preloaded under two different names, and a Preload made by a db.Scopes function never names a relation that the chain preloads itself (its place in the call order is the execution of the query: which call is the last is then not fixed by the statement)",
		"Association(rel).Unscoped() does not change the rows Find returns: the soft-delete scope of a read is that of the handle (db.Unscoped()); Unscoped() of the association selects what Delete / Replace / Clear remove (property C12)",
		"a disjunctive condition given to Preload / Association().Find means (a OR b) as ONE condition next to the key condition and the soft-delete scope, however it is spelt (ungrouped Or in a scope function, grouped condition, inline SQL with OR); Or is not generated in Joins ON-conditions nor on the parent query",
		"order of attached children is not compared (multiset by unique row id u, then every scalar column and nested relation per row)",
	},
	Cases: func(tier string) int {
		if tier == "thorough" {
			return 60000
		}
		return 4000
	},
	Batch:         func(string) int { return 125 },
	Run:           run,
	Init:          initEnv,
	MinNontrivial: 300,
}

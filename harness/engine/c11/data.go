package c11

import (
	"fmt"
	"sort"
	"strconv"
	"strings"

	"verif/core"
)

// val is nil (NULL), int64 or string.
type val = interface{}
type tuple []val

type row struct {
	u       int64
	vals    map[string]val
	deleted bool
}

type joinRow struct{ owner, target tuple }

type dataset struct {
	w     *world
	p     profile
	rows  map[*model][]*row
	joins []joinRow
}

func (r *row) tuple(cols []string) tuple {
	t := make(tuple, len(cols))
	for i, c := range cols {
		t[i] = r.vals[c]
	}
	return t
}

// eq is SQL equality over non-NULL values of the same column type.
func eq(a, b val) bool {
	if a == nil || b == nil {
		return false
	}
	return a == b
}

func tupleEq(a, b tuple) bool {
	if len(a) != len(b) {
		return false
	}
	for i := range a {
		if !eq(a[i], b[i]) {
			return false
		}
	}
	return true
}

func hasNull(t tuple) bool {
	for _, v := range t {
		if v == nil {
			return true
		}
	}
	return false
}

func allZero(t tuple) bool {
	for _, v := range t {
		switch x := v.(type) {
		case int64:
			if x != 0 {
				return false
			}
		case string:
			if x != "" {
				return false
			}
		}
	}
	return true
}

func renderVal(v val) string {
	switch x := v.(type) {
	case nil:
		return "NULL"
	case int64:
		return strconv.FormatInt(x, 10)
	case string:
		return strconv.Quote(x)
	}
	return fmt.Sprintf("?%v", v)
}

func (t tuple) String() string {
	p := make([]string, len(t))
	for i, v := range t {
		p[i] = renderVal(v)
	}
	return "(" + strings.Join(p, ",") + ")"
}

// ident is an injective identity of a tuple (NULLs are identities of their own here; this is
// only used to deduplicate, never to match).
func (t tuple) ident() string { return t.String() }

// ---- hostile values -------------------------------------------------------------

var strPool = []string{"a", "b", "c", "a_b", "b_c", "a_", "_b", "_", "nil", "0", "00", "007", "7", "1", "a,b", "a b", " a", "a ", "A", "NULL", "", "x_y_z", "__", "1_2"}
var segPool = []string{"a", "b", "c", "", "nil", "0", "1", "00", " ", "a,b", "x y", "_", "7"}
var intPool = []int64{0, 1, 2, 3, 7, 10, -1, 100, 12}

// profile biases a data graph towards ONE class of string-identity hazard, so that what fires
// can be named; which hazards a graph really carries is measured afterwards (hazards()).
type profile int

const (
	pClean   profile = iota // hostile contents, but no generator aimed at a hazard
	pSep                    // composite string keys that collide after joining with the separator
	pNullNil                // partially NULL foreign keys next to keys holding the text "nil"
	pZero                   // composite keys with an integer part 0 (value 0, pointer to 0, NULL)
)

var profileNames = []string{"clean", "separator", "null-nil", "zero"}

func genPart(r *core.Rand, k kind, p profile) val {
	if k == kInt {
		for {
			if x := core.Pick(r, intPool); x != 0 || p == pZero {
				return x
			}
		}
	}
	return core.Pick(r, strPool)
}

func genTuple(r *core.Rand, kinds []kind, p profile) tuple {
	t := make(tuple, len(kinds))
	for i, k := range kinds {
		t[i] = genPart(r, k, p)
	}
	return t
}

func isSS(kinds []kind) bool { return len(kinds) == 2 && kinds[0] == kStr && kinds[1] == kStr }

// resplit returns a tuple different from t whose parts joined by "_" give the same text.
func resplit(r *core.Rand, t tuple) tuple {
	a, b := t[0].(string), t[1].(string)
	joined := a + "_" + b
	var cuts []int
	for i := 0; i < len(joined); i++ {
		if joined[i] == '_' && i != len(a) {
			cuts = append(cuts, i)
		}
	}
	if len(cuts) == 0 {
		return nil
	}
	i := core.Pick(r, cuts)
	return tuple{joined[:i], joined[i+1:]}
}

// genKeys returns n..n+1 distinct key tuples, none of them all-zero.
func genKeys(r *core.Rand, kinds []kind, n int, p profile) []tuple {
	var keys []tuple
	seen := map[string]bool{}
	add := func(t tuple) {
		if t == nil || allZero(t) || seen[t.ident()] {
			return
		}
		seen[t.ident()] = true
		keys = append(keys, t)
	}
	for tries := 0; len(keys) < n && tries < 100; tries++ {
		switch {
		case p == pSep && isSS(kinds) && r.Chance(2, 5):
			// a cluster that collides only after joining with the separator
			s1, s2, s3 := core.Pick(r, segPool), core.Pick(r, segPool), core.Pick(r, segPool)
			add(tuple{s1, s2 + "_" + s3})
			add(tuple{s1 + "_" + s2, s3})
		case len(kinds) == 2 && len(keys) > 0 && (p == pNullNil || p == pZero) && r.Chance(1, 3):
			// a twin with a zero-like part: the text "nil" resp. the number 0; (NULL, y) and (&0, y)
			// on the foreign side are candidates for being confused with it by a string identity
			base := core.Pick(r, keys)
			i := r.Intn(2)
			t := append(tuple(nil), base...)
			switch {
			case kinds[i] == kStr && p == pNullNil:
				t[i] = "nil"
			case kinds[i] == kInt && p == pZero:
				t[i] = int64(0)
			}
			add(t)
		case len(kinds) == 2 && len(keys) > 1 && r.Chance(1, 4):
			// the cross of two existing keys: every part occurs in some key, the tuple is another one
			// (a column-by-column comparison cannot tell it from them)
			k1, k2 := core.Pick(r, keys), core.Pick(r, keys)
			add(tuple{k1[0], k2[1]})
		case len(kinds) == 2 && len(keys) > 0 && r.Chance(1, 4):
			// share one part with an existing key
			base := core.Pick(r, keys)
			if r.Bool() {
				add(tuple{base[0], genPart(r, kinds[1], p)})
			} else {
				add(tuple{genPart(r, kinds[0], p), base[1]})
			}
		default:
			add(genTuple(r, kinds, p))
		}
	}
	return keys
}

// genAltKeys draws one value of the non-primary unique key k per node: distinct, never zero, about
// half of them the first primary-key part of ANOTHER node (so that a lookup by the wrong key finds
// somebody else's rows instead of nothing).
func genAltKeys(r *core.Rand, k kind, nodeKeys []tuple, p profile) []tuple {
	out := make([]tuple, len(nodeKeys))
	seen := map[string]bool{}
	for i := range nodeKeys {
		for tries := 0; out[i] == nil; tries++ {
			var t tuple
			switch {
			case tries >= 40:
				// the pools are exhausted (cannot happen with at most 7 nodes): a value outside them
				if k == kInt {
					t = tuple{int64(1000 + i)}
				} else {
					t = tuple{fmt.Sprintf("k%d", i)}
				}
			case len(nodeKeys) > 1 && r.Bool():
				j := r.Intn(len(nodeKeys))
				if j == i {
					continue
				}
				t = tuple{nodeKeys[j][0]}
			default:
				t = tuple{genPart(r, k, p)}
			}
			if allZero(t) || seen[t.ident()] {
				continue
			}
			seen[t.ident()] = true
			out[i] = t
		}
	}
	return out
}

// genFK generates a foreign-key tuple aimed at targets; nullable[i] says whether part i may be NULL.
func genFK(r *core.Rand, kinds []kind, targets []tuple, nullable []bool, p profile) tuple {
	anyNullable, allNullable := false, true
	for _, n := range nullable {
		anyNullable = anyNullable || n
		allNullable = allNullable && n
	}
	existing := func() tuple {
		if len(targets) == 0 {
			return genTuple(r, kinds, p)
		}
		return append(tuple(nil), core.Pick(r, targets)...)
	}
	switch x := r.Intn(20); {
	case x < 11:
		return existing()
	case x < 13:
		if allNullable {
			return make(tuple, len(kinds))
		}
		return existing()
	case x < 16:
		// dangling, preferably one that collides with an existing key after joining
		if p == pSep && isSS(kinds) && len(targets) > 0 {
			if t := resplit(r, core.Pick(r, targets)); t != nil {
				return t
			}
		}
		return genTuple(r, kinds, p)
	case x < 19:
		// partial NULL (composite only)
		t := existing()
		if len(kinds) > 1 && anyNullable && p != pSep {
			for tries := 0; tries < 8; tries++ {
				i := r.Intn(len(kinds))
				if nullable[i] && (p != pZero || kinds[i] == kInt) {
					t[i] = nil
					break
				}
			}
		}
		return t
	default:
		// pointer to a zero value in one part
		t := existing()
		i := r.Intn(len(kinds))
		if kinds[i] == kStr {
			t[i] = ""
		} else if p == pZero {
			t[i] = int64(0)
		}
		return t
	}
}

func nullableOf(m *model, cols []string) []bool {
	out := make([]bool, len(cols))
	for i, c := range cols {
		out[i] = m.col(c).ptr
	}
	return out
}

// payload draws the condition column v and the nullable payload n (NULL in about half of the rows:
// whatever column a model starts with, some joined rows have a NULL in it).
func payload(r *core.Rand, rw *row) {
	rw.vals["v"] = int64(r.Intn(4))
	rw.vals["n"] = nil
	if r.Bool() {
		rw.vals["n"] = int64(r.Intn(3))
	}
}

func genDataset(r *core.Rand, w *world, p profile) *dataset {
	ds := &dataset{w: w, p: p, rows: map[*model][]*row{}}
	nk := len(w.kinds)
	keyCols := w.node.rels[1].ownerCols  // Subs: node key
	bossCols := w.node.rels[0].ownerCols // Boss: boss_* on node
	nodeKeys := genKeys(r, w.kinds, r.Range(2, 6), p)
	tagKeys := genKeys(r, w.kinds, r.Range(1, 4), p)
	altKinds := w.kinds[:1]
	altKeys := genAltKeys(r, altKinds[0], nodeKeys, p)
	u := int64(0)
	next := func() int64 { u++; return u }
	set := func(rw *row, cols []string, t tuple) {
		for i, c := range cols {
			rw.vals[c] = t[i]
		}
	}
	// nodes
	for i, k := range nodeKeys {
		rw := &row{u: next(), vals: map[string]val{}, deleted: r.Chance(1, 6)}
		rw.vals["u"] = rw.u
		payload(r, rw)
		set(rw, keyCols, k)
		rw.vals["k"] = altKeys[i][0]
		set(rw, bossCols, genFK(r, w.kinds, nodeKeys, nullableOf(w.node, bossCols), p))
		ds.rows[w.node] = append(ds.rows[w.node], rw)
	}
	// items
	ownCols := w.item.rels[0].ownerCols
	for i, n := 0, r.Range(0, 9); i < n; i++ {
		rw := &row{u: next(), vals: map[string]val{}, deleted: r.Chance(1, 5)}
		rw.vals["u"] = rw.u
		payload(r, rw)
		set(rw, ownCols, genFK(r, w.kinds, nodeKeys, nullableOf(w.item, ownCols), p))
		rw.vals["alt_k"] = genFK(r, altKinds, altKeys, nullableOf(w.item, []string{"alt_k"}), p)[0]
		ds.rows[w.item] = append(ds.rows[w.item], rw)
	}
	// cards: at most one live card per key tuple (which candidate a has-one picks among several is
	// not fixed by the statement); any number of soft-deleted candidates
	cardCols := w.node.rel("Card").targetCols
	liveCard := map[string]bool{}
	addCard := func(fk tuple, deleted bool) {
		if !deleted {
			if !hasNull(fk) {
				if liveCard[fk.ident()] {
					deleted = true
				}
				liveCard[fk.ident()] = true
			}
		}
		rw := &row{u: next(), vals: map[string]val{}, deleted: deleted}
		rw.vals["u"] = rw.u
		payload(r, rw)
		set(rw, cardCols, fk)
		ds.rows[w.card] = append(ds.rows[w.card], rw)
	}
	for _, k := range nodeKeys {
		if r.Chance(3, 5) {
			addCard(append(tuple(nil), k...), false)
		}
		for r.Chance(1, 4) {
			addCard(append(tuple(nil), k...), true)
		}
	}
	for i, n := 0, r.Intn(3); i < n; i++ {
		addCard(genFK(r, w.kinds, nodeKeys, nullableOf(w.card, cardCols), p), r.Chance(1, 4))
	}
	// tags and join rows
	tagCols := w.node.rel("Tags").targetCols
	for _, k := range tagKeys {
		rw := &row{u: next(), vals: map[string]val{}, deleted: r.Chance(1, 5)}
		rw.vals["u"] = rw.u
		payload(r, rw)
		set(rw, tagCols, k)
		ds.rows[w.tag] = append(ds.rows[w.tag], rw)
	}
	seenJoin := map[string]bool{}
	addJoin := func(o, t tuple) {
		if hasNull(o) || hasNull(t) {
			return
		}
		id := o.ident() + t.ident()
		if seenJoin[id] {
			return
		}
		seenJoin[id] = true
		ds.joins = append(ds.joins, joinRow{owner: o, target: t})
	}
	noNull := make([]bool, nk)
	for _, nkey := range nodeKeys {
		for _, tk := range tagKeys {
			if r.Chance(2, 5) {
				addJoin(nkey, tk)
			}
		}
	}
	for i, n := 0, r.Intn(4); i < n; i++ {
		addJoin(genFK(r, w.kinds, nodeKeys, noNull, p), genFK(r, w.kinds, tagKeys, noNull, p))
	}
	// polymorphic children
	if w.pic != nil {
		// owner_id holds a primary key or an alternative key k of a node (both of the same column type; a
		// value is often both: the primary key of one node and the k of another), whatever the type value
		owners := append(append([]tuple{}, nodeKeys...), altKeys...)
		oneOf := map[string]bool{}
		for i, n := 0, r.Range(0, 10); i < n; i++ {
			rw := &row{u: next(), vals: map[string]val{}}
			rw.vals["u"] = rw.u
			payload(r, rw)
			rw.vals["owner_id"] = genFK(r, w.kinds, owners, []bool{false}, p)[0]
			ot := core.Pick(r, []string{"node", "node", "node", "logo", "logo", "shot", "shot", "shot", "seal", "seal", "tag", "nodes", "Node", "Logo", ""})
			if ot == "logo" || ot == "seal" {
				// polymorphic has-one: at most one candidate per (owner key, type value) (pictures are not soft-deleted)
				id := ot + renderVal(rw.vals["owner_id"])
				if oneOf[id] {
					ot = map[string]string{"logo": "node", "seal": "shot"}[ot]
				}
				oneOf[id] = true
			}
			rw.vals["owner_type"] = ot
			ds.rows[w.pic] = append(ds.rows[w.pic], rw)
		}
	}
	// orgs: every level's key tuple is drawn like a foreign key aimed at the nodes (existing / dangling /
	// NULL / partially NULL / zero part); it is the foreign key of the level's belongs-to and the
	// referenced key of its has-many / has-one, so it is never an all-zero non-NULL tuple
	if w.org != nil {
		for i, n := 0, r.Range(2, 4); i < n; i++ {
			rw := &row{u: next(), vals: map[string]val{}, deleted: r.Chance(1, 6)}
			rw.vals["u"] = rw.u
			payload(r, rw)
			for _, g := range w.org.groups {
				t := genFK(r, w.kinds[:len(g)], nodeKeys, nullableOf(w.org, g), p)
				if !hasNull(t) && allZero(t) {
					t = append(tuple(nil), core.Pick(r, nodeKeys)...)
				}
				set(rw, g, t)
			}
			ds.rows[w.org] = append(ds.rows[w.org], rw)
		}
	}
	return ds
}

func (ds *dataset) insert() {
	tx, err := H.SQL.Begin()
	must(err)
	for _, w := range worlds {
		if w != ds.w {
			continue
		}
		for _, m := range w.models {
			_, err := tx.Exec("DELETE FROM " + m.table)
			must(err)
		}
		_, err := tx.Exec("DELETE FROM " + w.joinTable)
		must(err)
	}
	for _, m := range ds.w.models {
		names := []string{}
		for _, cl := range m.cols {
			names = append(names, cl.name)
		}
		if m.soft {
			names = append(names, "deleted_at")
		}
		q := fmt.Sprintf("INSERT INTO %s(%s) VALUES (%s)", m.table, strings.Join(names, ","), strings.TrimSuffix(strings.Repeat("?,", len(names)), ","))
		for _, rw := range ds.rows[m] {
			args := []interface{}{}
			for _, cl := range m.cols {
				args = append(args, rw.vals[cl.name])
			}
			if m.soft {
				if rw.deleted {
					args = append(args, delTime)
				} else {
					args = append(args, nil)
				}
			}
			_, err := tx.Exec(q, args...)
			must(err)
		}
	}
	q := fmt.Sprintf("INSERT INTO %s(%s) VALUES (%s)", ds.w.joinTable, strings.Join(ds.w.joinCols, ","), strings.TrimSuffix(strings.Repeat("?,", len(ds.w.joinCols)), ","))
	for _, j := range ds.joins {
		args := append(append([]interface{}{}, j.owner...), j.target...)
		_, err := tx.Exec(q, args...)
		must(err)
	}
	must(tx.Commit())
}

// ---- reference join ---------------------------------------------------------------

// cond is a condition on the payload column v of the loaded relation.
type cond struct {
	form string // args | map | scope | scope-order | scope-unscoped | join-on | scope-or | scope-or-group | args-or
	op   string // ">=", "<", "="
	x    int64
	// the *-or forms: a second alternative on v (v op x OR v op2 x2)
	op2 string
	x2  int64
}

// alt reports whether the condition is a disjunction of two alternatives.
func (c *cond) alt() bool {
	return c != nil && (c.form == "scope-or" || c.form == "scope-or-group" || c.form == "args-or")
}

func cmpV(v int64, op string, x int64) bool {
	switch op {
	case ">=":
		return v >= x
	case "<":
		return v < x
	default:
		return v == x
	}
}

// lifts reports whether the condition itself lifts the soft-delete scope of the relation it is
// attached to (a scope function that calls Unscoped()).
func (c *cond) lifts() bool { return c != nil && c.form == "scope-unscoped" }

func (c *cond) ok(r *row) bool {
	if c == nil {
		return true
	}
	v := r.vals["v"].(int64)
	return cmpV(v, c.op, c.x) || (c.alt() && cmpV(v, c.op2, c.x2))
}

func (ds *dataset) live(m *model, r *row) bool { return !(m.soft && r.deleted) }

// expected returns the rows of rel.target that belong to owner row p: foreign key equals the
// referenced key, satisfying c and the soft-delete scope (lifted when the whole query is Unscoped
// or the condition is a scope function calling Unscoped()).
func (ds *dataset) expected(rl *rel, p *row, c *cond, unscoped bool) []*row {
	return ds.join(rl, p, c, unscoped || c.lifts())
}

// ambiguous reports whether, without the soft-delete scope, some owner row of the single-valued
// relation rl has more than one candidate row (which one a has-one holds is then not fixed by the
// statement, and a JOIN would multiply the parent row).
func (ds *dataset) ambiguous(rl *rel) bool {
	if !rl.single {
		return false
	}
	for _, p := range ds.rows[rl.owner] {
		if len(ds.join(rl, p, nil, true)) > 1 {
			return true
		}
	}
	return false
}

// linked is expected without the soft-delete scope (used only to draw plausible earlier content of
// a reused destination, never as an oracle).
func (ds *dataset) linked(rl *rel, p *row) []*row { return ds.join(rl, p, nil, true) }

func (ds *dataset) join(rl *rel, p *row, c *cond, unscoped bool) []*row {
	var out []*row
	ok := func(t *row) bool {
		if !(unscoped || ds.live(rl.target, t)) || !c.ok(t) {
			return false
		}
		if rl.polyCol != "" && t.vals[rl.polyCol] != rl.polyVal {
			return false
		}
		return true
	}
	pk := p.tuple(rl.ownerCols)
	if rl.kind == many2many {
		for _, j := range ds.joins {
			if !tupleEq(pk, j.owner) {
				continue
			}
			for _, t := range ds.rows[rl.target] {
				if ok(t) && tupleEq(j.target, t.tuple(rl.targetCols)) {
					out = append(out, t)
				}
			}
		}
		return out
	}
	for _, t := range ds.rows[rl.target] {
		if ok(t) && tupleEq(pk, t.tuple(rl.targetCols)) {
			out = append(out, t)
		}
	}
	return out
}

func (ds *dataset) byU(m *model, u int64) *row {
	for _, r := range ds.rows[m] {
		if r.u == u {
			return r
		}
	}
	return nil
}

// ---- classification of a mismatch by the key contents involved ------------------------

// hazards reports which classes of string-identity hazard the key tuples of relation rl carry
// in this dataset (measured, not assumed): used only to give genuine deviations a stable
// signature; a relation without any hazard must load exactly the reference join.
//
//	composite-key-collision  two distinct NULL-free tuples give the same text when joined by "_"
//	null-part-vs-nil-text    a tuple with a NULL part equals another one after writing "nil" for NULL
//	zero-int-key-part        a composite tuple has an integer part 0
func (ds *dataset) hazards(rl *rel) []string {
	if !rl.composite() {
		return nil
	}
	var hops [][]tuple
	collect := func(m *model, cols []string) []tuple {
		var out []tuple
		for _, r := range ds.rows[m] {
			out = append(out, r.tuple(cols))
		}
		return out
	}
	if rl.kind == many2many {
		h1 := collect(rl.owner, rl.ownerCols)
		h2 := collect(rl.target, rl.targetCols)
		for _, j := range ds.joins {
			h1 = append(h1, j.owner)
			h2 = append(h2, j.target)
		}
		hops = [][]tuple{h1, h2}
	} else {
		hops = [][]tuple{append(collect(rl.owner, rl.ownerCols), collect(rl.target, rl.targetCols)...)}
	}
	plain := func(t tuple) string {
		p := make([]string, len(t))
		for i, v := range t {
			switch x := v.(type) {
			case nil:
				p[i] = "nil"
			case int64:
				p[i] = strconv.FormatInt(x, 10)
			case string:
				p[i] = x
			}
		}
		return strings.Join(p, "_")
	}
	collide := func(ts []tuple) bool {
		seen := map[string]string{}
		for _, t := range ts {
			k := plain(t)
			if id, ok := seen[k]; ok && id != t.ident() {
				return true
			}
			seen[k] = t.ident()
		}
		return false
	}
	var out []string
	sep, null, zero := false, false, false
	for _, h := range hops {
		var nn []tuple
		for _, t := range h {
			if !hasNull(t) {
				nn = append(nn, t)
			}
			for _, v := range t {
				if x, ok := v.(int64); ok && x == 0 {
					zero = true
				}
			}
		}
		if collide(nn) {
			sep = true
		} else if collide(h) {
			null = true
		}
	}
	if sep {
		out = append(out, "composite-key-collision")
	}
	if null {
		out = append(out, "null-part-vs-nil-text")
	}
	if zero {
		out = append(out, "zero-int-key-part")
	}
	return out
}

func (ds *dataset) dump() map[string][]string {
	out := map[string][]string{}
	for _, m := range ds.w.models {
		var lines []string
		for _, r := range ds.rows[m] {
			parts := []string{}
			for _, cl := range m.cols {
				parts = append(parts, cl.name+"="+renderVal(r.vals[cl.name]))
			}
			if m.soft && r.deleted {
				parts = append(parts, "SOFT-DELETED")
			}
			lines = append(lines, strings.Join(parts, " "))
		}
		out[m.table] = lines
	}
	var lines []string
	for _, j := range ds.joins {
		lines = append(lines, j.owner.String()+" -> "+j.target.String())
	}
	sort.Strings(lines)
	out[ds.w.joinTable] = lines
	return out
}

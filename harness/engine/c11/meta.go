package c11

import (
	"fmt"
	"reflect"
	"strings"

	"gorm.io/gorm"

	"verif/core"
	"verif/vdb"
)

// The metadata below is written by hand (it is the harness's own description of the model
// family, independent of gorm's schema parser): the reference join is computed from it.

type kind int

const (
	kInt kind = iota
	kStr
)

type col struct {
	name  string // column name
	field string // Go field name
	k     kind
	ptr   bool // Go field is a pointer: NULL may be stored
}

type relKind string

const (
	hasOne    relKind = "has_one"
	hasMany   relKind = "has_many"
	belongsTo relKind = "belongs_to"
	many2many relKind = "many2many"
	polyMany  relKind = "polymorphic"
	polyOne   relKind = "polymorphic_has_one"
)

type rel struct {
	name                  string
	kind                  relKind
	owner, target         *model
	ownerCols, targetCols []string // pairwise: owner row matches target row iff all pairs are equal (SQL equality)
	polyCol, polyVal      string   // polymorphic: additionally target[polyCol] = polyVal
	joinTable             string   // many2many: owner.ownerCols = join.joinOwnerCols, join.joinTargetCols = target.targetCols
	joinOwnerCols         []string
	joinTargetCols        []string
	single                bool // the field holds one record (pointer or value), not a slice
	alt                   bool // the relation references the owner-side NON-primary unique key k
}

func (r *rel) composite() bool { return len(r.ownerCols) > 1 }

type model struct {
	name  string
	typ   reflect.Type
	table string
	cols  []col
	soft  bool
	rels  []*rel
}

func (m *model) rel(name string) *rel {
	for _, r := range m.rels {
		if r.name == name {
			return r
		}
	}
	return nil
}

func (m *model) col(name string) *col {
	for i := range m.cols {
		if m.cols[i].name == name {
			return &m.cols[i]
		}
	}
	return nil
}

type world struct {
	name                       string
	kinds                      []kind
	node, item, card, tag, pic *model
	joinTable                  string
	joinCols                   []string
	models                     []*model
	values                     []interface{}
}

var fieldOf = map[string]string{
	"u": "U", "v": "V", "a": "A", "b": "B", "boss_a": "BossA", "boss_b": "BossB", "own_a": "OwnA", "own_b": "OwnB",
	"node_a": "NodeA", "node_b": "NodeB", "ta": "TA", "tb": "TB", "owner_id": "OwnerID", "owner_type": "OwnerType", "n": "N",
	"k": "K", "alt_k": "AltK",
}

func mkModel(v interface{}, soft bool, cols ...string) *model {
	t := reflect.TypeOf(v)
	m := &model{name: t.Name(), typ: t, soft: soft}
	for _, cn := range cols {
		f, ok := t.FieldByName(fieldOf[cn])
		if !ok {
			panic("c11: no field for column " + cn + " in " + t.Name())
		}
		c := col{name: cn, field: f.Name}
		ft := f.Type
		if ft.Kind() == reflect.Ptr {
			c.ptr = true
			ft = ft.Elem()
		}
		switch ft.Kind() {
		case reflect.Int64:
			c.k = kInt
		case reflect.String:
			c.k = kStr
		default:
			panic("c11: unsupported field type")
		}
		m.cols = append(m.cols, c)
	}
	return m
}

func suffixed(prefix string, n int) []string {
	out := []string{prefix + "a", prefix + "b"}
	return out[:n]
}

func mkWorld(name string, kinds []kind, node, item, card, tag, pic interface{}) *world {
	n := len(kinds)
	w := &world{name: name, kinds: kinds}
	key := suffixed("", n)
	boss := suffixed("boss_", n)
	own := suffixed("own_", n)
	nodeFK := suffixed("node_", n)
	tkey := suffixed("t", n)
	w.node = mkModel(node, true, append(append(append([]string{"u"}, key...), append([]string{"v"}, boss...)...), "n", "k")...)
	w.item = mkModel(item, true, append(append([]string{"u"}, own...), "v", "n", "alt_k")...)
	w.card = mkModel(card, true, append(append([]string{"u"}, nodeFK...), "v", "n")...)
	w.tag = mkModel(tag, true, append(append([]string{"u"}, tkey...), "v", "n")...)
	w.models = []*model{w.node, w.item, w.card, w.tag}
	w.values = []interface{}{node, item, card, tag}
	w.joinTable = strings.ToLower(name) + "_node_tags"
	w.joinCols = append(suffixed("node_", n), suffixed("tag_t", n)...)
	w.node.rels = []*rel{
		{name: "Boss", kind: belongsTo, owner: w.node, target: w.node, ownerCols: boss, targetCols: key, single: true},
		{name: "Subs", kind: hasMany, owner: w.node, target: w.node, ownerCols: key, targetCols: boss},
		{name: "Items", kind: hasMany, owner: w.node, target: w.item, ownerCols: key, targetCols: own},
		{name: "Card", kind: hasOne, owner: w.node, target: w.card, ownerCols: key, targetCols: nodeFK, single: true},
		{name: "Tags", kind: many2many, owner: w.node, target: w.tag, ownerCols: key, targetCols: tkey,
			joinTable: w.joinTable, joinOwnerCols: suffixed("node_", n), joinTargetCols: suffixed("tag_t", n)},
		// relations that reference the non-primary unique key k
		{name: "Extra", kind: hasMany, owner: w.node, target: w.item, ownerCols: []string{"k"}, targetCols: []string{"alt_k"}, alt: true},
	}
	w.item.rels = []*rel{
		{name: "Owner", kind: belongsTo, owner: w.item, target: w.node, ownerCols: own, targetCols: key, single: true},
		{name: "Patron", kind: belongsTo, owner: w.item, target: w.node, ownerCols: []string{"alt_k"}, targetCols: []string{"k"}, single: true, alt: true},
	}
	if pic != nil {
		w.pic = mkModel(pic, false, "u", "owner_id", "owner_type", "v", "n")
		w.models = append(w.models, w.pic)
		w.values = append(w.values, pic)
		w.node.rels = append(w.node.rels, &rel{name: "Pics", kind: polyMany, owner: w.node, target: w.pic,
			ownerCols: key, targetCols: []string{"owner_id"}, polyCol: "owner_type", polyVal: "node"},
			&rel{name: "Logo", kind: polyOne, owner: w.node, target: w.pic,
				ownerCols: key, targetCols: []string{"owner_id"}, polyCol: "owner_type", polyVal: "logo", single: true},
			&rel{name: "Shots", kind: polyMany, owner: w.node, target: w.pic,
				ownerCols: []string{"k"}, targetCols: []string{"owner_id"}, polyCol: "owner_type", polyVal: "shot", alt: true},
			&rel{name: "Seal", kind: polyOne, owner: w.node, target: w.pic,
				ownerCols: []string{"k"}, targetCols: []string{"owner_id"}, polyCol: "owner_type", polyVal: "seal", single: true, alt: true})
	}
	return w
}

var (
	H      *vdb.Handle
	worlds []*world
)

const dupTable = "c11_dups"
const delTime = "2020-02-02 02:02:02"

func must(err error) {
	if err != nil {
		panic(err)
	}
}

func initEnv(c *core.Ctx) {
	h, err := vdb.Open(vdb.Options{})
	must(err)
	H = h
	worlds = []*world{
		mkWorld("SS", []kind{kStr, kStr}, SSNode{}, SSItem{}, SSCard{}, SSTag{}, nil),
		mkWorld("IS", []kind{kInt, kStr}, ISNode{}, ISItem{}, ISCard{}, ISTag{}, nil),
		mkWorld("II", []kind{kInt, kInt}, IINode{}, IIItem{}, IICard{}, IITag{}, nil),
		mkWorld("S1", []kind{kStr}, S1Node{}, S1Item{}, S1Card{}, S1Tag{}, S1Pic{}),
		mkWorld("I1", []kind{kInt}, I1Node{}, I1Item{}, I1Card{}, I1Tag{}, I1Pic{}),
	}
	for _, w := range worlds {
		for _, m := range w.models {
			p := reflect.New(m.typ).Interface()
			must(h.DB.AutoMigrate(p))
			// table names are plain naming (not the mechanism under test): ask gorm
			stmt := &gorm.Statement{DB: h.DB}
			must(stmt.Parse(p))
			m.table = stmt.Schema.Table
		}
		// smoke: every column the reference model knows must exist (fails loudly otherwise)
		for _, m := range w.models {
			names := []string{}
			for _, cl := range m.cols {
				names = append(names, cl.name)
			}
			if m.soft {
				names = append(names, "deleted_at")
			}
			_, err := h.SQL.Exec(fmt.Sprintf("SELECT %s FROM %s LIMIT 1", strings.Join(names, ","), m.table))
			must(err)
		}
		_, err := h.SQL.Exec(fmt.Sprintf("SELECT %s FROM %s LIMIT 1", strings.Join(w.joinCols, ","), w.joinTable))
		must(err)
	}
	_, err = h.SQL.Exec("CREATE TABLE " + dupTable + " (n integer)")
	must(err)
	_, err = h.SQL.Exec("INSERT INTO " + dupTable + " VALUES (1),(2)")
	must(err)
}

package c11

import (
	"fmt"
	"reflect"
	"strings"

	"gorm.io/gorm"

	"verif/core"
	"verif/vdb"
)

// The metadata below is written by hand (it is the harness's own description of the model
// family, independent of gorm's schema parser): the reference join is computed from it.

type kind int

const (
	kInt kind = iota
	kStr
)

type col struct {
	name  string   // column name
	field string   // Go field name
	path  []string // Go field path from the record (columns of embedded structs); nil: {field}
	k     kind
	ptr   bool // Go field is a pointer: NULL may be stored
}

type relKind string

const (
	hasOne    relKind = "has_one"
	hasMany   relKind = "has_many"
	belongsTo relKind = "belongs_to"
	many2many relKind = "many2many"
	polyMany  relKind = "polymorphic"
	polyOne   relKind = "polymorphic_has_one"
)

type rel struct {
	name                  string
	kind                  relKind
	owner, target         *model
	ownerCols, targetCols []string // pairwise: owner row matches target row iff all pairs are equal (SQL equality)
	polyCol, polyVal      string   // polymorphic: additionally target[polyCol] = polyVal
	joinTable             string   // many2many: owner.ownerCols = join.joinOwnerCols, join.joinTargetCols = target.targetCols
	joinOwnerCols         []string
	joinTargetCols        []string
	single                bool // the field holds one record (pointer or value), not a slice
	alt                   bool // the relation references the owner-side NON-primary unique key k
	// relations of a model with embedded structs (Org): name is the path Preload addresses the relation
	// by ("Site.Geo.Home"); field is the Go field path of the relation field (nil: {name}); short is
	// the plain name that Joins / Association() (and Preload) resolve through the model's top-level
	// registry: the name itself for the model's own relations, the bare field name for an embedded
	// relation whose name is unique in the model, "-" when the plain name means ANOTHER relation (an
	// embedded relation shadowed by the model's own one: reachable by its Preload path only)
	field []string
	short string
	level int // number of NAMED embedding levels above the relation field (0: the model's own)
}

// plain is the name Joins / Association() take for the relation ("" when there is none).
func (r *rel) plain() string {
	switch r.short {
	case "":
		return r.name
	case "-":
		return ""
	}
	return r.short
}

func (r *rel) goPath() []string {
	if r.field != nil {
		return r.field
	}
	return []string{r.name}
}

func (c *col) goPath() []string {
	if c.path != nil {
		return c.path
	}
	return []string{c.field}
}

// fieldAt follows a Go field path from a struct value; pointers to embedded structs on the way are
// allocated when alloc is set, else an invalid Value is returned for a nil one.
func fieldAt(v reflect.Value, path []string, alloc bool) reflect.Value {
	for _, name := range path {
		for v.Kind() == reflect.Ptr {
			if v.IsNil() {
				if !alloc {
					return reflect.Value{}
				}
				v.Set(reflect.New(v.Type().Elem()))
			}
			v = v.Elem()
		}
		v = v.FieldByName(name)
	}
	return v
}

// splitPath parses a relation path (relation names joined by dots; a name may itself contain dots)
// starting at model m: at every hop the longest relation name that matches.
func splitPath(m *model, path string) []*rel {
	var out []*rel
	for path != "" {
		var best *rel
		for _, rl := range m.rels {
			if (path == rl.name || strings.HasPrefix(path, rl.name+".")) && (best == nil || len(rl.name) > len(best.name)) {
				best = rl
			}
		}
		if best == nil {
			panic("c11: no relation for path " + path + " at " + m.name)
		}
		out = append(out, best)
		path = strings.TrimPrefix(strings.TrimPrefix(path, best.name), ".")
		m = best.target
	}
	return out
}

func depthOf(m *model, path string) int { return len(splitPath(m, path)) }

func (r *rel) composite() bool { return len(r.ownerCols) > 1 }

type model struct {
	name  string
	typ   reflect.Type
	table string
	cols  []col
	soft  bool
	rels  []*rel
	// Org: the key tuples (column names) of its levels, each drawn like a foreign key aimed at the nodes
	groups [][]string
}

func (m *model) rel(name string) *rel {
	for _, r := range m.rels {
		if r.name == name {
			return r
		}
	}
	return nil
}

func (m *model) col(name string) *col {
	for i := range m.cols {
		if m.cols[i].name == name {
			return &m.cols[i]
		}
	}
	return nil
}

type world struct {
	name                       string
	kinds                      []kind
	node, item, card, tag, pic *model
	org                        *model // root model with relations in embedded structs (see models.go)
	joinTable                  string
	joinCols                   []string
	models                     []*model
	values                     []interface{}
}

var fieldOf = map[string]string{
	"u": "U", "v": "V", "a": "A", "b": "B", "boss_a": "BossA", "boss_b": "BossB", "own_a": "OwnA", "own_b": "OwnB",
	"node_a": "NodeA", "node_b": "NodeB", "ta": "TA", "tb": "TB", "owner_id": "OwnerID", "owner_type": "OwnerType", "n": "N",
	"k": "K", "alt_k": "AltK",
}

func mkModel(v interface{}, soft bool, cols ...string) *model {
	t := reflect.TypeOf(v)
	m := &model{name: t.Name(), typ: t, soft: soft}
	for _, cn := range cols {
		f, ok := t.FieldByName(fieldOf[cn])
		if !ok {
			panic("c11: no field for column " + cn + " in " + t.Name())
		}
		c := col{name: cn, field: f.Name}
		ft := f.Type
		if ft.Kind() == reflect.Ptr {
			c.ptr = true
			ft = ft.Elem()
		}
		switch ft.Kind() {
		case reflect.Int64:
			c.k = kInt
		case reflect.String:
			c.k = kStr
		default:
			panic("c11: unsupported field type")
		}
		m.cols = append(m.cols, c)
	}
	return m
}

func suffixed(prefix string, n int) []string {
	out := []string{prefix + "a", prefix + "b"}
	return out[:n]
}

func mkWorld(name string, kinds []kind, node, item, card, tag, pic interface{}) *world {
	n := len(kinds)
	w := &world{name: name, kinds: kinds}
	key := suffixed("", n)
	boss := suffixed("boss_", n)
	own := suffixed("own_", n)
	nodeFK := suffixed("node_", n)
	tkey := suffixed("t", n)
	w.node = mkModel(node, true, append(append(append([]string{"u"}, key...), append([]string{"v"}, boss...)...), "n", "k")...)
	w.item = mkModel(item, true, append(append([]string{"u"}, own...), "v", "n", "alt_k")...)
	w.card = mkModel(card, true, append(append([]string{"u"}, nodeFK...), "v", "n")...)
	w.tag = mkModel(tag, true, append(append([]string{"u"}, tkey...), "v", "n")...)
	w.models = []*model{w.node, w.item, w.card, w.tag}
	w.values = []interface{}{node, item, card, tag}
	w.joinTable = strings.ToLower(name) + "_node_tags"
	w.joinCols = append(suffixed("node_", n), suffixed("tag_t", n)...)
	w.node.rels = []*rel{
		{name: "Boss", kind: belongsTo, owner: w.node, target: w.node, ownerCols: boss, targetCols: key, single: true},
		{name: "Subs", kind: hasMany, owner: w.node, target: w.node, ownerCols: key, targetCols: boss},
		{name: "Items", kind: hasMany, owner: w.node, target: w.item, ownerCols: key, targetCols: own},
		{name: "Card", kind: hasOne, owner: w.node, target: w.card, ownerCols: key, targetCols: nodeFK, single: true},
		{name: "Tags", kind: many2many, owner: w.node, target: w.tag, ownerCols: key, targetCols: tkey,
			joinTable: w.joinTable, joinOwnerCols: suffixed("node_", n), joinTargetCols: suffixed("tag_t", n)},
		// relations that reference the non-primary unique key k
		{name: "Extra", kind: hasMany, owner: w.node, target: w.item, ownerCols: []string{"k"}, targetCols: []string{"alt_k"}, alt: true},
	}
	w.item.rels = []*rel{
		{name: "Owner", kind: belongsTo, owner: w.item, target: w.node, ownerCols: own, targetCols: key, single: true},
		{name: "Patron", kind: belongsTo, owner: w.item, target: w.node, ownerCols: []string{"alt_k"}, targetCols: []string{"k"}, single: true, alt: true},
	}
	if pic != nil {
		w.pic = mkModel(pic, false, "u", "owner_id", "owner_type", "v", "n")
		w.models = append(w.models, w.pic)
		w.values = append(w.values, pic)
		w.node.rels = append(w.node.rels, &rel{name: "Pics", kind: polyMany, owner: w.node, target: w.pic,
			ownerCols: key, targetCols: []string{"owner_id"}, polyCol: "owner_type", polyVal: "node"},
			&rel{name: "Logo", kind: polyOne, owner: w.node, target: w.pic,
				ownerCols: key, targetCols: []string{"owner_id"}, polyCol: "owner_type", polyVal: "logo", single: true},
			&rel{name: "Shots", kind: polyMany, owner: w.node, target: w.pic,
				ownerCols: []string{"k"}, targetCols: []string{"owner_id"}, polyCol: "owner_type", polyVal: "shot", alt: true},
			&rel{name: "Seal", kind: polyOne, owner: w.node, target: w.pic,
				ownerCols: []string{"k"}, targetCols: []string{"owner_id"}, polyCol: "owner_type", polyVal: "seal", single: true, alt: true})
	}
	return w
}

// orgSpec describes the Org model of a world: the Go field names of the key tuple of each level
// (own / Site / Site.Geo), of the referenced key of Site.Crew and Site.Geo.Card when that is a field
// of its own, and of the foreign keys of the relations in anonymously embedded structs (S1).
type orgSpec struct {
	own, site, geo []string
	crew, card     []string
	annex, mentor  string
	outer          string // name of the outer embedded struct field (default Site)
	cardInSite     bool   // the has-one Card lives in the outer embedded struct (card: fields of that struct)
}

func snake(s string) string {
	var sb strings.Builder
	for i, c := range s {
		if c >= 'A' && c <= 'Z' {
			if i > 0 && s[i-1] >= 'a' && s[i-1] <= 'z' {
				sb.WriteByte('_')
			}
			c += 'a' - 'A'
		}
		sb.WriteRune(c)
	}
	return sb.String()
}

func mkOrg(w *world, v interface{}, sp orgSpec) {
	t := reflect.TypeOf(v)
	m := &model{name: t.Name(), typ: t, soft: true}
	addCol := func(name string, path ...string) {
		f := fieldAt(reflect.New(t).Elem(), path, true)
		if !f.IsValid() {
			panic("c11: no field " + strings.Join(path, ".") + " in " + t.Name())
		}
		c := col{name: name, field: path[len(path)-1], path: path}
		ft := f.Type()
		if ft.Kind() == reflect.Ptr {
			c.ptr = true
			ft = ft.Elem()
		}
		switch ft.Kind() {
		case reflect.Int64:
			c.k = kInt
		case reflect.String:
			c.k = kStr
		default:
			panic("c11: unsupported field type")
		}
		m.cols = append(m.cols, c)
	}
	addCol("u", "U")
	addCol("v", "V")
	addCol("n", "N")
	group := func(prefix string, path []string, fields []string) []string {
		var cols []string
		for _, f := range fields {
			cn := prefix + snake(f)
			addCol(cn, append(append([]string{}, path...), f)...)
			cols = append(cols, cn)
		}
		m.groups = append(m.groups, cols)
		return cols
	}
	n := len(w.kinds)
	key, boss, nodeFK := suffixed("", n), suffixed("boss_", n), suffixed("node_", n)
	if sp.outer == "" {
		sp.outer = "Site"
	}
	site, geo := []string{sp.outer}, []string{sp.outer, "Geo"}
	at := func(l []string, name string) []string { return append(append([]string{}, l...), name) }
	nm := func(l []string, name string) string { return strings.Join(at(l, name), ".") }
	own := group("", nil, sp.own)
	sk := group("site_", site, sp.site)
	gk := group("site_geo_", geo, sp.geo)
	crew, card := sk, gk
	if sp.crew != nil {
		crew = group("site_", site, sp.crew)
	}
	cardAt, cardLevel := geo, 2
	if sp.cardInSite {
		cardAt, cardLevel = site, 1
		card = group("site_", site, sp.card)
	} else if sp.card != nil {
		card = group("site_geo_", geo, sp.card)
	}
	m.rels = []*rel{
		{name: "Home", kind: belongsTo, owner: m, target: w.node, ownerCols: own, targetCols: key, single: true},
		{name: nm(site, "Home"), field: at(site, "Home"), short: "-", level: 1, kind: belongsTo, owner: m, target: w.node, ownerCols: sk, targetCols: key, single: true},
		{name: nm(site, "Crew"), field: at(site, "Crew"), short: "Crew", level: 1, kind: hasMany, owner: m, target: w.node, ownerCols: crew, targetCols: boss},
		{name: nm(geo, "Home"), field: at(geo, "Home"), short: "-", level: 2, kind: belongsTo, owner: m, target: w.node, ownerCols: gk, targetCols: key, single: true},
		{name: nm(cardAt, "Card"), field: at(cardAt, "Card"), short: "Card", level: cardLevel, kind: hasOne, owner: m, target: w.card, ownerCols: card, targetCols: nodeFK, single: true},
	}
	if sp.annex != "" {
		// relation in a struct embedded ANONYMOUSLY in Site: no path segment of its own
		ak := group("site_", site, []string{sp.annex})
		m.rels = append(m.rels, &rel{name: nm(site, "Annex"), field: at(site, "Annex"), short: "Annex", level: 1, kind: belongsTo, owner: m, target: w.node, ownerCols: ak, targetCols: key, single: true})
	}
	if sp.mentor != "" {
		// relation in a struct embedded anonymously in the Org itself: addressed like an own relation
		mk := group("", nil, []string{sp.mentor})
		m.rels = append(m.rels, &rel{name: "Mentor", kind: belongsTo, owner: m, target: w.node, ownerCols: mk, targetCols: key, single: true})
	}
	w.org = m
	w.models = append(w.models, m)
	w.values = append(w.values, v)
}

var (
	H      *vdb.Handle
	worlds []*world
)

const dupTable = "c11_dups"
const delTime = "2020-02-02 02:02:02"

func must(err error) {
	if err != nil {
		panic(err)
	}
}

func initEnv(c *core.Ctx) {
	h, err := vdb.Open(vdb.Options{})
	must(err)
	H = h
	worlds = []*world{
		mkWorld("SS", []kind{kStr, kStr}, SSNode{}, SSItem{}, SSCard{}, SSTag{}, nil),
		mkWorld("IS", []kind{kInt, kStr}, ISNode{}, ISItem{}, ISCard{}, ISTag{}, nil),
		mkWorld("II", []kind{kInt, kInt}, IINode{}, IIItem{}, IICard{}, IITag{}, nil),
		mkWorld("S1", []kind{kStr}, S1Node{}, S1Item{}, S1Card{}, S1Tag{}, S1Pic{}),
		mkWorld("I1", []kind{kInt}, I1Node{}, I1Item{}, I1Card{}, I1Tag{}, I1Pic{}),
	}
	ab := []string{"HA", "HB"}
	mkOrg(worlds[0], SSOrg{}, orgSpec{own: ab, site: []string{"SA", "SB"}, geo: []string{"GA", "GB"}})
	mkOrg(worlds[1], ISOrg{}, orgSpec{own: ab, site: []string{"SA", "SB"}, geo: []string{"GA", "GB"}, outer: "Base"})
	mkOrg(worlds[2], IIOrg{}, orgSpec{own: ab, site: []string{"SA", "SB"}, geo: []string{"GA", "GB"}})
	mkOrg(worlds[3], S1Org{}, orgSpec{own: ab[:1], site: []string{"SA"}, geo: []string{"GA"}, annex: "XA", mentor: "MA"})
	mkOrg(worlds[4], I1Org{}, orgSpec{own: ab[:1], site: []string{"HomeA"}, geo: []string{"HomeA"}, crew: []string{"SK"}, card: []string{"CK"}, cardInSite: true})
	for _, w := range worlds {
		for _, m := range w.models {
			p := reflect.New(m.typ).Interface()
			must(h.DB.AutoMigrate(p))
			// table names are plain naming (not the mechanism under test): ask gorm
			stmt := &gorm.Statement{DB: h.DB}
			must(stmt.Parse(p))
			m.table = stmt.Schema.Table
		}
		// smoke: every column the reference model knows must exist (fails loudly otherwise)
		for _, m := range w.models {
			names := []string{}
			for _, cl := range m.cols {
				names = append(names, cl.name)
			}
			if m.soft {
				names = append(names, "deleted_at")
			}
			_, err := h.SQL.Exec(fmt.Sprintf("SELECT %s FROM %s LIMIT 1", strings.Join(names, ","), m.table))
			must(err)
		}
		_, err := h.SQL.Exec(fmt.Sprintf("SELECT %s FROM %s LIMIT 1", strings.Join(w.joinCols, ","), w.joinTable))
		must(err)
	}
	_, err = h.SQL.Exec("CREATE TABLE " + dupTable + " (n integer)")
	must(err)
	_, err = h.SQL.Exec("INSERT INTO " + dupTable + " VALUES (1),(2)")
	must(err)
}

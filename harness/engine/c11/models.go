package c11

import "gorm.io/gorm"

// Five "worlds" of the same relation family, differing only in the type and number of key
// parts (and in pointer / value / slice-of-pointer containers):
//
//	Node  --Boss (belongs-to, self)--> Node      nullable (pointer) foreign key
//	Node  --Subs (has-many, self)----> Node
//	Node  --Items (has-many)---------> Item      Item --Owner (belongs-to)--> Node
//	Node  --Card (has-one)-----------> Card
//	Node  --Tags (many2many)---------> Tag       composite on both sides in the composite worlds
//	Node  --Pics (polymorphic)-------> Pic       single-key worlds only
//	Node  --Logo (polymorphic has-one)> Pic      single-key worlds only (same table as Pics, type value "logo")
//
// Every Node also has a second, NON-primary unique key K (type of the first key part; its values are
// drawn from the same pools and preferably are the primary-key text / number of ANOTHER node), and
// relations that reference K instead of the primary key:
//
//	Node  --Extra (has-many)---------> Item      Item --Patron (belongs-to)--> Node   via Item.AltK = Node.K (all worlds)
//	Node  --Shots (polymorphic)------> Pic       `polymorphic:Owner;foreignKey:K`, type value "shot" (single-key worlds)
//	Node  --Seal (polymorphic has-one)> Pic      `polymorphic:Owner;foreignKey:K`, type value "seal" (single-key worlds)
//
// U is a unique surrogate (never a key of a relation) used to identify rows; V is a payload
// used by preload / join conditions; N is a nullable payload (NULL in about half of the rows).
// Node, Item, Card and Tag are soft-delete models.
//
// The ORDER of the columns differs from world to world (it is the order in which a joined
// relation's columns are selected and scanned): the models that can be the target of a
// single-valued (joinable) relation start with
//
//	S1Node  an embedded audit struct {DeletedAt, N}     S1Card  N                S1Pic  N
//	I1Node  the nullable foreign key BossA, then N      I1Card  (value relation) I1Pic  (value relation)
//	SSNode  N                                           SSCard  DeletedAt
//	ISNode  U (never NULL: the usual layout)            ISCard  (value relation)
//	IINode  DeletedAt, then N                           IICard  the nullable foreign key NodeA, then N
//
// so a joined row whose leading column(s) are NULL exists in four of the five worlds.

// ---- S1: single string key ------------------------------------------------

type S1Audit struct {
	DeletedAt gorm.DeletedAt
	N         *int64
}

type S1Node struct {
	S1Audit
	U     int64
	A     string `gorm:"primaryKey"`
	V     int64
	BossA *string
	Boss  *S1Node  `gorm:"foreignKey:BossA;references:A"`
	Subs  []S1Node `gorm:"foreignKey:BossA;references:A"`
	Items []S1Item `gorm:"foreignKey:OwnA;references:A"`
	Card  *S1Card  `gorm:"foreignKey:NodeA;references:A"`
	Tags  []S1Tag  `gorm:"many2many:s1_node_tags;foreignKey:A;joinForeignKey:NodeA;references:TA;joinReferences:TagTA"`
	Pics  []S1Pic  `gorm:"polymorphic:Owner;polymorphicValue:node"`
	Logo  *S1Pic   `gorm:"polymorphic:Owner;polymorphicValue:logo"`
	K     string
	Shots []S1Pic  `gorm:"polymorphic:Owner;polymorphicValue:shot;foreignKey:K"`
	Seal  *S1Pic   `gorm:"polymorphic:Owner;polymorphicValue:seal;foreignKey:K"`
	Extra []S1Item `gorm:"foreignKey:AltK;references:K"`
}

type S1Item struct {
	DeletedAt gorm.DeletedAt
	U         int64 `gorm:"primaryKey;autoIncrement:false"`
	OwnA      *string
	N         *int64
	V         int64
	Owner     *S1Node `gorm:"foreignKey:OwnA;references:A"`
	AltK      *string
	Patron    *S1Node `gorm:"foreignKey:AltK;references:K"`
}

type S1Card struct {
	N         *int64
	U         int64 `gorm:"primaryKey;autoIncrement:false"`
	NodeA     string
	V         int64
	DeletedAt gorm.DeletedAt
}

type S1Tag struct {
	U         int64
	TA        string `gorm:"primaryKey"`
	V         int64
	N         *int64
	DeletedAt gorm.DeletedAt
}

type S1Pic struct {
	N         *int64
	U         int64 `gorm:"primaryKey;autoIncrement:false"`
	OwnerID   string
	OwnerType string
	V         int64
}

// ---- I1: single integer key -------------------------------------------------

type I1Node struct {
	BossA     *int64
	N         *int64
	U         int64
	A         int64 `gorm:"primaryKey;autoIncrement:false"`
	V         int64
	DeletedAt gorm.DeletedAt
	Boss      *I1Node   `gorm:"foreignKey:BossA;references:A"`
	Subs      []*I1Node `gorm:"foreignKey:BossA;references:A"`
	Items     []*I1Item `gorm:"foreignKey:OwnA;references:A"`
	Card      I1Card    `gorm:"foreignKey:NodeA;references:A"`
	Tags      []*I1Tag  `gorm:"many2many:i1_node_tags;foreignKey:A;joinForeignKey:NodeA;references:TA;joinReferences:TagTA"`
	Pics      []*I1Pic  `gorm:"polymorphic:Owner;polymorphicValue:node"`
	Logo      I1Pic     `gorm:"polymorphic:Owner;polymorphicValue:logo"`
	K         int64
	Shots     []*I1Pic  `gorm:"polymorphic:Owner;polymorphicValue:shot;foreignKey:K"`
	Seal      I1Pic     `gorm:"polymorphic:Owner;polymorphicValue:seal;foreignKey:K"`
	Extra     []*I1Item `gorm:"foreignKey:AltK;references:K"`
}

type I1Item struct {
	U         int64 `gorm:"primaryKey;autoIncrement:false"`
	OwnA      int64
	V         int64
	N         *int64
	DeletedAt gorm.DeletedAt
	Owner     *I1Node `gorm:"foreignKey:OwnA;references:A"`
	AltK      int64
	Patron    *I1Node `gorm:"foreignKey:AltK;references:K"`
}

type I1Card struct {
	N         *int64
	U         int64 `gorm:"primaryKey;autoIncrement:false"`
	NodeA     *int64
	V         int64
	DeletedAt gorm.DeletedAt
}

type I1Tag struct {
	N         *int64
	U         int64
	TA        int64 `gorm:"primaryKey;autoIncrement:false"`
	V         int64
	DeletedAt gorm.DeletedAt
}

type I1Pic struct {
	U         int64 `gorm:"primaryKey;autoIncrement:false"`
	OwnerID   int64
	OwnerType string
	V         int64
	N         *int64
}

// ---- SS: composite string + string ---------------------------------------------

type SSNode struct {
	N         *int64
	U         int64
	A         string `gorm:"primaryKey"`
	B         string `gorm:"primaryKey"`
	V         int64
	BossA     *string
	BossB     *string
	DeletedAt gorm.DeletedAt
	Boss      *SSNode  `gorm:"foreignKey:BossA,BossB;references:A,B"`
	Subs      []SSNode `gorm:"foreignKey:BossA,BossB;references:A,B"`
	Items     []SSItem `gorm:"foreignKey:OwnA,OwnB;references:A,B"`
	Card      *SSCard  `gorm:"foreignKey:NodeA,NodeB;references:A,B"`
	Tags      []SSTag  `gorm:"many2many:ss_node_tags;foreignKey:A,B;joinForeignKey:NodeA,NodeB;references:TA,TB;joinReferences:TagTA,TagTB"`
	K         string
	Extra     []SSItem `gorm:"foreignKey:AltK;references:K"`
}

type SSItem struct {
	U         int64 `gorm:"primaryKey;autoIncrement:false"`
	N         *int64
	OwnA      *string
	OwnB      *string
	V         int64
	DeletedAt gorm.DeletedAt
	Owner     *SSNode `gorm:"foreignKey:OwnA,OwnB;references:A,B"`
	AltK      string
	Patron    *SSNode `gorm:"foreignKey:AltK;references:K"`
}

type SSCard struct {
	DeletedAt gorm.DeletedAt
	U         int64 `gorm:"primaryKey;autoIncrement:false"`
	NodeA     string
	NodeB     string
	V         int64
	N         *int64
}

type SSTag struct {
	N         *int64
	U         int64
	TA        string `gorm:"primaryKey"`
	TB        string `gorm:"primaryKey"`
	V         int64
	DeletedAt gorm.DeletedAt
}

// ---- IS: composite integer + string ----------------------------------------------

type ISNode struct {
	U         int64
	A         int64  `gorm:"primaryKey;autoIncrement:false"`
	B         string `gorm:"primaryKey"`
	V         int64
	BossA     *int64
	BossB     *string
	N         *int64
	DeletedAt gorm.DeletedAt
	Boss      *ISNode   `gorm:"foreignKey:BossA,BossB;references:A,B"`
	Subs      []*ISNode `gorm:"foreignKey:BossA,BossB;references:A,B"`
	Items     []*ISItem `gorm:"foreignKey:OwnA,OwnB;references:A,B"`
	Card      ISCard    `gorm:"foreignKey:NodeA,NodeB;references:A,B"`
	Tags      []*ISTag  `gorm:"many2many:is_node_tags;foreignKey:A,B;joinForeignKey:NodeA,NodeB;references:TA,TB;joinReferences:TagTA,TagTB"`
	K         int64
	Extra     []*ISItem `gorm:"foreignKey:AltK;references:K"`
}

type ISItem struct {
	U         int64 `gorm:"primaryKey;autoIncrement:false"`
	OwnA      *int64
	OwnB      string
	V         int64
	N         *int64
	DeletedAt gorm.DeletedAt
	Owner     *ISNode `gorm:"foreignKey:OwnA,OwnB;references:A,B"`
	AltK      *int64
	Patron    *ISNode `gorm:"foreignKey:AltK;references:K"`
}

type ISCard struct {
	U         int64 `gorm:"primaryKey;autoIncrement:false"`
	NodeA     int64
	NodeB     string
	V         int64
	N         *int64
	DeletedAt gorm.DeletedAt
}

type ISTag struct {
	U         int64
	TA        int64  `gorm:"primaryKey;autoIncrement:false"`
	TB        string `gorm:"primaryKey"`
	V         int64
	N         *int64
	DeletedAt gorm.DeletedAt
}

// ---- II: composite integer + integer -----------------------------------------------

type IINode struct {
	DeletedAt gorm.DeletedAt
	N         *int64
	U         int64
	A         int64 `gorm:"primaryKey;autoIncrement:false"`
	B         int64 `gorm:"primaryKey;autoIncrement:false"`
	V         int64
	BossA     *int64
	BossB     *int64
	Boss      *IINode  `gorm:"foreignKey:BossA,BossB;references:A,B"`
	Subs      []IINode `gorm:"foreignKey:BossA,BossB;references:A,B"`
	Items     []IIItem `gorm:"foreignKey:OwnA,OwnB;references:A,B"`
	Card      *IICard  `gorm:"foreignKey:NodeA,NodeB;references:A,B"`
	Tags      []IITag  `gorm:"many2many:ii_node_tags;foreignKey:A,B;joinForeignKey:NodeA,NodeB;references:TA,TB;joinReferences:TagTA,TagTB"`
	K         int64
	Extra     []IIItem `gorm:"foreignKey:AltK;references:K"`
}

type IIItem struct {
	OwnB      *int64
	U         int64 `gorm:"primaryKey;autoIncrement:false"`
	OwnA      int64
	V         int64
	N         *int64
	DeletedAt gorm.DeletedAt
	Owner     *IINode `gorm:"foreignKey:OwnA,OwnB;references:A,B"`
	AltK      *int64
	Patron    *IINode `gorm:"foreignKey:AltK;references:K"`
}

type IICard struct {
	NodeA     *int64
	N         *int64
	U         int64 `gorm:"primaryKey;autoIncrement:false"`
	NodeB     int64
	V         int64
	DeletedAt gorm.DeletedAt
}

type IITag struct {
	U         int64
	TA        int64 `gorm:"primaryKey;autoIncrement:false"`
	TB        int64 `gorm:"primaryKey;autoIncrement:false"`
	V         int64
	N         *int64
	DeletedAt gorm.DeletedAt
}

// ---- Org: a third root model whose relations partly live in EMBEDDED structs ----------------
//
// Every world has an Org (soft-delete model, row identity U) that points at Nodes from up to three
// LEVELS: the Org itself, a named embedded struct Site (`embedded;embeddedPrefix:site_`) and a second
// named embedded struct Geo inside Site (two embedding levels). Each level carries a key tuple of
// the world's key type (foreign key of the level's belongs-to, referenced key of its has-many /
// has-one) and relations:
//
//	Org           --Home (belongs-to)--> Node                  the model's OWN relation
//	Org.Site      --Home (belongs-to)--> Node                  same NAME as the own one and as Geo's
//	Org.Site      --Crew (has-many)----> Node                  Node.boss = the Site key (name unique in the model)
//	Org.Site.Geo  --Home (belongs-to)--> Node
//	Org.Site.Geo  --Card (has-one)-----> Card                  Card.node = the Geo key (name unique in the model; I1: in Site)
//	S1 only: Org.Site embeds S1Annex ANONYMOUSLY: --Annex (belongs-to)--> Node, path "Site.Annex";
//	         Org embeds S1Lead anonymously:       --Mentor (belongs-to)--> Node, path "Mentor"
//
// In IS the outer embedded struct is the field Base (columns still site_*): there the plain names of
// the embedded relations sort AFTER the name of the struct they live in, in the other worlds before
// it (gorm walks the requested names in sorted order).
//
// Preload addresses a relation by its embedded path ("Site.Geo.Home"); the plain name "Home" is the
// model's own relation for Preload, Joins and Association. The shapes differ per world: declaration
// order (own Home before / after Site, Site.Home before / after Geo), value / pointer embedding,
// explicit foreignKey tags with per-level field names / no tags with the SAME field name on both
// embedded levels (I1: gorm's guess by bind-name proximity), pointer / value foreign keys.

type SSGeo struct {
	GA   *string
	GB   *string
	Home *SSNode `gorm:"foreignKey:GA,GB;references:A,B"`
	Card *SSCard `gorm:"foreignKey:NodeA,NodeB;references:GA,GB"`
}

type SSSite struct {
	SA   *string
	SB   *string
	Geo  SSGeo    `gorm:"embedded;embeddedPrefix:geo_"`
	Home *SSNode  `gorm:"foreignKey:SA,SB;references:A,B"`
	Crew []SSNode `gorm:"foreignKey:BossA,BossB;references:SA,SB"`
}

type SSOrg struct {
	N         *int64
	U         int64 `gorm:"primaryKey;autoIncrement:false"`
	V         int64
	HA        *string
	HB        *string
	DeletedAt gorm.DeletedAt
	Home      *SSNode `gorm:"foreignKey:HA,HB;references:A,B"`
	Site      SSSite  `gorm:"embedded;embeddedPrefix:site_"`
}

type ISGeo struct {
	Card ISCard  `gorm:"foreignKey:NodeA,NodeB;references:GA,GB"`
	Home *ISNode `gorm:"foreignKey:GA,GB;references:A,B"`
	GA   *int64
	GB   string
}

type ISSite struct {
	Home *ISNode   `gorm:"foreignKey:SA,SB;references:A,B"`
	Crew []*ISNode `gorm:"foreignKey:BossA,BossB;references:SA,SB"`
	SA   int64
	SB   *string
	Geo  ISGeo `gorm:"embedded;embeddedPrefix:geo_"`
}

type ISOrg struct {
	U         int64  `gorm:"primaryKey;autoIncrement:false"`
	Base      ISSite `gorm:"embedded;embeddedPrefix:site_"`
	V         int64
	N         *int64
	HA        *int64
	HB        *string
	Home      *ISNode `gorm:"foreignKey:HA,HB;references:A,B"`
	DeletedAt gorm.DeletedAt
}

type IIGeo struct {
	GA   *int64
	GB   *int64
	Home *IINode `gorm:"foreignKey:GA,GB;references:A,B"`
	Card *IICard `gorm:"foreignKey:NodeA,NodeB;references:GA,GB"`
}

type IISite struct {
	Geo  *IIGeo `gorm:"embedded;embeddedPrefix:geo_"`
	SA   *int64
	SB   int64
	Crew []IINode `gorm:"foreignKey:BossA,BossB;references:SA,SB"`
	Home *IINode  `gorm:"foreignKey:SA,SB;references:A,B"`
}

type IIOrg struct {
	DeletedAt gorm.DeletedAt
	N         *int64
	U         int64 `gorm:"primaryKey;autoIncrement:false"`
	V         int64
	HA        int64
	HB        *int64
	Site      IISite  `gorm:"embedded;embeddedPrefix:site_"`
	Home      *IINode `gorm:"foreignKey:HA,HB;references:A,B"`
}

type S1Annex struct {
	XA    *string
	Annex *S1Node `gorm:"foreignKey:XA;references:A"`
}

type S1Lead struct {
	MA     *string
	Mentor *S1Node `gorm:"foreignKey:MA;references:A"`
}

type S1Geo struct {
	GA   string
	Home *S1Node `gorm:"foreignKey:GA;references:A"`
	Card *S1Card `gorm:"foreignKey:NodeA;references:GA"`
}

type S1Site struct {
	S1Annex
	SA   *string
	Home *S1Node  `gorm:"foreignKey:SA;references:A"`
	Geo  S1Geo    `gorm:"embedded;embeddedPrefix:geo_"`
	Crew []S1Node `gorm:"foreignKey:BossA;references:SA"`
}

type S1Org struct {
	S1Lead
	N         *int64
	U         int64 `gorm:"primaryKey;autoIncrement:false"`
	V         int64
	Site      S1Site `gorm:"embedded;embeddedPrefix:site_"`
	HA        *string
	Home      *S1Node `gorm:"foreignKey:HA;references:A"`
	DeletedAt gorm.DeletedAt
}

// I1: no tags on the Home relations of the embedded levels, whose foreign key field is called HomeA
// on both (gorm guesses <relation name><key name> and takes the field closest to the relation); the
// has-many / has-one both live in Site and reference a field of their own (SK / CK), so that the
// inner struct Geo holds nothing but a relation named like one of the outer struct. The Org's OWN
// Home names its foreign key (HA): an own field HomeA next to embedded ones of the same name is not
// generated (which of them gorm's guess takes for the own relation is schema parsing, not C11).
type I1Geo struct {
	HomeA *int64
	Home  *I1Node
}

type I1Site struct {
	HomeA *int64
	Geo   I1Geo `gorm:"embedded;embeddedPrefix:geo_"`
	Home  *I1Node
	SK    int64
	Crew  []*I1Node `gorm:"foreignKey:BossA;references:SK"`
	CK    *int64
	Card  I1Card `gorm:"foreignKey:NodeA;references:CK"`
}

type I1Org struct {
	U         int64 `gorm:"primaryKey;autoIncrement:false"`
	N         *int64
	V         int64
	HA        *int64
	Home      *I1Node `gorm:"foreignKey:HA;references:A"`
	Site      I1Site  `gorm:"embedded;embeddedPrefix:site_"`
	DeletedAt gorm.DeletedAt
}

package c11

import "gorm.io/gorm"

// Five "worlds" of the same relation family, differing only in the type and number of key
// parts (and in pointer / value / slice-of-pointer containers):
//
//	Node  --Boss (belongs-to, self)--> Node      nullable (pointer) foreign key
//	Node  --Subs (has-many, self)----> Node
//	Node  --Items (has-many)---------> Item      Item --Owner (belongs-to)--> Node
//	Node  --Card (has-one)-----------> Card
//	Node  --Tags (many2many)---------> Tag       composite on both sides in the composite worlds
//	Node  --Pics (polymorphic)-------> Pic       single-key worlds only
//	Node  --Logo (polymorphic has-one)> Pic      single-key worlds only (same table as Pics, type value "logo")
//
// Every Node also has a second, NON-primary unique key K (type of the first key part; its values are
// drawn from the same pools and preferably are the primary-key text / number of ANOTHER node), and
// relations that reference K instead of the primary key:
//
//	Node  --Extra (has-many)---------> Item      Item --Patron (belongs-to)--> Node   via Item.AltK = Node.K (all worlds)
//	Node  --Shots (polymorphic)------> Pic       `polymorphic:Owner;foreignKey:K`, type value "shot" (single-key worlds)
//	Node  --Seal (polymorphic has-one)> Pic      `polymorphic:Owner;foreignKey:K`, type value "seal" (single-key worlds)
//
// U is a unique surrogate (never a key of a relation) used to identify rows; V is a payload
// used by preload / join conditions; N is a nullable payload (NULL in about half of the rows).
// Node, Item, Card and Tag are soft-delete models.
//
// The ORDER of the columns differs from world to world (it is the order in which a joined
// relation's columns are selected and scanned): the models that can be the target of a
// single-valued (joinable) relation start with
//
//	S1Node  an embedded audit struct {DeletedAt, N}     S1Card  N                S1Pic  N
//	I1Node  the nullable foreign key BossA, then N      I1Card  (value relation) I1Pic  (value relation)
//	SSNode  N                                           SSCard  DeletedAt
//	ISNode  U (never NULL: the usual layout)            ISCard  (value relation)
//	IINode  DeletedAt, then N                           IICard  the nullable foreign key NodeA, then N
//
// so a joined row whose leading column(s) are NULL exists in four of the five worlds.

// ---- S1: single string key ------------------------------------------------

type S1Audit struct {
	DeletedAt gorm.DeletedAt
	N         *int64
}

type S1Node struct {
	S1Audit
	U     int64
	A     string `gorm:"primaryKey"`
	V     int64
	BossA *string
	Boss  *S1Node  `gorm:"foreignKey:BossA;references:A"`
	Subs  []S1Node `gorm:"foreignKey:BossA;references:A"`
	Items []S1Item `gorm:"foreignKey:OwnA;references:A"`
	Card  *S1Card  `gorm:"foreignKey:NodeA;references:A"`
	Tags  []S1Tag  `gorm:"many2many:s1_node_tags;foreignKey:A;joinForeignKey:NodeA;references:TA;joinReferences:TagTA"`
	Pics  []S1Pic  `gorm:"polymorphic:Owner;polymorphicValue:node"`
	Logo  *S1Pic   `gorm:"polymorphic:Owner;polymorphicValue:logo"`
	K     string
	Shots []S1Pic  `gorm:"polymorphic:Owner;polymorphicValue:shot;foreignKey:K"`
	Seal  *S1Pic   `gorm:"polymorphic:Owner;polymorphicValue:seal;foreignKey:K"`
	Extra []S1Item `gorm:"foreignKey:AltK;references:K"`
}

type S1Item struct {
	DeletedAt gorm.DeletedAt
	U         int64 `gorm:"primaryKey;autoIncrement:false"`
	OwnA      *string
	N         *int64
	V         int64
	Owner     *S1Node `gorm:"foreignKey:OwnA;references:A"`
	AltK      *string
	Patron    *S1Node `gorm:"foreignKey:AltK;references:K"`
}

type S1Card struct {
	N         *int64
	U         int64 `gorm:"primaryKey;autoIncrement:false"`
	NodeA     string
	V         int64
	DeletedAt gorm.DeletedAt
}

type S1Tag struct {
	U         int64
	TA        string `gorm:"primaryKey"`
	V         int64
	N         *int64
	DeletedAt gorm.DeletedAt
}

type S1Pic struct {
	N         *int64
	U         int64 `gorm:"primaryKey;autoIncrement:false"`
	OwnerID   string
	OwnerType string
	V         int64
}

// ---- I1: single integer key -------------------------------------------------

type I1Node struct {
	BossA     *int64
	N         *int64
	U         int64
	A         int64 `gorm:"primaryKey;autoIncrement:false"`
	V         int64
	DeletedAt gorm.DeletedAt
	Boss      *I1Node   `gorm:"foreignKey:BossA;references:A"`
	Subs      []*I1Node `gorm:"foreignKey:BossA;references:A"`
	Items     []*I1Item `gorm:"foreignKey:OwnA;references:A"`
	Card      I1Card    `gorm:"foreignKey:NodeA;references:A"`
	Tags      []*I1Tag  `gorm:"many2many:i1_node_tags;foreignKey:A;joinForeignKey:NodeA;references:TA;joinReferences:TagTA"`
	Pics      []*I1Pic  `gorm:"polymorphic:Owner;polymorphicValue:node"`
	Logo      I1Pic     `gorm:"polymorphic:Owner;polymorphicValue:logo"`
	K         int64
	Shots     []*I1Pic  `gorm:"polymorphic:Owner;polymorphicValue:shot;foreignKey:K"`
	Seal      I1Pic     `gorm:"polymorphic:Owner;polymorphicValue:seal;foreignKey:K"`
	Extra     []*I1Item `gorm:"foreignKey:AltK;references:K"`
}

type I1Item struct {
	U         int64 `gorm:"primaryKey;autoIncrement:false"`
	OwnA      int64
	V         int64
	N         *int64
	DeletedAt gorm.DeletedAt
	Owner     *I1Node `gorm:"foreignKey:OwnA;references:A"`
	AltK      int64
	Patron    *I1Node `gorm:"foreignKey:AltK;references:K"`
}

type I1Card struct {
	N         *int64
	U         int64 `gorm:"primaryKey;autoIncrement:false"`
	NodeA     *int64
	V         int64
	DeletedAt gorm.DeletedAt
}

type I1Tag struct {
	N         *int64
	U         int64
	TA        int64 `gorm:"primaryKey;autoIncrement:false"`
	V         int64
	DeletedAt gorm.DeletedAt
}

type I1Pic struct {
	U         int64 `gorm:"primaryKey;autoIncrement:false"`
	OwnerID   int64
	OwnerType string
	V         int64
	N         *int64
}

// ---- SS: composite string + string ---------------------------------------------

type SSNode struct {
	N         *int64
	U         int64
	A         string `gorm:"primaryKey"`
	B         string `gorm:"primaryKey"`
	V         int64
	BossA     *string
	BossB     *string
	DeletedAt gorm.DeletedAt
	Boss      *SSNode  `gorm:"foreignKey:BossA,BossB;references:A,B"`
	Subs      []SSNode `gorm:"foreignKey:BossA,BossB;references:A,B"`
	Items     []SSItem `gorm:"foreignKey:OwnA,OwnB;references:A,B"`
	Card      *SSCard  `gorm:"foreignKey:NodeA,NodeB;references:A,B"`
	Tags      []SSTag  `gorm:"many2many:ss_node_tags;foreignKey:A,B;joinForeignKey:NodeA,NodeB;references:TA,TB;joinReferences:TagTA,TagTB"`
	K         string
	Extra     []SSItem `gorm:"foreignKey:AltK;references:K"`
}

type SSItem struct {
	U         int64 `gorm:"primaryKey;autoIncrement:false"`
	N         *int64
	OwnA      *string
	OwnB      *string
	V         int64
	DeletedAt gorm.DeletedAt
	Owner     *SSNode `gorm:"foreignKey:OwnA,OwnB;references:A,B"`
	AltK      string
	Patron    *SSNode `gorm:"foreignKey:AltK;references:K"`
}

type SSCard struct {
	DeletedAt gorm.DeletedAt
	U         int64 `gorm:"primaryKey;autoIncrement:false"`
	NodeA     string
	NodeB     string
	V         int64
	N         *int64
}

type SSTag struct {
	N         *int64
	U         int64
	TA        string `gorm:"primaryKey"`
	TB        string `gorm:"primaryKey"`
	V         int64
	DeletedAt gorm.DeletedAt
}

// ---- IS: composite integer + string ----------------------------------------------

type ISNode struct {
	U         int64
	A         int64  `gorm:"primaryKey;autoIncrement:false"`
	B         string `gorm:"primaryKey"`
	V         int64
	BossA     *int64
	BossB     *string
	N         *int64
	DeletedAt gorm.DeletedAt
	Boss      *ISNode   `gorm:"foreignKey:BossA,BossB;references:A,B"`
	Subs      []*ISNode `gorm:"foreignKey:BossA,BossB;references:A,B"`
	Items     []*ISItem `gorm:"foreignKey:OwnA,OwnB;references:A,B"`
	Card      ISCard    `gorm:"foreignKey:NodeA,NodeB;references:A,B"`
	Tags      []*ISTag  `gorm:"many2many:is_node_tags;foreignKey:A,B;joinForeignKey:NodeA,NodeB;references:TA,TB;joinReferences:TagTA,TagTB"`
	K         int64
	Extra     []*ISItem `gorm:"foreignKey:AltK;references:K"`
}

type ISItem struct {
	U         int64 `gorm:"primaryKey;autoIncrement:false"`
	OwnA      *int64
	OwnB      string
	V         int64
	N         *int64
	DeletedAt gorm.DeletedAt
	Owner     *ISNode `gorm:"foreignKey:OwnA,OwnB;references:A,B"`
	AltK      *int64
	Patron    *ISNode `gorm:"foreignKey:AltK;references:K"`
}

type ISCard struct {
	U         int64 `gorm:"primaryKey;autoIncrement:false"`
	NodeA     int64
	NodeB     string
	V         int64
	N         *int64
	DeletedAt gorm.DeletedAt
}

type ISTag struct {
	U         int64
	TA        int64  `gorm:"primaryKey;autoIncrement:false"`
	TB        string `gorm:"primaryKey"`
	V         int64
	N         *int64
	DeletedAt gorm.DeletedAt
}

// ---- II: composite integer + integer -----------------------------------------------

type IINode struct {
	DeletedAt gorm.DeletedAt
	N         *int64
	U         int64
	A         int64 `gorm:"primaryKey;autoIncrement:false"`
	B         int64 `gorm:"primaryKey;autoIncrement:false"`
	V         int64
	BossA     *int64
	BossB     *int64
	Boss      *IINode  `gorm:"foreignKey:BossA,BossB;references:A,B"`
	Subs      []IINode `gorm:"foreignKey:BossA,BossB;references:A,B"`
	Items     []IIItem `gorm:"foreignKey:OwnA,OwnB;references:A,B"`
	Card      *IICard  `gorm:"foreignKey:NodeA,NodeB;references:A,B"`
	Tags      []IITag  `gorm:"many2many:ii_node_tags;foreignKey:A,B;joinForeignKey:NodeA,NodeB;references:TA,TB;joinReferences:TagTA,TagTB"`
	K         int64
	Extra     []IIItem `gorm:"foreignKey:AltK;references:K"`
}

type IIItem struct {
	OwnB      *int64
	U         int64 `gorm:"primaryKey;autoIncrement:false"`
	OwnA      int64
	V         int64
	N         *int64
	DeletedAt gorm.DeletedAt
	Owner     *IINode `gorm:"foreignKey:OwnA,OwnB;references:A,B"`
	AltK      *int64
	Patron    *IINode `gorm:"foreignKey:AltK;references:K"`
}

type IICard struct {
	NodeA     *int64
	N         *int64
	U         int64 `gorm:"primaryKey;autoIncrement:false"`
	NodeB     int64
	V         int64
	DeletedAt gorm.DeletedAt
}

type IITag struct {
	U         int64
	TA        int64 `gorm:"primaryKey;autoIncrement:false"`
	TB        int64 `gorm:"primaryKey;autoIncrement:false"`
	V         int64
	N         *int64
	DeletedAt gorm.DeletedAt
}

// Package c09: an Update or Delete without any condition never executes.
//
// Observation: recdrv event log (statement events between two marks), the error
// identity, RowsAffected and a full dump of both tables before/after.
// Oracle: condition-free chain (AllowGlobalUpdate off) => zero statement events,
// errors.Is(err, ErrMissingWhereClause), dump unchanged; chain with one effective
// condition => never ErrMissingWhereClause.
package c09

import (
	"context"
	"errors"
	"fmt"
	"strings"

	"gorm.io/gorm"
	"gorm.io/gorm/clause"

	"verif/core"
	"verif/recdrv"
	"verif/vdb"
)

// CNote hangs off every model through a polymorphic relation: its condition has a constant part (owner_type)
// besides the owner's key, so a delete of the relation for an owner WITHOUT key must not fall back on that part.
type CNote struct {
	ID        int64 `gorm:"primaryKey"`
	OwnerID   int64
	OwnerType string
	V         string
}

type Plain struct {
	ID    int64 `gorm:"primaryKey"`
	A     int64
	S     string
	Notes []CNote `gorm:"polymorphic:Owner"`
}

type Soft struct {
	ID        int64 `gorm:"primaryKey"`
	A         int64
	S         string
	DeletedAt gorm.DeletedAt
	Notes     []CNote `gorm:"polymorphic:Owner"`
}

// Soft2 has two soft-delete columns: every one of them adds its own filter, none of
// which is a condition supplied by the chain.
type Soft2 struct {
	ID         int64 `gorm:"primaryKey"`
	A          int64
	S          string
	DeletedAt  gorm.DeletedAt
	ArchivedAt gorm.DeletedAt
	Notes      []CNote `gorm:"polymorphic:Owner"`
}

func (Soft2) TableName() string { return "soft2" }

type model struct {
	name    string
	table   string
	zeroPtr func() interface{}
	zeroVal func() interface{}
	withS   func(s string) interface{}
	withA   func(a int64) interface{}
	withID  func(id int64) interface{}
	emptySl func() interface{}
	zeroSl  func() interface{} // non-empty slice whose elements have no primary key
}

var models = []model{
	{"plain", "plains",
		func() interface{} { return &Plain{} }, func() interface{} { return Plain{} },
		func(s string) interface{} { return Plain{S: s} }, func(a int64) interface{} { return Plain{A: a} },
		func(id int64) interface{} { return &Plain{ID: id} }, func() interface{} { return &[]Plain{} }, func() interface{} { return &[]Plain{{}, {}} }},
	{"soft", "softs",
		func() interface{} { return &Soft{} }, func() interface{} { return Soft{} },
		func(s string) interface{} { return Soft{S: s} }, func(a int64) interface{} { return Soft{A: a} },
		func(id int64) interface{} { return &Soft{ID: id} }, func() interface{} { return &[]Soft{} }, func() interface{} { return &[]Soft{{}, {}} }},
	{"soft2", "soft2",
		func() interface{} { return &Soft2{} }, func() interface{} { return Soft2{} },
		func(s string) interface{} { return Soft2{S: s} }, func(a int64) interface{} { return Soft2{A: a} },
		func(id int64) interface{} { return &Soft2{ID: id} }, func() interface{} { return &[]Soft2{} }, func() interface{} { return &[]Soft2{{}, {}} }},
}

type step struct {
	name string
	f    func(db *gorm.DB, m model) *gorm.DB
}

// condition-free chain calls
var steps = []step{
	{`Where("")`, func(db *gorm.DB, m model) *gorm.DB { return db.Where("") }},
	{`Where(map[string]interface{}{})`, func(db *gorm.DB, m model) *gorm.DB { return db.Where(map[string]interface{}{}) }},
	{`Where(map[string]string{})`, func(db *gorm.DB, m model) *gorm.DB { return db.Where(map[string]string{}) }},
	{`Where(map[interface{}]interface{}{})`, func(db *gorm.DB, m model) *gorm.DB { return db.Where(map[interface{}]interface{}{}) }},
	{`Where(M{})`, func(db *gorm.DB, m model) *gorm.DB { return db.Where(m.zeroVal()) }},
	{`Where(&M{})`, func(db *gorm.DB, m model) *gorm.DB { return db.Where(m.zeroPtr()) }},
	{`Where([]int64{})`, func(db *gorm.DB, m model) *gorm.DB { return db.Where([]int64{}) }},
	{`Where([]string{})`, func(db *gorm.DB, m model) *gorm.DB { return db.Where([]string{}) }},
	{`Not("")`, func(db *gorm.DB, m model) *gorm.DB { return db.Not("") }},
	{`Not(map[string]interface{}{})`, func(db *gorm.DB, m model) *gorm.DB { return db.Not(map[string]interface{}{}) }},
	{`Not(M{})`, func(db *gorm.DB, m model) *gorm.DB { return db.Not(m.zeroVal()) }},
	{`Or("")`, func(db *gorm.DB, m model) *gorm.DB { return db.Or("") }},
	{`Or(map[string]interface{}{})`, func(db *gorm.DB, m model) *gorm.DB { return db.Or(map[string]interface{}{}) }},
	{`Or(&M{})`, func(db *gorm.DB, m model) *gorm.DB { return db.Or(m.zeroPtr()) }},
	{`Clauses(clause.Where{})`, func(db *gorm.DB, m model) *gorm.DB { return db.Clauses(clause.Where{}) }},
	{`Clauses(clause.Where{Exprs: filters}) with an empty list`, func(db *gorm.DB, m model) *gorm.DB {
		return db.Clauses(clause.Where{Exprs: []clause.Expression{}})
	}},
	{`Order("id")`, func(db *gorm.DB, m model) *gorm.DB { return db.Order("id") }},
	{`Limit(1)`, func(db *gorm.DB, m model) *gorm.DB { return db.Limit(1) }},
	{`Offset(1)`, func(db *gorm.DB, m model) *gorm.DB { return db.Offset(1) }},
	{`Scopes(noop)`, func(db *gorm.DB, m model) *gorm.DB {
		return db.Scopes(func(d *gorm.DB) *gorm.DB { return d })
	}},
	{`Scopes(Where(""))`, func(db *gorm.DB, m model) *gorm.DB {
		return db.Scopes(func(d *gorm.DB) *gorm.DB { return d.Where("") })
	}},
	{`Unscoped()`, func(db *gorm.DB, m model) *gorm.DB { return db.Unscoped() }},
	{`Select("s")`, func(db *gorm.DB, m model) *gorm.DB { return db.Select("s") }},
	{`Omit("a")`, func(db *gorm.DB, m model) *gorm.DB { return db.Omit("a") }},
	{`Table(t)`, func(db *gorm.DB, m model) *gorm.DB { return db.Table(m.table) }},
	{`Model(&M{})`, func(db *gorm.DB, m model) *gorm.DB { return db.Model(m.zeroPtr()) }},
	{`Session(&Session{})`, func(db *gorm.DB, m model) *gorm.DB { return db.Session(&gorm.Session{}) }},
	{`WithContext(ctx)`, func(db *gorm.DB, m model) *gorm.DB { return db.WithContext(context.Background()) }},
	{`Clauses(Locking)`, func(db *gorm.DB, m model) *gorm.DB { return db.Clauses(clause.Locking{Strength: "UPDATE"}) }},
	{`Distinct()`, func(db *gorm.DB, m model) *gorm.DB { return db.Group("") }},
	{`Debug()`, func(db *gorm.DB, m model) *gorm.DB { return db.Debug() }},
	{`Session(&Session{DryRun:true})`, func(db *gorm.DB, m model) *gorm.DB { return db.Session(&gorm.Session{DryRun: true}) }},
	// a read executed on the chain value, which is then used further (Count, then update; the idiom of
	// paging code): whatever the read leaves on the statement is not a condition supplied by the chain.
	// Model(&M{}) keeps the model value free of keys (a Find into structs would make the loaded rows the
	// model value, and their keys are a condition).
	{`[Model(&M{}).Count(&n) on this value, then]`, func(db *gorm.DB, m model) *gorm.DB {
		var n int64
		db.Model(m.zeroPtr()).Count(&n)
		return db
	}},
	{`[Model(&M{}).Find(&maps) on this value, then]`, func(db *gorm.DB, m model) *gorm.DB {
		var out []map[string]interface{}
		db.Model(m.zeroPtr()).Find(&out)
		return db
	}},
}

// effective conditions (positive side)
var conds = []step{
	{`Where("a = ?", 1)`, func(db *gorm.DB, m model) *gorm.DB { return db.Where("a = ?", 1) }},
	{`Where(map a:1)`, func(db *gorm.DB, m model) *gorm.DB { return db.Where(map[string]interface{}{"a": 1}) }},
	{`Where(M{A:1})`, func(db *gorm.DB, m model) *gorm.DB { return db.Where(m.withA(1)) }},
	{`Where("id IN ?", []int64{1,2})`, func(db *gorm.DB, m model) *gorm.DB { return db.Where("id IN ?", []int64{1, 2}) }},
	{`Where([]int64{1})`, func(db *gorm.DB, m model) *gorm.DB { return db.Where([]int64{1}) }},
	{`Where("a", 1)`, func(db *gorm.DB, m model) *gorm.DB { return db.Where("a", 1) }},
	{`Where(clause.Eq)`, func(db *gorm.DB, m model) *gorm.DB { return db.Where(clause.Eq{Column: "a", Value: 1}) }},
	{`Where("a = @v", named)`, func(db *gorm.DB, m model) *gorm.DB { return db.Where("a = @v", map[string]interface{}{"v": 1}) }},
	{`Not("a = ?", 1)`, func(db *gorm.DB, m model) *gorm.DB { return db.Not("a = ?", 1) }},
	{`Not(map a:1)`, func(db *gorm.DB, m model) *gorm.DB { return db.Not(map[string]interface{}{"a": 1}) }},
	{`Or("a = ?", 1)`, func(db *gorm.DB, m model) *gorm.DB { return db.Or("a = ?", 1) }},
	{`Where("1 = 1")`, func(db *gorm.DB, m model) *gorm.DB { return db.Where("1 = 1") }},
	{`Scopes(Where a=1)`, func(db *gorm.DB, m model) *gorm.DB {
		return db.Scopes(func(d *gorm.DB) *gorm.DB { return d.Where("a = ?", 1) })
	}},
	{`Where(db.Where(a=1).Or(a=2))`, nil}, // built from the root handle, see apply
	{`Model(&M{ID:1})`, func(db *gorm.DB, m model) *gorm.DB { return db.Model(m.withID(1)) }},
}

type finisher struct {
	name     string
	needsMdl bool // needs Model() (or Table) set by the harness
	f        func(db *gorm.DB, m model) *gorm.DB
}

var finishers = []finisher{
	{`Update("s","x")`, true, func(db *gorm.DB, m model) *gorm.DB { return db.Update("s", "x") }},
	{`Updates(map{s:x})`, true, func(db *gorm.DB, m model) *gorm.DB { return db.Updates(map[string]interface{}{"s": "x"}) }},
	{`Updates(M{S:x})`, true, func(db *gorm.DB, m model) *gorm.DB { return db.Updates(m.withS("x")) }},
	{`UpdateColumn("s","x")`, true, func(db *gorm.DB, m model) *gorm.DB { return db.UpdateColumn("s", "x") }},
	{`UpdateColumns(map{s:x})`, true, func(db *gorm.DB, m model) *gorm.DB { return db.UpdateColumns(map[string]interface{}{"s": "x"}) }},
	{`UpdateColumns(M{S:x})`, true, func(db *gorm.DB, m model) *gorm.DB { return db.UpdateColumns(m.withS("x")) }},
	{`Update("s", gorm.Expr)`, true, func(db *gorm.DB, m model) *gorm.DB { return db.Update("s", gorm.Expr("s || ?", "x")) }},
	{`Delete(&M{})`, false, func(db *gorm.DB, m model) *gorm.DB { return db.Delete(m.zeroPtr()) }},
	{`Delete(&M{}, "")`, false, func(db *gorm.DB, m model) *gorm.DB { return db.Delete(m.zeroPtr(), "") }},
	{`Delete(&M{}, map{})`, false, func(db *gorm.DB, m model) *gorm.DB { return db.Delete(m.zeroPtr(), map[string]interface{}{}) }},
	{`Delete(&M{}, []int64{})`, false, func(db *gorm.DB, m model) *gorm.DB { return db.Delete(m.zeroPtr(), []int64{}) }},
	{`Delete(&[]M{})`, false, func(db *gorm.DB, m model) *gorm.DB { return db.Delete(m.emptySl()) }},
	{`Delete(&[]M{{},{}})`, false, func(db *gorm.DB, m model) *gorm.DB { return db.Delete(m.zeroSl()) }},
	// a delete that takes a relation along: without a key there is nothing to take along either
	{`Select("Notes").Delete(&M{})`, false, func(db *gorm.DB, m model) *gorm.DB { return db.Select("Notes").Delete(m.zeroPtr()) }},
	{`Select(clause.Associations).Delete(&M{})`, false, func(db *gorm.DB, m model) *gorm.DB {
		return db.Select(clause.Associations).Delete(m.zeroPtr())
	}},
	{`Select("Notes").Delete(&[]M{{},{}})`, false, func(db *gorm.DB, m model) *gorm.DB { return db.Select("Notes").Delete(m.zeroSl()) }},
}

const nModes = 3 // how the model is supplied to update finishers: Model(&M{}) | Table(t) | Model(&[]M{{},{}})

func maxLen(tier string) int {
	if tier == "thorough" {
		return 3
	}
	return 2
}

func nChains(L int) int {
	n, p := 0, 1
	for l := 0; l <= L; l++ {
		n += p
		p *= len(steps)
	}
	return n
}

func decodeChain(idx int) []int {
	p := 1
	for l := 0; ; l++ {
		if idx < p {
			out := make([]int, l)
			for k := l - 1; k >= 0; k-- {
				out[k] = idx % len(steps)
				idx /= len(steps)
			}
			return out
		}
		idx -= p
		p *= len(steps)
	}
}

type env struct {
	h       *vdb.Handle
	hCfgAGU *vdb.Handle
	seed    string
}

var E *env

const seedSQL = `
DELETE FROM plains; DELETE FROM softs; DELETE FROM soft2; DELETE FROM c_notes;
INSERT INTO c_notes(id,owner_id,owner_type,v) VALUES (1,1,'plains','n1'),(2,2,'plains','n2'),(3,1,'softs','n3'),(4,2,'softs','n4'),(5,1,'soft2','n5'),(6,2,'soft2','n6');
INSERT INTO soft2(id,a,s,deleted_at,archived_at) VALUES (1,1,'t1',NULL,NULL),(2,2,'t2',NULL,NULL),(3,1,'t3','2020-01-01 00:00:00',NULL),(4,2,'t4',NULL,'2020-01-01 00:00:00');
INSERT INTO plains(id,a,s) VALUES (1,1,'p1'),(2,1,'p2'),(3,2,'p3'),(4,3,'p4');
INSERT INTO softs(id,a,s,deleted_at) VALUES (1,1,'s1',NULL),(2,2,'s2',NULL),(3,1,'s3','2020-01-01 00:00:00'),(4,2,'s4','2020-01-01 00:00:00');
`

func open(c *core.Ctx, agu bool) *vdb.Handle {
	h, err := vdb.Open(vdb.Options{Config: gorm.Config{AllowGlobalUpdate: agu}})
	if err != nil {
		panic(err)
	}
	if err := h.DB.AutoMigrate(&Plain{}, &Soft{}, &Soft2{}, &CNote{}); err != nil {
		panic(err)
	}
	if _, err := h.SQL.Exec(seedSQL); err != nil {
		panic(err)
	}
	return h
}

func initEnv(c *core.Ctx) {
	E = &env{h: open(c, false), hCfgAGU: open(c, true)}
	E.seed = vdb.Dump(E.h.SQL, "plains", "softs", "soft2", "c_notes")
}

func reseed(h *vdb.Handle) {
	if _, err := h.SQL.Exec(seedSQL); err != nil {
		panic(err)
	}
}

type opResult struct {
	stale  error // an error left on the chain value by a read step (the finisher then reports that one)
	err    error
	rows   int64
	events []recdrv.Event
	dump   string
}

// runOp builds and executes one chain. pos>=0 inserts effective condition cond at that position.
func runOp(h *vdb.Handle, m model, chain []int, fin finisher, mode int, sessAGU bool, cond, pos int) (opResult, string) {
	root := h.DB
	var desc []string
	var stale error
	db := root.Session(&gorm.Session{AllowGlobalUpdate: sessAGU})
	if sessAGU {
		desc = append(desc, "Session{AllowGlobalUpdate:true}")
	}
	if fin.needsMdl {
		if mode == 0 {
			db = db.Model(m.zeroPtr())
			desc = append(desc, "Model(&M{})")
		} else if mode == 2 {
			db = db.Model(m.zeroSl())
			desc = append(desc, "Model(&[]M{{},{}})")
		} else {
			db = db.Table(m.table)
			desc = append(desc, "Table(t)")
		}
	}
	applyCond := func() {
		cs := conds[cond]
		desc = append(desc, cs.name)
		if cs.f == nil {
			db = db.Where(root.Where("a = ?", 1).Or("a = ?", 2))
			return
		}
		db = cs.f(db, m)
	}
	for i, s := range chain {
		if i == pos {
			applyCond()
		}
		db = steps[s].f(db, m)
		desc = append(desc, steps[s].name)
		if db.Error != nil && stale == nil {
			stale = db.Error
		}
	}
	if pos >= len(chain) {
		applyCond()
	}
	desc = append(desc, fin.name)
	mark := h.Rec.Mark()
	res := fin.f(db, m)
	return opResult{stale: stale, err: res.Error, rows: res.RowsAffected, events: h.Rec.Since(mark), dump: vdb.Dump(h.SQL, "plains", "softs", "soft2", "c_notes")},
		m.name + ": db." + strings.Join(desc, ".")
}

func stmtEvents(evs []recdrv.Event) []string {
	var out []string
	for _, e := range evs {
		if e.IsStatement() {
			out = append(out, e.String())
		}
	}
	return out
}

func run(c *core.Ctx) {
	L := maxLen(c.Tier)
	nc := nChains(L)
	i := c.Case
	chainIdx := i % nc
	i /= nc
	fi := i % len(finishers)
	i /= len(finishers)
	mi := i % len(models)
	i /= len(models)
	mode := i % nModes
	chain := decodeChain(chainIdx)
	fin, m := finishers[fi], models[mi]
	if !fin.needsMdl && mode >= 1 {
		// Delete takes its model from the value; mode 1 would duplicate mode 0: use it for
		// a decoy instead (an AllowGlobalUpdate session used first must not leak into the handle)
		E.h.DB.Session(&gorm.Session{AllowGlobalUpdate: true}).Model(m.zeroPtr()).Where("1 = 0").Update("s", "decoy")
	}

	// (1) negative: no effective condition, guard on
	r, desc := runOp(E.h, m, chain, fin, mode, false, -1, -1)
	c.Logf("NEG %s", desc)
	bad := []string{}
	if r.stale != nil {
		// the chain value already carried an error: the finisher must report it and do nothing
		c.Inc("neg_chain_value_with_earlier_error")
		if r.err == nil {
			bad = append(bad, fmt.Sprintf("the chain value carried the error %v, the finisher returned nil", r.stale))
		}
	} else if !errors.Is(r.err, gorm.ErrMissingWhereClause) {
		bad = append(bad, fmt.Sprintf("error is %v, want ErrMissingWhereClause", r.err))
	}
	if se := stmtEvents(r.events); len(se) > 0 {
		bad = append(bad, "statement events reached the driver: "+strings.Join(se, " ; "))
	}
	if r.dump != E.seed {
		bad = append(bad, "table contents changed")
		reseed(E.h)
	}
	hasRead := false
	for _, st := range chain {
		if strings.HasPrefix(steps[st].name, "[") {
			hasRead = true // RowsAffected is then what the read left on the chain value; the statement says nothing about it
		}
	}
	if r.rows != 0 && !hasRead {
		bad = append(bad, fmt.Sprintf("RowsAffected=%d", r.rows))
	}
	if len(bad) > 0 {
		c.Violation("neg:"+fin.name, map[string]interface{}{"chain": desc, "problems": bad})
	} else {
		c.Shape("neg", desc)
		c.Inc("neg_rejected_without_statement")
		if len(r.events) > 0 {
			c.Inc("neg_with_empty_tx")
		}
	}
	if c.WantSample() {
		ev := []string{}
		for _, e := range r.events {
			ev = append(ev, e.String())
		}
		c.Sample(map[string]interface{}{"chain": desc, "error": fmt.Sprint(r.err), "driver_events": ev})
	}

	// (2) positive: same chain with one effective condition inserted
	cond := c.R.Intn(len(conds))
	pos := c.R.Intn(len(chain) + 1)
	// (for Delete the key may come from Model() while the value handed to Delete is empty: still a condition)
	// a leading Or as first condition call is still a condition; a Model() with key placed
	// before a later Model(&M{}) step is overridden: keep only placements that stay effective
	if conds[cond].name == `Model(&M{ID:1})` {
		pos = len(chain)
	}
	pr, pdesc := runOp(E.h, m, chain, fin, mode, false, cond, pos)
	c.Logf("POS %s", pdesc)
	// a DryRun session keeps the generated SQL in the statement for inspection (by design): a read executed
	// on such a chain value leaves its SELECT there, and a finisher called on the same value afterwards
	// does not build its own statement. Continuing to use a dry-run chain value is outside the statement.
	dryThenRead := false
	sawDry := false
	for _, st := range chain {
		if strings.Contains(steps[st].name, "DryRun") {
			sawDry = true
		}
		if sawDry && strings.HasPrefix(steps[st].name, "[") {
			dryThenRead = true
		}
	}
	if dryThenRead {
		c.Inc("pos_dryrun_value_reused_after_read_skipped")
	} else if pr.stale != nil {
		c.Inc("pos_chain_value_with_earlier_error")
	} else if errors.Is(pr.err, gorm.ErrMissingWhereClause) {
		c.Violation("pos:"+conds[cond].name, map[string]interface{}{"chain": pdesc, "problems": []string{"rejected with ErrMissingWhereClause although a condition was given"}})
	} else if pr.err == nil {
		c.Shape("pos", pdesc)
		c.Inc("pos_executed")
	} else {
		c.Inc("pos_other_error")
		c.Inc("pos_other_error: " + conds[cond].name + " => " + pr.err.Error())
		c.Logf("POS other error: %v", pr.err)
	}
	if pr.dump != E.seed {
		reseed(E.h)
	}

	// (3) AllowGlobalUpdate on (session or config): the guard is what the flag switches off, so the
	// operation must not be rejected on this ground
	if c.R.Chance(1, 3) {
		var ar opResult
		var adesc string
		if c.R.Bool() {
			ar, adesc = runOp(E.h, m, chain, fin, mode, true, -1, -1)
			if ar.dump != E.seed {
				reseed(E.h)
			}
		} else {
			ar, adesc = runOp(E.hCfgAGU, m, chain, fin, mode, false, -1, -1)
			reseed(E.hCfgAGU)
		}
		c.Logf("AGU %s", adesc)
		if errors.Is(ar.err, gorm.ErrMissingWhereClause) && ar.stale == nil {
			c.Inc("agu_on_still_rejected")
			c.Violation("agu-on-rejected", map[string]interface{}{"chain": adesc, "problems": []string{"AllowGlobalUpdate is enabled (session or configuration) and the operation was still rejected with ErrMissingWhereClause"}})
		} else {
			c.Inc("agu_on_executed")
		}
	}
}

func cases(tier string) int {
	return nChains(maxLen(tier)) * len(finishers) * len(models) * nModes
}

var Engine = &core.Engine{
	ID:    "C09",
	Level: "exploration",
	Rule: "enumeration of every chain of condition-free calls up to length 2 (quick) / 3 (thorough) over 32 call forms (incl. Session, WithContext, Debug, a DryRun session, and a Count / Find executed on the chain value before it is used further) x 13 update/delete finishers x {plain, soft-delete, two-soft-delete-column} model x {Model(&M{}), Table(), Model(non-empty slice without keys)}; " +
		"a case is non-trivial when the guard demonstrably decided it: the negative chain was rejected with ErrMissingWhereClause and zero statement events (shape = literal chain), " +
		"or the same chain with one effective condition inserted at a random position executed (shape = literal chain incl. condition)",
	Assumptions: []string{
		"SQLite behind the recording driver stands for every database: the guard is dialect-independent code in callbacks/helper.go",
		"a committed or rolled-back empty implicit transaction is allowed; only prepare/exec/query events count as 'executes a statement'",
		"a chain value of a DryRun session on which a read was already executed is not used for the positive direction (DryRun keeps the read's SQL in the statement by design; the next finisher on that value does not build its own)",
		"with AllowGlobalUpdate on (configuration, or a session placed first in the chain) the only demand is that the operation is not rejected with ErrMissingWhereClause, wherever Session / WithContext / Debug calls follow",
	},
	Cases: cases,
	Batch: func(tier string) int {
		if tier == "thorough" {
			return 8192
		}
		return 1024
	},
	Run:           run,
	Init:          initEnv,
	Exhaustive:    func(string) bool { return true },
	MinNontrivial: 1000,
}

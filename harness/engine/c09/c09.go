// Package c09: an Update or Delete without any condition never executes.
//
// Observation: recdrv event log (statement events between two marks), the error
// identity, RowsAffected and a full dump of both tables before/after.
// Oracle: condition-free chain (AllowGlobalUpdate off) => zero statement events,
// errors.Is(err, ErrMissingWhereClause), dump unchanged (association-mode Clear / Replace
// on the chain value are finishers too); chain with one effective
// condition (a condition call, an inline condition of Delete, or a model value /
// deleted value with a wholly or partly set primary key) => never ErrMissingWhereClause.
package c09

import (
	"context"
	"errors"
	"fmt"
	"strings"

	"gorm.io/gorm"
	"gorm.io/gorm/clause"

	"verif/core"
	"verif/recdrv"
	"verif/vdb"
)

// CNote hangs off every model through a polymorphic relation: its condition has a constant part (owner_type)
// besides the owner's key, so a delete of the relation for an owner WITHOUT key must not fall back on that part.
type CNote struct {
	ID        int64 `gorm:"primaryKey"`
	OwnerID   int64
	OwnerType string
	V         string
}

// CTeam is what every model belongs to: in association mode, Clear() / Replace() of a belongs-to relation is an
// UpdateColumns on the OWNER table issued on the caller's own chain (db.Model(owner)...), so it is one more
// finisher of the chain: an owner value without primary key and no condition in the chain must be refused.
type CTeam struct {
	ID   int64 `gorm:"primaryKey"`
	Name string
}

type Plain struct {
	ID     int64 `gorm:"primaryKey"`
	A      int64
	S      string
	Notes  []CNote `gorm:"polymorphic:Owner"`
	TeamID *int64
	Team   *CTeam
}

type Soft struct {
	ID        int64 `gorm:"primaryKey"`
	A         int64
	S         string
	DeletedAt gorm.DeletedAt
	Notes     []CNote `gorm:"polymorphic:Owner"`
	TeamID    *int64
	Team      *CTeam
}

// Soft2 has two soft-delete columns: every one of them adds its own filter, none of
// which is a condition supplied by the chain.
type Soft2 struct {
	ID         int64 `gorm:"primaryKey"`
	A          int64
	S          string
	DeletedAt  gorm.DeletedAt
	ArchivedAt gorm.DeletedAt
	Notes      []CNote `gorm:"polymorphic:Owner"`
	TeamID     *int64
	Team       *CTeam
}

func (Soft2) TableName() string { return "soft2" }

// KPlain and KSoft have a composite primary key. A value whose key is only partly set ((1, ""), (0, "x")) is
// still a model value WITH a primary key: the set part is the condition it supplies.
type KPlain struct {
	ID     int64  `gorm:"primaryKey;autoIncrement:false"`
	Loc    string `gorm:"primaryKey"`
	A      int64
	S      string
	Notes  []CNote `gorm:"polymorphic:Owner"`
	TeamID *int64
	Team   *CTeam
}

type KSoft struct {
	OrderID   int64 `gorm:"primaryKey;autoIncrement:false"`
	LineNo    int   `gorm:"primaryKey;autoIncrement:false"`
	A         int64
	S         string
	DeletedAt gorm.DeletedAt
	Notes     []CNote `gorm:"polymorphic:Owner;foreignKey:OrderID"`
	TeamID    *int64
	Team      *CTeam
}

// keyPat is one way of giving a model value a primary key (for a composite key: which parts are set).
type keyPat struct {
	name  string             // the literal field list, e.g. `ID:1,Loc:""`
	class string             // single | full | last part zero | first part zero
	ptr   func() interface{} // &M{key}
	val   func() interface{} // M{key}
	sl1   func() interface{} // &[]M{{key}}
	sl2   func() interface{} // &[]M{{}, {key}}
	upd   func() interface{} // &M{key, S:"x"}
}

func kp[T any](name, class string, v, withS T) keyPat {
	return keyPat{name, class,
		func() interface{} { x := v; return &x },
		func() interface{} { return v },
		func() interface{} { return &[]T{v} },
		func() interface{} { var z T; return &[]T{z, v} },
		func() interface{} { x := withS; return &x }}
}

type model struct {
	name    string
	table   string
	zeroPtr func() interface{}
	zeroVal func() interface{}
	withS   func(s string) interface{}
	withA   func(a int64) interface{}
	emptySl func() interface{}
	zeroSl  func() interface{} // non-empty slice whose elements have no primary key
	keys    []keyPat
	// further empty condition forms built from the model's type (see eforms)
	ppZero   func() interface{} // **M pointing to an all-zero struct
	slVal    func() interface{} // []M{}
	pslVal   func() interface{} // []*M{}
	pslPtr   func() interface{} // &[]*M{}
	ppZeroSl func() interface{} // **[]M pointing to an empty slice
}

func mk[T any](name, table string, withS func(string) T, withA func(int64) T, keys ...keyPat) model {
	return model{name, table,
		func() interface{} { return new(T) },
		func() interface{} { var z T; return z },
		func(s string) interface{} { return withS(s) },
		func(a int64) interface{} { return withA(a) },
		func() interface{} { return &[]T{} },
		func() interface{} { sl := make([]T, 2); return &sl },
		keys,
		func() interface{} { p := new(T); return &p },
		func() interface{} { return []T{} },
		func() interface{} { return []*T{} },
		func() interface{} { return &[]*T{} },
		func() interface{} { p := &[]T{}; return &p }}
}

var models = []model{
	mk("plain", "plains", func(s string) Plain { return Plain{S: s} }, func(a int64) Plain { return Plain{A: a} },
		kp("ID:1", "single", Plain{ID: 1}, Plain{ID: 1, S: "x"})),
	mk("soft", "softs", func(s string) Soft { return Soft{S: s} }, func(a int64) Soft { return Soft{A: a} },
		kp("ID:1", "single", Soft{ID: 1}, Soft{ID: 1, S: "x"})),
	mk("soft2", "soft2", func(s string) Soft2 { return Soft2{S: s} }, func(a int64) Soft2 { return Soft2{A: a} },
		kp("ID:1", "single", Soft2{ID: 1}, Soft2{ID: 1, S: "x"})),
	mk("kplain", "k_plains", func(s string) KPlain { return KPlain{S: s} }, func(a int64) KPlain { return KPlain{A: a} },
		kp(`ID:1,Loc:""`, "last part zero", KPlain{ID: 1}, KPlain{ID: 1, S: "x"}),
		kp(`ID:0,Loc:"x"`, "first part zero", KPlain{Loc: "x"}, KPlain{Loc: "x", S: "x"}),
		kp(`ID:1,Loc:"x"`, "full", KPlain{ID: 1, Loc: "x"}, KPlain{ID: 1, Loc: "x", S: "x"})),
	mk("ksoft", "k_softs", func(s string) KSoft { return KSoft{S: s} }, func(a int64) KSoft { return KSoft{A: a} },
		kp(`OrderID:1,LineNo:0`, "last part zero", KSoft{OrderID: 1}, KSoft{OrderID: 1, S: "x"}),
		kp(`OrderID:0,LineNo:3`, "first part zero", KSoft{LineNo: 3}, KSoft{LineNo: 3, S: "x"}),
		kp(`OrderID:1,LineNo:3`, "full", KSoft{OrderID: 1, LineNo: 3}, KSoft{OrderID: 1, LineNo: 3, S: "x"})),
}

// (model, mode) pairs of the enumeration. mode = how the model is supplied to update finishers: 0 Model(&M{}) |
// 1 Table(t) | 2 Model(&[]M{{},{}}); for delete finishers mode >= 1 runs a decoy first (see run).
// The composite-key models differ from the others only in how a key is read off a value: two modes each.
const nSingle = 9 // the first nSingle pairs are those of the single-key models

var pairs = [][2]int{{0, 0}, {0, 1}, {0, 2}, {1, 0}, {1, 1}, {1, 2}, {2, 0}, {2, 1}, {2, 2}, {3, 0}, {3, 2}, {4, 0}, {4, 2}}

type step struct {
	name string
	f    func(db *gorm.DB, m model) *gorm.DB
	g    func(db, root *gorm.DB, m model) *gorm.DB // a step that builds a grouped condition from the ROOT handle
}

// condition-free chain calls
var steps = []step{
	{`Where("")`, func(db *gorm.DB, m model) *gorm.DB { return db.Where("") }, nil},
	{`Where(map[string]interface{}{})`, func(db *gorm.DB, m model) *gorm.DB { return db.Where(map[string]interface{}{}) }, nil},
	{`Where(map[string]string{})`, func(db *gorm.DB, m model) *gorm.DB { return db.Where(map[string]string{}) }, nil},
	{`Where(map[interface{}]interface{}{})`, func(db *gorm.DB, m model) *gorm.DB { return db.Where(map[interface{}]interface{}{}) }, nil},
	{`Where(M{})`, func(db *gorm.DB, m model) *gorm.DB { return db.Where(m.zeroVal()) }, nil},
	{`Where(&M{})`, func(db *gorm.DB, m model) *gorm.DB { return db.Where(m.zeroPtr()) }, nil},
	{`Where([]int64{})`, func(db *gorm.DB, m model) *gorm.DB { return db.Where([]int64{}) }, nil},
	{`Where([]string{})`, func(db *gorm.DB, m model) *gorm.DB { return db.Where([]string{}) }, nil},
	{`Not("")`, func(db *gorm.DB, m model) *gorm.DB { return db.Not("") }, nil},
	{`Not(map[string]interface{}{})`, func(db *gorm.DB, m model) *gorm.DB { return db.Not(map[string]interface{}{}) }, nil},
	{`Not(M{})`, func(db *gorm.DB, m model) *gorm.DB { return db.Not(m.zeroVal()) }, nil},
	{`Or("")`, func(db *gorm.DB, m model) *gorm.DB { return db.Or("") }, nil},
	{`Or(map[string]interface{}{})`, func(db *gorm.DB, m model) *gorm.DB { return db.Or(map[string]interface{}{}) }, nil},
	{`Or(&M{})`, func(db *gorm.DB, m model) *gorm.DB { return db.Or(m.zeroPtr()) }, nil},
	{`Clauses(clause.Where{})`, func(db *gorm.DB, m model) *gorm.DB { return db.Clauses(clause.Where{}) }, nil},
	{`Clauses(clause.Where{Exprs: filters}) with an empty list`, func(db *gorm.DB, m model) *gorm.DB {
		return db.Clauses(clause.Where{Exprs: []clause.Expression{}})
	}, nil},
	// a grouped condition built from a handle that carries no effective condition: an empty WHERE entry, only
	// empty condition calls (no WHERE entry at all), a nested empty group next to a clause that is no condition
	{name: `Where(db.Clauses(clause.Where{}))`, g: func(db, root *gorm.DB, m model) *gorm.DB {
		return db.Where(root.Clauses(clause.Where{}))
	}},
	{name: `Or(db.Where("").Not(map[string]interface{}{}))`, g: func(db, root *gorm.DB, m model) *gorm.DB {
		return db.Or(root.Where("").Not(map[string]interface{}{}))
	}},
	{name: `Not(db.Where(db.Clauses(clause.Where{Exprs: filters})).Order("id")) with an empty list`, g: func(db, root *gorm.DB, m model) *gorm.DB {
		return db.Not(root.Where(root.Clauses(clause.Where{Exprs: []clause.Expression{}})).Order("id"))
	}},
	{`Order("id")`, func(db *gorm.DB, m model) *gorm.DB { return db.Order("id") }, nil},
	{`Limit(1)`, func(db *gorm.DB, m model) *gorm.DB { return db.Limit(1) }, nil},
	{`Offset(1)`, func(db *gorm.DB, m model) *gorm.DB { return db.Offset(1) }, nil},
	{`Scopes(noop)`, func(db *gorm.DB, m model) *gorm.DB {
		return db.Scopes(func(d *gorm.DB) *gorm.DB { return d })
	}, nil},
	{`Scopes(Where(""))`, func(db *gorm.DB, m model) *gorm.DB {
		return db.Scopes(func(d *gorm.DB) *gorm.DB { return d.Where("") })
	}, nil},
	{`Unscoped()`, func(db *gorm.DB, m model) *gorm.DB { return db.Unscoped() }, nil},
	{`Select("s")`, func(db *gorm.DB, m model) *gorm.DB { return db.Select("s") }, nil},
	{`Omit("a")`, func(db *gorm.DB, m model) *gorm.DB { return db.Omit("a") }, nil},
	{`Table(t)`, func(db *gorm.DB, m model) *gorm.DB { return db.Table(m.table) }, nil},
	{`Model(&M{})`, func(db *gorm.DB, m model) *gorm.DB { return db.Model(m.zeroPtr()) }, nil},
	{`Model(&[]M{})`, func(db *gorm.DB, m model) *gorm.DB { return db.Model(m.emptySl()) }, nil},
	{`Session(&Session{})`, func(db *gorm.DB, m model) *gorm.DB { return db.Session(&gorm.Session{}) }, nil},
	{`WithContext(ctx)`, func(db *gorm.DB, m model) *gorm.DB { return db.WithContext(context.Background()) }, nil},
	{`Clauses(Locking)`, func(db *gorm.DB, m model) *gorm.DB { return db.Clauses(clause.Locking{Strength: "UPDATE"}) }, nil},
	{`Group("")`, func(db *gorm.DB, m model) *gorm.DB { return db.Group("") }, nil},
	{`Debug()`, func(db *gorm.DB, m model) *gorm.DB { return db.Debug() }, nil},
	{`Session(&Session{DryRun:true})`, func(db *gorm.DB, m model) *gorm.DB { return db.Session(&gorm.Session{DryRun: true}) }, nil},
	// a read executed on the chain value, which is then used further (Count, then update; the idiom of
	// paging code): whatever the read leaves on the statement is not a condition supplied by the chain.
	// Model(&M{}) keeps the model value free of keys (a Find into structs would make the loaded rows the
	// model value, and their keys are a condition).
	{`[Model(&M{}).Count(&n) on this value, then]`, func(db *gorm.DB, m model) *gorm.DB {
		var n int64
		db.Model(m.zeroPtr()).Count(&n)
		return db
	}, nil},
	{`[Model(&M{}).Find(&maps) on this value, then]`, func(db *gorm.DB, m model) *gorm.DB {
		var out []map[string]interface{}
		db.Model(m.zeroPtr()).Find(&out)
		return db
	}, nil},
}

// Empty condition forms handed over BY POINTER (and the by-value slice forms not among the steps above): a pointer
// to an empty slice is an empty slice, a pointer to a pointer to an all-zero struct is an all-zero struct. Each
// form is a fresh value per use. Every form is given to Where / Not / Or, to a Where inside Scopes, and as the
// inline condition of Delete (fourth block of the enumeration, see run).
type eform struct {
	name string
	v    func(m model) interface{}
}

var eforms = []eform{
	{`&[]int64{}`, func(m model) interface{} { return &[]int64{} }},
	{`&[]string{}`, func(m model) interface{} { return &[]string{} }},
	{`&[]uint{}`, func(m model) interface{} { return &[]uint{} }},
	{`&[]interface{}{}`, func(m model) interface{} { return &[]interface{}{} }},
	{`&p with p = &[]int64{}`, func(m model) interface{} { p := &[]int64{}; return &p }},
	{`&p with p = &[]string{}`, func(m model) interface{} { p := &[]string{}; return &p }},
	{`new([]int64) (pointer to a nil slice)`, func(m model) interface{} { return new([]int64) }},
	{`[]uint{}`, func(m model) interface{} { return []uint{} }},
	{`[]interface{}{}`, func(m model) interface{} { return []interface{}{} }},
	{`&[]M{}`, func(m model) interface{} { return m.emptySl() }},
	{`[]M{}`, func(m model) interface{} { return m.slVal() }},
	{`[]*M{}`, func(m model) interface{} { return m.pslVal() }},
	{`&[]*M{}`, func(m model) interface{} { return m.pslPtr() }},
	{`&p with p = &[]M{}`, func(m model) interface{} { return m.ppZeroSl() }},
	{`&p with p = &M{}`, func(m model) interface{} { return m.ppZero() }},
}

// how an eform enters the operation
var euses = []string{"Where", "Not", "Or", "inline / Scopes"}

// xstep: one extra call carrying an eform, placed at position pos among the ordinary steps of the chain
// (f), or the eform as the only inline condition of a delete finisher (inline)
type xstep struct {
	name   string
	pos    int
	f      func(db *gorm.DB) *gorm.DB
	inline []interface{}
}

func mkXstep(m model, ef eform, use int, isDelete bool, pos int) *xstep {
	x := &xstep{pos: pos}
	switch {
	case use == 0:
		x.name, x.f = "Where("+ef.name+")", func(db *gorm.DB) *gorm.DB { return db.Where(ef.v(m)) }
	case use == 1:
		x.name, x.f = "Not("+ef.name+")", func(db *gorm.DB) *gorm.DB { return db.Not(ef.v(m)) }
	case use == 2:
		x.name, x.f = "Or("+ef.name+")", func(db *gorm.DB) *gorm.DB { return db.Or(ef.v(m)) }
	case isDelete:
		x.name, x.inline = ef.name, []interface{}{ef.v(m)}
	default:
		x.name, x.f = "Scopes(Where("+ef.name+"))", func(db *gorm.DB) *gorm.DB {
			return db.Scopes(func(d *gorm.DB) *gorm.DB { return d.Where(ef.v(m)) })
		}
	}
	return x
}

// effective conditions (positive side). kind says where the condition enters the operation:
const (
	inChain  = iota // a chain call inserted at a random position
	atEnd           // a chain call placed after the chain (a Model() with key: a later Model(&M{}) step would replace it)
	delValue        // delete finishers: the value handed to Delete carries the key (same shape as the finisher's own value)
	delArg          // delete finishers: an inline condition handed to Delete (replaces the finisher's empty ones)
	updSelf         // struct-valued update finishers: Updates(&M{key, S:"x"}) without any Model(): the value is its own model
)

// "{key}" in a name is replaced by the literal key pattern picked from the model's patterns
type cond struct {
	name   string
	kind   int
	f      func(db *gorm.DB, m model, k keyPat) *gorm.DB
	inline func(m model) []interface{}
}

var conds = []cond{
	{`Where("a = ?", 1)`, inChain, func(db *gorm.DB, m model, k keyPat) *gorm.DB { return db.Where("a = ?", 1) }, nil},
	{`Where(map a:1)`, inChain, func(db *gorm.DB, m model, k keyPat) *gorm.DB { return db.Where(map[string]interface{}{"a": 1}) }, nil},
	{`Where(M{A:1})`, inChain, func(db *gorm.DB, m model, k keyPat) *gorm.DB { return db.Where(m.withA(1)) }, nil},
	{`Where("a IN ?", []int64{1,2})`, inChain, func(db *gorm.DB, m model, k keyPat) *gorm.DB { return db.Where("a IN ?", []int64{1, 2}) }, nil},
	{`Where([]int64{1})`, inChain, func(db *gorm.DB, m model, k keyPat) *gorm.DB { return db.Where([]int64{1}) }, nil},
	{`Where(&[]int64{1})`, inChain, func(db *gorm.DB, m model, k keyPat) *gorm.DB { return db.Where(&[]int64{1}) }, nil},
	{`Not(&[]string{"1"})`, inChain, func(db *gorm.DB, m model, k keyPat) *gorm.DB { return db.Not(&[]string{"1"}) }, nil},
	{`Or(&p) with p = &[]int64{1,2}`, inChain, func(db *gorm.DB, m model, k keyPat) *gorm.DB { p := &[]int64{1, 2}; return db.Or(&p) }, nil},
	{`Where("a", 1)`, inChain, func(db *gorm.DB, m model, k keyPat) *gorm.DB { return db.Where("a", 1) }, nil},
	{`Where(clause.Eq)`, inChain, func(db *gorm.DB, m model, k keyPat) *gorm.DB { return db.Where(clause.Eq{Column: "a", Value: 1}) }, nil},
	{`Where("a = @v", named)`, inChain, func(db *gorm.DB, m model, k keyPat) *gorm.DB {
		return db.Where("a = @v", map[string]interface{}{"v": 1})
	}, nil},
	{`Not("a = ?", 1)`, inChain, func(db *gorm.DB, m model, k keyPat) *gorm.DB { return db.Not("a = ?", 1) }, nil},
	{`Not(map a:1)`, inChain, func(db *gorm.DB, m model, k keyPat) *gorm.DB { return db.Not(map[string]interface{}{"a": 1}) }, nil},
	{`Or("a = ?", 1)`, inChain, func(db *gorm.DB, m model, k keyPat) *gorm.DB { return db.Or("a = ?", 1) }, nil},
	{`Where("1 = 1")`, inChain, func(db *gorm.DB, m model, k keyPat) *gorm.DB { return db.Where("1 = 1") }, nil},
	{`Scopes(Where a=1)`, inChain, func(db *gorm.DB, m model, k keyPat) *gorm.DB {
		return db.Scopes(func(d *gorm.DB) *gorm.DB { return d.Where("a = ?", 1) })
	}, nil},
	{`Where(db.Where(a=1).Or(a=2))`, inChain, nil, nil}, // built from the root handle, see runOp
	// a struct condition that names (part of) the key
	{`Where(M{key})`, inChain, func(db *gorm.DB, m model, k keyPat) *gorm.DB { return db.Where(k.val()) }, nil},
	{`Not(&M{key})`, inChain, func(db *gorm.DB, m model, k keyPat) *gorm.DB { return db.Not(k.ptr()) }, nil},
	{`Or(M{key})`, inChain, func(db *gorm.DB, m model, k keyPat) *gorm.DB { return db.Or(k.val()) }, nil},
	// the model value carries a primary key (for Delete the value handed to Delete may then be empty)
	{`Model(&M{key})`, atEnd, func(db *gorm.DB, m model, k keyPat) *gorm.DB { return db.Model(k.ptr()) }, nil},
	{`Model(&[]M{{key}})`, atEnd, func(db *gorm.DB, m model, k keyPat) *gorm.DB { return db.Model(k.sl1()) }, nil},
	{`Model(&[]M{{},{key}})`, atEnd, func(db *gorm.DB, m model, k keyPat) *gorm.DB { return db.Model(k.sl2()) }, nil},
	{`the value handed to Delete carries {key}`, delValue, nil, nil},
	{`the value handed to Updates is its own model and carries {key}`, updSelf, nil, nil},
	// inline conditions of Delete
	{`inline "a = ?", 1`, delArg, nil, func(m model) []interface{} { return []interface{}{"a = ?", 1} }},
	{`inline map a:1`, delArg, nil, func(m model) []interface{} { return []interface{}{map[string]interface{}{"a": 1}} }},
	{`inline M{A:1}`, delArg, nil, func(m model) []interface{} { return []interface{}{m.withA(1)} }},
	{`inline []int64{1,2}`, delArg, nil, func(m model) []interface{} { return []interface{}{[]int64{1, 2}} }},
	{`inline &[]int64{1,2}`, delArg, nil, func(m model) []interface{} { return []interface{}{&[]int64{1, 2}} }},
	{`inline 1`, delArg, nil, func(m model) []interface{} { return []interface{}{1} }},
	{`inline "", "a = ?", 1`, delArg, nil, func(m model) []interface{} { return []interface{}{"", "a = ?", 1} }},
}

// finisher: an update finisher has f (and self for the struct-valued ones); a delete finisher is described by
// pre (relation selected along), shape of the value and its (empty) inline conditions, so that the positive
// direction can hand a keyed value of the same shape, or an effective inline condition, to the same call.
type finisher struct {
	name     string
	needsMdl bool // needs Model() (or Table) set by the harness
	f        func(db *gorm.DB, m model) *gorm.DB
	self     func(db *gorm.DB, v interface{}) *gorm.DB
	pre      string
	shape    int // 0 &M{} | 1 &[]M{} | 2 &[]M{{},{}}
	inline   []interface{}
	inlineS  string                      // the literal inline conditions
	inlineF  func(m model) []interface{} // inline conditions that depend on the model
	// association mode: af runs the operation on the chain value (which carries the owner as Model());
	// strict = the operation is an update of the OWNER table issued on the caller's own chain (belongs-to);
	// otherwise the update / delete goes to the relation's table, selected by the owner's key
	af     func(db *gorm.DB) error
	strict bool
}

func upd(name string, f func(db *gorm.DB, m model) *gorm.DB) finisher {
	return finisher{name: name, needsMdl: true, f: f}
}

func del(name, pre string, shape int, inlineS string, inline ...interface{}) finisher {
	return finisher{name: name, pre: pre, shape: shape, inline: inline, inlineS: inlineS}
}

var finishers = []finisher{
	upd(`Update("s","x")`, func(db *gorm.DB, m model) *gorm.DB { return db.Update("s", "x") }),
	upd(`Updates(map{s:x})`, func(db *gorm.DB, m model) *gorm.DB { return db.Updates(map[string]interface{}{"s": "x"}) }),
	{name: `Updates(M{S:x})`, needsMdl: true, f: func(db *gorm.DB, m model) *gorm.DB { return db.Updates(m.withS("x")) },
		self: func(db *gorm.DB, v interface{}) *gorm.DB { return db.Updates(v) }},
	upd(`UpdateColumn("s","x")`, func(db *gorm.DB, m model) *gorm.DB { return db.UpdateColumn("s", "x") }),
	upd(`UpdateColumns(map{s:x})`, func(db *gorm.DB, m model) *gorm.DB { return db.UpdateColumns(map[string]interface{}{"s": "x"}) }),
	{name: `UpdateColumns(M{S:x})`, needsMdl: true, f: func(db *gorm.DB, m model) *gorm.DB { return db.UpdateColumns(m.withS("x")) },
		self: func(db *gorm.DB, v interface{}) *gorm.DB { return db.UpdateColumns(v) }},
	upd(`Update("s", gorm.Expr)`, func(db *gorm.DB, m model) *gorm.DB { return db.Update("s", gorm.Expr("s || ?", "x")) }),
	del(`Delete(&M{})`, "", 0, ""),
	del(`Delete(&M{}, "")`, "", 0, `""`, ""),
	del(`Delete(&M{}, map{})`, "", 0, `map{}`, map[string]interface{}{}),
	del(`Delete(&M{}, []int64{})`, "", 0, `[]int64{}`, []int64{}),
	{name: `Delete(&M{}, M{})`, shape: 0, inlineS: `M{}`, inlineF: func(m model) []interface{} { return []interface{}{m.zeroVal()} }},
	del(`Delete(&[]M{})`, "", 1, ""),
	del(`Delete(&[]M{{},{}})`, "", 2, ""),
	// a delete that takes a relation along: without a key there is nothing to take along either
	del(`Select("Notes").Delete(&M{})`, "Notes", 0, ""),
	del(`Select(clause.Associations).Delete(&M{})`, clause.Associations, 0, ""),
	del(`Select("Notes").Delete(&[]M{{},{}})`, "Notes", 2, ""),
}

// Association-mode operations that end in an update / delete: Clear() and Replace() without values. For a belongs-to
// relation the update (foreign key = NULL) runs on the owner table with the caller's chain as it stands: a chain
// without condition and an owner without key is a global update. For a has-many relation (here: polymorphic, so
// that a constant owner_type filter is present) the rows of the relation are selected by the owner's key; without a key
// there is nothing to select them with.
func asc(name string, strict bool, af func(db *gorm.DB) error) finisher {
	return finisher{name: name, needsMdl: true, af: af, strict: strict}
}

var assocFinishers = []finisher{
	asc(`Association("Team").Clear()`, true, func(db *gorm.DB) error { return db.Association("Team").Clear() }),
	asc(`Association("Team").Replace()`, true, func(db *gorm.DB) error { return db.Association("Team").Replace() }),
	asc(`Association("Team").Unscoped().Clear()`, true, func(db *gorm.DB) error { return db.Association("Team").Unscoped().Clear() }),
	asc(`Association("Notes").Clear()`, false, func(db *gorm.DB) error { return db.Association("Notes").Clear() }),
	asc(`Association("Notes").Unscoped().Clear()`, false, func(db *gorm.DB) error { return db.Association("Notes").Unscoped().Clear() }),
}

// doDelete executes a delete finisher. k != nil hands a keyed value of the finisher's shape to Delete;
// inline != nil replaces the finisher's own (empty) inline conditions. Returns the literal call as well.
func doDelete(db *gorm.DB, m model, fin finisher, k *keyPat, inline []interface{}, inlineS string) (*gorm.DB, string) {
	if inline == nil {
		inline, inlineS = fin.inline, fin.inlineS
		if fin.inlineF != nil {
			inline = fin.inlineF(m)
		}
	}
	var v interface{}
	var vn string
	switch {
	case k == nil && fin.shape == 0:
		v, vn = m.zeroPtr(), "&M{}"
	case k == nil && fin.shape == 1:
		v, vn = m.emptySl(), "&[]M{}"
	case k == nil:
		v, vn = m.zeroSl(), "&[]M{{},{}}"
	case fin.shape == 0:
		v, vn = k.ptr(), "&M{"+k.name+"}"
	case fin.shape == 1:
		v, vn = k.sl1(), "&[]M{{"+k.name+"}}"
	default:
		v, vn = k.sl2(), "&[]M{{},{"+k.name+"}}"
	}
	name := ""
	if fin.pre != "" {
		db = db.Select(fin.pre)
		name = fmt.Sprintf("Select(%q).", fin.pre)
		if fin.pre == clause.Associations {
			name = "Select(clause.Associations)."
		}
	}
	if inlineS != "" {
		inlineS = ", " + inlineS
	}
	return db.Delete(v, inline...), name + "Delete(" + vn + inlineS + ")"
}

func maxLen(tier string) int {
	if tier == "thorough" {
		return 3
	}
	return 2
}

func nChains(L int) int {
	n, p := 0, 1
	for l := 0; l <= L; l++ {
		n += p
		p *= len(steps)
	}
	return n
}

func decodeChain(idx int) []int {
	p := 1
	for l := 0; ; l++ {
		if idx < p {
			out := make([]int, l)
			for k := l - 1; k >= 0; k-- {
				out[k] = idx % len(steps)
				idx /= len(steps)
			}
			return out
		}
		idx -= p
		p *= len(steps)
	}
}

type env struct {
	h       *vdb.Handle
	hCfgAGU *vdb.Handle
	seed    string
}

var E *env

var tables = []string{"plains", "softs", "soft2", "k_plains", "k_softs", "c_notes", "c_teams"}

const seedSQL = `
DELETE FROM plains; DELETE FROM softs; DELETE FROM soft2; DELETE FROM k_plains; DELETE FROM k_softs; DELETE FROM c_notes; DELETE FROM c_teams;
INSERT INTO c_teams(id,name) VALUES (1,'red'),(2,'blue');
INSERT INTO c_notes(id,owner_id,owner_type,v) VALUES (1,1,'plains','n1'),(2,2,'plains','n2'),(3,1,'softs','n3'),(4,2,'softs','n4'),(5,1,'soft2','n5'),(6,2,'soft2','n6'),
  (7,1,'k_plains','n7'),(8,2,'k_plains','n8'),(9,1,'k_softs','n9'),(10,2,'k_softs','n10');
INSERT INTO soft2(id,a,s,deleted_at,archived_at,team_id) VALUES (1,1,'t1',NULL,NULL,1),(2,2,'t2',NULL,NULL,2),(3,1,'t3','2020-01-01 00:00:00',NULL,1),(4,2,'t4',NULL,'2020-01-01 00:00:00',NULL);
INSERT INTO plains(id,a,s,team_id) VALUES (1,1,'p1',1),(2,1,'p2',2),(3,2,'p3',1),(4,3,'p4',NULL);
INSERT INTO softs(id,a,s,deleted_at,team_id) VALUES (1,1,'s1',NULL,1),(2,2,'s2',NULL,2),(3,1,'s3','2020-01-01 00:00:00',1),(4,2,'s4','2020-01-01 00:00:00',NULL);
INSERT INTO k_plains(id,loc,a,s,team_id) VALUES (1,'',1,'k1',1),(1,'x',1,'k2',2),(0,'x',2,'k3',1),(2,'',2,'k4',NULL),(2,'y',3,'k5',2);
INSERT INTO k_softs(order_id,line_no,a,s,deleted_at,team_id) VALUES (1,0,1,'l1',NULL,1),(1,3,1,'l2',NULL,2),(0,3,2,'l3',NULL,1),(2,0,2,'l4',NULL,NULL),(2,1,3,'l5','2020-01-01 00:00:00',2);
`

func open(c *core.Ctx, agu bool) *vdb.Handle {
	h, err := vdb.Open(vdb.Options{Config: gorm.Config{AllowGlobalUpdate: agu, DisableForeignKeyConstraintWhenMigrating: true}})
	if err != nil {
		panic(err)
	}
	if err := h.DB.AutoMigrate(&CTeam{}, &Plain{}, &Soft{}, &Soft2{}, &KPlain{}, &KSoft{}, &CNote{}); err != nil {
		panic(err)
	}
	if _, err := h.SQL.Exec(seedSQL); err != nil {
		panic(err)
	}
	return h
}

func initEnv(c *core.Ctx) {
	E = &env{h: open(c, false), hCfgAGU: open(c, true)}
	E.seed = vdb.Dump(E.h.SQL, tables...)
}

func reseed(h *vdb.Handle) {
	if _, err := h.SQL.Exec(seedSQL); err != nil {
		panic(err)
	}
}

type opResult struct {
	stale  error // an error left on the chain value by a read step (the finisher then reports that one)
	err    error
	rows   int64
	events []recdrv.Event
	dump   string
}

// positive: the effective condition of a run (nil = none)
type positive struct {
	c   cond
	k   keyPat
	pos int // position in the chain for an inChain condition
}

func (p *positive) name() string {
	return strings.Replace(p.c.name, "{key}", "{"+p.k.name+"}", 1)
}

// runOp builds and executes one chain; p != nil adds one effective condition.
// The tables are dumped only for the negative direction (p == nil, guard on), where "changes no row" is demanded;
// after the other runs the seed rows are restored whenever a statement reached the driver.
func runOp(h *vdb.Handle, m model, chain []int, x *xstep, fin finisher, mode int, sessAGU bool, p *positive, dump bool) (opResult, string) {
	root := h.DB
	var desc []string
	var stale error
	db := root.Session(&gorm.Session{AllowGlobalUpdate: sessAGU})
	if sessAGU {
		desc = append(desc, "Session{AllowGlobalUpdate:true}")
	}
	self := p != nil && p.c.kind == updSelf
	if fin.needsMdl {
		if mode == 1 && fin.af != nil {
			// association mode needs a model value: the keyless one of this mode is the empty slice
			db = db.Model(m.emptySl())
			desc = append(desc, "Model(&[]M{})")
		} else if mode == 1 {
			db = db.Table(m.table)
			desc = append(desc, "Table(t)")
		} else if self {
			// no Model(): the value handed to the finisher is the model
		} else if mode == 0 {
			db = db.Model(m.zeroPtr())
			desc = append(desc, "Model(&M{})")
		} else {
			db = db.Model(m.zeroSl())
			desc = append(desc, "Model(&[]M{{},{}})")
		}
	}
	applyCond := func() {
		desc = append(desc, p.name())
		if p.c.f == nil {
			db = db.Where(root.Where("a = ?", 1).Or("a = ?", 2))
			return
		}
		db = p.c.f(db, m, p.k)
	}
	applyX := func(i int) {
		if x != nil && x.f != nil && (i == x.pos || (i < 0 && x.pos >= len(chain))) {
			db = x.f(db)
			desc = append(desc, x.name)
		}
	}
	for i, s := range chain {
		if p != nil && p.c.kind == inChain && i == p.pos {
			applyCond()
		}
		applyX(i)
		if steps[s].g != nil {
			db = steps[s].g(db, root, m)
		} else {
			db = steps[s].f(db, m)
		}
		desc = append(desc, steps[s].name)
		if db.Error != nil && stale == nil {
			stale = db.Error
		}
	}
	if p != nil && p.c.kind == inChain && p.pos >= len(chain) {
		applyCond()
	}
	applyX(-1)
	if p != nil && p.c.kind == atEnd {
		applyCond()
	}
	mark := h.Rec.Mark()
	var res *gorm.DB
	switch {
	case fin.af != nil:
		res = &gorm.DB{Error: fin.af(db)}
		desc = append(desc, fin.name)
	case fin.needsMdl && self:
		res = fin.self(db, p.k.upd())
		desc = append(desc, strings.Replace(fin.name, "(M{S:x})", "(&M{"+p.k.name+",S:x})", 1))
	case fin.needsMdl:
		res = fin.f(db, m)
		desc = append(desc, fin.name)
	default:
		var k *keyPat
		var inline []interface{}
		var inlineS, call string
		if p != nil && p.c.kind == delValue {
			k = &p.k
		}
		if p != nil && p.c.kind == delArg {
			inline, inlineS = p.c.inline(m), strings.TrimPrefix(p.c.name, "inline ")
		}
		if x != nil && x.inline != nil && inline == nil {
			// (an effective inline condition of the positive direction takes the place of the empty one)
			inline, inlineS = x.inline, x.name
		}
		res, call = doDelete(db, m, fin, k, inline, inlineS)
		if p == nil && (x == nil || x.inline == nil) {
			call = fin.name
		}
		desc = append(desc, call)
	}
	out := opResult{stale: stale, err: res.Error, rows: res.RowsAffected, events: h.Rec.Since(mark)}
	if dump {
		out.dump = vdb.Dump(h.SQL, tables...)
	} else if len(stmtEvents(out.events)) > 0 {
		reseed(h)
	}
	return out, m.name + ": db." + strings.Join(desc, ".")
}

// pickPositive draws the effective condition of the positive run among the forms that apply to the finisher
// and the chain, and (for the forms that carry a key) one of the model's key patterns.
func pickPositive(r *core.Rand, m model, chain []int, fin finisher) *positive {
	modelInChain := false
	for _, st := range chain {
		if strings.Contains(steps[st].name, "Model(") {
			// (also the read steps: they set Model(&M{}) on the chain value)
			modelInChain = true
		}
	}
	var ok []cond
	for _, cd := range conds {
		switch cd.kind {
		case delValue, delArg:
			if fin.needsMdl {
				continue
			}
		case updSelf:
			// a Model(&M{}) in the chain makes the (keyless) model differ from the value: no condition then
			if fin.self == nil || modelInChain {
				continue
			}
		}
		ok = append(ok, cd)
	}
	p := &positive{c: core.Pick(r, ok), k: core.Pick(r, m.keys)}
	p.pos = r.Intn(len(chain) + 1)
	return p
}

func stmtEvents(evs []recdrv.Event) []string {
	var out []string
	for _, e := range evs {
		if e.IsStatement() {
			out = append(out, e.String())
		}
	}
	return out
}

func run(c *core.Ctx) {
	// first block: chains up to maxLen x finishers x single-key pairs; second block: chains up to length 2 x
	// finishers x composite-key pairs (the chain calls do not take part in how a key is read off a value);
	// third block: chains up to length 2 x association-mode finishers x all pairs
	L, prs, fins := maxLen(c.Tier), pairs[:nSingle], finishers
	fourth := false
	i := c.Case
	if first := nChains(L) * len(finishers) * nSingle; i >= first {
		i -= first
		L, prs = 2, pairs[nSingle:]
		if second := nChains(2) * len(finishers) * len(prs); i >= second {
			i -= second
			prs, fins = pairs, assocFinishers
			if third := nChains(2) * len(assocFinishers) * len(pairs); i >= third {
				i -= third
				fins, fourth = finishers, true
			}
		}
	}
	var chain []int
	var x *xstep
	var fin finisher
	var m model
	var mode int
	if fourth {
		// fourth block: every further empty form (eforms) x {Where, Not, Or, inline condition of Delete / Where inside
		// Scopes} x finishers x all pairs x xReps, each among 0..2 ordinary condition-free steps drawn at random
		ei := i % len(eforms)
		i /= len(eforms)
		use := i % len(euses)
		i /= len(euses)
		fin = finishers[i%len(finishers)]
		i /= len(finishers)
		pr := pairs[i%len(pairs)]
		m, mode = models[pr[0]], pr[1]
		for n := c.R.Intn(3); n > 0; n-- {
			chain = append(chain, c.R.Intn(len(steps)))
		}
		x = mkXstep(m, eforms[ei], use, !fin.needsMdl, c.R.Intn(len(chain)+1))
		c.Inc("fourth_block_" + euses[use])
	} else {
		nc := nChains(L)
		chainIdx := i % nc
		i /= nc
		fi := i % len(fins)
		i /= len(fins)
		pr := prs[i%len(prs)]
		mode = pr[1]
		chain = decodeChain(chainIdx)
		fin, m = fins[fi], models[pr[0]]
	}
	if !fin.needsMdl && mode >= 1 {
		// Delete takes its model from the value; mode 1 would duplicate mode 0: use it for
		// a decoy instead (an AllowGlobalUpdate session used first must not leak into the handle)
		E.h.DB.Session(&gorm.Session{AllowGlobalUpdate: true}).Model(m.zeroPtr()).Where("1 = 0").Update("s", "decoy")
	}

	// (1) negative: no effective condition, guard on
	r, desc := runOp(E.h, m, chain, x, fin, mode, false, nil, true)
	c.Logf("NEG %s", desc)
	bad := []string{}
	// the update of an association-mode operation assigns the foreign key only: with Select("s") in the chain
	// nothing is left to assign and gorm returns before the guard (nothing to update is not an update without
	// condition); the operations on the relation's table issue nothing at all for an owner without key. For both
	// the demand is what the statement says of every such operation: no statement, no row changed.
	strict := fin.af == nil || fin.strict
	for _, st := range chain {
		if fin.af != nil && steps[st].name == `Select("s")` {
			strict = false
		}
	}
	if !strict {
		c.Inc("neg_association_mode_nothing_to_run")
	} else if r.stale != nil {
		// the chain value already carried an error: the finisher must report it and do nothing
		c.Inc("neg_chain_value_with_earlier_error")
		if r.err == nil {
			bad = append(bad, fmt.Sprintf("the chain value carried the error %v, the finisher returned nil", r.stale))
		}
	} else if !errors.Is(r.err, gorm.ErrMissingWhereClause) {
		bad = append(bad, fmt.Sprintf("error is %v, want ErrMissingWhereClause", r.err))
	}
	if se := stmtEvents(r.events); len(se) > 0 {
		bad = append(bad, "statement events reached the driver: "+strings.Join(se, " ; "))
	}
	if r.dump != E.seed {
		bad = append(bad, "table contents changed")
		reseed(E.h)
	}
	hasRead := false
	for _, st := range chain {
		if strings.HasPrefix(steps[st].name, "[") {
			hasRead = true // RowsAffected is then what the read left on the chain value; the statement says nothing about it
		}
	}
	if r.rows != 0 && !hasRead {
		bad = append(bad, fmt.Sprintf("RowsAffected=%d", r.rows))
	}
	if len(bad) > 0 {
		c.Violation("neg:"+fin.name, map[string]interface{}{"chain": desc, "problems": bad})
	} else {
		if strict {
			// (only then the guard demonstrably decided the case)
			c.Shape("neg", desc)
			c.Inc("neg_rejected_without_statement")
			if x != nil {
				c.Inc("neg_rejected_without_statement_fourth_block")
			}
			if fin.af != nil {
				c.Inc("neg_rejected_without_statement_association_mode")
			}
		}
		if len(r.events) > 0 {
			c.Inc("neg_with_empty_tx")
		}
	}
	if c.WantSample() {
		ev := []string{}
		for _, e := range r.events {
			ev = append(ev, e.String())
		}
		c.Sample(map[string]interface{}{"chain": desc, "error": fmt.Sprint(r.err), "driver_events": ev})
	}

	// (2) positive: same chain with one effective condition: a condition call inserted at a random position,
	// a model value / deleted value that carries a (possibly partly set) primary key, an inline condition of Delete
	// (a leading Or as first condition call is still a condition)
	p := pickPositive(c.R, m, chain, fin)
	pr2, pdesc := runOp(E.h, m, chain, x, fin, mode, false, p, false)
	c.Logf("POS %s", pdesc)
	// a DryRun session keeps the generated SQL in the statement for inspection (by design): a read executed
	// on such a chain value leaves its SELECT there, and a finisher called on the same value afterwards
	// does not build its own statement. Continuing to use a dry-run chain value is outside the statement.
	dryThenRead := false
	sawDry := false
	for _, st := range chain {
		if strings.Contains(steps[st].name, "DryRun") {
			sawDry = true
		}
		if sawDry && strings.HasPrefix(steps[st].name, "[") {
			dryThenRead = true
		}
	}
	if dryThenRead {
		c.Inc("pos_dryrun_value_reused_after_read_skipped")
	} else if pr2.stale != nil {
		c.Inc("pos_chain_value_with_earlier_error")
	} else if errors.Is(pr2.err, gorm.ErrMissingWhereClause) {
		c.Violation("pos:"+p.name(), map[string]interface{}{"chain": pdesc, "problems": []string{"rejected with ErrMissingWhereClause although a condition was given"}})
	} else if pr2.err == nil && fin.af != nil && len(stmtEvents(pr2.events)) == 0 {
		// (an operation on the relation's table with a condition in the chain but an owner without key: nothing to run)
		c.Inc("pos_association_mode_nothing_to_run")
	} else if pr2.err == nil {
		c.Shape("pos", pdesc)
		c.Inc("pos_executed")
		if fin.af != nil {
			c.Inc("pos_executed_association_mode")
		}
		if strings.Contains(p.c.name, "{key}") {
			c.Inc("pos_executed_key_" + p.k.class)
		}
		if p.c.kind != inChain && p.c.kind != atEnd {
			c.Inc("pos_executed_condition_in_the_finisher")
		}
	} else {
		c.Inc("pos_other_error")
		c.Inc("pos_other_error: " + p.c.name + " => " + pr2.err.Error())
		c.Logf("POS other error: %v", pr2.err)
	}

	// (3) AllowGlobalUpdate on (session or config): the guard is what the flag switches off, so the
	// operation must not be rejected on this ground
	if c.R.Chance(1, 3) {
		var ar opResult
		var adesc string
		if c.R.Bool() {
			ar, adesc = runOp(E.h, m, chain, x, fin, mode, true, nil, false)
		} else {
			ar, adesc = runOp(E.hCfgAGU, m, chain, x, fin, mode, false, nil, false)
		}
		c.Logf("AGU %s", adesc)
		if errors.Is(ar.err, gorm.ErrMissingWhereClause) && ar.stale == nil {
			c.Inc("agu_on_still_rejected")
			c.Violation("agu-on-rejected", map[string]interface{}{"chain": adesc, "problems": []string{"AllowGlobalUpdate is enabled (session or configuration) and the operation was still rejected with ErrMissingWhereClause"}})
		} else {
			c.Inc("agu_on_executed")
		}
	}
}

func cases(tier string) int {
	return nChains(maxLen(tier))*len(finishers)*nSingle + nChains(2)*len(finishers)*(len(pairs)-nSingle) +
		nChains(2)*len(assocFinishers)*len(pairs) + len(eforms)*len(euses)*len(finishers)*len(pairs)*xReps
}

// xReps: how often every (form, use, finisher, pair) of the fourth block is run (with other surrounding steps)
const xReps = 2

var Engine = &core.Engine{
	ID:    "C09",
	Level: "exploration",
	Rule: "enumeration of every chain of condition-free calls up to length 2 (quick) / 3 (thorough; 2 for the composite-key models and for association mode) over 38 call forms (incl. Session, WithContext, Debug, a DryRun session, a Count / Find executed on the chain value before it is used further, Model(&[]M{}) (empty slice as model value), " +
		"and grouped conditions built from a handle that carries no effective condition: Where(db.Clauses(clause.Where{})), Or(db.Where(\"\").Not(map{})), Not(db.Where(db.Clauses(clause.Where{Exprs: empty})).Order(..)) (nested)) x 17 update/delete finishers (Delete with a keyless struct, empty slice, slice of keyless elements, empty inline conditions of every form, a relation selected along) " +
		"x 13 (model, mode) pairs: {plain, soft-delete, two-soft-delete-column} x {Model(&M{}), Table(), Model(non-empty slice without keys)} and {composite-key plain (ID int64, Loc string), composite-key soft-delete (OrderID int64, LineNo int)} x {Model(&M{}), Model(slice without keys)}; " +
		"plus 5 association-mode finishers x the same chains (length <= 2) x the 13 pairs (Table() replaced by Model(&[]M{})): every model belongs to a CTeam and has polymorphic CNotes; Association(Team).Clear() / .Replace() / .Unscoped().Clear() is an UpdateColumns(team_id = NULL) on the OWNER table issued on the caller's chain (demand as for every other finisher), " +
		"Association(Notes).Clear() / .Unscoped().Clear() is an update / delete on the relation's table selected by the owner's key (demand for a keyless owner: no statement, no row changed); " +
		"a case is non-trivial when the guard demonstrably decided it: the negative chain was rejected with ErrMissingWhereClause and zero statement events (shape = literal chain), " +
		"or the same chain with ONE effective condition executed (shape = literal chain incl. condition). The condition is drawn from 28 forms: a Where/Not/Or/Scopes call of every argument form inserted at a random position (incl. a struct condition naming the key), " +
		"a model value with a primary key given through Model() as struct, one-element slice or slice with a keyless element first, the value handed to Delete carrying the key (struct or slice, same shape as the finisher's value), " +
		"Updates/UpdateColumns(&M{key,S}) without Model() (the value is its own model), and an inline condition of Delete (string, map, struct, slice, number, empty string followed by a condition); " +
		"every key-carrying form draws one of the model's key patterns: for composite keys (set, zero), (zero, set), (set, set)",
	Assumptions: []string{
		"SQLite behind the recording driver stands for every database: the guard is dialect-independent code in callbacks/helper.go",
		"a committed or rolled-back empty implicit transaction is allowed; only prepare/exec/query events count as 'executes a statement'",
		"a chain value of a DryRun session on which a read was already executed is not used for the positive direction (DryRun keeps the read's SQL in the statement by design; the next finisher on that value does not build its own)",
		"with AllowGlobalUpdate on (configuration, or a session placed first in the chain) the only demand is that the operation is not rejected with ErrMissingWhereClause, wherever Session / WithContext / Debug calls follow",
		"a model value whose composite key is partly set counts as a value WITH a primary key (the statement's 'model value without primary key' is the all-zero key); the positive direction only demands that it is not rejected with ErrMissingWhereClause, not which rows the key selects (that is C10's subject)",
		"Updates(&M{key,S}) as its own model is only used on chains without a Model(&M{}) call or a read step (those make the keyless Model() value the model); a key inside the value handed to Updates while Model() names another, keyless value is an assignment, not a condition, and is not generated",
		"association mode: only Clear() and Replace() without values are generated (Append / Replace(values) / Delete(values) name target records, whose keys select rows; Delete(values) of a keyless owner is refused with ErrPrimaryKeyRequired, an error the statement does not speak of); relations: belongs-to and polymorphic has-many (has-one shares the has-many code path; many2many is not generated)",
		"association mode, where gorm has nothing to run, only 'no statement, no row changed' is demanded and the error is not looked at: Clear() of the has-many relation for an owner without key (gorm issues nothing and returns nil), and Clear() of the belongs-to relation with Select(\"s\") in the chain (the foreign key is not among the selected columns, nothing is left to assign, gorm returns nil before the guard; same reading as for Table(t).Select(\"*\").Updates(map))",
		"association mode needs a model value: Table() without Model() fails in Association() itself (no schema) and is replaced by Model(&[]M{})",
		"Where(nil) / Not(nil) are not generated: nil is not among the empty forms the statement lists",
		"a pointer to an empty slice (any depth of pointers, a nil slice included) is read as an empty slice, a pointer to a pointer to an all-zero struct as an all-zero struct; a pointer to an empty map and a pointer to an empty string are NOT generated: gorm does not take *map / *string as a map / string condition at all (the pointer itself becomes the value compared with the primary key), so the statement's 'empty maps, empty strings' does not fix their treatment; neither are empty arrays ([0]T), []byte{} (a scalar value for gorm) and non-empty slices of all-zero structs",
		"table contents are compared for the negative direction only; after positive / AllowGlobalUpdate runs the seed rows are restored whenever a statement reached the driver",
	},
	Cases: cases,
	Batch: func(tier string) int {
		if tier == "thorough" {
			return 8192
		}
		return 1024
	},
	Run:           run,
	Init:          initEnv,
	Exhaustive:    func(string) bool { return true },
	MinNontrivial: 1000,
}

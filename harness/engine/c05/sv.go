package c05

// Third group of operation kinds (over the models of the two families) and the entry "issued from an AfterFind hook".
//
// Kinds: Save of a record whose primary key is SET but has no row (gorm runs an UPDATE pipeline first and, when it
// changed no row, an INSERT .. ON CONFLICT pipeline), with a random association graph, with none, and on a model that
// has neither hooks nor associations; Save of a slice that mixes stored and new records; Delete of a slice of records
// with and without Select-ed associations.
//
// Entry: a write operation is one operation wherever it is issued from. A query has no transaction, so a Create /
// Save / Update / Delete issued through the handle gorm hands to an AfterFind hook is an ordinary operation with the
// default settings of the handle the read started from: it opens its own implicit transaction.

import (
	"fmt"
	"strings"

	"gorm.io/gorm"

	"verif/core"
	"verif/txm"
)

// ---- reads whose AfterFind hooks issue the operation under test ----------------------------------------------

type Probe struct {
	ID    int64 `gorm:"primaryKey"`
	Name  string
	Parts []ProbePart
}

type ProbePart struct {
	ID      int64 `gorm:"primaryKey"`
	ProbeID int64
	Tag     string
}

var rdModels = []interface{}{&Probe{}, &ProbePart{}}
var rdTables = []string{"probes", "probe_parts"}

const rdSeedSQL = `
DELETE FROM probe_parts; DELETE FROM probes;
INSERT INTO probes(id,name) VALUES (1,'p1'),(2,'p2');
INSERT INTO probe_parts(id,probe_id,tag) VALUES (1,1,'x'),(2,1,'y'),(3,2,'z');
`

// afterFind, when set, is called by the AfterFind hook of the named model with the tx the hook received.
var afterFind func(tx *gorm.DB)
var afterFindModel string

func (p *Probe) AfterFind(tx *gorm.DB) error {
	if afterFind != nil && afterFindModel == "Probe" {
		afterFind(tx)
	}
	return nil
}

func (p *ProbePart) AfterFind(tx *gorm.DB) error {
	if afterFind != nil && afterFindModel == "ProbePart" {
		afterFind(tx)
	}
	return nil
}

var readNames = []string{"db.First(&Probe{})", "db.Find(&[]Probe{}) (first element)", `db.Preload("Parts").First(&Probe{}) (first preloaded part)`, `db.Preload("Parts").Find(&[]Probe{}) (first owner, after the preload)`}
var readModels = []string{"Probe", "Probe", "ProbePart", "Probe"}

// runFromAfterFind performs the read s.read on db; the first invocation of the model's AfterFind hook derives a
// handle from its tx (one of the styles that start from a new statement, see hookStyles) and runs the operation on it.
func runFromAfterFind(s spec, db *gorm.DB, run func(db *gorm.DB) *gorm.DB) *gorm.DB {
	var res *gorm.DB
	afterFindModel = readModels[s.read]
	afterFind = func(tx *gorm.DB) {
		if res != nil {
			return
		}
		res = run(deriveFrom(s.rstyle, tx))
	}
	defer func() { afterFind = nil }()
	var one Probe
	var many []Probe
	switch s.read {
	case 0:
		db.First(&one)
	case 1:
		db.Find(&many)
	case 2:
		db.Preload("Parts").First(&one)
	default:
		db.Preload("Parts").Find(&many)
	}
	if res == nil {
		panic("c05: the AfterFind hook of " + afterFindModel + " was not reached by " + readNames[s.read])
	}
	return res
}

// startsFromInheritingSession: the operation's first call on its handle is Session(..) without NewDB. On the tx of a
// hook such a session inherits the statement of the operation the hook belongs to (DESIGN 8.3a): not generated.
func startsFromInheritingSession(kind string) bool {
	return kind == "FullSave" || kind == "FullSaveCreate"
}

// ---- operation kinds ----------------------------------------------------------------------------------------------

var svKinds = []string{"SaveAbsent", "SaveAbsentBare", "SaveSlice", "DeleteSlice", "FullSaveCreate"}

func isSv(kind string) bool {
	for _, k := range svKinds {
		if k == kind {
			return true
		}
	}
	return false
}

// isSaveAbsent: Save of a single record with a preset key that has no row (the kinds that run two pipelines)
func isSaveAbsent(kind string) bool { return strings.Contains(kind, "SaveAbsent") }

func absentKey(r *core.Rand) int64 { return int64(r.Range(50, 99)) }

func svGenOp(kind string, seed uint64) txm.Op {
	tag := fmt.Sprintf("_%d_", seed%997)
	var last []*txm.User
	op := txm.Op{Kind: kind, Records: func() []*txm.User { return last }}
	mk := func() *core.Rand { return core.NewRand(seed) }
	// graph: a user built like those of the first family (belongs-to new / existing / by key, has-one, has-many with
	// nested has-many, many-to-many new / existing, polymorphic), or without any association
	graph := func(r *core.Rand, adds txm.Counts) *txm.User {
		u := &txm.User{Name: "u" + tag, Age: int64(r.Range(18, 70))}
		adds["users"]++
		if r.Chance(1, 4) {
			return u
		}
		switch r.Intn(4) {
		case 0:
			u.Company = &txm.Company{Name: "co" + tag}
			adds["companies"]++
		case 1:
			u.Company = &txm.Company{ID: 1, Name: "acme"}
		case 2:
			id := int64(2)
			u.CompanyID = &id
		}
		if r.Bool() {
			u.Profile = &txm.Profile{Bio: "bio" + tag}
			adds["profiles"]++
		}
		for i := r.Intn(3); i > 0; i-- {
			o := txm.Order{Item: fmt.Sprintf("it%s%d", tag, i)}
			adds["orders"]++
			for j := r.Intn(3); j > 0; j-- {
				o.Lines = append(o.Lines, txm.Line{Qty: int64(r.Range(1, 9))})
				adds["lines"]++
			}
			u.Orders = append(u.Orders, o)
		}
		switch r.Intn(3) {
		case 0:
			u.Roles = []txm.Role{{Name: "role" + tag}}
			adds["roles"]++
			adds["user_roles"]++
		case 1:
			u.Roles = []txm.Role{{ID: 1, Name: "admin"}, {Name: "role" + tag}}
			adds["roles"]++
			adds["user_roles"] += 2
		}
		for i := r.Intn(3); i > 0; i-- {
			u.Notes = append(u.Notes, txm.Note{Text: fmt.Sprintf("note%s%d", tag, i)})
			adds["notes"]++
		}
		return u
	}
	switch kind {
	case "SaveAbsent":
		build := func(adds txm.Counts) *txm.User {
			r := mk()
			id := absentKey(r)
			u := graph(r, adds)
			u.ID = id
			return u
		}
		adds := txm.Counts{}
		u := build(adds)
		op.Adds = adds
		nl := 0
		for _, o := range u.Orders {
			nl += len(o.Lines)
		}
		co := "nil"
		if u.Company != nil {
			co = fmt.Sprintf("{ID:%d}", u.Company.ID)
		} else if u.CompanyID != nil {
			co = "by key 2"
		}
		op.Desc = fmt.Sprintf("db.Save(&User{ID:%d /* no such row */, Name:%q, Company:%s, Profile:%v, Orders:%d new (Lines:%d new), Roles:%d, Notes:%d new})",
			u.ID, u.Name, co, u.Profile != nil, len(u.Orders), nl, len(u.Roles), len(u.Notes))
		op.Run = func(db *gorm.DB) *gorm.DB {
			u := build(txm.Counts{})
			last = []*txm.User{u}
			return db.Save(u)
		}
	case "SaveAbsentBare":
		id := absentKey(mk())
		op.Adds = txm.Counts{"journals": 1}
		op.Desc = fmt.Sprintf("db.Save(&Journal{ID:%d /* no such row */, Msg:\"j\"}) (model without hooks and associations)", id)
		op.Run = func(db *gorm.DB) *gorm.DB {
			last = nil
			return db.Save(&Journal{ID: id, Msg: "j" + tag})
		}
	case "SaveSlice":
		build := func() []txm.User {
			r := mk()
			us := []txm.User{{ID: 2, Name: "bob2", Age: 41}}
			if r.Bool() {
				us[0].Orders = []txm.Order{{ID: 3, UserID: 2, Item: "cup"}, {Item: "it" + tag}}
			}
			n := r.Range(1, 2)
			for i := 0; i < n; i++ {
				u := graph(r, txm.Counts{})
				u.Name = fmt.Sprintf("u%s%d", tag, i)
				us = append(us, *u)
			}
			if r.Bool() {
				us[0], us[len(us)-1] = us[len(us)-1], us[0]
			}
			return us
		}
		us := build()
		var ds []string
		for _, u := range us {
			ds = append(ds, fmt.Sprintf("{ID:%d Name:%s orders:%d roles:%d notes:%d}", u.ID, u.Name, len(u.Orders), len(u.Roles), len(u.Notes)))
		}
		op.Desc = fmt.Sprintf("db.Save(&[]User{%s}) (user 2 is stored, the others are new)", strings.Join(ds, ", "))
		op.Run = func(db *gorm.DB) *gorm.DB {
			us := build()
			last = nil
			return db.Save(&us)
		}
	case "FullSaveCreate":
		// a new owner whose associated records exist already and are rewritten with it
		r := mk()
		withOrder := r.Bool()
		op.Desc = fmt.Sprintf("db.Session(&Session{FullSaveAssociations:true}).Create(&User{Name:new, Company:{ID:1,Name:'acme2'}, Roles:[{ID:1,Name:'admin2'},{new}], Orders:[{ID:3,Item:'cup2',Lines:[{ID:3,Qty:5},{new}]}] (%v)})", withOrder)
		op.Run = func(db *gorm.DB) *gorm.DB {
			u := &txm.User{Name: "u" + tag, Age: 20, Company: &txm.Company{ID: 1, Name: "acme2"},
				Roles: []txm.Role{{ID: 1, Name: "admin2"}, {Name: "role" + tag}}}
			if withOrder {
				u.Orders = []txm.Order{{ID: 3, Item: "cup2", Lines: []txm.Line{{ID: 3, OrderID: 3, Qty: 5}, {Qty: 6}}}}
			}
			last = []*txm.User{u}
			return db.Session(&gorm.Session{FullSaveAssociations: true}).Create(u)
		}
	case "DeleteSlice":
		r := mk()
		sets := [][]string{nil, nil, {"Orders"}, {"Orders", "Notes"}, {"Profile", "Roles"}}
		sel := sets[r.Intn(len(sets))]
		ids := [][]int64{{1, 2}, {1, 3}, {2, 3}, {1, 2, 3}}[r.Intn(4)]
		ptr := r.Bool()
		op.Desc = fmt.Sprintf("db.Select(%q).Delete(&[]User{IDs %v}) (no Select when empty; slice of pointers: %v)", sel, ids, ptr)
		op.Run = func(db *gorm.DB) *gorm.DB {
			last = nil
			if len(sel) > 0 {
				args := make([]interface{}, len(sel)-1)
				for i, s := range sel[1:] {
					args[i] = s
				}
				db = db.Select(sel[0], args...)
			}
			if ptr {
				var us []*txm.User
				for _, id := range ids {
					us = append(us, &txm.User{ID: id})
				}
				return db.Delete(&us)
			}
			var us []txm.User
			for _, id := range ids {
				us = append(us, txm.User{ID: id})
			}
			return db.Delete(&us)
		}
	default:
		panic("c05: op kind " + kind)
	}
	return op
}

// Package c05: each single write operation is all-or-nothing under any failure and reports it.
//
// For every explored operation: one fault-free run records the K faultable driver calls
// (BEGIN, every statement, COMMIT) and the J hook invocations; then the operation is
// re-run on a restored database once per k in 1..K with "driver call k fails" and once
// per j in 1..J with "hook invocation j returns an error". Oracle after each faulted run:
// the dump of ALL tables equals the pre-state, result.Error carries the injected sentinel,
// no transaction is open at the driver and no connection is checked out.
//
// Dimensions of a case besides the operation: the entry (scopes returning sessions, CreateBatchSize, or the
// operation is issued from the AfterFind hook of a read, sv.go), the handle mode (plain / prepared statements by
// Config / by Session / both stacked) with the history of the handle's statement cache, and - second family,
// hk.go - the session a hook derives from its tx to write through. Operations that run more than one pipeline
// (Save with a preset key that has no row) are enumerated over the calls of all their pipelines.
package c05

import (
	"context"
	"database/sql"
	"errors"
	"fmt"
	"path/filepath"
	"strings"

	"gorm.io/gorm"

	"verif/core"
	"verif/recdrv"
	"verif/txm"
	"verif/vdb"
)

var H *vdb.Handle
var pre string
var ddl []string
var crashSeq int
var allModels = append(append(append([]interface{}{}, txm.AllModels...), hkModels...), rdModels...)
var allTables = append(append(append([]string{}, txm.AllTables...), hkTables...), rdTables...)

const seedSQL = txm.SeedSQL + hkSeedSQL + rdSeedSQL

func initEnv(c *core.Ctx) {
	h, err := vdb.Open(vdb.Options{})
	if err != nil {
		panic(err)
	}
	if err := h.DB.AutoMigrate(allModels...); err != nil {
		panic(err)
	}
	H = h
	// the first step of every result set is a fault point too (where SQLite reports what an INSERT ... RETURNING violates)
	H.Rec.NextFaults = true
	restoreOn(H)
	pre = vdb.Dump(H.SQL, allTables...)
	rows, err := h.SQL.Query("SELECT sql FROM sqlite_master WHERE sql IS NOT NULL AND name NOT LIKE 'sqlite_%'")
	if err != nil {
		panic(err)
	}
	for rows.Next() {
		var q string
		rows.Scan(&q)
		ddl = append(ddl, q)
	}
	rows.Close()
	txm.H.Enabled = true
	txm.H.Audit = true
	txm.H.SetCols = true
}

func restore() { restoreOn(H) }

func restoreOn(h *vdb.Handle) {
	if _, err := h.SQL.Exec(seedSQL); err != nil {
		panic(err)
	}
}

type runResult struct {
	err     error
	rows    int64
	events  []recdrv.Event
	dump    string
	hooks   int
	hookLog []txm.HookEvent
	ctr     recdrv.Counters
	inUse   int
	// histErr: what the handle ran before the operation (no fault injected there) failed
	histErr error
}

// execute runs op with an optional driver fault at call k (1-based) or hook fault at j.
// causes: what the failing step's error wraps. A hook or a driver may fail with any error value (its
// own timeout, a not-found from a lookup inside the hook, a finished transaction): the operation must
// be undone and finished whatever the value is.
var causes = []error{nil, nil, context.Canceled, context.DeadlineExceeded, sql.ErrTxDone, gorm.ErrRecordNotFound, gorm.ErrInvalidTransaction, sql.ErrNoRows}

// spec: how the handle the operation runs on was made and what that handle did before.
type spec struct {
	// prep: 0 = plain handle; 1 = gorm.Config{PrepareStmt: true}; 2 = plain handle, the operation starts from
	// db.Session(&Session{PrepareStmt: true}); 3 = both (Config AND Session: two prepared-statement wrappers stacked);
	// 4 = plain handle, Session{PrepareStmt: true} derived twice (stacked as well). Preparing statements, however
	// often it was asked for, does not change what one operation is.
	prep int
	// warm (prepared-statement modes): what the handle ran BEFORE the operation, i.e. from where the statement
	// cache knows the operation's SQL texts: 0 = nothing (first seen inside the implicit transaction);
	// 1 = the same operation under Session{SkipDefaultTransaction: true} (texts prepared on the pool);
	// 2 = the same operation in its default transaction (texts prepared by an earlier transaction);
	// 3 = another operation of the family and plain reads under SkipDefaultTransaction (partial overlap)
	warm int
	// entry: how the handle the operation starts from was derived. A scope that hands back a new session (Session,
	// WithContext; Debug does the same) is ordinary use: the operation is still one operation.
	entry int
	// read / rstyle (entry 5 only): which read reaches the AfterFind hook the operation is issued from, and how the
	// hook derives the handle it runs the operation on from the tx it was given
	read, rstyle int
	// hstyle / hform: second family only, see hk.go
	hstyle, hform, hwho int
	hmask               uint64
	// fresh: every run of the case gets a new database handle with the same history (the statement cache is
	// state of the handle: without this the k-th driver call of a faulted run would not be the k-th of the reference run)
	fresh bool
	hk    bool
}

var prepNames = []string{"", "Config{PrepareStmt:true}", "db.Session(&Session{PrepareStmt:true})", "Config{PrepareStmt:true}+db.Session(&Session{PrepareStmt:true})", "db.Session(&Session{PrepareStmt:true}).Session(&Session{PrepareStmt:true})"}
var warmNames = []string{"cold", "same-op-under-SkipDefaultTransaction", "same-op-in-default-transaction", "other-op-and-reads-under-SkipDefaultTransaction"}
var entryNames = []string{"", "db.Scopes(returns d.Session(&Session{}))", "db.Scopes(returns d.WithContext(ctx))", "db.Scopes(identity, returns d.Session(&Session{}))", "db.Session(&Session{CreateBatchSize:2})", "the tx an AfterFind hook receives"}

const entryAfterFind = 5

// tag is the part of shapes and violation signatures that names the mode ("" for the plain, direct mode)
func (s spec) tag() string {
	var p []string
	if s.prep != 0 {
		p = append(p, "prep="+prepNames[s.prep], "history="+warmNames[s.warm])
	}
	if s.entry == entryAfterFind {
		p = append(p, "issued-from-AfterFind-hook-of="+readNames[s.read]+",on="+hookStyles[s.rstyle])
	}
	if s.hk {
		p = append(p, "hook-writes-through="+hookStyles[s.hstyle]+hookForms[s.hform], "writing="+hookWhos[s.hwho])
	}
	if len(p) == 0 {
		return ""
	}
	return "{" + strings.Join(p, ",") + "}"
}

func (s spec) base(h *vdb.Handle) *gorm.DB {
	switch s.prep {
	case 2, 3:
		return h.DB.Session(&gorm.Session{PrepareStmt: true})
	case 4:
		return h.DB.Session(&gorm.Session{PrepareStmt: true}).Session(&gorm.Session{PrepareStmt: true})
	}
	return h.DB
}

// runOp executes op from the case's entry handle; run is what actually calls op.Run (it arms the faults first).
func (s spec) runOp(h *vdb.Handle, run func(db *gorm.DB) *gorm.DB) *gorm.DB {
	if s.entry == entryAfterFind {
		return runFromAfterFind(s, s.base(h).Session(&gorm.Session{}), run)
	}
	return run(s.entryHandle(h))
}

func (s spec) entryHandle(h *vdb.Handle) *gorm.DB {
	b := s.base(h)
	switch s.entry {
	case 1:
		return b.Scopes(func(d *gorm.DB) *gorm.DB { return d.Session(&gorm.Session{}) })
	case 2:
		return b.Scopes(func(d *gorm.DB) *gorm.DB { return d.WithContext(context.Background()) })
	case 3:
		return b.Scopes(func(d *gorm.DB) *gorm.DB { return d }, func(d *gorm.DB) *gorm.DB { return d.Session(&gorm.Session{SkipHooks: false}) })
	case 4:
		return b.Session(&gorm.Session{CreateBatchSize: 2})
	}
	return b.Session(&gorm.Session{})
}

// openFresh opens a new database with the schema of H and the seeded rows.
func openFresh(s spec) *vdb.Handle {
	h, err := vdb.Open(vdb.Options{Config: gorm.Config{PrepareStmt: s.prep == 1 || s.prep == 3}})
	if err != nil {
		panic(err)
	}
	for _, q := range ddl {
		if _, err := h.SQL.Exec(q); err != nil {
			panic(err)
		}
	}
	h.Rec.NextFaults = true
	return h
}

// history replays what the handle did before the operation under test (fault-free, hooks passive).
func history(s spec, h *vdb.Handle, op txm.Op, other *txm.Op) error {
	if s.warm == 0 {
		return nil
	}
	restoreOn(h)
	txm.ResetHooks()
	skip := s.base(h).Session(&gorm.Session{SkipDefaultTransaction: true})
	switch s.warm {
	case 1:
		return op.Run(skip).Error
	case 2:
		return op.Run(s.base(h).Session(&gorm.Session{})).Error
	default:
		if err := other.Run(skip).Error; err != nil {
			return err
		}
		var us []txm.User
		var as []Acct
		if err := skip.Session(&gorm.Session{}).Preload("Orders").Find(&us).Error; err != nil {
			return err
		}
		return skip.Session(&gorm.Session{}).Preload("Entries").Find(&as).Error
	}
}

type run1 struct {
	s     spec
	op    txm.Op
	other *txm.Op
}

// fault: what one run injects. call / hook: 1-based index of the failing driver call / hook invocation (0 = none).
type fault struct {
	call, hook int
	cause      error
	bare       bool
	// mid (reference run of an operation that runs two pipelines): receives the dump of all tables taken when the
	// SECOND transaction is about to begin, i.e. what the first pipeline left committed
	mid *string
}

func (x run1) execute(f fault) runResult {
	h := H
	if x.s.fresh {
		h = openFresh(x.s)
		defer h.Close()
		if err := history(x.s, h, x.op, x.other); err != nil {
			return runResult{histErr: err}
		}
	}
	restoreOn(h)
	if x.s.fresh {
		if d := vdb.Dump(h.SQL, allTables...); d != pre {
			panic("c05: a fresh database does not show the pre-state: " + diffDump(pre, d))
		}
	}
	txm.ResetHooks()
	txm.H.FailAt = f.hook
	txm.H.Cause = f.cause
	txm.H.Bare = f.bare
	defer func() { txm.H.Cause, txm.H.Bare = nil, false }()
	var count int64
	inner := recdrv.FailNth(-1, nil, &count)
	if f.call > 0 {
		inner = recdrv.FailNth(f.call, &recdrv.ErrInjected{At: fmt.Sprintf("driver call %d", f.call), Cause: f.cause}, &count)
	}
	hook := inner
	var cut [][2]int
	if f.mid != nil {
		begins, nested := 0, false
		hook = func(ev *recdrv.Event) error {
			if nested {
				return nil
			}
			if ev.Kind == recdrv.KBegin {
				if begins++; begins == 2 {
					nested = true
					lo := h.Rec.Mark()
					*f.mid = vdb.Dump(h.SQL, allTables...)
					cut = append(cut, [2]int{lo, h.Rec.Mark()})
					nested = false
				}
			}
			return inner(ev)
		}
	}
	var out runResult
	// the faults are armed around the operation itself: what reaches it (the read whose hook issues it) is not under test
	res := x.s.runOp(h, func(db *gorm.DB) *gorm.DB {
		h.Rec.SetHook(hook)
		mark := h.Rec.Mark()
		res := x.op.Run(db)
		h.Rec.SetHook(nil)
		evs := h.Rec.Since(mark)
		for i := len(cut) - 1; i >= 0; i-- {
			evs = append(evs[:cut[i][0]-mark], evs[cut[i][1]-mark:]...)
		}
		out.events = evs
		return res
	})
	out.err, out.rows, out.hooks, out.hookLog = res.Error, res.RowsAffected, txm.H.Count, txm.H.Log
	txm.H.FailAt = 0
	out.ctr = h.Rec.Counters()
	out.inUse = h.SQL.Stats().InUse
	out.dump = vdb.Dump(h.SQL, allTables...)
	return out
}

// executeCrash runs op on a database file and lets the process "die" at faultable driver
// call k: every connection is dropped without any clean-up statement (SQLite discards the
// open transaction), later calls fail. The file is then reopened by a fresh handle and dumped.
func executeCrash(c *core.Ctx, s spec, op txm.Op, k int) (after string, opErr error) {
	crashSeq++
	path := filepath.Join(c.Dir, fmt.Sprintf("c05crash_%d.db", crashSeq))
	h, err := vdb.Open(vdb.Options{File: path})
	if err != nil {
		panic(err)
	}
	for _, q := range ddl {
		if _, err := h.SQL.Exec(q); err != nil {
			panic(err)
		}
	}
	if _, err := h.SQL.Exec(seedSQL); err != nil {
		panic(err)
	}
	txm.ResetHooks()
	var count int64
	h.Rec.NextFaults = true
	res := s.runOp(h, func(db *gorm.DB) *gorm.DB {
		h.Rec.SetHook(recdrv.FailNth(k, recdrv.ErrCrash, &count))
		defer h.Rec.SetHook(nil)
		return op.Run(db)
	})
	opErr = res.Error
	h.SQL.Close()
	h.Rec.Uncrash()
	// "restart": a new process opens the file
	h2, err := vdb.Open(vdb.Options{File: path})
	if err != nil {
		panic(err)
	}
	after = vdb.Dump(h2.SQL, allTables...)
	h2.Close()
	return
}

func faultable(evs []recdrv.Event) []recdrv.Event {
	var out []recdrv.Event
	for _, e := range evs {
		switch e.Kind {
		case recdrv.KBegin, recdrv.KPrepare, recdrv.KExec, recdrv.KQuery, recdrv.KStmtExec, recdrv.KStmtQuery, recdrv.KCommit, recdrv.KRowsNext:
			out = append(out, e)
		}
	}
	return out
}

func evStrings(evs []recdrv.Event) []string {
	out := make([]string, len(evs))
	for i, e := range evs {
		s := e.String()
		if len(s) > 160 {
			s = s[:160] + "…"
		}
		out[i] = s
	}
	return out
}

func tableCounts(dump string) map[string]int {
	m := map[string]int{}
	cur := ""
	for _, l := range strings.Split(dump, "\n") {
		if strings.HasPrefix(l, "== ") {
			cur = strings.TrimPrefix(l, "== ")
		} else if l != "" {
			m[cur]++
		}
	}
	return m
}

var allKinds = append(append(append([]string{}, txm.OpKinds...), hkKinds...), svKinds...)

func genOp(kind string, seed uint64) txm.Op {
	if isHk(kind) {
		return hkGenOp(kind, seed)
	}
	if isSv(kind) {
		return svGenOp(kind, seed)
	}
	return txm.GenOp(kind, seed)
}

// sigTwoPipelines is the one signature of the class: Save of a record whose primary key is set but has no row runs an
// UPDATE pipeline (with the association saves and the hooks' writes) in a first transaction, commits it, and then an
// INSERT .. ON CONFLICT pipeline in a second one; a failure in the second leaves what the first committed. A run gets
// this signature only when ALL of this holds: the operation is a Save with a preset absent key; the failing driver call
// (or crash point) lies after the first COMMIT of the fault-free call sequence; the error was reported and nothing is
// left open; and the database is exactly in the state it had when the second transaction was about to begin.
const sigTwoPipelines = "save-preset-absent-key/failure-in-fallback-insert/what-the-update-pipeline-committed-stays"

func run(c *core.Ctx) {
	kind := allKinds[c.Case%len(allKinds)]
	round := c.Case / len(allKinds)
	// two cycles of coprime length: every (entry, prep) pair comes up for every kind
	s := spec{entry: []int{0, 0, 1, 2, 3, 4, 5}[round%7], prep: []int{0, 1, 0, 2, 1, 3, 0, 4, 3}[round%9], hk: isHk(kind)}
	seed := c.R.U64()
	op := genOp(kind, seed)
	if s.entry == entryAfterFind && startsFromInheritingSession(kind) {
		s.entry = 0
	}
	if s.entry == entryAfterFind {
		s.read = c.R.Intn(len(readNames))
		s.rstyle = core.Pick(c.R, rstyles)
	}
	absent := isSaveAbsent(kind)
	if s.prep != 0 {
		s.warm = []int{0, 1, 1, 2, 3, 3}[c.R.Intn(6)]
	}
	if s.hk {
		s.hstyle = c.R.Intn(len(hookStyles))
		s.hform = c.R.Intn(len(hookForms))
		if s.hstyle >= firstInheritingStyle {
			s.hform = 0
		}
		s.hwho = []int{0, 0, 1, 1, 2, 3}[c.R.Intn(6)]
		s.hmask = c.R.U64() | 2 // the first invocation writes: every such operation has a write of a hook in it
		hookStyle, hookForm, hookWho, hookMask = s.hstyle, s.hform, s.hwho, s.hmask
		defer func() { hookStyle, hookForm, hookWho, hookMask = 0, 0, 0, 0 }()
	}
	s.fresh = s.prep != 0 || (s.hk && styleUsesPrepare(s.hstyle)) || (s.entry == entryAfterFind && styleUsesPrepare(s.rstyle))
	x := run1{s: s, op: op}
	if s.warm == 3 {
		pool := txm.OpKinds[:16]
		if s.hk {
			pool = hkKinds
		}
		o := genOp(core.Pick(c.R, pool), c.R.U64())
		x.other = &o
		op.Desc += " [before it on the same handle, under Session{SkipDefaultTransaction:true}: " + o.Desc + "; Preload(Orders).Find(&users); Preload(Entries).Find(&accts)]"
	}
	if s.entry == entryAfterFind {
		op.Desc += " [db is " + hookStyles[s.rstyle] + " inside func (*" + readModels[s.read] + ") AfterFind(tx *gorm.DB), reached by " + readNames[s.read] + "]"
		c.Inc("operations_issued_from_an_AfterFind_hook")
	} else if s.entry != 0 {
		op.Desc += " [from " + entryNames[s.entry] + "]"
		c.Inc("operations_entered_through_a_scope_that_returns_a_session")
	}
	if t := s.tag(); t != "" {
		op.Desc += " " + t
		kind += t
	}
	if s.prep != 0 {
		c.Inc("operations_on_a_prepared_statement_handle")
		c.Inc("statement_cache_history_" + warmNames[s.warm])
		if s.prep >= 3 {
			c.Inc("operations_on_two_stacked_prepared_statement_wrappers")
		}
	}
	if s.hk {
		c.Inc("operations_whose_hooks_write_through_a_derived_session")
	}
	c.Logf("OP %s", op.Desc)
	// fault-free reference run
	var mid string
	ref := fault{}
	if absent {
		ref.mid = &mid
	}
	ff := x.execute(ref)
	fcalls := faultable(ff.events)
	K, J := len(fcalls), ff.hooks
	// firstCommit: 1-based index of the first COMMIT among the faultable calls (K+1 if none)
	firstCommit := K + 1
	for i, e := range fcalls {
		if e.Kind == recdrv.KCommit {
			firstCommit = i + 1
			break
		}
	}
	if ff.histErr != nil {
		// nothing was injected: what ran before the operation (same statements, on the same handle) failed
		c.Violation("history/"+kind, map[string]interface{}{"op": op.Desc, "problems": []string{"before the operation, with no fault injected, the same handle failed: " + ff.histErr.Error()}})
		return
	}
	var problems []string
	if ff.err != nil {
		problems = append(problems, "fault-free run returned "+ff.err.Error())
	}
	if ff.dump == pre {
		problems = append(problems, "fault-free run changed nothing")
	}
	if ff.ctr.OpenTx != 0 || ff.inUse != 0 {
		problems = append(problems, fmt.Sprintf("fault-free run left %d open transactions, %d connections in use", ff.ctr.OpenTx, ff.inUse))
	}
	if op.Adds != nil && ff.err == nil {
		before, after := tableCounts(pre), tableCounts(ff.dump)
		for t, n := range op.Adds {
			if after[t]-before[t] != n {
				problems = append(problems, fmt.Sprintf("applied completely should add %d rows to %s, added %d", n, t, after[t]-before[t]))
			}
		}
		for _, u := range op.Records() {
			if u.ID == 0 {
				problems = append(problems, "a created record has no primary key in memory")
			}
		}
	}
	if len(problems) > 0 {
		c.Violation("fault-free/"+kind, map[string]interface{}{"op": op.Desc, "problems": problems, "events": evStrings(ff.events)})
		return
	}
	c.Inc("operations")
	c.Add("driver_calls_enumerated", K)
	c.Add("hook_points_enumerated", J)

	check := func(what string, k int, r runResult, wantHook bool) {
		var p []string
		if r.histErr != nil {
			c.Violation("history/"+kind, map[string]interface{}{"op": op.Desc, "problems": []string{"before the operation, with no fault injected, the same handle failed: " + r.histErr.Error()}})
			return
		}
		if r.err == nil {
			p = append(p, "result.Error is nil")
		} else {
			var inj *recdrv.ErrInjected
			if wantHook {
				if !txm.IsHookErr(r.err) {
					p = append(p, "the hook's error is not in result.Error: "+r.err.Error())
				}
			} else if !errors.As(r.err, &inj) {
				p = append(p, "the injected driver error is not in result.Error: "+r.err.Error())
			}
		}
		if r.dump != pre {
			p = append(p, "database differs from the pre-state (partial effect): "+diffDump(pre, r.dump))
		}
		if r.ctr.OpenTx != 0 {
			p = append(p, fmt.Sprintf("%d transactions still open at the driver", r.ctr.OpenTx))
		}
		if r.inUse != 0 {
			p = append(p, fmt.Sprintf("%d connections still checked out", r.inUse))
		}
		c.Inc("faulted_runs")
		if absent && k > firstCommit && firstCommit < K && len(p) == 1 && r.dump != pre && r.dump == mid {
			c.Inc("save_of_a_preset_absent_key_failing_in_its_second_pipeline")
			c.Violation(sigTwoPipelines, map[string]interface{}{"op": op.Desc, "fault": what, "problems": p, "first_commit_is_call": firstCommit,
				"fault_free_calls": evStrings(fcalls), "events": evStrings(r.events), "hooks": txm.LogString(r.hookLog)})
			return
		}
		if len(p) > 0 {
			c.Violation(what+"/"+kind, map[string]interface{}{"op": op.Desc, "fault": what, "problems": p,
				"fault_free_calls": evStrings(fcalls), "events": evStrings(r.events), "hooks": txm.LogString(r.hookLog)})
		}
	}
	causeName := func(e error) string {
		if e == nil {
			return ""
		}
		return "[" + e.Error() + "]"
	}
	for k := 1; k <= K; k++ {
		cause := core.Pick(c.R, causes)
		r := x.execute(fault{call: k, cause: cause})
		what := fmt.Sprintf("driver-call-%d-of-%d(%s)%s", k, K, fcalls[k-1].Kind, causeName(cause))
		check(what, k, r, false)
		if cause != nil {
			c.Inc("fault_wrapping_" + cause.Error())
			if r.err != nil && !errors.Is(r.err, cause) {
				c.Violation("cause-lost/"+kind, map[string]interface{}{"op": op.Desc, "fault": what, "problems": []string{"result.Error does not wrap the error the driver failed with: " + r.err.Error()}})
			}
		}
		verb := strings.Fields(fcalls[k-1].Query + " -")[0]
		c.Shape("drv", kind, K, k, fcalls[k-1].Kind, verb)
		c.Inc("fault_at_" + string(fcalls[k-1].Kind))
	}
	for j := 1; j <= J; j++ {
		cause := core.Pick(c.R, causes)
		bare := cause != nil && c.R.Intn(2) == 0
		r := x.execute(fault{hook: j, cause: cause, bare: bare})
		hk := ff.hookLog[j-1]
		bn := ""
		if bare {
			bn = "(bare)"
			c.Inc("hook_failing_with_a_bare_error_value")
		}
		check(fmt.Sprintf("hook-%d-of-%d(%s)%s%s", j, J, hk.Hook+":"+hk.Type, causeName(cause), bn), 0, r, true)
		if cause != nil {
			c.Inc("fault_wrapping_" + cause.Error())
		}
		c.Shape("hook", kind, J, j, hk.Hook, hk.Type)
		c.Inc("fault_at_hook_" + hk.Hook)
	}
	// crash points: the process dies at driver call k
	if (c.Thorough || c.Case%4 == 1) && !s.fresh {
		for k := 1; k <= K; k++ {
			after, opErr := executeCrash(c, s, op, k)
			c.Inc("crash_runs")
			var p []string
			if after != pre {
				p = append(p, "after the crash and restart the database differs from the pre-state (partial effect survived): "+diffDump(pre, after))
			}
			if opErr == nil {
				p = append(p, "the operation reported success although its connection died before COMMIT")
			}
			if absent && k > firstCommit && firstCommit < K && len(p) == 1 && opErr != nil && after == mid {
				c.Inc("save_of_a_preset_absent_key_failing_in_its_second_pipeline")
				c.Violation(sigTwoPipelines, map[string]interface{}{"op": op.Desc, "crash_at": evStrings(fcalls[k-1 : k]), "problems": p, "first_commit_is_call": firstCommit, "fault_free_calls": evStrings(fcalls)})
				continue
			}
			if len(p) > 0 {
				c.Violation(fmt.Sprintf("crash-at-call-%d-of-%d(%s)/%s", k, K, fcalls[k-1].Kind, kind), map[string]interface{}{"op": op.Desc, "crash_at": evStrings(fcalls[k-1 : k]), "problems": p, "fault_free_calls": evStrings(fcalls)})
				continue
			}
			c.Shape("crash", kind, K, k, fcalls[k-1].Kind)
		}
	}
	restore()
	if c.WantSample() && K > 4 {
		c.Sample(map[string]interface{}{"op": op.Desc, "driver_calls": evStrings(fcalls), "hook_invocations": txm.LogString(ff.hookLog),
			"faulted_runs": K + J})
	}
}

func diffDump(a, b string) string {
	am := map[string]bool{}
	for _, l := range strings.Split(a, "\n") {
		am[l] = true
	}
	bm := map[string]bool{}
	var out []string
	for _, l := range strings.Split(b, "\n") {
		bm[l] = true
		if !am[l] && len(out) < 6 {
			out = append(out, "+"+l)
		}
	}
	for _, l := range strings.Split(a, "\n") {
		if !bm[l] && len(out) < 10 {
			out = append(out, "-"+l)
		}
	}
	return strings.Join(out, " ; ")
}

var Engine = &core.Engine{
	ID:    "C05",
	Level: "fault_enumeration",
	Rule: "operations = 19 kinds of the first family (Create of struct / slice / pointer slice, CreateInBatches, Save new / existing, FullSaveAssociations, Update, Updates struct / with associations / by condition, UpdateColumn, Delete, Select(assoc).Delete, Select(clause.Associations).Delete, Delete by condition, Delete / Select(assoc).Delete / Updates with RETURNING) over seeded record graphs (belongs-to new/existing, has-one, has-many with nested has-many, many-to-many new/existing, polymorphic) with hooks on parent and child that write an audit row through tx, " +
		"plus 9 kinds of a second family (Create struct / slice / in batches, Save, Save with a preset key that has no row, Update, Updates with has-many, Delete, Select(assoc).Delete on Acct-has-many-Entry) whose hooks write through a handle they DERIVE from tx (tx; Session{NewDB}; Session{NewDB,PrepareStmt}; Session{NewDB,Context}; Session{NewDB,SkipDefaultTransaction}; Session{NewDB,SkipHooks,PrepareStmt,Context}; Session{PrepareStmt}; WithContext; Session{}) by Exec / Create(&row) / Model().Create(map), in every hook, only in the parent's Before* hooks, only in the first hook, or in a random subset of the invocations, " +
		"plus 5 further kinds: Save of a record whose primary key is set but has no row (gorm runs an UPDATE pipeline and then an INSERT .. ON CONFLICT pipeline) with a random association graph or none, the same on a model without hooks and associations, Save of a slice mixing a stored and new records, Delete of a slice (values / pointers) with and without Select-ed associations, Create under FullSaveAssociations with stored associated records; " +
		"every kind is run from every entry (db.Session; three scopes that return a session; Session{CreateBatchSize:2}; and ISSUED FROM AN AfterFind HOOK: a read - First, Find, Preload.First where the preloaded child's hook issues it, Preload.Find - whose hook runs the operation on the tx it receives or on tx.Session(&Session{NewDB:true[, PrepareStmt / Context / SkipHooks]})) x every handle mode (plain; Config{PrepareStmt:true}; db.Session(&Session{PrepareStmt:true}); BOTH, i.e. two stacked prepared-statement wrappers; Session{PrepareStmt:true} derived twice), and in the prepared-statement modes after a random history of the handle (nothing; the same operation under Session{SkipDefaultTransaction:true}, i.e. its SQL texts were prepared on the pool; the same operation in its default transaction; another operation and preloading reads under SkipDefaultTransaction) - every run of such a case starts from a new handle with that history; " +
		"for each operation EVERY faultable driver call index (BEGIN, each prepare/exec/query/stmt-exec/stmt-query, the first step of each result set, COMMIT - of every pipeline the operation runs) and EVERY hook invocation index is failed once (the failing step wraps a random error value: none, context.Canceled, context.DeadlineExceeded, sql.ErrTxDone, ErrRecordNotFound, ErrInvalidTransaction, sql.ErrNoRows; failing hooks return it bare in half of the runs), and (every 4th operation in quick, all in thorough; plain handle mode) the process is made to die at EVERY driver call index (crash points); faults are armed only while the operation itself runs (not during the read whose hook issues it); distinct = (operation kind + mode, K, k, call kind, SQL verb) resp. (kind + mode, J, j, hook, type); every faulted run is non-trivial (the fault-free run proved the call/hook is reached and the operation changes the database). " +
		"One class has its own signature (" + sigTwoPipelines + "): Save with a preset absent key, failing driver call or crash point after the first COMMIT of the fault-free sequence, error reported, nothing left open, database exactly in the state it had when the second transaction was about to begin (dumped at that moment in the reference run)",
	Assumptions: []string{
		"default transaction settings only (implicit transaction on: SkipDefaultTransaction is used only for what a handle ran BEFORE the operation under test); PrepareStmt (Config, Session, or both / twice) and Session{CreateBatchSize} are exercised as modes of the handle: they do not change what one write operation is, so the statement's all-or-nothing / Error / finished-transaction demands apply unchanged",
		"a write operation issued through the handle an AfterFind hook receives is an ordinary operation with the settings of the handle the read started from (a query has no transaction, so it opens its own); it is run on tx itself or on a session derived WITH NewDB that keeps the default transaction (not Session{SkipDefaultTransaction:true}); operations whose first call is Session(..) without NewDB (the two FullSaveAssociations kinds) are not issued from a hook, see next item; the read's own statements are not fault points and its result is not judged",
		"a hook writes through tx or through a session derived from tx; sessions derived WITHOUT NewDB (Session{PrepareStmt:true}, WithContext, Session{}) inherit the running operation's statement (model, table, clauses), so only a raw Exec is issued on them: which table a Create/Model call on such a handle addresses is not fixed by the statement (tx.WithContext(ctx).Create(&Journal{}) inside a hook of Acct targets accts or panics in reflect; observed, not checked here)",
		"nested Transaction blocks / SavePoints inside hooks are not generated here (C13); hooks do not read through the derived handle",
		"faults are injected at BEGIN, statements, the first step of a result set and COMMIT (a failed COMMIT rolls the real transaction back, as a server would); not on ROLLBACK",
		"in the prepared-statement modes every run (reference and faulted) uses a new database handle brought to the same history, because the statement cache is state of the handle; crash points are enumerated on the plain handle mode only",
		"crash points are simulated in-process: at driver call k every connection is dropped without any clean-up statement (SQLite discards the open transaction), every later call fails, and the database file is reopened by a fresh handle; durability of SQLite itself under power loss is not the subject",
		"preset keys without a row are taken from 50..99 (stored keys are 1..3, generated keys continue from there); Save on a slice is given one stored record without key collisions among the new ones",
	},
	Cases: func(tier string) int {
		if tier == "thorough" {
			return len(allKinds) * 315 // 5 full cycles of (entry x handle mode) per kind
		}
		return len(allKinds) * 42 // 6 cycles of the 7 entries, 4 2/3 cycles of the 9 handle-mode slots per kind
	},
	Batch:         func(string) int { return 8 },
	Run:           run,
	Init:          initEnv,
	Exhaustive:    func(string) bool { return false },
	MinNontrivial: 100,
}

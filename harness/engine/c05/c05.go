// Package c05: each single write operation is all-or-nothing under any failure and reports it.
//
// For every explored operation: one fault-free run records the K faultable driver calls
// (BEGIN, every statement, COMMIT) and the J hook invocations; then the operation is
// re-run on a restored database once per k in 1..K with "driver call k fails" and once
// per j in 1..J with "hook invocation j returns an error". Oracle after each faulted run:
// the dump of ALL tables equals the pre-state, result.Error carries the injected sentinel,
// no transaction is open at the driver and no connection is checked out.
package c05

import (
	"context"
	"database/sql"
	"errors"
	"fmt"
	"path/filepath"
	"strings"

	"gorm.io/gorm"

	"verif/core"
	"verif/recdrv"
	"verif/txm"
	"verif/vdb"
)

var H *vdb.Handle
var pre string
var ddl []string
var crashSeq int

func initEnv(c *core.Ctx) {
	h, err := vdb.Open(vdb.Options{})
	if err != nil {
		panic(err)
	}
	if err := h.DB.AutoMigrate(txm.AllModels...); err != nil {
		panic(err)
	}
	H = h
	// the first step of every result set is a fault point too (where SQLite reports what an INSERT ... RETURNING violates)
	H.Rec.NextFaults = true
	restore()
	pre = vdb.Dump(H.SQL, txm.AllTables...)
	rows, err := h.SQL.Query("SELECT sql FROM sqlite_master WHERE sql IS NOT NULL AND name NOT LIKE 'sqlite_%'")
	if err != nil {
		panic(err)
	}
	for rows.Next() {
		var q string
		rows.Scan(&q)
		ddl = append(ddl, q)
	}
	rows.Close()
	txm.H.Enabled = true
	txm.H.Audit = true
	txm.H.SetCols = true
}

func restore() {
	if _, err := H.SQL.Exec(txm.SeedSQL); err != nil {
		panic(err)
	}
}

type runResult struct {
	err     error
	rows    int64
	events  []recdrv.Event
	dump    string
	hooks   int
	hookLog []txm.HookEvent
	ctr     recdrv.Counters
	inUse   int
}

// execute runs op with an optional driver fault at call k (1-based) or hook fault at j.
// causes: what the failing step's error wraps. A hook or a driver may fail with any error value (its
// own timeout, a not-found from a lookup inside the hook, a finished transaction): the operation must
// be undone and finished whatever the value is.
var causes = []error{nil, nil, context.Canceled, context.DeadlineExceeded, sql.ErrTxDone, gorm.ErrRecordNotFound, gorm.ErrInvalidTransaction, sql.ErrNoRows}

func execute(op txm.Op, failCall, failHook int) runResult {
	return executeCause(op, failCall, failHook, nil)
}

// entry: how the handle the operation starts from was made. A scope that hands back a new session (Session,
// WithContext; Debug does the same) is ordinary use: the operation is still one operation.
var entry int

func entryHandle() *gorm.DB {
	switch entry {
	case 1:
		return H.DB.Scopes(func(d *gorm.DB) *gorm.DB { return d.Session(&gorm.Session{}) })
	case 2:
		return H.DB.Scopes(func(d *gorm.DB) *gorm.DB { return d.WithContext(context.Background()) })
	case 3:
		return H.DB.Scopes(func(d *gorm.DB) *gorm.DB { return d }, func(d *gorm.DB) *gorm.DB { return d.Session(&gorm.Session{SkipHooks: false}) })
	}
	return H.DB.Session(&gorm.Session{})
}

func executeCause(op txm.Op, failCall, failHook int, cause error) runResult {
	return executeCauseBare(op, failCall, failHook, cause, false)
}

// bare: the failing hook returns the cause itself (no wrapper of the harness around it)
func executeCauseBare(op txm.Op, failCall, failHook int, cause error, bare bool) runResult {
	restore()
	txm.ResetHooks()
	txm.H.FailAt = failHook
	txm.H.Cause = cause
	txm.H.Bare = bare
	defer func() { txm.H.Cause, txm.H.Bare = nil, false }()
	var count int64
	if failCall > 0 {
		H.Rec.SetHook(recdrv.FailNth(failCall, &recdrv.ErrInjected{At: fmt.Sprintf("driver call %d", failCall), Cause: cause}, &count))
	} else {
		H.Rec.SetHook(recdrv.FailNth(-1, nil, &count))
	}
	mark := H.Rec.Mark()
	res := op.Run(entryHandle())
	H.Rec.SetHook(nil)
	out := runResult{err: res.Error, rows: res.RowsAffected, events: H.Rec.Since(mark), hooks: txm.H.Count, hookLog: txm.H.Log}
	txm.H.FailAt = 0
	out.ctr = H.Rec.Counters()
	out.inUse = H.SQL.Stats().InUse
	out.dump = vdb.Dump(H.SQL, txm.AllTables...)
	return out
}

// executeCrash runs op on a database file and lets the process "die" at faultable driver
// call k: every connection is dropped without any clean-up statement (SQLite discards the
// open transaction), later calls fail. The file is then reopened by a fresh handle and dumped.
func executeCrash(c *core.Ctx, op txm.Op, k int) (after string, opErr error) {
	crashSeq++
	path := filepath.Join(c.Dir, fmt.Sprintf("c05crash_%d.db", crashSeq))
	h, err := vdb.Open(vdb.Options{File: path})
	if err != nil {
		panic(err)
	}
	for _, q := range ddl {
		if _, err := h.SQL.Exec(q); err != nil {
			panic(err)
		}
	}
	if _, err := h.SQL.Exec(txm.SeedSQL); err != nil {
		panic(err)
	}
	txm.ResetHooks()
	var count int64
	h.Rec.NextFaults = true
	h.Rec.SetHook(recdrv.FailNth(k, recdrv.ErrCrash, &count))
	res := op.Run(h.DB.Session(&gorm.Session{}))
	opErr = res.Error
	h.Rec.SetHook(nil)
	h.SQL.Close()
	h.Rec.Uncrash()
	// "restart": a new process opens the file
	h2, err := vdb.Open(vdb.Options{File: path})
	if err != nil {
		panic(err)
	}
	after = vdb.Dump(h2.SQL, txm.AllTables...)
	h2.Close()
	return
}

func faultable(evs []recdrv.Event) []recdrv.Event {
	var out []recdrv.Event
	for _, e := range evs {
		switch e.Kind {
		case recdrv.KBegin, recdrv.KPrepare, recdrv.KExec, recdrv.KQuery, recdrv.KStmtExec, recdrv.KStmtQuery, recdrv.KCommit, recdrv.KRowsNext:
			out = append(out, e)
		}
	}
	return out
}

func evStrings(evs []recdrv.Event) []string {
	out := make([]string, len(evs))
	for i, e := range evs {
		s := e.String()
		if len(s) > 160 {
			s = s[:160] + "…"
		}
		out[i] = s
	}
	return out
}

func tableCounts(dump string) map[string]int {
	m := map[string]int{}
	cur := ""
	for _, l := range strings.Split(dump, "\n") {
		if strings.HasPrefix(l, "== ") {
			cur = strings.TrimPrefix(l, "== ")
		} else if l != "" {
			m[cur]++
		}
	}
	return m
}

func run(c *core.Ctx) {
	kind := txm.OpKinds[c.Case%len(txm.OpKinds)]
	entry = []int{0, 0, 1, 2, 3}[(c.Case/len(txm.OpKinds))%5]
	defer func() { entry = 0 }()
	seed := c.R.U64()
	op := txm.GenOp(kind, seed)
	if entry != 0 {
		op.Desc += []string{"", " [from db.Scopes(returns d.Session(&Session{}))]", " [from db.Scopes(returns d.WithContext(ctx))]", " [from db.Scopes(identity, returns d.Session(&Session{}))]"}[entry]
		c.Inc("operations_entered_through_a_scope_that_returns_a_session")
	}
	c.Logf("OP %s", op.Desc)

	// fault-free reference run
	ff := execute(op, 0, 0)
	fcalls := faultable(ff.events)
	K, J := len(fcalls), ff.hooks
	var problems []string
	if ff.err != nil {
		problems = append(problems, "fault-free run returned "+ff.err.Error())
	}
	if ff.dump == pre {
		problems = append(problems, "fault-free run changed nothing")
	}
	if ff.ctr.OpenTx != 0 || ff.inUse != 0 {
		problems = append(problems, fmt.Sprintf("fault-free run left %d open transactions, %d connections in use", ff.ctr.OpenTx, ff.inUse))
	}
	if op.Adds != nil && ff.err == nil {
		before, after := tableCounts(pre), tableCounts(ff.dump)
		for t, n := range op.Adds {
			if after[t]-before[t] != n {
				problems = append(problems, fmt.Sprintf("applied completely should add %d rows to %s, added %d", n, t, after[t]-before[t]))
			}
		}
		for _, u := range op.Records() {
			if u.ID == 0 {
				problems = append(problems, "a created record has no primary key in memory")
			}
		}
	}
	if len(problems) > 0 {
		c.Violation("fault-free/"+kind, map[string]interface{}{"op": op.Desc, "problems": problems, "events": evStrings(ff.events)})
		return
	}
	c.Inc("operations")
	c.Add("driver_calls_enumerated", K)
	c.Add("hook_points_enumerated", J)

	check := func(what string, r runResult, wantHook bool) {
		var p []string
		if r.err == nil {
			p = append(p, "result.Error is nil")
		} else {
			var inj *recdrv.ErrInjected
			if wantHook {
				if !txm.IsHookErr(r.err) {
					p = append(p, "the hook's error is not in result.Error: "+r.err.Error())
				}
			} else if !errors.As(r.err, &inj) {
				p = append(p, "the injected driver error is not in result.Error: "+r.err.Error())
			}
		}
		if r.dump != pre {
			p = append(p, "database differs from the pre-state (partial effect): "+diffDump(pre, r.dump))
		}
		if r.ctr.OpenTx != 0 {
			p = append(p, fmt.Sprintf("%d transactions still open at the driver", r.ctr.OpenTx))
		}
		if r.inUse != 0 {
			p = append(p, fmt.Sprintf("%d connections still checked out", r.inUse))
		}
		c.Inc("faulted_runs")
		if len(p) > 0 {
			c.Violation(what+"/"+kind, map[string]interface{}{"op": op.Desc, "fault": what, "problems": p,
				"fault_free_calls": evStrings(fcalls), "events": evStrings(r.events), "hooks": txm.LogString(r.hookLog)})
		}
	}
	causeName := func(e error) string {
		if e == nil {
			return ""
		}
		return "[" + e.Error() + "]"
	}
	for k := 1; k <= K; k++ {
		cause := core.Pick(c.R, causes)
		r := executeCause(op, k, 0, cause)
		what := fmt.Sprintf("driver-call-%d-of-%d(%s)%s", k, K, fcalls[k-1].Kind, causeName(cause))
		check(what, r, false)
		if cause != nil {
			c.Inc("fault_wrapping_" + cause.Error())
			if r.err != nil && !errors.Is(r.err, cause) {
				c.Violation("cause-lost/"+kind, map[string]interface{}{"op": op.Desc, "fault": what, "problems": []string{"result.Error does not wrap the error the driver failed with: " + r.err.Error()}})
			}
		}
		verb := strings.Fields(fcalls[k-1].Query + " -")[0]
		c.Shape("drv", kind, K, k, fcalls[k-1].Kind, verb)
		c.Inc("fault_at_" + string(fcalls[k-1].Kind))
	}
	for j := 1; j <= J; j++ {
		cause := core.Pick(c.R, causes)
		bare := cause != nil && c.R.Intn(2) == 0
		r := executeCauseBare(op, 0, j, cause, bare)
		hk := ff.hookLog[j-1]
		bn := ""
		if bare {
			bn = "(bare)"
			c.Inc("hook_failing_with_a_bare_error_value")
		}
		check(fmt.Sprintf("hook-%d-of-%d(%s)%s%s", j, J, hk.Hook+":"+hk.Type, causeName(cause), bn), r, true)
		if cause != nil {
			c.Inc("fault_wrapping_" + cause.Error())
		}
		c.Shape("hook", kind, J, j, hk.Hook, hk.Type)
		c.Inc("fault_at_hook_" + hk.Hook)
	}
	// crash points: the process dies at driver call k
	if c.Thorough || c.Case%4 == 1 {
		for k := 1; k <= K; k++ {
			after, opErr := executeCrash(c, op, k)
			c.Inc("crash_runs")
			var p []string
			if after != pre {
				p = append(p, "after the crash and restart the database differs from the pre-state (partial effect survived): "+diffDump(pre, after))
			}
			if opErr == nil {
				p = append(p, "the operation reported success although its connection died before COMMIT")
			}
			if len(p) > 0 {
				c.Violation(fmt.Sprintf("crash-at-call-%d-of-%d(%s)/%s", k, K, fcalls[k-1].Kind, kind), map[string]interface{}{"op": op.Desc, "crash_at": evStrings(fcalls[k-1 : k]), "problems": p, "fault_free_calls": evStrings(fcalls)})
				continue
			}
			c.Shape("crash", kind, K, k, fcalls[k-1].Kind)
		}
	}
	restore()
	if c.WantSample() && K > 4 {
		c.Sample(map[string]interface{}{"op": op.Desc, "driver_calls": evStrings(fcalls), "hook_invocations": txm.LogString(ff.hookLog),
			"faulted_runs": K + J})
	}
}

func diffDump(a, b string) string {
	am := map[string]bool{}
	for _, l := range strings.Split(a, "\n") {
		am[l] = true
	}
	bm := map[string]bool{}
	var out []string
	for _, l := range strings.Split(b, "\n") {
		bm[l] = true
		if !am[l] && len(out) < 6 {
			out = append(out, "+"+l)
		}
	}
	for _, l := range strings.Split(a, "\n") {
		if !bm[l] && len(out) < 10 {
			out = append(out, "-"+l)
		}
	}
	return strings.Join(out, " ; ")
}

var Engine = &core.Engine{
	ID:    "C05",
	Level: "fault_enumeration",
	Rule: "operations = 16 kinds (Create of struct / slice / pointer slice, CreateInBatches, Save new / existing, FullSaveAssociations, Update, Updates struct / with associations / by condition, UpdateColumn, Delete, Select(assoc).Delete, Select(clause.Associations).Delete, Delete by condition) over seeded record graphs (belongs-to new/existing, has-one, has-many with nested has-many, many-to-many new/existing, polymorphic) with hooks on parent and child that write an audit row through tx; " +
		"for each operation EVERY faultable driver call index (BEGIN, each prepare/exec/query, COMMIT) and EVERY hook invocation index is failed once (the failing step wraps a random error value: none, context.Canceled, context.DeadlineExceeded, sql.ErrTxDone, ErrRecordNotFound, ErrInvalidTransaction, sql.ErrNoRows), and (every 4th operation in quick, all in thorough) the process is made to die at EVERY driver call index (crash points); distinct = (operation kind, K, k, call kind, SQL verb) resp. (kind, J, j, hook, type); every faulted run is non-trivial (the fault-free run proved the call/hook is reached and the operation changes the database)",
	Assumptions: []string{
		"default settings only (implicit transaction on, no PrepareStmt)",
		"faults are injected at BEGIN, statements and COMMIT (a failed COMMIT rolls the real transaction back, as a server would); not on ROLLBACK or row iteration",
		"crash points are simulated in-process: at driver call k every connection is dropped without any clean-up statement (SQLite discards the open transaction), every later call fails, and the database file is reopened by a fresh handle; durability of SQLite itself under power loss is not the subject",
	},
	Cases: func(tier string) int {
		if tier == "thorough" {
			return 16 * 600
		}
		return 16 * 40
	},
	Batch:         func(string) int { return 8 },
	Run:           run,
	Init:          initEnv,
	Exhaustive:    func(string) bool { return false },
	MinNontrivial: 100,
}

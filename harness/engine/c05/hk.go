package c05

// A second, small model family whose hooks write THROUGH A HANDLE THEY DERIVE from the *gorm.DB they are
// handed (a shared helper that asks for its own session, for prepared statements, for a context ...), the
// way application helpers do. Whatever session a hook derives from its tx, the write belongs to the
// operation: it has to disappear with it. The txm family writes through tx itself only.
//
// The hooks share the invocation counter / failure plan of txm.H, so the runner treats both families alike.

import (
	"context"
	"fmt"

	"gorm.io/gorm"

	"verif/core"
	"verif/txm"
)

type Acct struct {
	ID      int64 `gorm:"primaryKey"`
	Name    string
	Bal     int64
	Entries []Entry
}

type Entry struct {
	ID     int64 `gorm:"primaryKey"`
	AcctID int64
	Memo   string
}

type Journal struct {
	ID  int64 `gorm:"primaryKey"`
	Msg string
}

var hkModels = []interface{}{&Acct{}, &Entry{}, &Journal{}}
var hkTables = []string{"accts", "entries", "journals"}

const hkSeedSQL = `
DELETE FROM entries; DELETE FROM accts; DELETE FROM journals;
INSERT INTO accts(id,name,bal) VALUES (1,'a',10),(2,'b',20),(3,'c',30);
INSERT INTO entries(id,acct_id,memo) VALUES (1,1,'e1'),(2,1,'e2'),(3,2,'e3');
`

// hookStyle: how a hook derives the handle it writes through from the tx it received. Styles without NewDB keep the
// statement of the running operation (its model and table): only a raw Exec is defined on them, see Assumptions.
var hookStyles = []string{
	"tx",
	"tx.Session(&Session{NewDB:true})",
	"tx.Session(&Session{NewDB:true, PrepareStmt:true})",
	"tx.Session(&Session{NewDB:true, Context:ctx})",
	"tx.Session(&Session{NewDB:true, SkipDefaultTransaction:true})",
	"tx.Session(&Session{NewDB:true, SkipHooks:true, PrepareStmt:true, Context:ctx})",
	"tx.Session(&Session{PrepareStmt:true})",
	"tx.WithContext(ctx)",
	"tx.Session(&Session{})",
}

const firstInheritingStyle = 6

// hookForms: what the hook calls on that handle.
var hookForms = []string{
	`.Exec("INSERT INTO journals(msg) VALUES (?)", m)`,
	`.Create(&Journal{Msg: m})`,
	`.Model(&Journal{}).Create(map[string]interface{}{"msg": m})`,
}

// hookWho: which hook invocations write: 0 = all; 1 = the Before* hooks of the top-level model only (all of them run
// before the operation's own first statement); 2 = the first invocation only; 3 = a pseudo-random subset (hookMask)
var hookWhos = []string{"every hook", "Before* hooks of Acct only", "first hook invocation only", "subset of the hook invocations"}

var hookStyle, hookForm, hookWho int
var hookMask uint64

func hookWritesNow(name, typ string, n int) bool {
	switch hookWho {
	case 1:
		return typ == "Acct" && len(name) > 6 && name[:6] == "Before"
	case 2:
		return n == 1
	case 3:
		return hookMask>>(uint(n)%64)&1 == 1
	}
	return true
}

func styleUsesPrepare(s int) bool { return s == 2 || s == 5 || s == 6 }

type hkCtxKey struct{}

func hookWriter(tx *gorm.DB) *gorm.DB { return deriveFrom(hookStyle, tx) }

// rstyles: the styles an AfterFind hook may run a whole operation on: those that start from a new statement and keep
// the default transaction
var rstyles = []int{0, 1, 2, 3, 5}

func deriveFrom(style int, tx *gorm.DB) *gorm.DB {
	ctx := context.WithValue(context.Background(), hkCtxKey{}, 1)
	switch style {
	case 1:
		return tx.Session(&gorm.Session{NewDB: true})
	case 2:
		return tx.Session(&gorm.Session{NewDB: true, PrepareStmt: true})
	case 3:
		return tx.Session(&gorm.Session{NewDB: true, Context: ctx})
	case 4:
		return tx.Session(&gorm.Session{NewDB: true, SkipDefaultTransaction: true})
	case 5:
		return tx.Session(&gorm.Session{NewDB: true, SkipHooks: true, PrepareStmt: true, Context: ctx})
	case 6:
		return tx.Session(&gorm.Session{PrepareStmt: true})
	case 7:
		return tx.WithContext(ctx)
	case 8:
		return tx.Session(&gorm.Session{})
	}
	return tx
}

func hkHook(name, typ, payload string, tx *gorm.DB) error {
	if !txm.H.Enabled {
		return nil
	}
	txm.H.Count++
	n := txm.H.Count
	ev := txm.HookEvent{Hook: name, Type: typ, Name: payload}
	if tx != nil && tx.Statement != nil {
		ev.Pool = fmt.Sprintf("%T", tx.Statement.ConnPool)
	}
	txm.H.Log = append(txm.H.Log, ev)
	m := name + ":" + typ + ":" + payload
	var err error
	if !hookWritesNow(name, typ, n) {
		goto done
	}
	switch w := hookWriter(tx); hookForm {
	case 1:
		err = w.Create(&Journal{Msg: m}).Error
	case 2:
		err = w.Model(&Journal{}).Create(map[string]interface{}{"msg": m}).Error
	default:
		err = w.Exec("INSERT INTO journals(msg) VALUES (?)", m).Error
	}
	if err != nil {
		return err
	}
done:
	if txm.H.FailAt == n {
		if txm.H.Bare && txm.H.Cause != nil {
			txm.H.Failed = txm.H.Cause
		} else {
			txm.H.Failed = &txm.ErrHook{At: n, Cause: txm.H.Cause}
		}
		return txm.H.Failed
	}
	return nil
}

func (a *Acct) BeforeSave(tx *gorm.DB) error   { return hkHook("BeforeSave", "Acct", a.Name, tx) }
func (a *Acct) BeforeCreate(tx *gorm.DB) error { return hkHook("BeforeCreate", "Acct", a.Name, tx) }
func (a *Acct) AfterCreate(tx *gorm.DB) error  { return hkHook("AfterCreate", "Acct", a.Name, tx) }
func (a *Acct) BeforeUpdate(tx *gorm.DB) error { return hkHook("BeforeUpdate", "Acct", a.Name, tx) }
func (a *Acct) AfterUpdate(tx *gorm.DB) error  { return hkHook("AfterUpdate", "Acct", a.Name, tx) }
func (a *Acct) AfterSave(tx *gorm.DB) error    { return hkHook("AfterSave", "Acct", a.Name, tx) }
func (a *Acct) BeforeDelete(tx *gorm.DB) error { return hkHook("BeforeDelete", "Acct", a.Name, tx) }
func (a *Acct) AfterDelete(tx *gorm.DB) error  { return hkHook("AfterDelete", "Acct", a.Name, tx) }

func (e *Entry) BeforeCreate(tx *gorm.DB) error { return hkHook("BeforeCreate", "Entry", e.Memo, tx) }
func (e *Entry) AfterCreate(tx *gorm.DB) error  { return hkHook("AfterCreate", "Entry", e.Memo, tx) }
func (e *Entry) BeforeDelete(tx *gorm.DB) error { return hkHook("BeforeDelete", "Entry", e.Memo, tx) }

var hkKinds = []string{"HkCreate", "HkCreateSlice", "HkCreateInBatches", "HkSave", "HkUpdate", "HkUpdatesAssoc", "HkDelete", "HkDeleteSelect", "HkSaveAbsent"}

func isHk(kind string) bool { return len(kind) > 2 && kind[:2] == "Hk" }

func hkAcct(r *core.Rand, tag string, i int, adds txm.Counts) *Acct {
	a := &Acct{Name: fmt.Sprintf("a%s%d", tag, i), Bal: int64(r.Range(1, 99))}
	adds["accts"]++
	for j := r.Intn(3); j > 0; j-- {
		a.Entries = append(a.Entries, Entry{Memo: fmt.Sprintf("m%s%d_%d", tag, i, j)})
		adds["entries"]++
	}
	return a
}

// hkGenOp builds the operation (kind, seed) of the second family; fresh in-memory records on every Run.
func hkGenOp(kind string, seed uint64) txm.Op {
	tag := fmt.Sprintf("_%d_", seed%997)
	op := txm.Op{Kind: kind, Records: func() []*txm.User { return nil }}
	mk := func() *core.Rand { return core.NewRand(seed) }
	switch kind {
	case "HkCreate":
		adds := txm.Counts{}
		a := hkAcct(mk(), tag, 1, adds)
		op.Adds = adds
		op.Desc = fmt.Sprintf("db.Create(&Acct{Name:%q, Entries:%d})", a.Name, len(a.Entries))
		op.Run = func(db *gorm.DB) *gorm.DB { return db.Create(hkAcct(mk(), tag, 1, txm.Counts{})) }
	case "HkCreateSlice", "HkCreateInBatches":
		build := func(adds txm.Counts) ([]Acct, int) {
			r := mk()
			n := r.Range(2, 4)
			bs := r.Range(1, 2)
			as := make([]Acct, 0, n)
			for i := 0; i < n; i++ {
				as = append(as, *hkAcct(r, tag, i+1, adds))
			}
			return as, bs
		}
		adds := txm.Counts{}
		as, bs := build(adds)
		op.Adds = adds
		if kind == "HkCreateSlice" {
			op.Desc = fmt.Sprintf("db.Create(&[]Acct{%d accts})", len(as))
			op.Run = func(db *gorm.DB) *gorm.DB { as, _ := build(txm.Counts{}); return db.Create(&as) }
		} else {
			op.Desc = fmt.Sprintf("db.CreateInBatches(&[]Acct{%d accts}, %d)", len(as), bs)
			op.Run = func(db *gorm.DB) *gorm.DB { as, bs := build(txm.Counts{}); return db.CreateInBatches(&as, bs) }
		}
	case "HkSave":
		op.Desc = "db.Save(&Acct{ID:1, Name:'a2', Bal:11, Entries:[{ID:1,AcctID:1,Memo:'e1'},{Memo:new}]})"
		op.Run = func(db *gorm.DB) *gorm.DB {
			return db.Save(&Acct{ID: 1, Name: "a2", Bal: 11, Entries: []Entry{{ID: 1, AcctID: 1, Memo: "e1"}, {Memo: "m" + tag}}})
		}
	case "HkSaveAbsent":
		// the key is set but no such row exists: an UPDATE pipeline (changes no row) and then an INSERT .. ON CONFLICT pipeline
		build := func(adds txm.Counts) *Acct {
			r := mk()
			id := absentKey(r)
			a := hkAcct(r, tag, 1, adds)
			a.ID = id
			return a
		}
		adds := txm.Counts{}
		a := build(adds)
		op.Adds = adds
		op.Desc = fmt.Sprintf("db.Save(&Acct{ID:%d /* no such row */, Name:%q, Entries:%d new})", a.ID, a.Name, len(a.Entries))
		op.Run = func(db *gorm.DB) *gorm.DB { return db.Save(build(txm.Counts{})) }
	case "HkUpdate":
		id := int64(mk().Range(1, 3))
		op.Desc = fmt.Sprintf("db.Model(&Acct{ID:%d}).Update(\"name\", \"zed\")", id)
		op.Run = func(db *gorm.DB) *gorm.DB { return db.Model(&Acct{ID: id}).Update("name", "zed") }
	case "HkUpdatesAssoc":
		id := int64(mk().Range(1, 3))
		op.Desc = fmt.Sprintf("db.Model(&Acct{ID:%d, Entries:[{Memo:new}]}).Updates(Acct{Name:'upd', Bal:77})", id)
		op.Run = func(db *gorm.DB) *gorm.DB {
			return db.Model(&Acct{ID: id, Entries: []Entry{{Memo: "m" + tag}}}).Updates(Acct{Name: "upd", Bal: 77})
		}
	case "HkDelete":
		id := int64(mk().Range(1, 3))
		op.Desc = fmt.Sprintf("db.Delete(&Acct{ID:%d})", id)
		op.Run = func(db *gorm.DB) *gorm.DB { return db.Delete(&Acct{ID: id}) }
	case "HkDeleteSelect":
		id := int64(mk().Range(1, 2))
		op.Desc = fmt.Sprintf("db.Select(\"Entries\").Delete(&Acct{ID:%d})", id)
		op.Run = func(db *gorm.DB) *gorm.DB { return db.Select("Entries").Delete(&Acct{ID: id}) }
	default:
		panic("c05: op kind " + kind)
	}
	return op
}

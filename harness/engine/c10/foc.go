package c10

import (
	"fmt"
	"reflect"
	"sort"

	"verif/core"
)

// ---- FirstOrCreate with Attrs / Assign ---------------------------------------------------------
//
// db.Where(conds).Attrs(a).Assign(b).FirstOrCreate(&dest) is a write finisher with two paths:
//
//	found      the first record (by primary key) matching the chain's conditions and dest's own key is
//	           loaded into dest; with Assign the values of b are written to it as Updates(map) would
//	           (a map: every key; a struct: its non-zero fields) - to THAT row only: the chain's
//	           conditions AND the key of the found record; Attrs is not used, without Assign nothing
//	           is written
//	not found  dest is initialised with the equality conditions given as map / struct, then with Attrs,
//	           then with Assign (later ones win) and created: the rules of Create apply to the result
type focOp struct {
	wantFound bool
	dest      *rec // the value handed to FirstOrCreate: zero, a key, or (not-found path) a full record
	attrs     *rec
	attrsMap  bool
	attrsPtr  bool
	assign    *rec
	assignMap bool
	assignPtr bool
	// condSets: the fields an equality condition given as map / struct sets on the not-found path
	condSets []assign
	// inline: the (single) condition is handed to the finisher, FirstOrCreate(&dest, query, args...),
	// instead of to Where
	inline bool
}

// focCands: the fields Attrs / Assign may name. Collection kinds are left out (a slice value of an
// Assign map is rendered as a list of values), tracked update-time fields as well (given value versus
// refresh); the struct forms leave unreadable fields zero (a struct is read through the readable
// fields only).
func (g *gen) focCands(structForm, create bool) []*field {
	var out []*field
	for _, f := range g.updateCands(true) {
		if isColl(f.k.class) {
			continue
		}
		if structForm && (f.ignored || containsStr(f.perm, "->:false")) {
			continue
		}
		if create && (f.autoCre != "" || f.ignored) {
			continue
		}
		out = append(out, f)
	}
	return out
}

func containsStr(s, sub string) bool {
	for i := 0; i+len(sub) <= len(s); i++ {
		if s[i:i+len(sub)] == sub {
			return true
		}
	}
	return false
}

// nonZeroVal: a value whose Go form is not the zero value of the field's type.
func (g *gen) nonZeroVal(f *field) lval {
	if f.k.wrap != "plain" && g.r.Chance(1, 4) {
		if z := zeroBase(f.k.class); !z.null {
			return z // pointer to zero / Null*{Valid: true}: a non-zero Go value storing a zero
		}
	}
	return fresh(f.k.class, g.next())
}

// sparseRec: a struct value with 1..3 non-zero fields out of cands (order = their indexes), every
// other field zero (no candidate: the zero value).
func (g *gen) sparseRec(cands []*field) *rec {
	rc := &rec{vals: map[int]mval{}, byCol: map[int]bool{}}
	for _, f := range g.m.fields {
		z := lval{null: true}
		if f.k.wrap == "plain" {
			z = zeroBase(f.k.class)
		}
		rc.vals[f.idx] = mval{form: "typed", lv: z}
	}
	p := g.r.Perm(len(cands))
	n := g.r.Range(1, 3)
	for i := 0; i < n && i < len(cands); i++ {
		f := cands[p[i]]
		rc.vals[f.idx] = mval{form: "typed", lv: g.nonZeroVal(f)}
		rc.order = append(rc.order, f.idx)
	}
	sort.Ints(rc.order)
	return rc
}

// given: the record reduced to what Attrs / Assign hands over (a map: its keys; a struct: its
// non-zero fields).
func givenOf(rc *rec) *rec {
	out := &rec{vals: map[int]mval{}, byCol: rc.byCol, order: rc.order}
	for _, fi := range rc.order {
		out.vals[fi] = rc.vals[fi]
	}
	return out
}

func (g *gen) focValue(o *op, found, structOK bool) (rc *rec, isMap bool) {
	if structOK && g.r.Bool() {
		if cs := g.focCands(true, !found); len(cs) > 0 {
			o.forms["struct"] = true
			return g.sparseRec(cs), false
		}
	}
	cands := g.focCands(false, !found)
	if len(cands) == 0 {
		return nil, true
	}
	rc = g.mapRec(o, "update", cands)
	if !found {
		// the not-found path sets the values on dest with field.Set: plain values only
		for fi, v := range rc.vals {
			if v.form != "typed" && v.form != "basic" && v.form != "nil" {
				f := g.m.fields[fi]
				rc.vals[fi] = mval{form: "typed", lv: fresh(f.k.class, g.next())}
			}
		}
	}
	return rc, true
}

var modesFoc = []string{"none", "none", "none", "none", "omit", "omit", "sel", "star"}

func (g *gen) genFoc(o *op, kind string) {
	r, m := g.r, g.m
	fo := &focOp{wantFound: kind != "firstorcreate-new"}
	o.foc = fo
	o.family = "firstorcreate"
	o.hooks = true
	o.useModel = r.Bool() // Model(&T{}) on the chain
	// dest: every field is set (zero), so embedded pointers are non-nil
	destWith := func(k lval) *rec {
		rc := g.sparseRec(nil)
		m.setKey(rc, k)
		return rc
	}
	fo.dest = destWith(m.zeroKey())
	intKey := !m.composite() && m.pk.k.class != "string"
	if fo.wantFound {
		switch r.Intn(6) {
		case 0: // no condition at all: the first row of the table
			o.tform = "first-row"
		case 1: // dest carries the key
			k := g.seedKey()
			fo.dest = destWith(k)
			o.tform = "dest-key"
			if r.Bool() {
				o.conds = append(o.conds, g.cond(&k))
				o.tform = "dest-key+where"
			}
		default:
			o.conds = append(o.conds, g.cond(nil))
			if r.Chance(1, 4) {
				o.conds = append(o.conds, g.cond(nil))
			}
			o.tform = "where"
		}
		if kind == "firstorcreate" {
			fo.assign, fo.assignMap = g.focValue(o, true, true)
			fo.assignPtr = r.Bool()
		}
		if kind == "firstorcreate-attrs" || r.Chance(1, 3) {
			fo.attrs, fo.attrsMap = g.focValue(o, true, true)
			fo.attrsPtr = r.Bool()
		}
	} else {
		// no row matches: a new key / a fresh value of a data column
		nk := g.newKey(r.Intn(3))
		var dataF []*field
		for _, f := range m.fields {
			if !f.pk && !f.ignored && f.k.wrap == "plain" && f.autoUpd == "" && f.autoCre == "" && f.def == "" && (f.k.class == "int" || f.k.class == "string") && !containsStr(f.perm, "->:false") {
				dataF = append(dataF, f)
			}
		}
		form := r.Intn(4)
		if form >= 2 && len(dataF) == 0 {
			form = r.Intn(2)
		}
		keyed := func() { // dest carries the new key
			fo.dest = destWith(nk)
		}
		parts := m.keyParts(nk)
		switch form {
		case 0: // the key as a map condition: it initialises dest
			mp := map[string]interface{}{}
			rsql := ""
			var rargs []interface{}
			for i, f := range m.pks {
				mp[f.col] = parts[i].v
				if i > 0 {
					rsql += " AND "
				}
				rsql += f.col + " = ?"
				rargs = append(rargs, parts[i].v)
				fo.condSets = append(fo.condSets, assign{fi: f.idx, v: mval{form: "typed", lv: parts[i]}})
			}
			o.conds = append(o.conds, cond{gq: mp, rsql: rsql, rargs: rargs, desc: "Where(" + argLit(mp) + ")"})
			o.tform = "new:map-key"
		case 1: // the key as a string condition: not an equality gorm takes over
			q := ""
			var args []interface{}
			var al string
			for i, f := range m.pks {
				if i > 0 {
					q += " AND "
					al += ", "
				}
				q += f.col + " = ?"
				args = append(args, parts[i].v)
				al += argLit(parts[i].v)
			}
			o.conds = append(o.conds, cond{gq: q, gargs: args, rsql: q, rargs: args, desc: fmt.Sprintf("Where(%q, %s)", q, al)})
			o.tform = "new:string-key+auto-key"
			if !intKey || r.Bool() {
				keyed()
				o.tform = "new:string-key+dest-key"
			}
		default: // a data column as a map / struct condition: it initialises dest
			f := core.Pick(r, dataF)
			lv := fresh(f.k.class, 900+g.next())
			if form == 2 {
				mp := map[string]interface{}{f.col: lv.v}
				o.conds = append(o.conds, cond{gq: mp, rsql: f.col + " = ?", rargs: []interface{}{lv.v}, desc: "Where(" + argLit(mp) + ")"})
				o.tform = "new:map-column"
			} else {
				vals := map[int]lval{f.idx: lv}
				p := m.newStruct(vals, nil)
				lit := m.structLit(vals, nil)
				var gq interface{} = p.Interface()
				if r.Bool() {
					gq = p.Elem().Interface()
				} else {
					lit = "&" + lit
				}
				o.conds = append(o.conds, cond{gq: gq, rsql: f.col + " = ?", rargs: []interface{}{lv.v}, desc: "Where(" + lit + ")"})
				o.tform = "new:struct-column"
			}
			fo.condSets = append(fo.condSets, assign{fi: f.idx, v: mval{form: "typed", lv: lv}})
			if !intKey || r.Bool() {
				keyed()
				o.tform += "+dest-key"
			}
		}
		if r.Chance(1, 3) {
			// dest brings values of its own
			k, _ := m.recKey(fo.dest)
			fo.dest = g.structRec(k)
			o.tform += "+dest-values"
		}
		if r.Chance(2, 3) {
			fo.attrs, fo.attrsMap = g.focValue(o, false, true)
			fo.attrsPtr = r.Bool()
		}
		if fo.attrs == nil || r.Chance(2, 3) {
			fo.assign, fo.assignMap = g.focValue(o, false, true)
			fo.assignPtr = r.Bool()
		}
		o.recs = []*rec{fo.merged(m)}
	}
	fo.inline = len(o.conds) == 1 && r.Chance(1, 4)
	// Select / Omit act on the query as well: a Select list names the key columns (the found record is
	// addressed by the key it was loaded with) and no ignored field (no column to read)
	var prefer []int
	if fo.assign != nil {
		prefer = keysOf(fo.assign)
	}
	g.selOmit(o, modesFoc, prefer)
	if o.selMode == "sel" {
		var keepN []nameRef
		for _, n := range o.sel {
			if !m.fields[n.fi].ignored {
				keepN = append(keepN, n)
			}
		}
		o.sel = keepN
		for _, f := range m.pks {
			o.sel = append(o.sel, g.ref(f))
		}
	}
	if !fo.wantFound && !g.writesSomething(o) {
		o.sel, o.omit, o.selMode = nil, nil, "none"
	}
}

// merged: the record the not-found path creates: dest, then the equality conditions, then Attrs,
// then Assign. A struct hands over its non-zero fields, a map all of its keys (nil: the zero value).
func (fo *focOp) merged(m *model) *rec {
	out := &rec{vals: map[int]mval{}, dvals: fo.dest.dvals}
	for _, f := range m.fields {
		z := lval{null: true}
		if f.k.wrap == "plain" {
			z = zeroBase(f.k.class)
		}
		out.vals[f.idx] = mval{form: "typed", lv: z}
	}
	for fi, v := range fo.dest.vals {
		out.vals[fi] = v
	}
	set := func(fi int, v mval) {
		f := m.fields[fi]
		lv := v.lv
		if v.form == "nil" {
			lv = lval{null: true}
			if f.k.wrap == "plain" {
				lv = zeroBase(f.k.class)
			}
		}
		out.vals[fi] = mval{form: "typed", lv: lv}
	}
	for _, a := range fo.condSets {
		set(a.fi, a.v)
	}
	for _, rc := range []*rec{fo.attrs, fo.assign} {
		if rc != nil {
			for _, fi := range rc.order {
				set(fi, rc.vals[fi])
			}
		}
	}
	return out
}

// focFound: the row FirstOrCreate finds - the first by primary key among the rows matching the
// conditions and dest's key. ok=false: the order is not fixed (a composite key is ordered by its first
// column only) or the found key has a zero part (a struct value with a partly zero key is addressed by
// its non-zero parts only).
func focFound(m *model, o *op, condKeys map[string]bool) (key string, found, ok bool) {
	dk, _ := m.recKey(o.foc.dest)
	var cands []seedRow
	for _, rw := range m.rows {
		k := normL(rw.key)
		if condKeys != nil && !condKeys[k] {
			continue
		}
		if !m.keyIsZero(dk) && normL(dk) != k {
			continue
		}
		cands = append(cands, rw)
	}
	if len(cands) == 0 {
		return "", false, true
	}
	less := func(a, b lval) int {
		switch x := a.v.(type) {
		case int64:
			y := b.v.(int64)
			switch {
			case x < y:
				return -1
			case x > y:
				return 1
			}
			return 0
		default:
			return strCmp(a.v.(string), b.v.(string))
		}
	}
	best := cands[0]
	tie := false
	for _, rw := range cands[1:] {
		c := less(m.keyParts(rw.key)[0], m.keyParts(best.key)[0])
		if c < 0 {
			best, tie = rw, false
		} else if c == 0 {
			tie = true
		}
	}
	if tie || !m.fullKey(best.key) {
		return "", true, false
	}
	return normL(best.key), true, true
}

func strCmp(a, b string) int {
	switch {
	case a < b:
		return -1
	case a > b:
		return 1
	}
	return 0
}

// predictFoc: see the head of the file.
func (p *prediction) predictFoc(m *model, o *op, condKeys map[string]bool, rowKey func(*rec) (string, bool)) {
	fo := o.foc
	ov := *o
	if !fo.wantFound {
		ov.isMap = false
		k, auto := rowKey(o.recs[0])
		p.newRow(m, &ov, o.recs[0], k, auto)
		return
	}
	key, _, _ := focFound(m, o, condKeys)
	p.target = []string{key}
	re := p.rows[key]
	if fo.assign == nil {
		for c, e := range re.cells {
			e.cls, e.why = "found-row-written-without-assign", "the record is found and the chain has no Assign: nothing is written"
			re.cells[c] = e
		}
		return
	}
	ov.isMap = true
	given := givenOf(fo.assign)
	p.updateRow(m, &ov, given, key)
	if !fo.assignMap {
		// a zero field of the Assign struct that Select names: Updates(struct) would write the zero value,
		// the found path hands the non-zero fields over as a map - not fixed by the statement
		si := selinfo(o)
		for _, f := range m.fields {
			if _, ok := given.vals[f.idx]; !ok && si.selected(f.idx) && !f.pk && re.cells[f.col].mode == mKeep && re.cells[f.col].cls == "ungiven-column-written" {
				re.cells[f.col] = cellExp{mode: mFree}
			}
		}
	}
}

// focArg: the Go value and literal of an Attrs / Assign argument.
func focArg(m *model, rc *rec, isMap, ptr bool) (interface{}, string) {
	if isMap {
		return rc.mapArg(m)
	}
	p := m.newStruct(rc.lvals(), nil)
	lit := m.structLit(rc.lvals(), nil)
	if ptr {
		return p.Interface(), "&" + lit
	}
	return p.Elem().Interface(), lit
}

func focDest(m *model, o *op) (reflect.Value, string) {
	d := o.foc.dest
	return m.newStruct(d.lvals(), d.dvals), "&" + m.structLit(d.lvals(), d.dvals)
}

package c10

import (
	"database/sql"
	"database/sql/driver"
	"encoding/json"
	"fmt"
	"reflect"
	"sort"
	"strconv"
	"strings"
	"time"

	"gorm.io/gorm"

	"verif/core"
)

// ---- logical values ---------------------------------------------------------------

// lval is the logical content of one cell / one Go field: NULL or a base value
// (int64 | float64 | string | time.Time | []byte).
type lval struct {
	null bool
	v    interface{}
}

func normL(l lval) string {
	if l.null {
		return "NULL"
	}
	if parts, ok := l.v.([]lval); ok { // a composite key
		var out []string
		for _, p := range parts {
			out = append(out, normL(p))
		}
		return strings.Join(out, "|")
	}
	return normDB(l.v)
}

// normDB renders a value read from SQLite (or a base value) canonically.
func normDB(v interface{}) string {
	switch x := v.(type) {
	case nil:
		return "NULL"
	case []string, map[string]int64:
		return normDB(dbArg(x)) // stored as JSON text
	case int64:
		return strconv.FormatInt(x, 10)
	case float64:
		return strconv.FormatFloat(x, 'g', -1, 64)
	case string:
		return strconv.Quote(x)
	case []byte:
		return "x" + strconv.Quote(string(x))
	case time.Time:
		return "t" + x.UTC().Format(time.RFC3339Nano)
	case bool:
		if x {
			return "1"
		}
		return "0"
	default:
		return fmt.Sprintf("?%T(%v)", v, v)
	}
}

// StrList is a named slice type that is its own driver.Valuer / sql.Scanner (stored as JSON text,
// nil as NULL): a column of Go kind Slice that needs no serializer.
type StrList []string

func (l StrList) Value() (driver.Value, error) {
	if l == nil {
		return nil, nil
	}
	b, err := json.Marshal([]string(l))
	return string(b), err
}

func (l *StrList) Scan(v interface{}) error {
	switch x := v.(type) {
	case nil:
		*l = nil
	case string:
		return json.Unmarshal([]byte(x), (*[]string)(l))
	case []byte:
		return json.Unmarshal(x, (*[]string)(l))
	default:
		return fmt.Errorf("StrList: cannot scan %T", v)
	}
	return nil
}

// dbArg: the form in which a logical base value is stored (collections other than []byte: JSON text).
func dbArg(v interface{}) interface{} {
	switch x := v.(type) {
	case []string:
		b, _ := json.Marshal(x)
		return string(b)
	case map[string]int64:
		b, _ := json.Marshal(x) // keys sorted
		return string(b)
	}
	return v
}

// isColl: classes whose Go kind is Slice or Map. Their zero value is nil (stored as NULL); an EMPTY
// but non-nil value is not the zero value of the type and is stored as an empty blob / "[]" / "{}".
func isColl(class string) bool {
	return class == "bytes" || class == "jstrs" || class == "jmap" || class == "list"
}

// emptyOf: the empty, non-nil value of a collection class.
func emptyOf(class string) lval {
	switch class {
	case "bytes":
		return lval{v: []byte{}}
	case "jmap":
		return lval{v: map[string]int64{}}
	default:
		return lval{v: []string{}}
	}
}

// isEmptyColl: an empty but non-nil collection value.
func isEmptyColl(l lval) bool {
	if l.null {
		return false
	}
	switch x := l.v.(type) {
	case []byte:
		return x != nil && len(x) == 0
	case []string:
		return x != nil && len(x) == 0
	case map[string]int64:
		return x != nil && len(x) == 0
	}
	return false
}

// kindTag: the tag part a field of this kind needs to be a column at all.
func (k kind) kindTag() string {
	switch k.class {
	case "jstrs", "jmap":
		return "serializer:json"
	case "list":
		return "type:text"
	}
	return ""
}

// serialized: the column content is produced by a gorm serializer from the field value (a value
// handed over in a MAP does not pass through it).
func (k kind) serialized() bool { return k.class == "jstrs" || k.class == "jmap" }

type kind struct {
	name  string // Go spelling
	typ   reflect.Type
	class string // int | uint | float | string | time | bytes
	wrap  string // plain | ptr | null
	sql   string
}

var (
	tInt64  = reflect.TypeOf(int64(0))
	tString = reflect.TypeOf("")
	tFloat  = reflect.TypeOf(float64(0))
	tTime   = reflect.TypeOf(time.Time{})
	tBytes  = reflect.TypeOf([]byte(nil))
	tStrs   = reflect.TypeOf([]string(nil))
	tIMap   = reflect.TypeOf(map[string]int64(nil))
	tList   = reflect.TypeOf(StrList(nil))
)

var (
	kInt64  = kind{"int64", tInt64, "int", "plain", "INTEGER"}
	kUint   = kind{"uint", reflect.TypeOf(uint(0)), "uint", "plain", "INTEGER"}
	kString = kind{"string", tString, "string", "plain", "TEXT"}
	kTime   = kind{"time.Time", tTime, "time", "plain", "DATETIME"}
)

var kinds = []kind{
	kInt64, kInt64,
	{"int", reflect.TypeOf(int(0)), "int", "plain", "INTEGER"},
	{"int32", reflect.TypeOf(int32(0)), "int", "plain", "INTEGER"},
	kUint,
	{"uint32", reflect.TypeOf(uint32(0)), "uint", "plain", "INTEGER"},
	{"float64", tFloat, "float", "plain", "REAL"},
	kString, kString, kString,
	kTime,
	{"[]byte", tBytes, "bytes", "plain", "BLOB"},
	{"[]byte", tBytes, "bytes", "plain", "BLOB"},
	{"[]string", tStrs, "jstrs", "plain", "TEXT"},        // serializer:json
	{"map[string]int64", tIMap, "jmap", "plain", "TEXT"}, // serializer:json
	{"StrList", tList, "list", "plain", "TEXT"},          // named slice type, driver.Valuer + sql.Scanner
	{"*int64", reflect.PtrTo(tInt64), "int", "ptr", "INTEGER"},
	{"*string", reflect.PtrTo(tString), "string", "ptr", "TEXT"},
	{"*float64", reflect.PtrTo(tFloat), "float", "ptr", "REAL"},
	{"*time.Time", reflect.PtrTo(tTime), "time", "ptr", "DATETIME"},
	{"sql.NullInt64", reflect.TypeOf(sql.NullInt64{}), "int", "null", "INTEGER"},
	{"sql.NullString", reflect.TypeOf(sql.NullString{}), "string", "null", "TEXT"},
	{"sql.NullFloat64", reflect.TypeOf(sql.NullFloat64{}), "float", "null", "REAL"},
	{"sql.NullTime", reflect.TypeOf(sql.NullTime{}), "time", "null", "DATETIME"},
}

func zeroBase(class string) lval {
	switch class {
	case "int", "uint":
		return lval{v: int64(0)}
	case "float":
		return lval{v: float64(0)}
	case "string":
		return lval{v: ""}
	case "time":
		return lval{v: time.Time{}}
	default: // bytes: the zero value of []byte is nil, stored as NULL
		return lval{null: true}
	}
}

func baseIsZero(l lval) bool {
	if l.null {
		return true
	}
	switch x := l.v.(type) {
	case int64:
		return x == 0
	case float64:
		return x == 0
	case string:
		return x == ""
	case time.Time:
		return x.IsZero()
	case []byte:
		return x == nil
	case []string:
		return x == nil
	case map[string]int64:
		return x == nil
	}
	return false
}

// isGoZero: is the Go value built from l for kind k the zero value of its type?
// (pointer to zero and Null*{Valid:true, zero} are NOT zero.)
func isGoZero(k kind, l lval) bool {
	if k.wrap == "plain" {
		return baseIsZero(l)
	}
	return l.null
}

// goValue builds the Go value of kind k holding l.
func goValue(k kind, l lval) reflect.Value {
	switch k.wrap {
	case "ptr":
		if l.null {
			return reflect.Zero(k.typ)
		}
		p := reflect.New(k.typ.Elem())
		p.Elem().Set(reflect.ValueOf(l.v).Convert(k.typ.Elem()))
		return p
	case "null":
		out := reflect.New(k.typ).Elem()
		if l.null {
			return out
		}
		out.Field(0).Set(reflect.ValueOf(l.v).Convert(out.Field(0).Type()))
		out.FieldByName("Valid").SetBool(true)
		return out
	default:
		if l.null {
			return reflect.Zero(k.typ)
		}
		return reflect.ValueOf(l.v).Convert(k.typ)
	}
}

// goLit renders the Go literal of the value (for witnesses).
func goLit(k kind, l lval) string {
	base := func() string {
		switch x := l.v.(type) {
		case int64:
			return strconv.FormatInt(x, 10)
		case float64:
			return strconv.FormatFloat(x, 'g', -1, 64)
		case string:
			return strconv.Quote(x)
		case time.Time:
			if x.IsZero() {
				return "time.Time{}"
			}
			return "T(" + x.UTC().Format("2006-01-02T15:04:05Z") + ")"
		case []byte:
			if len(x) == 0 {
				return "[]byte{}"
			}
			return "[]byte(" + strconv.Quote(string(x)) + ")"
		case []string:
			if k.class == "list" {
				return strings.Replace(fmt.Sprintf("%#v", x), "[]string", "StrList", 1)
			}
			return fmt.Sprintf("%#v", x)
		case map[string]int64:
			return fmt.Sprintf("%#v", x)
		}
		return "?"
	}
	switch k.wrap {
	case "ptr":
		if l.null {
			return "nil"
		}
		return "ptr(" + base() + ")"
	case "null":
		if l.null {
			return k.name + "{}"
		}
		return k.name + "{" + strings.TrimPrefix(k.name, "sql.Null") + ": " + base() + ", Valid: true}"
	default:
		if l.null {
			return "nil"
		}
		return base()
	}
}

// ---- model family -----------------------------------------------------------------

type field struct {
	idx       int
	name      string // Go field name
	col       string // column name (for ignored fields: the name the column would have had)
	k         kind
	tag       string // content of the gorm tag
	perm      string // the permission part of the tag
	pk        bool
	ignored   bool // "-" / "-:all": the schema has no column for it
	canCreate bool
	canUpdate bool
	free      bool   // write permission not fixed by the statement
	autoUpd   string // "", "time", "sec", "milli", "nano"
	autoCre   string
	// default value: "" (none) | "lit" (a literal gorm itself writes for a zero value) |
	// "expr" (an SQL expression only the database evaluates) | "null" (default:null, database side)
	def       string
	defSQL    string // DEFAULT clause of the column
	defStored string // canonical content of a cell the INSERT left to the database
	// placement: the embedded struct the field is declared in (nil = top level) and its reflect index path
	grp  *group
	path []int
	// blocked: a permission-less duplicate of this field's column sits on a SHORTER path and is
	// declared BEFORE the embedded struct holding this field (see dup)
	blocked bool
	dup     *dup      // the duplicate field sharing this field's column, if any
	fkOf    *relation // the field is the foreign key of this belongs-to relation
}

// group is one embedded struct of the model type: embedded by tag (`embedded`, optionally with
// embeddedPrefix) or anonymously (Go embedding), by value or by pointer, possibly nested.
type group struct {
	name   string
	anon   bool
	ptr    bool
	prefix string
	tag    string
	parent *group
	items  []*item
	typ    reflect.Type // the struct type (without the pointer)
}

func (g *group) depth() int {
	if g == nil {
		return 0
	}
	return 1 + g.parent.depth()
}

func (g *group) root() *group {
	for g.parent != nil {
		g = g.parent
	}
	return g
}

// cumPrefix: what gorm puts in front of the column names of the group's fields.
func (g *group) cumPrefix() string {
	if g == nil {
		return ""
	}
	return g.parent.cumPrefix() + g.prefix
}

// item: one declared struct field - a column field, a duplicate, or an embedded struct.
type item struct {
	f *field
	d *dup
	g *group
	r *relation
	s bool // the soft-delete field `DeletedAt gorm.DeletedAt` (column deleted_at) of a soft model
}

var tDeletedAt = reflect.TypeOf(gorm.DeletedAt{})

// softCol: the column of the soft-delete field of a soft model.
const softCol = "deleted_at"

// dup is a SECOND Go field (same Go name) mapped to the column of field main, on a path of a
// different length (two fields on paths of equal length sharing a column are not generated):
//
//	ghost-outer     on the shorter path, every permission removed (`<-:false;->:false`): it must never
//	                be the source of a write, the column keeps being served by main (declared inside an
//	                embedded struct); first = it is declared before that embedded struct
//	ghost-inner     on the longer path (inside an embedded struct), every permission removed
//	shadowed-inner  on the longer path with a random permission tag, main (outer, with some permission)
//	                owns the column (Go's shadowing of a promoted field); always left zero
type dup struct {
	id    int
	name  string
	k     kind
	tag   string
	role  string
	first bool
	main  *field
	grp   *group
	path  []int
}

func (d *dup) decl() string {
	s := d.name + " " + d.k.name
	if d.tag != "" {
		s += " `gorm:\"" + d.tag + "\"`"
	}
	return s + " /* " + d.role + " duplicate of column " + d.main.col + " */"
}

// dbDefault: the default is evaluated by the database (schema.FieldsWithDefaultDBValue): gorm leaves
// the column out of the INSERT unless the Go value is non-zero.
func (f *field) dbDefault() bool { return f.def == "expr" || f.def == "null" }

// absent: canonical content of this field's cell in a new row whose INSERT did not name the column.
func (f *field) absent() string {
	if f.def != "" {
		return f.defStored
	}
	return "NULL"
}

// defaultFor decides the default of a data field: returns the tag part and fills def*.
// n is unique per field of the model; default values (700.., "dflt..") never equal a sentinel
// (1000.., "s.."), a generated value (3..~200, "v..") or a zero value.
func (f *field) defaultFor(r *core.Rand, n int) string {
	c := f.k.class
	kindOf := core.Pick(r, []string{"expr", "expr", "expr", "lit", "lit", "null"})
	if c == "time" || isColl(c) {
		kindOf = "null"
	}
	f.def = kindOf
	num := int64(700 + n)
	switch kindOf {
	case "null":
		f.defSQL, f.defStored = "DEFAULT NULL", "NULL"
		return "default:null"
	case "lit":
		switch c {
		case "int", "uint":
			f.defSQL, f.defStored = fmt.Sprintf("DEFAULT %d", num), normDB(num)
			return fmt.Sprintf("default:%d", num)
		case "float":
			f.defSQL, f.defStored = fmt.Sprintf("DEFAULT %d.75", num), normDB(float64(num)+0.75)
			return fmt.Sprintf("default:%d.75", num)
		default:
			f.defSQL, f.defStored = fmt.Sprintf("DEFAULT 'dflt%d'", n), normDB(fmt.Sprintf("dflt%d", n))
			return fmt.Sprintf("default:dflt%d", n)
		}
	default:
		switch c {
		case "int", "uint":
			f.defSQL, f.defStored = fmt.Sprintf("DEFAULT (abs(-%d))", num), normDB(num)
			return fmt.Sprintf("default:(abs(-%d))", num)
		case "float":
			f.defSQL, f.defStored = fmt.Sprintf("DEFAULT (abs(-%d.75))", num), normDB(float64(num)+0.75)
			return fmt.Sprintf("default:(abs(-%d.75))", num)
		default:
			f.defSQL, f.defStored = fmt.Sprintf("DEFAULT (lower('DFLT%d'))", n), normDB(fmt.Sprintf("dflt%d", n))
			return fmt.Sprintf("default:(lower('DFLT%d'))", n)
		}
	}
}

func (f *field) decl() string {
	s := f.name + " " + f.k.name
	if f.tag != "" {
		s += " `gorm:\"" + f.tag + "\"`"
	}
	return s
}

type seedRow struct {
	key   lval
	cells []lval // by field index
}

type model struct {
	table  string
	typ    reflect.Type
	fields []*field
	pk     *field   // first (or only) key field
	pks    []*field // all key fields
	rows   []seedRow
	maxKey int64
	// declaration layout: top-level items in declaration order, all embedded structs, duplicates
	top      []*item
	groups   []*group
	dups     []*dup
	zeroGrid bool        // composite key whose parts may legally be zero: some seeded rows have one zero key part
	rels     []*relation // association fields (top level) to the static types of assoc.go
	// soft: the model type has a top-level field `DeletedAt gorm.DeletedAt` (column deleted_at). It is
	// not one of m.fields: no operation ever hands a non-zero value over for it; the rows are seeded
	// with deleted_at NULL except the rows an update operation declares soft-deleted (op.dead)
	soft bool
}

type nameCol struct{ name, col string }

var namePool = []nameCol{
	{"Name", "name"}, {"Age", "age"}, {"Email", "email"}, {"Score", "score"}, {"Bio", "bio"}, {"Level", "level"},
	{"Ratio", "ratio"}, {"Note", "note"}, {"City", "city"}, {"Zip", "zip"}, {"Token", "token"}, {"Amount", "amount"},
	{"Visits", "visits"}, {"Grade", "grade"}, {"NickName", "nick_name"}, {"HomeTown", "home_town"}, {"UserCode", "user_code"},
}

type permSpec struct {
	tag            string
	create, update bool
	free, ignored  bool
	weight         int
}

// what the property statement (and the documented meaning of the tags) fixes per tag
var perms = []permSpec{
	{tag: "", create: true, update: true, weight: 10},
	{tag: "<-:create", create: true, update: false, weight: 4},
	{tag: "<-:update", create: false, update: true, weight: 3},
	{tag: "<-:false", create: false, update: false, weight: 2},
	{tag: "<-", create: true, update: true, weight: 1},
	{tag: "->", create: false, update: false, weight: 3},
	{tag: "->;<-:create", create: true, update: false, weight: 1},
	{tag: "->;<-:update", create: false, update: true, weight: 1},
	{tag: "->:false;<-:create", create: true, update: false, weight: 1},
	{tag: "->:false;<-", create: true, update: true, weight: 1},
	{tag: "->:false", free: true, weight: 1},
	{tag: "-", ignored: true, weight: 2},
	{tag: "-:all", ignored: true, weight: 1},
	{tag: "-:migration", create: true, update: true, weight: 2},
}

func pickPerm(r *core.Rand) permSpec {
	tot := 0
	for _, p := range perms {
		tot += p.weight
	}
	n := r.Intn(tot)
	for _, p := range perms {
		if n < p.weight {
			return p
		}
		n -= p.weight
	}
	return perms[0]
}

type autoSpec struct {
	name, col string
	k         kind
	tag       string
	upd, cre  string
}

var autoPool = []autoSpec{
	{"UpdatedAt", "updated_at", kTime, "", "time", ""},
	{"UpdatedAt", "updated_at", kInt64, "", "sec", ""},
	{"CreatedAt", "created_at", kTime, "", "", "time"},
	{"Touched", "touched", kTime, "autoUpdateTime", "time", ""},
	{"ModSec", "mod_sec", kInt64, "autoUpdateTime", "sec", ""},
	{"ModMs", "mod_ms", kInt64, "autoUpdateTime:milli", "milli", ""},
	{"ModNs", "mod_ns", kInt64, "autoUpdateTime:nano", "nano", ""},
	{"Born", "born", kInt64, "autoCreateTime", "", "sec"},
	{"MadeAt", "made_at", kTime, "autoCreateTime", "", "time"},
}

func genModel(r *core.Rand, table string) *model {
	m := &model{table: table}
	add := func(f *field) *field {
		f.idx = len(m.fields)
		m.fields = append(m.fields, f)
		return f
	}
	switch r.Intn(6) {
	case 0:
		m.pk = add(&field{name: "ID", col: "id", k: kUint, pk: true, canCreate: true, canUpdate: true})
	case 1:
		m.pk = add(&field{name: "Code", col: "code", k: kString, tag: "primaryKey", pk: true, canCreate: true, canUpdate: true})
	case 2:
		m.pk = add(&field{name: "K1", col: "k1", k: kInt64, tag: "primaryKey;autoIncrement:false", pk: true, canCreate: true, canUpdate: true})
		add(&field{name: "K2", col: "k2", k: kString, tag: "primaryKey", pk: true, canCreate: true, canUpdate: true})
	default:
		m.pk = add(&field{name: "ID", col: "id", k: kInt64, tag: "primaryKey", pk: true, canCreate: true, canUpdate: true})
	}
	npk := len(m.fields)
	names := r.Perm(len(namePool))
	n := r.Range(3, 7)
	plain := 0
	for i := 0; i < n; i++ {
		nc := namePool[names[i]]
		f := &field{name: nc.name, col: nc.col, k: core.Pick(r, kinds)}
		var tags []string
		if r.Chance(1, 4) {
			f.col = "c_" + f.col
			tags = append(tags, "column:"+f.col)
		}
		p := pickPerm(r)
		withDefault := r.Chance(3, 10)
		if i == n-1 && plain == 0 {
			p = perms[0] // at least one fully writable field (without a default: always part of an INSERT)
			withDefault = false
		}
		if p.tag == "" && !withDefault {
			plain++
		}
		f.perm, f.canCreate, f.canUpdate, f.free, f.ignored = p.tag, p.create, p.update, p.free, p.ignored
		defTag := ""
		if withDefault && !f.ignored && !strings.Contains(p.tag, "->:false") {
			defTag = f.defaultFor(r, i)
		}
		defFirst := r.Bool()
		if defTag != "" && defFirst {
			tags = append(tags, defTag)
		}
		if p.tag != "" {
			tags = append(tags, p.tag)
		}
		if defTag != "" && !defFirst {
			tags = append(tags, defTag)
		}
		if kt := f.k.kindTag(); kt != "" {
			if r.Bool() {
				tags = append(tags, kt)
			} else {
				tags = append([]string{kt}, tags...)
			}
		}
		f.tag = strings.Join(tags, ";")
		add(f)
	}
	// association fields: one model in three has 1..2 relations to the static types of assoc.go; a
	// belongs-to relation brings its foreign-key field (fully writable, an ordinary data field for
	// every other operation)
	m.genRelations(r, add)
	// auto-time fields (always fully writable: a tracked time field that also denies writing is
	// a contradiction the statement does not resolve)
	na := core.Pick(r, []int{0, 1, 1, 1, 2, 2, 3})
	used := map[string]bool{}
	for i := 0; i < na; i++ {
		a := core.Pick(r, autoPool)
		if used[a.name] {
			continue
		}
		used[a.name] = true
		add(&field{name: a.name, col: a.col, k: a.k, tag: a.tag, canCreate: true, canUpdate: true, autoUpd: a.upd, autoCre: a.cre})
	}
	// shuffle the non-key fields so that auto-time fields are not always last
	rest := m.fields[npk:]
	p := r.Perm(len(rest))
	sh := make([]*field, len(rest))
	for i, j := range p {
		sh[i] = rest[j]
	}
	copy(m.fields[npk:], sh)
	m.pks = m.fields[:npk]
	for i, f := range m.fields {
		f.idx = i
	}
	m.layout(r, npk)
	for _, rl := range m.rels {
		at := r.Range(npk, len(m.top))
		m.top = append(m.top, nil)
		copy(m.top[at+1:], m.top[at:])
		m.top[at] = &item{r: rl}
	}
	// soft-delete models: one model in three (drawn from a forked stream: the other draws of the
	// case do not move)
	if sr := r.Fork(); sr.Chance(1, 3) {
		m.soft = true
		at := sr.Range(npk, len(m.top))
		m.top = append(m.top, nil)
		copy(m.top[at+1:], m.top[at:])
		m.top[at] = &item{s: true}
	}
	m.typ = reflect.StructOf(m.build(m.top, nil))
	// rows: 3..6 distinct keys out of 1..9, every cell a unique sentinel
	nr := r.Range(3, 6)
	ks := r.Perm(9)[:nr]
	if npk == 2 && r.Bool() {
		// composite key whose parts may legally be zero (k1 = 0, k2 = ""): a 3 x 3 grid over
		// {0,1,2} x {"","a","b"} without the all-zero key; 2..3 rows with a complete key and 1..3
		// rows with exactly one zero part
		m.zeroGrid = true
		full := []int{4, 5, 7, 8}
		part := []int{1, 2, 3, 6}
		ks = nil
		nf := r.Range(2, 3)
		for _, i := range r.Perm(4)[:nf] {
			ks = append(ks, full[i])
		}
		for _, i := range r.Perm(4)[:r.Range(1, 3)] {
			ks = append(ks, part[i])
		}
		sh := r.Perm(len(ks))
		ks2 := make([]int, len(ks))
		for i, j := range sh {
			ks2[i] = ks[j]
		}
		ks = ks2
	}
	for ri, kn := range ks {
		row := seedRow{cells: make([]lval, len(m.fields))}
		switch {
		case m.zeroGrid:
			row.key = lval{v: []lval{{v: int64(kn / 3)}, {v: []string{"", "a", "b"}[kn%3]}}}
		case npk == 2:
			// 3 x 3 key grid: every key part is shared by several rows
			row.key = lval{v: []lval{{v: int64(kn/3 + 1)}, {v: string(rune('a' + kn%3))}}}
		case m.pk.k.class == "string":
			row.key = lval{v: fmt.Sprintf("k%d", kn+1)}
		default:
			row.key = lval{v: int64(kn + 1)}
			if int64(kn+1) > m.maxKey {
				m.maxKey = int64(kn + 1)
			}
		}
		for i, part := range m.keyParts(row.key) {
			row.cells[m.pks[i].idx] = part
		}
		for _, f := range m.fields {
			if !f.pk {
				row.cells[f.idx] = sentinel(f, ri)
			}
		}
		m.rows = append(m.rows, row)
	}
	return m
}

func sentinel(f *field, ri int) lval {
	n := int64(1000 + ri*40 + f.idx)
	switch f.k.class {
	case "int", "uint":
		return lval{v: n}
	case "float":
		return lval{v: float64(n) + 0.5}
	case "string":
		return lval{v: fmt.Sprintf("s%d_%d", ri, f.idx)}
	case "time":
		return lval{v: time.Date(2001, 1, 1+ri, f.idx, 0, 0, 0, time.UTC)}
	case "jstrs":
		return lval{v: []string{fmt.Sprintf("s%d_%d", ri, f.idx), "x"}}
	case "list":
		return lval{v: []string{fmt.Sprintf("l%d_%d", ri, f.idx)}}
	case "jmap":
		return lval{v: map[string]int64{"s": n, "t": 1}}
	default:
		return lval{v: []byte(fmt.Sprintf("b%d_%d", ri, f.idx))}
	}
}

// fresh returns the n-th generated non-zero value of a class (never equal to a sentinel).
func fresh(class string, n int) lval {
	switch class {
	case "int", "uint":
		return lval{v: int64(n)}
	case "float":
		return lval{v: float64(n) + 0.25}
	case "string":
		return lval{v: fmt.Sprintf("v%d", n)}
	case "time":
		return lval{v: time.Date(2015, 1, 1, 0, 0, 0, 0, time.UTC).Add(time.Duration(n) * time.Hour)}
	case "jstrs":
		return lval{v: []string{fmt.Sprintf("v%d", n)}}
	case "list":
		return lval{v: []string{fmt.Sprintf("w%d", n), "z"}}
	case "jmap":
		return lval{v: map[string]int64{"v": int64(n)}}
	default:
		return lval{v: []byte(fmt.Sprintf("w%d", n))}
	}
}

// ---- declaration layout: embedded structs and duplicate columns -------------------------

var ghostTags = []string{"<-:false;->:false", "->:false;<-:false"}

// layout decides where every non-key field is declared: at the top level or inside one of 1..2
// embedded structs (each possibly holding one nested embedded struct), and adds 0..2 duplicate
// fields (see dup). Half of the models stay flat.
func (m *model) layout(r *core.Rand, npk int) {
	for _, f := range m.fields[:npk] {
		m.top = append(m.top, &item{f: f})
	}
	rest := m.fields[npk:]
	if !r.Chance(1, 2) {
		for _, f := range rest {
			m.top = append(m.top, &item{f: f})
		}
		return
	}
	newGroup := func(name string, parent *group) *group {
		g := &group{name: name, parent: parent, anon: r.Chance(2, 5), ptr: r.Chance(1, 4)}
		if r.Bool() {
			g.prefix = strings.ToLower(name) + "_"
		}
		switch {
		case !g.anon && g.prefix == "":
			g.tag = "embedded"
		case !g.anon:
			g.tag = "embedded;embeddedPrefix:" + g.prefix
		case g.prefix == "":
			g.tag = ""
		case r.Bool():
			g.tag = "embeddedPrefix:" + g.prefix
		default:
			g.tag = "embedded;embeddedPrefix:" + g.prefix
		}
		return g
	}
	var cand []*group
	ng := core.Pick(r, []int{1, 1, 2})
	for i := 0; i < ng; i++ {
		g := newGroup([]string{"Meta", "Info"}[i], nil)
		cand = append(cand, g)
		if r.Chance(1, 4) {
			cand = append(cand, newGroup([]string{"Sub", "Ext"}[i], g))
		}
	}
	placed := map[*group]bool{}
	var place func(g *group)
	place = func(g *group) { // declares the embedded struct (at the current end of its parent)
		if placed[g] {
			return
		}
		placed[g] = true
		m.groups = append(m.groups, g)
		if g.parent == nil {
			m.top = append(m.top, &item{g: g})
			return
		}
		place(g.parent)
		g.parent.items = append(g.parent.items, &item{g: g})
	}
	for _, f := range rest {
		// top level : each embedded struct = 3 : 2
		n := r.Intn(3 + 2*len(cand))
		if n < 3 {
			m.top = append(m.top, &item{f: f})
			continue
		}
		g := cand[(n-3)/2]
		place(g)
		f.grp = g
		g.items = append(g.items, &item{f: f})
	}
	for _, f := range rest {
		if f.grp != nil {
			f.col = f.grp.cumPrefix() + f.col
		}
	}
	// duplicate columns
	insert := func(items []*item, at int, it *item) []*item {
		items = append(items, nil)
		copy(items[at+1:], items[at:])
		items[at] = it
		return items
	}
	natural := func(f *field) string {
		for _, nc := range namePool {
			if nc.name == f.name {
				return nc.col
			}
		}
		return ""
	}
	for _, i := range r.Perm(len(rest)) {
		f := rest[i]
		if len(m.dups) >= 2 {
			break
		}
		if f.ignored || f.autoUpd != "" || f.autoCre != "" || natural(f) == "" || !r.Chance(1, 2) {
			continue
		}
		d := &dup{id: len(m.dups), name: f.name, k: f.k, main: f}
		var tags []string
		if f.grp != nil {
			// the duplicate sits at the top level: a shorter path than main's
			d.role = "ghost-outer"
			// declared after the embedded struct (the plain shadowing case). Declared BEFORE it, the permission-less
			// field is the first to claim the column and gorm keeps it (the embedded writable field is ignored):
			// which of two fields owns a column is not fixed by the statement, so that order is not generated
			// (the draw stays, so the streams of the other cases do not move)
			d.first = false
			r.Chance(1, 3)
			tags = append(tags, core.Pick(r, ghostTags))
			if f.col != natural(f) || r.Chance(1, 3) {
				tags = append(tags, "column:"+f.col)
			}
			at := 0
			for j, it := range m.top {
				if it.g == f.grp.root() {
					at = j
				}
			}
			if d.first {
				m.top = insert(m.top, r.Range(npk, at), &item{d: d})
				f.blocked = true
			} else {
				m.top = insert(m.top, r.Range(at+1, len(m.top)), &item{d: d})
			}
		} else {
			// the duplicate sits inside an embedded struct without column prefix: a longer path
			var gs []*group
			for _, g := range m.groups {
				if g.cumPrefix() == "" {
					gs = append(gs, g)
				}
			}
			if len(gs) == 0 {
				continue
			}
			d.grp = core.Pick(r, gs)
			d.role = "ghost-inner"
			if !f.free && r.Bool() {
				d.role = "shadowed-inner"
			}
			if d.role == "ghost-inner" {
				tags = append(tags, core.Pick(r, ghostTags))
			} else {
				p := pickPerm(r)
				for p.ignored {
					p = pickPerm(r)
				}
				if p.tag != "" {
					tags = append(tags, p.tag)
				}
			}
			if f.col != natural(f) || r.Chance(1, 3) {
				tags = append(tags, "column:"+f.col)
			}
			d.grp.items = insert(d.grp.items, r.Range(0, len(d.grp.items)), &item{d: d})
		}
		if len(tags) == 2 && r.Bool() {
			tags[0], tags[1] = tags[1], tags[0]
		}
		if kt := d.k.kindTag(); kt != "" {
			tags = append(tags, kt)
		}
		d.tag = strings.Join(tags, ";")
		f.dup = d
		m.dups = append(m.dups, d)
	}
}

// build makes the struct fields of one declaration level and records the reflect index paths.
func (m *model) build(items []*item, path []int) []reflect.StructField {
	var sf []reflect.StructField
	gtag := func(t string) reflect.StructTag {
		if t == "" {
			return ""
		}
		return reflect.StructTag(`gorm:"` + t + `"`)
	}
	for i, it := range items {
		p := append(append([]int(nil), path...), i)
		switch {
		case it.s:
			sf = append(sf, reflect.StructField{Name: "DeletedAt", Type: tDeletedAt})
		case it.r != nil:
			it.r.index = i
			sf = append(sf, reflect.StructField{Name: it.r.name, Type: it.r.goType(), Tag: gtag(it.r.tag)})
		case it.f != nil && len(path) == 0 && i == 0:
			// the table name is part of the first field's tag: every case has a type of its own (reflect
			// caches identical struct types, gorm caches one schema - and one table name - per type)
			it.f.path = p
			tag := reflect.StructTag(`verif:"` + m.table + `"`)
			if it.f.tag != "" {
				tag = gtag(it.f.tag) + " " + tag
			}
			sf = append(sf, reflect.StructField{Name: it.f.name, Type: it.f.k.typ, Tag: tag})
		case it.f != nil:
			it.f.path = p
			sf = append(sf, reflect.StructField{Name: it.f.name, Type: it.f.k.typ, Tag: gtag(it.f.tag)})
		case it.d != nil:
			it.d.path = p
			sf = append(sf, reflect.StructField{Name: it.d.name, Type: it.d.k.typ, Tag: gtag(it.d.tag)})
		default:
			g := it.g
			g.typ = reflect.StructOf(m.build(g.items, p))
			t := g.typ
			if g.ptr {
				t = reflect.PtrTo(t)
			}
			sf = append(sf, reflect.StructField{Name: g.name, Type: t, Tag: gtag(g.tag), Anonymous: g.anon})
		}
	}
	return sf
}

// setPath sets the field at an index path below root (a struct), allocating embedded pointers.
func setPath(root reflect.Value, path []int, v reflect.Value) {
	cur := root
	for _, ix := range path {
		if cur.Kind() == reflect.Ptr {
			if cur.IsNil() {
				cur.Set(reflect.New(cur.Type().Elem()))
			}
			cur = cur.Elem()
		}
		cur = cur.Field(ix)
	}
	cur.Set(v)
}

func (m *model) declItems(items []*item, indent string) []string {
	var out []string
	for _, it := range items {
		switch {
		case it.s:
			out = append(out, indent+"DeletedAt gorm.DeletedAt")
		case it.r != nil:
			out = append(out, indent+it.r.decl())
		case it.f != nil:
			out = append(out, indent+it.f.decl())
		case it.d != nil:
			out = append(out, indent+it.d.decl())
		default:
			g := it.g
			head := g.name + " "
			if g.anon {
				head = "/* embedded anonymously, type name */ " + g.name + " = "
			}
			if g.ptr {
				head += "*"
			}
			out = append(out, indent+head+"struct {")
			out = append(out, m.declItems(g.items, indent+"    ")...)
			tail := "}"
			if g.tag != "" {
				tail += " `gorm:\"" + g.tag + "\"`"
			}
			out = append(out, indent+tail)
		}
	}
	return out
}

func (m *model) decls() []string { return m.declItems(m.top, "") }

// layoutFeatures: the embedding forms the model uses.
func (m *model) layoutFeatures() []string {
	if len(m.groups) == 0 {
		return []string{"flat"}
	}
	seen := map[string]bool{}
	for _, g := range m.groups {
		if g.anon {
			seen["anonymous"] = true
		} else {
			seen["by-tag"] = true
		}
		if g.ptr {
			seen["pointer"] = true
		} else {
			seen["value"] = true
		}
		if g.prefix != "" {
			seen["prefix"] = true
		}
		if g.parent != nil {
			seen["nested"] = true
		}
	}
	var out []string
	for n := range seen {
		out = append(out, n)
	}
	sort.Strings(out)
	return out
}

// layoutName: the embedding forms of the model (part of the case shape).
func (m *model) layoutName() string { return strings.Join(m.layoutFeatures(), "+") }

// fullKey: every part of the key is non-zero.
func (m *model) fullKey(k lval) bool {
	for i, part := range m.keyParts(k) {
		if isGoZero(m.pks[i].k, part) {
			return false
		}
	}
	return true
}

func (m *model) createSQL() string {
	var cols []string
	for _, f := range m.fields {
		c := "`" + f.col + "` " + f.k.sql
		if f.pk && !m.composite() {
			c += " PRIMARY KEY"
		}
		if f.defSQL != "" {
			c += " " + f.defSQL
		}
		cols = append(cols, c)
	}
	if m.soft {
		cols = append(cols, "`"+softCol+"` DATETIME")
	}
	if m.composite() {
		cols = append(cols, "PRIMARY KEY (`k1`, `k2`)")
	}
	return "CREATE TABLE `" + m.table + "` (" + strings.Join(cols, ", ") + ")"
}

// keyParts splits a key value into the values of the key fields.
func (m *model) keyParts(k lval) []lval {
	if parts, ok := k.v.([]lval); ok {
		return parts
	}
	return []lval{k}
}

func (m *model) composite() bool { return len(m.pks) > 1 }

// keyIsZero: a zero key (database-assigned on insert, no condition on update).
func (m *model) keyIsZero(k lval) bool {
	for i, part := range m.keyParts(k) {
		if !isGoZero(m.pks[i].k, part) {
			return false
		}
	}
	return true
}

func (m *model) zeroKey() lval {
	if m.composite() {
		return lval{v: []lval{zeroBase("int"), zeroBase("string")}}
	}
	return zeroBase(m.pk.k.class)
}

// setKey puts key k into the key fields of a record.
func (m *model) setKey(rc *rec, k lval) {
	for i, part := range m.keyParts(k) {
		rc.vals[m.pks[i].idx] = mval{form: "typed", lv: part}
	}
}

// recKey reads the key of a record (ok=false when a key field is missing).
func (m *model) recKey(rc *rec) (lval, bool) {
	var parts []lval
	for _, f := range m.pks {
		v, ok := rc.vals[f.idx]
		if !ok {
			return lval{}, false
		}
		parts = append(parts, v.lv)
	}
	if len(parts) == 1 {
		return parts[0], true
	}
	return lval{v: parts}, true
}

// newStruct returns a *T with the given fields (and duplicate fields, by dup id) set.
func (m *model) newStruct(vals map[int]lval, dvals map[int]lval) reflect.Value {
	p := reflect.New(m.typ)
	for i, l := range vals {
		setPath(p.Elem(), m.fields[i].path, goValue(m.fields[i].k, l))
	}
	for i, l := range dvals {
		setPath(p.Elem(), m.dups[i].path, goValue(m.dups[i].k, l))
	}
	return p
}

func (m *model) litItems(items []*item, vals map[int]lval, dvals map[int]lval, kids map[string][]kid) string {
	var parts []string
	for _, it := range items {
		switch {
		case it.s:
			// always the zero value
		case it.r != nil:
			if ks := kids[it.r.name]; len(ks) > 0 {
				parts = append(parts, it.r.name+": "+relationLit(it.r, ks))
			}
		case it.f != nil:
			if l, ok := vals[it.f.idx]; ok && !isGoZero(it.f.k, l) {
				parts = append(parts, it.f.name+": "+goLit(it.f.k, l))
			}
		case it.d != nil:
			if l, ok := dvals[it.d.id]; ok && !isGoZero(it.d.k, l) {
				parts = append(parts, it.d.name+": "+goLit(it.d.k, l))
			}
		default:
			if in := m.litItems(it.g.items, vals, dvals, nil); in != "" {
				amp := ""
				if it.g.ptr {
					amp = "&"
				}
				parts = append(parts, it.g.name+": "+amp+"{"+in+"}")
			}
		}
	}
	return strings.Join(parts, ", ")
}

func (m *model) structLit(vals map[int]lval, dvals map[int]lval) string {
	return "T{" + m.litItems(m.top, vals, dvals, nil) + "}"
}

// setKids puts associated records into the relation fields (top level) of the *T p.
func (m *model) setKids(p reflect.Value, kids map[string][]kid) {
	for _, rl := range m.rels {
		if ks := kids[rl.name]; len(ks) > 0 {
			setRelation(p, rl, ks)
		}
	}
}

// recStruct: the *T of a struct record - its fields, duplicate fields and the associated records its
// relation fields carry - and its literal "T{...}".
func (m *model) recStruct(rc *rec) (reflect.Value, string) {
	p := m.newStruct(rc.lvals(), rc.dvals)
	m.setKids(p, rc.kids)
	return p, "T{" + m.litItems(m.top, rc.lvals(), rc.dvals, rc.kids) + "}"
}

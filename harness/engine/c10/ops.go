package c10

import (
	"fmt"
	"reflect"
	"sort"
	"strconv"
	"strings"

	"gorm.io/gorm"
	"gorm.io/gorm/clause"

	"verif/core"
)

// ---- operation description ----------------------------------------------------------

type nameRef struct {
	fi    int  // field index; -1 = "*"
	byCol bool // spelled as the column name instead of the field name
	qual  bool // column spelling qualified with the statement's table: "<table>.<column>"
}

func (n nameRef) text(m *model) string {
	if n.fi < 0 {
		return "*"
	}
	if n.byCol {
		if n.qual {
			return m.table + "." + m.fields[n.fi].col
		}
		return m.fields[n.fi].col
	}
	return m.fields[n.fi].name
}

// spelling of one name: by field name, by column name, or (1 column spelling in 6) by column name
// qualified with the table the statement writes.
func (g *gen) ref(f *field) nameRef {
	n := nameRef{fi: f.idx, byCol: !f.ignored && g.r.Bool()}
	n.qual = n.byCol && g.r.Chance(1, 6)
	return n
}

// mval is one value handed to gorm for one field.
type mval struct {
	form string // typed | basic | nil | expr-add | expr-cat | expr-null | expr-sum
	lv   lval
	n    int64
	s    string
}

func (v mval) arg(f *field) interface{} {
	switch v.form {
	case "typed":
		if f.k.serialized() && !v.lv.null {
			return dbArg(v.lv.v) // a map value does not pass through the serializer: stored form
		}
		return goValue(f.k, v.lv).Interface()
	case "basic":
		return int(v.lv.v.(int64))
	case "nil":
		return nil
	case "expr-add":
		return gorm.Expr(f.col+" + ?", v.n)
	case "expr-cat":
		return gorm.Expr(f.col+" || ?", v.s)
	case "expr-null":
		return gorm.Expr("NULL")
	case "expr-sum":
		return gorm.Expr("? + ?", v.n, 1)
	}
	panic("mval form " + v.form)
}

func (v mval) lit(f *field) string {
	switch v.form {
	case "typed":
		if f.k.serialized() && !v.lv.null {
			return strconv.Quote(dbArg(v.lv.v).(string))
		}
		return goLit(f.k, v.lv)
	case "basic":
		return fmt.Sprintf("int(%d)", v.lv.v.(int64))
	case "nil":
		return "nil"
	case "expr-add":
		return fmt.Sprintf("gorm.Expr(%q, %d)", f.col+" + ?", v.n)
	case "expr-cat":
		return fmt.Sprintf("gorm.Expr(%q, %q)", f.col+" || ?", v.s)
	case "expr-null":
		return `gorm.Expr("NULL")`
	case "expr-sum":
		return fmt.Sprintf(`gorm.Expr("? + ?", %d, 1)`, v.n)
	}
	return "?"
}

// stored: the canonical cell content after writing v over old.
func (v mval) stored(old lval) string {
	switch v.form {
	case "typed", "basic":
		return normL(v.lv)
	case "nil", "expr-null":
		return "NULL"
	case "expr-add":
		if old.null {
			return "NULL"
		}
		return strconv.FormatInt(old.v.(int64)+v.n, 10)
	case "expr-cat":
		if old.null {
			return "NULL"
		}
		return strconv.Quote(old.v.(string) + v.s)
	case "expr-sum":
		return strconv.FormatInt(v.n+1, 10)
	}
	return "?"
}

type rec struct {
	vals  map[int]mval
	order []int
	byCol map[int]bool
	dvals map[int]lval // values of the duplicate fields (struct records only), by dup id
	// kids: associated records the relation fields of a struct record carry, by relation name
	kids map[string][]kid
}

func (rc *rec) lvals() map[int]lval {
	out := map[int]lval{}
	for i, v := range rc.vals {
		out[i] = v.lv
	}
	return out
}

func (rc *rec) mapArg(m *model) (map[string]interface{}, string) {
	out := map[string]interface{}{}
	var parts []string
	for _, fi := range rc.order {
		f := m.fields[fi]
		k := f.name
		if rc.byCol[fi] {
			k = f.col
		}
		out[k] = rc.vals[fi].arg(f)
		parts = append(parts, fmt.Sprintf("%q: %s", k, rc.vals[fi].lit(f)))
	}
	return out, "map[string]interface{}{" + strings.Join(parts, ", ") + "}"
}

type cond struct {
	gq    interface{}
	gargs []interface{}
	rsql  string
	rargs []interface{}
	desc  string
	// or: the condition joins the chain with .Or(..) instead of .Where(..) (never the first one)
	or bool
}

// call: the chain call of the condition as Go text.
func (c cond) call() string {
	if c.or {
		return "Or(" + strings.TrimPrefix(c.desc, "Where(")
	}
	return c.desc
}

type assign struct {
	fi int
	v  mval
}

type op struct {
	kind, family string
	tform        string
	useModel     bool
	modelKeys    []lval
	modelSlice   bool
	// Model(slice): the elements as handed over (modelKeys = their distinct non-zero keys): elements
	// may repeat a key and may carry a zero key (no key: addresses no row); zeroLast = the LAST
	// element has a zero key; the container is a slice or an array of T or *T
	modelElems   []lval
	zeroLast     bool
	modelArray   bool
	modelElemPtr bool
	valueIsModel bool
	conds        []cond
	sel, omit    []nameRef
	// how the lists of names reach Select / Omit. selForm: "variadic" Select(a, b, c) | "slice"
	// Select([]string{a, b, c}) | "str+slice" Select(a, []string{b, c}) | "slice+str"
	// Select([]string{a, b}, c) | "slice+slice" Select([]string{a}, []string{b, c}).
	// omitJoin: "" = Omit(a, b, c); otherwise ONE string holding the names joined by this separator
	// (a comma with optional blanks around it), Omit("a, b, c")
	selForm    string
	omitJoin   string
	selMode    string
	recs       []*rec
	isMap      bool
	valPtr     bool
	elemPtr    bool
	batch      int
	doCols     []int
	doAssign   []assign
	col        nameRef
	hooks      bool // a hook-running update finisher
	saveAll    bool
	dropKey    bool  // a create whose records carry keys while the key column is omitted / not selected
	chainOrder []int // order of the chain calls Model, Where, Select, Omit, Clauses (nil = this order)
	reordered  bool
	forms      map[string]bool
	// update family: the chain carries Clauses(clause.Returning{...}): "" | "all" (RETURNING *) |
	// "cols" (named columns retCols; the key columns are all named or none is)
	returning string
	retCols   []int
	// next: a SECOND update finisher run on the same *gorm.DB handle (same chain: Model, Where, Select,
	// Omit, Clauses) after this one, without a new Session; second marks such a follow-up;
	// viaResult: it is called on the handle the first finisher returned (the chained spelling
	// ....Updates(a).UpdateColumns(b)) instead of on the variable holding the chain
	next      *op
	second    bool
	viaResult bool
	// foc: the finisher is FirstOrCreate (with Attrs / Assign); assoc: an association-mode call
	foc   *focOp
	assoc *assocOp
	// noTable: the chain does not start with db.Table(name): the table comes from the model's schema
	noTable bool
	// modelKids: associated records the relation fields of the Model value of an update finisher carry
	// (one entry per element of a Model(slice)); struct records carry theirs in rec.kids
	modelKids []map[string][]kid
	// upserts: ocWhere = the condition of a conditional upsert (OnConflict.Where), ocKeys the stored rows
	// that satisfy it (filled in by run); ocTarget = a predicate of the conflict target (TargetWhere)
	// every row satisfies; ocCols = UpdateAll names the key as conflict target itself
	ocWhere  *ocCond
	ocKeys   map[string]bool
	ocTarget *ocCond
	ocCols   bool
	// soft-delete models, update family: dead = the keys of the rows seeded as soft-deleted (deleted_at
	// holds a time) for this operation; unscoped = the chain carries Unscoped() (first call of the chain
	// or, unscopedLast, the last one before the finisher): only then the dead rows are addressable
	dead         map[string]bool
	unscoped     bool
	unscopedLast bool
	// doNothingWhere: the recorded INSERT of a conditional UpdateAll reads "DO NOTHING WHERE" (set by run)
	doNothingWhere bool
}

// ---- generator ----------------------------------------------------------------------

type gen struct {
	r *core.Rand
	m *model
	n int
}

func (g *gen) next() int { g.n++; return g.n }

func (g *gen) nonKey() []*field {
	var out []*field
	for _, f := range g.m.fields {
		if !f.pk {
			out = append(out, f)
		}
	}
	return out
}

// seedKey: the key of a seeded row, always a complete one (a struct value with a partly zero key
// addresses rows by its non-zero parts only: not fixed by the statement).
func (g *gen) seedKey() lval {
	rows := g.fullRows()
	return rows[g.r.Intn(len(rows))].key
}

func (g *gen) newKey(i int) lval {
	if g.m.composite() {
		// a new key shares one part with existing rows
		if g.r.Bool() {
			return lval{v: []lval{{v: int64(1 + i%3)}, {v: fmt.Sprintf("n%d", i+1)}}}
		}
		return lval{v: []lval{{v: int64(20 + i)}, {v: "a"}}}
	}
	if g.m.pk.k.class == "string" {
		return lval{v: fmt.Sprintf("n%d", i+1)}
	}
	return lval{v: int64(20 + i)}
}

func (g *gen) structVal(f *field) lval {
	c := f.k.class
	if f.autoUpd != "" || f.autoCre != "" {
		if g.r.Chance(3, 4) {
			if f.k.wrap == "plain" {
				return zeroBase(c)
			}
			return lval{null: true}
		}
		return fresh(c, g.next())
	}
	if f.k.wrap == "plain" {
		if g.r.Chance(2, 5) {
			return zeroBase(c)
		}
		if isColl(c) && g.r.Chance(1, 3) {
			return emptyOf(c) // empty but not nil: NOT the zero value of a slice / map type
		}
		return fresh(c, g.next())
	}
	switch g.r.Intn(10) {
	case 0, 1, 2:
		return lval{null: true}
	case 3, 4:
		z := zeroBase(c)
		if z.null {
			return fresh(c, g.next())
		}
		return z // pointer to zero / Null*{Valid:true}: a non-zero Go value writing a zero
	default:
		return fresh(c, g.next())
	}
}

// structRec: a full record (every field has a value) with the given key.
func (g *gen) structRec(key lval) *rec {
	rc := &rec{vals: map[int]mval{}}
	for _, f := range g.m.fields {
		if !f.pk {
			rc.vals[f.idx] = mval{form: "typed", lv: g.structVal(f)}
		}
	}
	g.m.setKey(rc, key)
	for _, d := range g.m.dups {
		if rc.dvals == nil {
			rc.dvals = map[int]lval{}
		}
		switch {
		case d.role == "shadowed-inner":
			// shadowed by the outer field that owns the column: always left zero
		case g.r.Chance(3, 4):
			rc.dvals[d.id] = fresh(d.k.class, g.next()) // must never reach the column
		}
	}
	return rc
}

// fullRows: the seeded rows whose key is complete (no zero part).
func (g *gen) fullRows() []seedRow {
	var out []seedRow
	for _, rw := range g.m.rows {
		if g.m.fullKey(rw.key) {
			out = append(out, rw)
		}
	}
	return out
}

func (g *gen) mapVal(f *field, ctx string, o *op) mval {
	c := f.k.class
	x := g.r.Intn(20)
	var v mval
	switch {
	case x < 7:
		v = mval{form: "typed", lv: fresh(c, g.next())}
	case x < 12:
		z := zeroBase(c)
		if isColl(c) {
			z = emptyOf(c)
		} else if z.null {
			z = fresh(c, g.next())
		}
		v = mval{form: "typed", lv: z}
	case x < 15:
		v = mval{form: "nil", lv: lval{null: true}}
	default:
		switch {
		case ctx == "create" && (c == "int" || c == "uint"):
			v = mval{form: "expr-sum", n: int64(g.next())}
		case ctx == "create":
			v = mval{form: "expr-null"}
		case c == "int" || c == "uint":
			v = mval{form: "expr-add", n: int64(g.next())}
		case c == "string":
			v = mval{form: "expr-cat", s: fmt.Sprintf("+%d", g.next())}
		default:
			v = mval{form: "expr-null"}
		}
	}
	if v.form == "typed" && f.k.wrap == "plain" && c == "int" && g.r.Bool() {
		v.form = "basic"
	}
	if f.ignored {
		v = mval{form: "typed", lv: fresh(c, g.next())}
	}
	o.forms[v.form] = true
	return v
}

// mapRec: a record holding 1..4 keys.
func (g *gen) mapRec(o *op, ctx string, cands []*field) *rec {
	rc := &rec{vals: map[int]mval{}, byCol: map[int]bool{}}
	if len(cands) == 0 {
		return rc
	}
	p := g.r.Perm(len(cands))
	n := g.r.Range(1, 4)
	if n > len(cands) {
		n = len(cands)
	}
	for i := 0; i < n; i++ {
		f := cands[p[i]]
		rc.vals[f.idx] = g.mapVal(f, ctx, o)
		rc.order = append(rc.order, f.idx)
		rc.byCol[f.idx] = !f.ignored && g.r.Bool()
	}
	sort.Ints(rc.order)
	return rc
}

func inList(n int) string {
	return "(" + strings.TrimSuffix(strings.Repeat("?,", n), ",") + ")"
}

func (g *gen) keyArgs(ks []lval) (typed interface{}, flat []interface{}) {
	if g.m.pk.k.class == "string" {
		var t []string
		for _, k := range ks {
			t = append(t, k.v.(string))
			flat = append(flat, k.v)
		}
		return t, flat
	}
	var t []int64
	for _, k := range ks {
		t = append(t, k.v.(int64))
		flat = append(flat, k.v)
	}
	return t, flat
}

func argLit(a interface{}) string {
	switch x := a.(type) {
	case string:
		return strconv.Quote(x)
	case []string:
		return fmt.Sprintf("%#v", x)
	case []int64:
		return fmt.Sprintf("%#v", x)
	case map[string]interface{}:
		var ks []string
		for k := range x {
			ks = append(ks, k)
		}
		sort.Strings(ks)
		var parts []string
		for _, k := range ks {
			parts = append(parts, fmt.Sprintf("%q: %s", k, argLit(x[k])))
		}
		return "map[string]interface{}{" + strings.Join(parts, ", ") + "}"
	default:
		return fmt.Sprintf("%v", a)
	}
}

// cond: one condition selecting a (mostly strict, mostly non-empty) subset of the seeded rows;
// `must`, when not nil, is a key the condition should select.
func (g *gen) cond(must *lval) cond {
	m, r := g.m, g.r
	nr := len(m.rows)
	p := r.Perm(nr)
	sz := r.Range(1, nr-1)
	var rows []seedRow
	for i := 0; i < sz; i++ {
		rows = append(rows, m.rows[p[i]])
	}
	if must != nil && r.Chance(2, 3) {
		found := false
		for _, rw := range rows {
			if normL(rw.key) == normL(*must) {
				found = true
			}
		}
		if !found {
			for _, rw := range m.rows {
				if normL(rw.key) == normL(*must) {
					rows[0] = rw
				}
			}
		}
	}
	var keys []lval
	for _, rw := range rows {
		keys = append(keys, rw.key)
	}
	var dataF []*field
	for _, f := range m.fields {
		if !f.pk && !f.ignored && f.k.wrap == "plain" && (f.k.class == "int" || f.k.class == "uint" || f.k.class == "string") {
			dataF = append(dataF, f)
		}
	}
	pkc := m.pk.col
	form := r.Intn(8)

	if (form == 3 || form == 4 || form == 7) && len(dataF) == 0 {
		form = 0
	}
	if form == 2 && m.pk.k.class == "string" {
		form = 1
	}
	if m.composite() && form != 3 && form != 4 && form != 7 {
		return g.compositeCond(rows, form)
	}
	mk := func(q string, gargs []interface{}, rsql string, rargs []interface{}) cond {
		var al []string
		for _, a := range gargs {
			al = append(al, argLit(a))
		}
		return cond{gq: q, gargs: gargs, rsql: rsql, rargs: rargs, desc: fmt.Sprintf("Where(%q, %s)", q, strings.Join(al, ", "))}
	}
	switch form {
	case 0:
		typed, flat := g.keyArgs(keys)
		return mk(pkc+" IN ?", []interface{}{typed}, pkc+" IN "+inList(len(flat)), flat)
	case 1:
		return mk(pkc+" = ?", []interface{}{keys[0].v}, pkc+" = ?", []interface{}{keys[0].v})
	case 2:
		opr := core.Pick(r, []string{" > ?", " <= ?", " <> ?"})
		return mk(pkc+opr, []interface{}{keys[0].v}, pkc+opr, []interface{}{keys[0].v})
	case 3:
		f := core.Pick(r, dataF)
		v := rows[0].cells[f.idx].v
		return mk(f.col+" = ?", []interface{}{v}, f.col+" = ?", []interface{}{v})
	case 4:
		f := core.Pick(r, dataF)
		var flat []interface{}
		for _, rw := range rows {
			flat = append(flat, rw.cells[f.idx].v)
		}
		var typed interface{}
		if f.k.class == "string" {
			var t []string
			for _, x := range flat {
				t = append(t, x.(string))
			}
			typed = t
		} else {
			var t []int64
			for _, x := range flat {
				t = append(t, x.(int64))
			}
			typed = t
		}
		return mk(f.col+" IN ?", []interface{}{typed}, f.col+" IN "+inList(len(flat)), flat)
	case 5:
		mp := map[string]interface{}{pkc: keys[0].v}
		return cond{gq: mp, rsql: pkc + " = ?", rargs: []interface{}{keys[0].v}, desc: "Where(" + argLit(mp) + ")"}
	case 6:
		typed, flat := g.keyArgs(keys)
		mp := map[string]interface{}{pkc: typed}
		return cond{gq: mp, rsql: pkc + " IN " + inList(len(flat)), rargs: flat, desc: "Where(" + argLit(mp) + ")"}
	default:
		f := core.Pick(r, dataF)
		v := rows[0].cells[f.idx].v
		mp := map[string]interface{}{f.col: v}
		return cond{gq: mp, rsql: f.col + " = ?", rargs: []interface{}{v}, desc: "Where(" + argLit(mp) + ")"}
	}
}

// compositeCond: conditions over the parts of a two-column key (k1 int64, k2 string).
func (g *gen) compositeCond(rows []seedRow, form int) cond {
	m := g.m
	p0 := m.keyParts(rows[0].key)
	mk := func(q string, gargs []interface{}, rsql string, rargs []interface{}) cond {
		var al []string
		for _, a := range gargs {
			al = append(al, argLit(a))
		}
		return cond{gq: q, gargs: gargs, rsql: rsql, rargs: rargs, desc: fmt.Sprintf("Where(%q, %s)", q, strings.Join(al, ", "))}
	}
	switch form {
	case 0:
		a := []interface{}{p0[0].v, p0[1].v}
		return mk("k1 = ? AND k2 = ?", a, "k1 = ? AND k2 = ?", a)
	case 1:
		a := []interface{}{p0[0].v}
		return mk("k1 = ?", a, "k1 = ?", a)
	case 2:
		var t []string
		var flat []interface{}
		seen := map[string]bool{}
		for _, rw := range rows {
			k2 := m.keyParts(rw.key)[1].v.(string)
			if !seen[k2] && len(t) < 2 {
				seen[k2] = true
				t = append(t, k2)
				flat = append(flat, k2)
			}
		}
		return mk("k2 IN ?", []interface{}{t}, "k2 IN "+inList(len(flat)), flat)
	case 5:
		mp := map[string]interface{}{"k1": p0[0].v, "k2": p0[1].v}
		return cond{gq: mp, rsql: "k1 = ? AND k2 = ?", rargs: []interface{}{p0[0].v, p0[1].v}, desc: "Where(" + argLit(mp) + ")"}
	default:
		mp := map[string]interface{}{"k2": p0[1].v}
		return cond{gq: mp, rsql: "k2 = ?", rargs: []interface{}{p0[1].v}, desc: "Where(" + argLit(mp) + ")"}
	}
}

func (g *gen) names(cands []*field, prefer []int, lo, hi int) []nameRef {
	var out []nameRef
	if len(cands) == 0 {
		return out
	}
	n := g.r.Range(lo, hi)
	seen := map[int]bool{}
	for i := 0; i < n; i++ {
		var f *field
		if len(prefer) > 0 && g.r.Chance(3, 5) {
			f = g.m.fields[prefer[g.r.Intn(len(prefer))]]
			if f.pk {
				f = cands[g.r.Intn(len(cands))]
			}
		} else {
			f = cands[g.r.Intn(len(cands))]
		}
		if seen[f.idx] {
			continue
		}
		seen[f.idx] = true
		out = append(out, g.ref(f))
	}
	return out
}

// selOmit decides the Select/Omit calls. allowed: which modes the finisher admits.
func (g *gen) selOmit(o *op, modes []string, prefer []int) {
	o.selMode = core.Pick(g.r, modes)
	cands := g.nonKey()
	switch o.selMode {
	case "sel":
		o.sel = g.names(cands, prefer, 1, 3)
	case "star":
		o.sel = []nameRef{{fi: -1}}
	case "omit":
		o.omit = g.names(cands, prefer, 1, 3)
	case "star+omit":
		o.sel = []nameRef{{fi: -1}}
		o.omit = g.names(cands, prefer, 1, 2)
	case "sel+omit":
		o.sel = g.names(cands, prefer, 2, 4)
		o.omit = g.names(cands, prefer, 1, 2)
	case "omit-star":
		o.omit = []nameRef{{fi: -1}}
	}
	o.selForm = core.Pick(g.r, selForms)
}

var (
	selForms = []string{"variadic", "variadic", "variadic", "slice", "slice", "str+slice", "slice+str", "slice+slice"}
	// separators of a comma-joined Omit list
	omitSeps = []string{",", ", ", ", ", " , "}
)

// listForms decides, once the lists of names are final, how they are handed to gorm.
func (g *gen) listForms(o *op) {
	if o.selForm == "" {
		o.selForm = "variadic"
	}
	if len(o.sel) < 2 && o.selForm != "slice" {
		o.selForm = "variadic"
	}
	// Omit takes one comma-joined string as well; a single name has no comma
	if len(o.omit) >= 2 && g.r.Chance(2, 5) {
		o.omitJoin = core.Pick(g.r, omitSeps)
	}
}

var (
	modesUpdate  = []string{"none", "none", "none", "none", "sel", "sel", "sel", "star", "omit", "omit", "omit", "star+omit", "sel+omit", "omit-star"}
	modesSave    = []string{"none", "none", "none", "sel", "sel", "omit", "omit", "star", "star+omit", "sel+omit"}
	modesCreate  = []string{"none", "none", "none", "sel", "omit", "omit", "star", "star+omit", "sel+omit"}
	modesOmit    = []string{"none", "none", "omit"}
	modesNothing = []string{"none"}
)

func hasStar(ns []nameRef) bool {
	for _, n := range ns {
		if n.fi < 0 {
			return true
		}
	}
	return false
}

// target chooses how the rows to update are addressed.
func (g *gen) target(o *op, structForm, single bool) {
	r := g.r
	forms := []string{"model-key", "model-key", "where", "where", "model-key+where", "model-key+where", "model-slice", "model-slice+where", "model-missing-key"}
	if structForm {
		forms = append(forms, "value-is-model", "value-is-model+where", "value-is-model+model")
	}
	if single {
		forms = []string{"model-key", "model-key", "model-key+where"}
		if structForm {
			forms = append(forms, "value-is-model", "value-is-model+where", "value-is-model+model")
		}
	}
	o.tform = core.Pick(r, forms)
	o.useModel = true
	switch o.tform {
	case "model-key":
		o.modelKeys = []lval{g.seedKey()}
	case "where":
		o.conds = append(o.conds, g.cond(nil))
		if r.Chance(1, 4) {
			o.conds = append(o.conds, g.cond(nil))
		}
		// alternatives: Where(a)[.Where(b)].Or(c)[.Or(d)] selects (a AND b) OR c OR d. Only behind every
		// Where of the chain and only with a key-less Model value (see Engine.Assumptions)
		if r.Chance(2, 5) {
			for i, n := 0, r.Range(1, 2); i < n; i++ {
				c := g.cond(nil)
				c.or = true
				o.conds = append(o.conds, c)
			}
		}
	case "model-key+where":
		k := g.seedKey()
		o.modelKeys = []lval{k}
		o.conds = append(o.conds, g.cond(&k))
	case "model-slice", "model-slice+where":
		p := r.Perm(len(g.m.rows))
		n := r.Range(1, len(g.m.rows)-1)
		for i := 0; i < n; i++ {
			o.modelKeys = append(o.modelKeys, g.m.rows[p[i]].key)
		}
		o.modelSlice = true
		o.modelElems = append([]lval(nil), o.modelKeys...)
		if r.Chance(1, 6) { // one key twice
			at := r.Range(0, len(o.modelElems))
			o.modelElems = append(o.modelElems[:at], append([]lval{o.modelKeys[r.Intn(n)]}, o.modelElems[at:]...)...)
		}
		if r.Chance(1, 5) { // an element without key; one time in three it is the last one
			if r.Chance(1, 3) {
				o.modelElems = append(o.modelElems, g.m.zeroKey())
				o.zeroLast = true
			} else {
				at := r.Range(0, len(o.modelElems)-1)
				o.modelElems = append(o.modelElems[:at], append([]lval{g.m.zeroKey()}, o.modelElems[at:]...)...)
			}
		}
		o.modelArray = r.Chance(1, 4)
		o.modelElemPtr = r.Chance(1, 3)
		if o.tform == "model-slice+where" {
			o.conds = append(o.conds, g.cond(&o.modelKeys[0]))
		}
	case "model-missing-key":
		o.modelKeys = []lval{g.newKey(5)}
	case "value-is-model", "value-is-model+where", "value-is-model+model":
		o.valueIsModel = true
		o.useModel = o.tform == "value-is-model+model"
		k := g.seedKey()
		o.modelKeys = []lval{k}
		if o.tform == "value-is-model+where" {
			o.conds = append(o.conds, g.cond(&k))
		}
	}
}

func (g *gen) updateCands(hooks bool) []*field {
	var out []*field
	for _, f := range g.nonKey() {
		if hooks && f.autoUpd != "" {
			continue // a given value for a tracked update-time field competes with its refresh
		}
		out = append(out, f)
	}
	return out
}

func keysOf(rc *rec) []int { return append([]int(nil), rc.order...) }

// writesSomething: does every record of a create put at least one column into the INSERT?
func (g *gen) writesSomething(o *op) bool {
	si := selinfo(o)
	for _, rc := range o.recs {
		some := false
		for _, f := range g.m.fields {
			if f.ignored || f.free || f.autoUpd != "" || f.autoCre != "" || !f.canCreate || f.blocked {
				continue
			}
			mv, ok := rc.vals[f.idx]
			if !ok || (f.pk && isGoZero(f.k, mv.lv)) {
				continue
			}
			if !o.isMap && f.dbDefault() && isGoZero(f.k, mv.lv) {
				continue // left to the database
			}
			if a, _, _ := si.allowed(f.idx); a {
				some = true
			}
		}
		if !some {
			return false
		}
	}
	return true
}

// ensureColumns: an INSERT without any column (DEFAULT VALUES) is outside the statement.
func (g *gen) ensureColumns(o *op) {
	if g.writesSomething(o) {
		return
	}
	o.sel, o.omit, o.selMode, o.dropKey = nil, nil, "none", false
	if g.writesSomething(o) {
		return
	}
	for i, rc := range o.recs {
		g.m.setKey(rc, g.newKey(i))
		if o.isMap {
			for j := len(g.m.pks) - 1; j >= 0; j-- {
				rc.order = append([]int{g.m.pks[j].idx}, rc.order...)
			}
		}
	}
}

// uniformDefaults: within one batch of structs a field whose default the database evaluates is
// either zero in every record or non-zero in every record (a mixed batch makes gorm render the
// DEFAULT keyword for the zero ones, which SQLite does not parse: not a write-set matter).
func (g *gen) uniformDefaults(o *op) {
	if len(o.recs) < 2 {
		return
	}
	for _, f := range g.m.fields {
		if f.pk || !f.dbDefault() {
			continue
		}
		z := isGoZero(f.k, o.recs[0].vals[f.idx].lv)
		for _, rc := range o.recs[1:] {
			if isGoZero(f.k, rc.vals[f.idx].lv) == z {
				continue
			}
			lv := fresh(f.k.class, g.next())
			if z {
				lv = lval{null: true}
				if f.k.wrap == "plain" {
					lv = zeroBase(f.k.class)
				}
			}
			rc.vals[f.idx] = mval{form: "typed", lv: lv}
		}
	}
}

// createKeyNames finishes the Select/Omit of a create whose records carry explicit keys: either
// the key columns stay writable (named in a restricting Select), or - integer keys only, where the
// database can assign one - the key is omitted / left unselected and must then not be written.
func (g *gen) createKeyNames(o *op, auto bool) {
	r, m := g.r, g.m
	if auto {
		return
	}
	intKey := !m.composite() && m.pk.k.class != "string"
	if intKey && r.Chance(1, 5) {
		o.dropKey = true
		ref := g.ref(m.pk)
		switch o.selMode {
		case "sel":
			// not selected
		case "none":
			o.selMode = "omit"
			o.omit = append(o.omit, ref)
		case "star":
			o.selMode = "star+omit"
			o.omit = append(o.omit, ref)
		default:
			o.omit = append(o.omit, ref)
		}
		return
	}
	if o.selMode == "sel" || o.selMode == "sel+omit" {
		for _, f := range m.pks {
			o.sel = append(o.sel, g.ref(f))
		}
	}
}

var opKinds = []string{
	"create", "create-slice", "create-batches", "create-map", "create-maps",
	"upsert-cols", "upsert-cols", "upsert-assign", "upsert-all", "upsert-all", "upsert-nothing",
	"save", "save", "save-new", "save-slice", "save-cond",
	"updates-struct", "updates-struct", "updates-struct", "updates-map", "updates-map", "updates-map",
	"update", "update", "updatecolumn", "updatecolumns-struct", "updatecolumns-map",
	"firstorcreate", "firstorcreate", "firstorcreate-attrs", "firstorcreate-new",
	// association mode: only for models with association fields (else another kind is drawn)
	"assoc-append", "assoc-append", "assoc-append", "assoc-replace", "assoc-replace", "assoc-clear", "assoc-delete",
}

const nAssocKinds = 7

func (g *gen) genOp(kind string) *op {
	r, m := g.r, g.m
	if strings.HasPrefix(kind, "assoc-") && len(m.fullRels()) == 0 {
		kind = core.Pick(r, opKinds[:len(opKinds)-nAssocKinds])
	}
	o := &op{kind: kind, forms: map[string]bool{}}
	g.n = r.Range(3, 60)
	nonzeroFields := func(rc *rec) []int {
		var out []int
		for _, f := range m.fields {
			if !f.pk && !isGoZero(f.k, rc.vals[f.idx].lv) {
				out = append(out, f.idx)
			}
		}
		return out
	}
	switch kind {
	case "create", "create-slice", "create-batches":
		o.family = "create"
		n := 1
		if kind == "create-slice" {
			n = r.Range(2, 3)
		} else if kind == "create-batches" {
			n = r.Range(3, 5)
			o.batch = r.Range(1, 3)
			o.family = "batch-create"
		}
		auto := !m.composite() && m.pk.k.class != "string" && r.Chance(1, 3)
		for i := 0; i < n; i++ {
			k := g.newKey(i)
			if auto {
				k = m.zeroKey()
			}
			o.recs = append(o.recs, g.structRec(k))
		}
		g.uniformDefaults(o)
		o.elemPtr = r.Chance(1, 3)
		g.selOmit(o, modesCreate, nonzeroFields(o.recs[0]))
		g.createKeyNames(o, auto)
		g.ensureColumns(o)
	case "create-map", "create-maps":
		o.family = "create-map"
		o.isMap = true
		o.useModel = true
		n := 1
		if kind == "create-maps" {
			n = r.Range(2, 3)
		}
		auto := !m.composite() && m.pk.k.class != "string" && r.Chance(1, 3)
		var cands []*field
		for _, f := range g.nonKey() {
			if f.autoUpd == "" && f.autoCre == "" && !f.ignored {
				cands = append(cands, f)
			}
		}
		for i := 0; i < n; i++ {
			rc := g.mapRec(o, "create", cands)
			if !auto {
				m.setKey(rc, g.newKey(i))
				for j := len(m.pks) - 1; j >= 0; j-- {
					rc.order = append([]int{m.pks[j].idx}, rc.order...)
					rc.byCol[m.pks[j].idx] = r.Bool()
				}
			}
			o.recs = append(o.recs, rc)
		}
		g.selOmit(o, modesCreate, keysOf(o.recs[0]))
		g.createKeyNames(o, auto)
		g.ensureColumns(o)
	case "upsert-cols", "upsert-assign", "upsert-all", "upsert-nothing":
		switch kind {
		case "upsert-cols", "upsert-assign":
			o.family = "upsert-doupdates"
		case "upsert-all":
			o.family = "upsert-updateall"
		default:
			o.family = "upsert-donothing"
		}
		n := r.Range(1, 3)
		frows := g.fullRows()
		p := r.Perm(len(frows))
		if n > len(frows) {
			n = len(frows)
		}
		nconf := r.Range(1, n)
		for i := 0; i < n; i++ {
			k := g.newKey(i)
			if i < nconf {
				k = frows[p[i]].key
			}
			o.recs = append(o.recs, g.structRec(k))
		}
		// shuffle so that conflicting records are not always first
		sp := r.Perm(n)
		rs := make([]*rec, n)
		for i, j := range sp {
			rs[i] = o.recs[j]
		}
		o.recs = rs
		g.uniformDefaults(o)
		o.elemPtr = r.Chance(1, 3)
		cands := g.nonKey()
		switch kind {
		case "upsert-cols":
			cp := r.Perm(len(cands))
			k := r.Range(1, 3)
			for i := 0; i < k && i < len(cands); i++ {
				if !cands[cp[i]].ignored {
					o.doCols = append(o.doCols, cands[cp[i]].idx)
				}
			}
			if len(o.doCols) == 0 {
				for _, f := range cands {
					if !f.ignored {
						o.doCols = append(o.doCols, f.idx)
						break
					}
				}
			}
		case "upsert-assign":
			cp := r.Perm(len(cands))
			k := r.Range(1, 2)
			for i := 0; i < len(cands) && len(o.doAssign) < k; i++ {
				f := cands[cp[i]]
				if f.ignored {
					continue
				}
				var v mval
				switch r.Intn(4) {
				case 0:
					v = mval{form: "nil", lv: lval{null: true}}
				case 1:
					z := zeroBase(f.k.class)
					if isColl(f.k.class) {
						z = emptyOf(f.k.class)
					} else if z.null {
						z = fresh(f.k.class, g.next())
					}
					v = mval{form: "typed", lv: z}
				default:
					v = mval{form: "typed", lv: fresh(f.k.class, g.next())}
				}
				o.doAssign = append(o.doAssign, assign{fi: f.idx, v: v})
			}
		case "upsert-all":
			g.selOmit(o, modesOmit, nonzeroFields(o.recs[0]))
		}
		g.genConflictClauses(o)
		if n >= 2 && r.Chance(1, 4) {
			o.batch = r.Range(1, 2) // the same upsert through CreateInBatches
		}
	case "save", "save-new", "save-cond":
		o.family = "save"
		o.saveAll = true
		o.hooks = true
		o.valueIsModel = true
		k := g.seedKey()
		if kind == "save-new" {
			k = g.newKey(0)
			if !m.composite() && m.pk.k.class != "string" && r.Chance(1, 3) {
				k = m.zeroKey()
			}
		}
		o.modelKeys = []lval{k}
		o.recs = []*rec{g.structRec(k)}
		switch kind {
		case "save":
			g.selOmit(o, modesSave, nonzeroFields(o.recs[0]))
		case "save-new":
			g.selOmit(o, modesOmit, nonzeroFields(o.recs[0]))
		case "save-cond":
			o.conds = append(o.conds, g.cond(&k))
			g.selOmit(o, modesOmit, nonzeroFields(o.recs[0]))
		}
	case "save-slice":
		o.family = "save-slice"
		o.saveAll = true
		o.hooks = true
		n := r.Range(2, 3)
		frows := g.fullRows()
		p := r.Perm(len(frows))
		if n > len(frows) {
			n = len(frows)
		}
		for i := 0; i < n; i++ {
			k := frows[p[i]].key
			if i > 0 && r.Chance(1, 3) {
				k = g.newKey(i)
			}
			o.recs = append(o.recs, g.structRec(k))
		}
		g.uniformDefaults(o)
		o.elemPtr = r.Chance(1, 3)
		g.selOmit(o, modesOmit, nonzeroFields(o.recs[0]))
	case "updates-struct", "updatecolumns-struct":
		o.family = "updates-struct"
		o.hooks = true
		if kind == "updatecolumns-struct" {
			o.family = "updatecolumns"
			o.hooks = false
		}
		o.recs = []*rec{g.structRec(m.zeroKey())}
		g.selOmit(o, modesUpdate, nonzeroFields(o.recs[0]))
		// "*" with a value that is not the model writes the key column too: the value carries
		// the key of the single row it addresses
		g.target(o, true, hasStar(o.sel))
		if o.valueIsModel || hasStar(o.sel) || (len(o.modelKeys) == 1 && !o.modelSlice && o.tform != "model-missing-key" && r.Chance(1, 4)) {
			m.setKey(o.recs[0], o.modelKeys[0])
		}
		o.valPtr = o.valueIsModel || r.Bool()
	case "updates-map", "updatecolumns-map":
		o.family = "updates-map"
		o.hooks = true
		if kind == "updatecolumns-map" {
			o.family = "updatecolumns"
			o.hooks = false
		}
		o.isMap = true
		o.recs = []*rec{g.mapRec(o, "update", g.updateCands(o.hooks))}
		g.selOmit(o, modesUpdate, keysOf(o.recs[0]))
		g.target(o, false, false)
	case "update", "updatecolumn":
		o.family = "update"
		o.hooks = true
		if kind == "updatecolumn" {
			o.family = "updatecolumns"
			o.hooks = false
		}
		o.isMap = true
		cands := g.updateCands(o.hooks)
		f := cands[r.Intn(len(cands))]
		rc := &rec{vals: map[int]mval{f.idx: g.mapVal(f, "update", o)}, order: []int{f.idx}, byCol: map[int]bool{}}
		rc.byCol[f.idx] = !f.ignored && r.Bool()
		o.col = nameRef{fi: f.idx, byCol: rc.byCol[f.idx]}
		o.recs = []*rec{rc}
		g.selOmit(o, []string{"none", "none", "none", "none", "sel", "omit", "star"}, []int{f.idx})
		g.target(o, false, false)
	case "firstorcreate", "firstorcreate-attrs", "firstorcreate-new":
		g.genFoc(o, kind)
	case "assoc-append", "assoc-replace", "assoc-clear", "assoc-delete":
		g.genAssoc(o, kind)
		return o
	default:
		panic("kind " + kind)
	}
	g.listForms(o)
	g.addKids(o)
	if updateKind(kind) && m.soft {
		// soft-delete model: some of the seeded rows are soft-deleted while this update runs (three
		// operations in four); one chain in five is Unscoped
		o.dead = map[string]bool{}
		if r.Chance(3, 4) {
			p := r.Perm(len(m.rows))
			for _, i := range p[:r.Range(1, len(m.rows)-1)] {
				o.dead[normL(m.rows[i].key)] = true
			}
		}
		o.unscoped = r.Chance(1, 5)
		o.unscopedLast = r.Bool()
	}
	if updateKind(kind) {
		if r.Chance(1, 3) {
			g.genReturning(o)
		}
		// a value that is the model itself is loaded by RETURNING / assigned by the first finisher, and
		// RETURNING loads a key into a key-less Model(&T{}): what a second finisher then addresses /
		// writes is not fixed by the statement
		// and RETURNING * into a Model(array of *T) leaves nil elements behind when fewer rows come back
		if !o.valueIsModel && !(o.returning != "" && o.tform == "where") && !(o.returning == "all" && o.modelArray && o.modelElemPtr) && r.Chance(1, 3) {
			o.next = g.followUp(o)
		}
	}
	if createStructKind(kind) {
		// the same clause on the insert paths (struct records): INSERT ... RETURNING read back with Scan
		if r.Chance(1, 5) {
			g.genReturning(o)
			if kind == "create-batches" && o.returning == "all" && !genBatchReturningAll {
				o.returning = "cols"
				for _, f := range m.pks {
					o.retCols = append(o.retCols, f.idx)
				}
			}
		}
		if (kind == "create" || kind == "create-slice" || kind == "create-batches") && r.Chance(1, 4) {
			o.next = g.followUpCreate(o)
		}
	}
	// one chain in four does not name the table: it is the one of the model's schema
	o.noTable = r.Chance(1, 4)
	// the chain calls commute: one operation in three runs them in a random order
	if r.Chance(1, 3) {
		o.chainOrder = r.Perm(7)
		present := []bool{o.useModel, len(o.conds) > 0 && !(o.foc != nil && o.foc.inline), len(o.sel) > 0, len(o.omit) > 0, strings.HasPrefix(kind, "upsert-") || o.returning != "",
			o.foc != nil && o.foc.attrs != nil, o.foc != nil && o.foc.assign != nil}
		last := -1
		for _, i := range o.chainOrder {
			if present[i] {
				if i < last {
					o.reordered = true
				}
				last = i
			}
		}
	}
	return o
}

func updateKind(kind string) bool {
	switch kind {
	case "updates-struct", "updates-map", "update", "updatecolumn", "updatecolumns-struct", "updatecolumns-map":
		return true
	}
	return false
}

// genBatchReturningAll: CreateInBatches under Clauses(clause.Returning{}) (all columns) panics in
// gorm.Scan (reflect.Value.SetLen using unaddressable value: the batch is handed over as a
// non-addressable sub-slice and RETURNING * resets the destination slice) before anything is
// written: a read-back matter, not a write-set one; see Engine.Assumptions. Not generated.
const genBatchReturningAll = true

func createStructKind(kind string) bool {
	switch kind {
	case "create", "create-slice", "create-batches", "upsert-cols", "upsert-assign", "upsert-all", "upsert-nothing", "save", "save-new", "save-slice":
		return true
	}
	return false
}

// followUpCreate: a second Create / CreateInBatches of fresh records on the handle of o (same
// Select/Omit and clauses, same finisher); nil when the new records would leave the INSERT without
// any column.
func (g *gen) followUpCreate(o *op) *op {
	r, m := g.r, g.m
	n := &op{kind: o.kind, family: o.family, forms: map[string]bool{}, second: true, viaResult: r.Bool(),
		sel: o.sel, omit: o.omit, selForm: o.selForm, omitJoin: o.omitJoin, selMode: o.selMode, dropKey: o.dropKey,
		returning: o.returning, retCols: o.retCols, batch: o.batch, elemPtr: r.Chance(1, 3)}
	k0, _ := m.recKey(o.recs[0])
	auto := m.keyIsZero(k0)
	cnt := len(o.recs)
	if o.kind != "create" {
		cnt = r.Range(2, 4)
	}
	for i := 0; i < cnt; i++ {
		k := g.newKey(i)
		if auto {
			k = m.zeroKey()
		}
		n.recs = append(n.recs, g.structRec(k))
	}
	g.uniformDefaults(n)
	if !g.writesSomething(n) {
		return nil
	}
	g.addKids(n)
	return n
}

// genReturning: the chain of an update carries Clauses(clause.Returning{}) (all columns) or a
// Returning naming 1..3 columns; the key columns are named all together or not at all (with only a
// part of a composite key gorm scans the returned rows into the elements of a Model(slice) by
// position and mixes the keys of different rows: not a write-set matter).
func (g *gen) genReturning(o *op) {
	r, m := g.r, g.m
	if r.Bool() {
		o.returning = "all"
		return
	}
	o.returning = "cols"
	var cands []*field
	for _, f := range g.nonKey() {
		// an unreadable column named in RETURNING fails in Scan (a read-back matter, see Assumptions)
		if !f.ignored && !strings.Contains(f.perm, "->:false") {
			cands = append(cands, f)
		}
	}
	withKey := r.Bool() || len(cands) == 0
	if len(cands) > 0 {
		p := r.Perm(len(cands))
		n := r.Range(1, 3)
		for i := 0; i < n && i < len(p); i++ {
			o.retCols = append(o.retCols, cands[p[i]].idx)
		}
	}
	if withKey {
		var ks []int
		for _, f := range m.pks {
			ks = append(ks, f.idx)
		}
		if r.Bool() {
			o.retCols = append(ks, o.retCols...)
		} else {
			o.retCols = append(o.retCols, ks...)
		}
	}
}

// followUp: a second update finisher for the handle of o. It shares the whole chain of o (target,
// conditions, Select/Omit, clauses) and brings its own finisher and values. After a column-update
// finisher the handle stays in skip-hooks mode, so only column-update finishers follow one.
func (g *gen) followUp(o *op) *op {
	r, m := g.r, g.m
	kinds := []string{"updates-struct", "updates-map", "update", "updatecolumn", "updatecolumns-struct", "updatecolumns-map"}
	if !o.hooks {
		kinds = kinds[3:]
	}
	kind := core.Pick(r, kinds)
	singleKey := len(o.modelKeys) == 1 && !o.modelSlice && (o.tform == "model-key" || o.tform == "model-key+where")
	if hasStar(o.sel) && !singleKey && strings.HasSuffix(kind, "-struct") {
		// "*" with a struct value writes the key column too: only where the value can carry the key of
		// the single addressed row
		kind = strings.TrimSuffix(kind, "-struct") + "-map"
	}
	n := &op{kind: kind, forms: map[string]bool{}, second: true, viaResult: r.Bool(),
		tform: o.tform, useModel: o.useModel, modelKeys: o.modelKeys, modelSlice: o.modelSlice, modelElems: o.modelElems,
		zeroLast: o.zeroLast, modelArray: o.modelArray, modelElemPtr: o.modelElemPtr, conds: o.conds,
		sel: o.sel, omit: o.omit, selForm: o.selForm, omitJoin: o.omitJoin, selMode: o.selMode,
		returning: o.returning, retCols: o.retCols, modelKids: o.modelKids,
		dead: o.dead, unscoped: o.unscoped, unscopedLast: o.unscopedLast}
	n.hooks = kind == "updates-struct" || kind == "updates-map" || kind == "update"
	switch kind {
	case "updates-struct", "updatecolumns-struct":
		n.family = "updates-struct"
		if !n.hooks {
			n.family = "updatecolumns"
		}
		n.recs = []*rec{g.structRec(m.zeroKey())}
		if hasStar(o.sel) || (singleKey && r.Chance(1, 4)) {
			m.setKey(n.recs[0], o.modelKeys[0])
		}
		n.valPtr = r.Bool()
	case "updates-map", "updatecolumns-map":
		n.family = "updates-map"
		if !n.hooks {
			n.family = "updatecolumns"
		}
		n.isMap = true
		n.recs = []*rec{g.mapRec(n, "update", g.updateCands(n.hooks))}
	default:
		n.family = "update"
		if !n.hooks {
			n.family = "updatecolumns"
		}
		n.isMap = true
		cands := g.updateCands(n.hooks)
		f := cands[r.Intn(len(cands))]
		rc := &rec{vals: map[int]mval{f.idx: g.mapVal(f, "update", n)}, order: []int{f.idx}, byCol: map[int]bool{}}
		rc.byCol[f.idx] = !f.ignored && r.Bool()
		n.col = nameRef{fi: f.idx, byCol: rc.byCol[f.idx]}
		n.recs = []*rec{rc}
	}
	g.addKids(n) // the records its own struct value carries (the Model value is the handle's)
	return n
}

// ---- execution ----------------------------------------------------------------------

func (m *model) keyStruct(k lval, kids map[string][]kid) (reflect.Value, string) {
	rc := &rec{vals: map[int]mval{}, kids: kids}
	for i, part := range m.keyParts(k) {
		if !isGoZero(m.pks[i].k, part) {
			rc.vals[m.pks[i].idx] = mval{form: "typed", lv: part}
		}
	}
	p, lit := m.recStruct(rc)
	return p, "&" + lit
}

func (m *model) sliceOf(recs []*rec, elemPtr bool) (interface{}, string) {
	et := m.typ
	if elemPtr {
		et = reflect.PtrTo(m.typ)
	}
	sl := reflect.MakeSlice(reflect.SliceOf(et), 0, len(recs))
	var lits []string
	for _, rc := range recs {
		p, lit := m.recStruct(rc)
		if elemPtr {
			sl = reflect.Append(sl, p)
			lits = append(lits, "&"+lit)
		} else {
			sl = reflect.Append(sl, p.Elem())
			lits = append(lits, lit[1:])
		}
	}
	sp := reflect.New(sl.Type())
	sp.Elem().Set(sl)
	tn := "[]T"
	if elemPtr {
		tn = "[]*T"
	}
	return sp.Interface(), "&" + tn + "{" + strings.Join(lits, ", ") + "}"
}

// arrayOf: the same elements as a pointer to an ARRAY ([n]T / [n]*T).
func (m *model) arrayOf(recs []*rec, elemPtr bool) (interface{}, string) {
	v, lit := m.sliceOf(recs, elemPtr)
	sl := reflect.ValueOf(v).Elem()
	ap := reflect.New(reflect.ArrayOf(sl.Len(), sl.Type().Elem()))
	reflect.Copy(ap.Elem(), sl)
	return ap.Interface(), strings.Replace(lit, "&[]", fmt.Sprintf("&[%d]", sl.Len()), 1)
}

func quoteAll(ns []string) string {
	var out []string
	for _, n := range ns {
		out = append(out, strconv.Quote(n))
	}
	return strings.Join(out, ", ")
}

// exec runs the operation through gorm and returns the literal calls (an optional declaration, the
// chain, the finisher), the handle the finisher was called on and the result.
func exec(db *gorm.DB, m *model, o *op) (pre, chain, fin string, handle, res *gorm.DB) {
	if o.assoc != nil {
		desc, err := execAssoc(db, m, o)
		return "", desc, "", db, &gorm.DB{Error: err}
	}
	tx, desc := db, "db"
	if !o.noTable {
		tx = db.Table(m.table)
		desc = fmt.Sprintf("db.Table(%q)", m.table)
	}
	if o.unscoped && !o.unscopedLast {
		tx = tx.Unscoped()
		desc += ".Unscoped()"
	}
	var selfPtr reflect.Value
	var selfLit string
	if o.valueIsModel {
		selfPtr, selfLit = m.recStruct(o.recs[0])
		selfLit = "&" + selfLit
	}
	var pkCols []clause.Column
	var pkNames []string
	for _, f := range m.pks {
		pkCols = append(pkCols, clause.Column{Name: f.col})
		pkNames = append(pkNames, fmt.Sprintf("{Name: %q}", f.col))
	}
	pkLit := "Columns: []clause.Column{" + strings.Join(pkNames, ", ") + "}"
	// the chain calls; their order is o.chainOrder (the statement does not depend on it)
	steps := []func(){
		func() { // Model
			if o.useModel {
				switch {
				case o.foc != nil:
					tx = tx.Model(reflect.New(m.typ).Interface())
					desc += ".Model(&T{})"
				case o.valueIsModel:
					tx = tx.Model(selfPtr.Interface())
					desc += ".Model(v)"
				case o.modelSlice:
					var rs []*rec
					for i, k := range o.modelElems {
						rc := &rec{vals: map[int]mval{}, kids: o.kidsOfModel(i)}
						if !m.keyIsZero(k) {
							m.setKey(rc, k)
						}
						rs = append(rs, rc)
					}
					v, lit := m.sliceOf(rs, o.modelElemPtr)
					if o.modelArray {
						v, lit = m.arrayOf(rs, o.modelElemPtr)
					}
					tx = tx.Model(v)
					desc += ".Model(" + lit + ")"
				case len(o.modelKeys) == 1:
					v, lit := m.keyStruct(o.modelKeys[0], o.kidsOfModel(0))
					tx = tx.Model(v.Interface())
					desc += ".Model(" + lit + ")"
				default:
					v, lit := m.keyStruct(m.zeroKey(), o.kidsOfModel(0))
					tx = tx.Model(v.Interface())
					desc += ".Model(" + lit + ")"
				}
			}
		},
		func() { // Where
			if o.foc != nil && o.foc.inline {
				return
			}
			for _, c := range o.conds {
				if c.or {
					tx = tx.Or(c.gq, c.gargs...)
				} else {
					tx = tx.Where(c.gq, c.gargs...)
				}
				desc += "." + c.call()
			}
		},
		func() { // Select
			if len(o.sel) > 0 {
				var ns []string
				for _, n := range o.sel {
					ns = append(ns, n.text(m))
				}
				sl := func(x []string) string { return "[]string{" + quoteAll(x) + "}" }
				switch {
				case o.selForm == "slice":
					tx = tx.Select(ns)
					desc += ".Select(" + sl(ns) + ")"
				case o.selForm == "str+slice" && len(ns) > 1:
					tx = tx.Select(ns[0], ns[1:])
					desc += ".Select(" + strconv.Quote(ns[0]) + ", " + sl(ns[1:]) + ")"
				case o.selForm == "slice+str" && len(ns) > 1:
					tx = tx.Select(ns[:len(ns)-1], ns[len(ns)-1])
					desc += ".Select(" + sl(ns[:len(ns)-1]) + ", " + strconv.Quote(ns[len(ns)-1]) + ")"
				case o.selForm == "slice+slice" && len(ns) > 1:
					tx = tx.Select(ns[:1], ns[1:])
					desc += ".Select(" + sl(ns[:1]) + ", " + sl(ns[1:]) + ")"
				default:
					var rest []interface{}
					for _, n := range ns[1:] {
						rest = append(rest, n)
					}
					tx = tx.Select(ns[0], rest...)
					desc += ".Select(" + quoteAll(ns) + ")"
				}
			}
		},
		func() { // Omit
			if len(o.omit) > 0 {
				var ns []string
				for _, n := range o.omit {
					ns = append(ns, n.text(m))
				}
				if o.omitJoin != "" && len(ns) > 1 {
					one := strings.Join(ns, o.omitJoin)
					tx = tx.Omit(one)
					desc += ".Omit(" + strconv.Quote(one) + ")"
				} else {
					tx = tx.Omit(ns...)
					desc += ".Omit(" + quoteAll(ns) + ")"
				}
			}
		},
		func() { // Clauses
			var oc clause.OnConflict
			var ocLit []string
			switch o.kind {
			case "upsert-cols":
				var cs []string
				for _, fi := range o.doCols {
					cs = append(cs, m.fields[fi].col)
				}
				oc = clause.OnConflict{Columns: pkCols, DoUpdates: clause.AssignmentColumns(cs)}
				ocLit = []string{pkLit, "DoUpdates: clause.AssignmentColumns([]string{" + quoteAll(cs) + "})"}
			case "upsert-assign":
				mp := map[string]interface{}{}
				var parts []string
				for _, a := range o.doAssign {
					f := m.fields[a.fi]
					mp[f.col] = a.v.arg(f)
					parts = append(parts, fmt.Sprintf("%q: %s", f.col, a.v.lit(f)))
				}
				oc = clause.OnConflict{Columns: pkCols, DoUpdates: clause.Assignments(mp)}
				ocLit = []string{pkLit, "DoUpdates: clause.Assignments(map[string]interface{}{" + strings.Join(parts, ", ") + "})"}
			case "upsert-all":
				oc = clause.OnConflict{UpdateAll: true}
				if o.ocCols {
					oc.Columns = pkCols
					ocLit = append(ocLit, pkLit)
				}
				ocLit = append(ocLit, "UpdateAll: true")
			case "upsert-nothing":
				oc = clause.OnConflict{DoNothing: true}
				ocLit = []string{"DoNothing: true"}
			}
			if ocLit != nil {
				if o.ocTarget != nil {
					oc.TargetWhere = clause.Where{Exprs: o.ocTarget.exprs}
					ocLit = append(ocLit, "TargetWhere: clause.Where{Exprs: []clause.Expression{"+o.ocTarget.lit+"}}")
				}
				if o.ocWhere != nil {
					oc.Where = clause.Where{Exprs: o.ocWhere.exprs}
					ocLit = append(ocLit, "Where: clause.Where{Exprs: []clause.Expression{"+o.ocWhere.lit+"}}")
				}
				tx = tx.Clauses(oc)
				desc += ".Clauses(clause.OnConflict{" + strings.Join(ocLit, ", ") + "})"
			}
			switch o.returning {
			case "all":
				tx = tx.Clauses(clause.Returning{})
				desc += ".Clauses(clause.Returning{})"
			case "cols":
				var cs []clause.Column
				var ns []string
				for _, fi := range o.retCols {
					cs = append(cs, clause.Column{Name: m.fields[fi].col})
					ns = append(ns, fmt.Sprintf("{Name: %q}", m.fields[fi].col))
				}
				tx = tx.Clauses(clause.Returning{Columns: cs})
				desc += ".Clauses(clause.Returning{Columns: []clause.Column{" + strings.Join(ns, ", ") + "}})"
			}
		},
	}
	steps = append(steps,
		func() { // Attrs
			if o.foc != nil && o.foc.attrs != nil {
				v, lit := focArg(m, o.foc.attrs, o.foc.attrsMap, o.foc.attrsPtr)
				tx = tx.Attrs(v)
				desc += ".Attrs(" + lit + ")"
			}
		},
		func() { // Assign
			if o.foc != nil && o.foc.assign != nil {
				v, lit := focArg(m, o.foc.assign, o.foc.assignMap, o.foc.assignPtr)
				tx = tx.Assign(v)
				desc += ".Assign(" + lit + ")"
			}
		})
	order := o.chainOrder
	if len(order) != len(steps) {
		order = []int{0, 1, 2, 3, 4, 5, 6}
	}
	for _, i := range order {
		steps[i]()
	}
	if o.unscoped && o.unscopedLast {
		tx = tx.Unscoped()
		desc += ".Unscoped()"
	}
	pre, fin, res = finish(tx, m, o, selfPtr, selfLit)
	return pre, desc, fin, tx, res
}

// finish calls the finisher of o on the handle tx.
func finish(tx *gorm.DB, m *model, o *op, selfPtr reflect.Value, selfLit string) (pre, desc string, res *gorm.DB) {
	structArg := func() (interface{}, string) {
		if len(o.recs) == 1 && o.kind != "create-slice" && o.kind != "create-batches" && o.kind != "save-slice" {
			p, lit := m.recStruct(o.recs[0])
			return p.Interface(), "&" + lit
		}
		return m.sliceOf(o.recs, o.elemPtr)
	}
	switch o.kind {
	case "firstorcreate", "firstorcreate-attrs", "firstorcreate-new":
		d, lit := focDest(m, o)
		if o.foc.inline {
			c := o.conds[0]
			res = tx.FirstOrCreate(d.Interface(), append([]interface{}{c.gq}, c.gargs...)...)
			desc += ".FirstOrCreate(" + lit + ", " + strings.TrimSuffix(strings.TrimPrefix(c.desc, "Where("), ")") + ")"
		} else {
			res = tx.FirstOrCreate(d.Interface())
			desc += ".FirstOrCreate(" + lit + ")"
		}
	case "create", "create-slice", "upsert-cols", "upsert-assign", "upsert-all", "upsert-nothing":
		if o.batch > 0 && len(o.recs) > 1 {
			v, lit := m.sliceOf(o.recs, o.elemPtr)
			res = tx.CreateInBatches(v, o.batch)
			desc += fmt.Sprintf(".CreateInBatches(%s, %d)", lit, o.batch)
			break
		}
		v, lit := structArg()
		res = tx.Create(v)
		desc += ".Create(" + lit + ")"
	case "create-batches":
		v, lit := m.sliceOf(o.recs, o.elemPtr)
		res = tx.CreateInBatches(v, o.batch)
		desc += fmt.Sprintf(".CreateInBatches(%s, %d)", lit, o.batch)
	case "create-map":
		v, lit := o.recs[0].mapArg(m)
		res = tx.Create(v)
		desc += ".Create(" + lit + ")"
	case "create-maps":
		var vs []map[string]interface{}
		var lits []string
		for _, rc := range o.recs {
			v, lit := rc.mapArg(m)
			vs = append(vs, v)
			lits = append(lits, strings.TrimPrefix(lit, "map[string]interface{}"))
		}
		res = tx.Create(&vs)
		desc += ".Create(&[]map[string]interface{}{" + strings.Join(lits, ", ") + "})"
	case "save", "save-new", "save-cond":
		res = tx.Save(selfPtr.Interface())
		desc += ".Save(" + selfLit + ")"
	case "save-slice":
		v, lit := m.sliceOf(o.recs, o.elemPtr)
		res = tx.Save(v)
		desc += ".Save(" + lit + ")"
	case "updates-struct", "updatecolumns-struct":
		var v interface{}
		var lit string
		if o.valueIsModel {
			v, lit = selfPtr.Interface(), "v"
			pre = "v := " + selfLit + "; "
		} else {
			var p reflect.Value
			p, lit = m.recStruct(o.recs[0])
			if o.valPtr {
				v, lit = p.Interface(), "&"+lit
			} else {
				v = p.Elem().Interface()
			}
		}
		if o.kind == "updates-struct" {
			res = tx.Updates(v)
			desc += ".Updates(" + lit + ")"
		} else {
			res = tx.UpdateColumns(v)
			desc += ".UpdateColumns(" + lit + ")"
		}
	case "updates-map", "updatecolumns-map":
		v, lit := o.recs[0].mapArg(m)
		if o.kind == "updates-map" {
			res = tx.Updates(v)
			desc += ".Updates(" + lit + ")"
		} else {
			res = tx.UpdateColumns(v)
			desc += ".UpdateColumns(" + lit + ")"
		}
	case "update", "updatecolumn":
		f := m.fields[o.col.fi]
		mv := o.recs[0].vals[f.idx]
		if o.kind == "update" {
			res = tx.Update(o.col.text(m), mv.arg(f))
			desc += fmt.Sprintf(".Update(%q, %s)", o.col.text(m), mv.lit(f))
		} else {
			res = tx.UpdateColumn(o.col.text(m), mv.arg(f))
			desc += fmt.Sprintf(".UpdateColumn(%q, %s)", o.col.text(m), mv.lit(f))
		}
	default:
		panic("exec kind " + o.kind)
	}
	return pre, desc, res
}

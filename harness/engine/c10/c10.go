// Package c10: a write touches only permitted, selected columns of exactly the targeted rows.
//
// Oracle: every write runs against a freshly seeded table whose cells all hold unique sentinels;
// the table is read back with raw SQL and compared cell by cell with the table the write-set
// predictor (predict.go, a transcription of the property statement) expects.
package c10

import (
	"fmt"
	"reflect"
	"sort"
	"strings"

	"gorm.io/gorm"

	"verif/core"
	"verif/recdrv"
	"verif/vdb"
)

var H *vdb.Handle

func initEnv(c *core.Ctx) {
	h, err := vdb.Open(vdb.Options{Config: gorm.Config{NamingStrategy: namer}})
	if err != nil {
		panic(err)
	}
	H = h
	for _, q := range childDDL {
		_, err := H.SQL.Exec(q)
		must(err)
	}
}

func must(err error) {
	if err != nil {
		panic(err)
	}
}

// softStamp: the content of deleted_at of a row seeded as soft-deleted.
const softStamp = "2001-09-09 01:46:40+00:00"

func seed(m *model, dead map[string]bool) {
	_, err := H.SQL.Exec("DELETE FROM `" + m.table + "`")
	must(err)
	var cols []string
	for _, f := range m.fields {
		cols = append(cols, "`"+f.col+"`")
	}
	q := "INSERT INTO `" + m.table + "` (" + strings.Join(cols, ",") + ") VALUES " + inList(len(cols))
	for _, r := range m.rows {
		args := make([]interface{}, len(m.fields))
		for i, c := range r.cells {
			args[i] = dbArg(c.v)
		}
		_, err := H.SQL.Exec(q, args...)
		must(err)
		if dead[normL(r.key)] {
			var w []string
			var wa []interface{}
			for _, f := range m.pks {
				w = append(w, "`"+f.col+"` = ?")
				wa = append(wa, dbArg(r.cells[f.idx].v))
			}
			_, err := H.SQL.Exec("UPDATE `"+m.table+"` SET `"+softCol+"` = '"+softStamp+"' WHERE "+strings.Join(w, " AND "), wa...)
			must(err)
		}
	}
}

// snapshot reads the table with raw SQL: key -> column -> canonical content.
func snapshot(m *model) map[string]map[string]string {
	rows, err := vdb.RowMaps(H.SQL, "SELECT * FROM `"+m.table+"`")
	must(err)
	out := map[string]map[string]string{}
	for _, r := range rows {
		cells := map[string]string{}
		for c, v := range r {
			cells[c] = normDB(v)
		}
		var ks []string
		for _, f := range m.pks {
			ks = append(ks, cells[f.col])
		}
		out[strings.Join(ks, "|")] = cells
	}
	return out
}

func condKeys(m *model, o *op) map[string]bool {
	if len(o.conds) == 0 {
		return nil
	}
	var args []interface{}
	// Where(a).Where(b).Or(c).Or(d): (a AND b) OR c OR d (an Or never precedes a Where); soft-deleted
	// rows are part of this set, the prediction leaves them out unless the chain is Unscoped
	expr := ""
	for i, c := range o.conds {
		switch {
		case i == 0:
		case c.or:
			expr += " OR "
		default:
			expr += " AND "
		}
		expr += "(" + c.rsql + ")"
		args = append(args, c.rargs...)
	}
	rows, err := vdb.RowMaps(H.SQL, "SELECT * FROM `"+m.table+"` WHERE "+expr, args...)
	must(err)
	out := map[string]bool{}
	for _, r := range rows {
		var ks []string
		for _, f := range m.pks {
			ks = append(ks, normDB(r[f.col]))
		}
		out[strings.Join(ks, "|")] = true
	}
	return out
}

// compare returns the disagreements between the table read back and the prediction.
func compare(m *model, p *prediction, before, after map[string]map[string]string, t0, t1 int64) []problem {
	var out []problem
	var akeys []string
	for k := range after {
		akeys = append(akeys, k)
	}
	sort.Strings(akeys)
	for _, k := range akeys {
		if p.rows[k] == nil && p.unwrittenKeys[k] {
			out = append(out, problem{Row: k, Class: "omitted-key-written", Got: fmt.Sprint(after[k]), Want: "a row with a database-assigned key", Why: "the key column is omitted / not selected, the key carried by the record must not be written"})
		} else if p.rows[k] == nil {
			out = append(out, problem{Row: k, Class: "unexpected-row", Got: fmt.Sprint(after[k]), Want: "no such row", Why: "no record of the operation creates this row"})
		}
	}
	for _, k := range p.order {
		re := p.rows[k]
		got, ok := after[k]
		if !ok {
			cls, why := "row-vanished", "an existing row disappeared"
			if re.isNew {
				cls, why = "missing-insert", "the record was not inserted"
			}
			out = append(out, problem{Row: k, Class: cls, Got: "no row", Want: "row " + k, Why: why})
			continue
		}
		for _, f := range m.fields {
			e := re.cells[f.col]
			g := got[f.col]
			b := "(new row)"
			if br, ok := before[k]; ok {
				b = br[f.col]
			}
			switch e.mode {
			case mFree:
			case mKeep:
				if g != e.want {
					out = append(out, problem{Row: k, Col: f.col, Class: e.cls, Want: e.want + " (unchanged)", Got: g, Before: b, Why: e.why, NewRow: re.isNew})
				}
			case mMust:
				if g != e.want && (e.alt == "" || g != e.alt) {
					cls := "wrong-value-written"
					if g == b || (re.isNew && (g == "NULL" || g == e.absent)) {
						cls = "missing-write"
					}
					out = append(out, problem{Row: k, Col: f.col, Class: cls, Want: e.want, Got: g, Before: b, Why: e.why, NewRow: re.isNew})
				}
			case mRefresh:
				if !refreshSet(f, t0, t1)[g] {
					out = append(out, problem{Row: k, Col: f.col, Class: e.cls, Want: fmt.Sprintf("a clock value of ticks %d..%d", t0+1, t1), Got: g, Before: b, Why: e.why})
				}
			}
		}
	}
	return out
}

func sqlOf(evs []recdrv.Event) []string {
	var out []string
	for _, e := range evs {
		if e.IsStatement() {
			s := e.Query
			if len(e.Args) > 0 {
				s += fmt.Sprintf("  %v", e.Args)
			}
			if e.Err != nil {
				s += "  -> " + e.Err.Error()
			}
			out = append(out, s)
		}
	}
	return out
}

// signature of one disagreement. The two known findings keep their exact classes: KF-C10-1 is a
// column without UPDATE permission overwritten in an EXISTING (conflicting) row by an explicit
// DoUpdates list; the same class in a row the upsert inserts is a create-permission matter and
// has the ordinary family/class signature.
func signature(m *model, o *op, x problem) string {
	if o.second {
		// a finisher run on a handle that already ran an update: its own class
		first := *o
		first.second = false
		return "second-finisher-on-handle/" + signature(m, &first, x)
	}
	switch {
	case o.doNothingWhere && x.Class == "error" && strings.Contains(x.Got, "syntax error"):
		// UpdateAll without any column it may update is turned into DO NOTHING by gorm, which keeps the
		// condition of the conditional upsert: ON CONFLICT (..) DO NOTHING WHERE ..., a syntax error
		return "conditional-updateall-without-updatable-column-renders-do-nothing-where/error"
	case m.blockedCol(x.Col) && (x.Class == "missing-write" || (x.Class == "wrong-value-written" && o.family == "upsert-doupdates" && !x.NewRow)):
		// a column whose permission-less duplicate on the shorter path is declared BEFORE the
		// embedded struct holding the writable field: its own class (in an upsert conflict row the
		// listed excluded.<col> is the value of a column the INSERT did not write)
		return "permissionless-outer-duplicate-declared-first/column-not-written"
	case o.zeroLast:
		// Model(slice) whose LAST element carries no key: its own class (the other elements' keys
		// must still restrict the update)
		return "model-slice-last-element-without-key/" + x.Class
	case x.Class == "save-fallback-upsert-ignores-conditions":
		return x.Class
	case o.family == "upsert-doupdates" && x.Class == "denied-column-written" && !x.NewRow:
		return "upsert-doupdates-ignores-update-permission"
	}
	return o.family + "/" + x.Class
}

// signatures: the distinct signatures of the disagreements of one operation, in order. Next to an
// error the predicted cells that are missing are its consequence, not findings of their own.
func signatures(m *model, o *op, probs []problem) []string {
	var out []string
	seen := map[string]bool{}
	add := func(x problem) {
		if sg := signature(m, o, x); !seen[sg] {
			seen[sg] = true
			out = append(out, sg)
		}
	}
	if probs[0].Class == "error" {
		for _, x := range probs[1:] {
			if x.Class != "missing-write" && x.Class != "missing-insert" && x.Class != "autotime-not-refreshed" {
				add(x)
			}
		}
		if len(out) == 0 {
			add(probs[0])
		}
		return out
	}
	keyWritten := false
	for _, x := range probs {
		keyWritten = keyWritten || x.Class == "omitted-key-written"
	}
	for _, x := range probs {
		if keyWritten && x.Class == "missing-insert" {
			continue // the row exists under the key that should not have been written
		}
		add(x)
	}
	return out
}

func run(c *core.Ctx) {
	r := c.R
	table := fmt.Sprintf("t%d", c.Case)
	namer.set(table)
	m := genModel(r, table)
	_, err := H.SQL.Exec("DROP TABLE IF EXISTS `" + table + "`")
	must(err)
	_, err = H.SQL.Exec(m.createSQL())
	must(err)
	defer H.SQL.Exec("DROP TABLE IF EXISTS `" + table + "`")
	c.Logf("MODEL %s\n  %s", table, strings.Join(m.decls(), "\n  "))
	g := &gen{r: r, m: m}
	tags := map[string]bool{}
	for _, f := range m.fields {
		if f.perm != "" {
			tags[f.perm] = true
		}
		if f.autoUpd != "" {
			tags["autoUpdate:"+f.autoUpd] = true
		}
		if f.autoCre != "" {
			tags["autoCreate:"+f.autoCre] = true
		}
		if f.def != "" {
			tags["default:"+f.def] = true
			if !f.canCreate && !f.free {
				tags["default:"+f.def+"+no-create-permission"] = true
			}
		}
	}
	for t := range tags {
		c.Inc("model_tag_" + t)
	}
	if m.composite() {
		c.Inc("model_key_composite(int64,string)")
	} else {
		c.Inc("model_key_" + m.pk.k.name)
	}
	for _, n := range m.layoutFeatures() {
		c.Inc("model_embedded_struct_" + n)
	}
	for _, d := range m.dups {
		n := d.role
		if d.role == "ghost-outer" && d.first {
			n += "-declared-first"
		}
		c.Inc("model_duplicate_column_" + n)
	}
	if m.zeroGrid {
		c.Inc("model_key_composite_with_zero_parts")
	}
	for _, rl := range m.rels {
		c.Inc("model_relation_" + rl.typ + "_tag_" + rl.perm)
	}
	nops := 12
	for i := 0; i < nops; i++ {
		kind := core.Pick(r, opKinds)
		first := g.genOp(kind)
		// the operation and, for some updates, a second finisher on the same handle; each step runs
		// against a freshly seeded table (raw SQL, the handle is not involved)
		var handle *gorm.DB
		var firstDesc string
		for o := first; o != nil; o = o.next {
			seed(m, o.dead)
			before := snapshot(m)
			if len(before) != len(m.rows) {
				c.Inconclusive("harness: seeding failed")
				return
			}
			ck := condKeys(m, o)
			if o.foc != nil {
				// the path the generator aimed at must be the one the conditions select, and the found
				// row must be fixed by the statement (see focFound)
				if _, found, ok := focFound(m, o, ck); !ok || found != o.foc.wantFound {
					c.Inc("ops_firstorcreate_skipped_path_not_fixed")
					break
				}
			}
			if o.assoc != nil {
				seedChildren(m, o.modelKeys[0])
			} else if o.carriesKids() {
				seedChildren(m, m.rows[0].key)
			}
			if o.ocWhere != nil {
				o.ocKeys = keysWhere(m, o.ocWhere.rsql, o.ocWhere.rargs)
			}
			p := predict(m, o, ck)
			// relation fields that carry records: the tables behind a relation the path may not write
			// must come back unchanged
			var rcs []relCheck
			var kidsBefore map[string]string
			if o.assoc == nil && o.carriesKids() {
				rcs = relChecks(m, o, p)
				freeForeignKeys(m, p, rcs)
				kidsBefore = dumpKidTables()
			}
			H.Rec.Reset()
			mark := H.Rec.Mark()
			t0 := H.Clock.Ticks()
			var desc string
			var res *gorm.DB
			if !o.second {
				var pre, chain, fin string
				pre, chain, fin, handle, res = exec(H.DB.Session(&gorm.Session{}), m, o)
				desc = pre + chain + fin
				if o.next != nil && o.next.viaResult {
					handle = res
					firstDesc = pre + "res := " + chain + fin + "; /* table re-seeded with raw SQL */ res"
				} else {
					firstDesc = pre + "tx := " + chain + "; tx" + fin + "; /* table re-seeded with raw SQL */ tx"
				}
			} else {
				var fin string
				_, fin, res = finish(handle, m, o, reflect.Value{}, "")
				desc = firstDesc + fin
			}
			t1 := H.Clock.Ticks()
			evs := H.Rec.Since(mark)
			after := snapshot(m)
			c.Logf("OP %s -> err=%v rows=%d", desc, res.Error, res.RowsAffected)
			c.Inc("ops")
			c.Inc("op_" + o.kind)
			if o.second {
				c.Inc("ops_second_finisher_on_handle")
			}
			probs := compare(m, p, before, after, t0, t1)
			nDeadAddressed := 0
			if m.soft {
				// the soft-delete column: no operation hands a value over for it, so a row outside the target
				// set keeps it, and a target row keeps it or gets the NULL of the zero field value
				tg := map[string]bool{}
				for _, k := range p.target {
					tg[k] = true
				}
				var bks []string
				for k := range before {
					bks = append(bks, k)
				}
				sort.Strings(bks)
				for _, k := range bks {
					a, ok := after[k]
					if !ok {
						continue
					}
					b := before[k][softCol]
					if a[softCol] != b && !(tg[k] && a[softCol] == "NULL") {
						probs = append(probs, problem{Row: k, Col: softCol, Class: "soft-delete-column-written", Got: a[softCol], Want: b + " (unchanged)", Before: b, Why: "no value is handed over for the soft-delete field"})
					}
				}
				if updateKind(o.kind) && !o.unscoped {
					keys := map[string]bool{}
					for _, k := range o.modelKeys {
						keys[normL(k)] = true
					}
					for k := range o.dead {
						if (ck == nil || ck[k]) && (len(o.modelKeys) == 0 || keys[k]) {
							nDeadAddressed++
						}
					}
				}
			}
			o.doNothingWhere = false
			if o.kind == "upsert-all" && o.ocWhere != nil {
				for _, e := range evs {
					if e.IsStatement() && strings.Contains(e.Query, "DO NOTHING WHERE") {
						o.doNothingWhere = true
					}
				}
			}
			nRelDenied, nRelCarried := 0, 0
			var relShape []string
			if rcs != nil {
				kidsAfter := dumpKidTables()
				for _, rc := range rcs {
					nRelCarried++
					if !rc.keep {
						relShape = append(relShape, rc.rl.typ+" "+rc.rl.perm+" may-write")
						continue
					}
					nRelDenied++
					relShape = append(relShape, rc.rl.typ+" "+rc.rl.perm+" denied")
					for _, t := range rc.rl.tables() {
						if kidsBefore[t] != kidsAfter[t] {
							probs = append(probs, problem{Row: "table " + t, Col: rc.rl.name, Class: "denied-relation-written", Got: kidsAfter[t], Want: kidsBefore[t] + " (unchanged)", Before: kidsBefore[t], Why: rc.why})
						}
					}
				}
			}
			if res.Error != nil {
				c.Inc("op_errors")
				probs = append([]problem{{Class: "error", Got: res.Error.Error(), Want: "no error", Why: "a valid write returned an error"}}, probs...)
			}
			if len(probs) > 0 {
				var ps []string
				for _, x := range probs {
					ps = append(ps, x.String())
				}
				for _, sg := range signatures(m, o, probs) {
					c.Inc("violation_" + sg)
					c.Violation(sg, map[string]interface{}{
						"model":       m.decls(),
						"seeded_keys": p0keys(m),
						"operation":   desc,
						"error":       fmt.Sprint(res.Error),
						"target_rows": p.target,
						"problems":    ps,
						"sql":         sqlOf(evs),
						"note":        "every cell was seeded with a unique sentinel (ints 1000+, strings s<row>_<col>, times in 2001; column defaults 700+ / dflt<n>); expected = write-set predictor of the property statement; one violation per distinct class of disagreement of the operation",
					})
				}
				break
			}
			if o.next != nil && o.returning != "" && o.modelSlice && len(p.target) == 0 {
				// RETURNING without rows empties the Model(slice) of the handle: what a second finisher
				// then addresses is not fixed by the statement
				o.next = nil
			}
			// what the case exercised
			var nMust, nDenied, nNarrow, nRefresh, nZero, nDefKept, nDefZero, nEmb, nDupMust, nDupKept, nEmpty, nAssocKept int
			dupHit := map[string]bool{}
			defsHit := map[string]bool{}
			permsHit := map[string]bool{}
			for _, k := range p.order {
				re := p.rows[k]
				for _, f := range m.fields {
					e := re.cells[f.col]
					if re.isNew && f.def != "" {
						// a field with a default on an insert: a non-zero value kept out, or a zero value defaulted
						if e.mode == mKeep && (e.cls == "denied-column-written" || e.cls == "omitted-column-written" || e.cls == "unselected-column-written") {
							if rc := recOfKey(m, o, k); rc != nil {
								if mv, ok := rc.vals[f.idx]; ok && (o.isMap || !isGoZero(f.k, mv.lv)) {
									nDefKept++
									defsHit[f.def] = true
								}
							}
						} else if e.mode == mMust && e.alt != "" {
							nDefZero++
						}
					}
					if e.mode == mMust && !f.pk {
						if rc := recOfKey(m, o, k); rc != nil && isColl(f.k.class) {
							if mv, ok := rc.vals[f.idx]; ok && mv.form == "typed" && isEmptyColl(mv.lv) {
								nEmpty++ // an empty, non-nil slice / map: not a zero value, must be written
							}
						}
						if f.grp != nil {
							nEmb++
						}
						if f.dup != nil && !f.blocked {
							nDupMust++
							dupHit[f.dup.role] = true
						}
					} else if e.mode == mKeep && f.dup != nil && (re.isNew || contains(p.target, k)) {
						if rc := recOfKey(m, o, k); rc != nil && !o.isMap {
							if dv, ok := rc.dvals[f.dup.id]; ok && !isGoZero(f.dup.k, dv) {
								nDupKept++ // the duplicate carried a value while the column had to stay
								dupHit[f.dup.role] = true
							}
						}
					}
					switch {
					case e.mode == mMust && !f.pk:
						nMust++
					case e.mode == mRefresh:
						nRefresh++
					case e.mode == mKeep && (e.cls == "denied-column-written" || e.cls == "ignored-field-written" && (re.isNew || contains(p.target, k))):
						nDenied++
						permsHit[f.perm] = true
					case e.mode == mKeep && (e.cls == "omitted-column-written" || e.cls == "unselected-column-written" || e.cls == "unlisted-column-written"):
						nNarrow++
					case e.mode == mKeep && e.cls == "association-owner-column-written":
						nAssocKept++ // a column of an owner row that association mode must leave alone
					case e.mode == mKeep && (e.cls == "zero-field-written" || e.cls == "autotime-touched-by-column-update"):
						nZero++
					}
				}
			}
			c.Add("cells_must_written", nMust)
			c.Add("cells_denied_checked", nDenied)
			c.Add("cells_narrowed_checked", nNarrow)
			c.Add("cells_refresh_checked", nRefresh)
			c.Add("cells_zero_or_untracked_checked", nZero)
			c.Add("cells_default_field_value_kept_out_on_insert", nDefKept)
			c.Add("cells_default_field_zero_value_on_insert", nDefZero)
			c.Add("cells_written_through_embedded_struct", nEmb)
			c.Add("cells_written_next_to_duplicate_field", nDupMust)
			c.Add("cells_kept_although_duplicate_field_nonzero", nDupKept)
			c.Add("cells_empty_nonnil_collection_written", nEmpty)
			c.Add("cells_owner_row_kept_under_association_mode", nAssocKept)
			if fo := o.foc; fo != nil {
				path := "created"
				if fo.wantFound {
					path = "found"
					nm := 0
					for _, rw := range m.rows {
						if ck == nil || ck[normL(rw.key)] {
							nm++
						}
					}
					if nm > 1 && fo.assign != nil {
						c.Inc("ops_firstorcreate_found_assign_several_rows_match_conditions")
						if o.useModel {
							c.Inc("ops_firstorcreate_found_assign_several_rows_match_conditions_model_on_chain")
						}
					}
				}
				c.Inc("ops_firstorcreate_" + path)
				if fo.inline {
					c.Inc("ops_firstorcreate_condition_handed_to_finisher")
				}
				if fo.assign != nil {
					c.Inc("ops_firstorcreate_" + path + "_with_assign_" + map[bool]string{true: "map", false: "struct"}[fo.assignMap])
				}
				if fo.attrs != nil {
					c.Inc("ops_firstorcreate_" + path + "_with_attrs_" + map[bool]string{true: "map", false: "struct"}[fo.attrsMap])
				}
			}
			if a := o.assoc; a != nil {
				c.Inc("ops_association_" + a.verb + "_" + a.rel.typ)
				if a.slice {
					c.Inc("ops_association_slice_of_owners")
				}
				if a.withTable {
					c.Inc("ops_association_chain_with_table")
				}
			}
			if o.modelSlice {
				var zp, zk, rp bool
				seenK := map[string]bool{}
				for _, k := range o.modelElems {
					switch {
					case m.keyIsZero(k):
						zk = true
					case !m.fullKey(k):
						zp = true
					}
					if seenK[normL(k)] {
						rp = true
					}
					seenK[normL(k)] = true
				}
				if zp {
					c.Inc("ops_model_slice_element_with_zero_key_part")
				}
				if zk {
					c.Inc("ops_model_slice_element_without_key")
				}
				if rp {
					c.Inc("ops_model_slice_repeated_key")
				}
				if o.modelArray {
					c.Inc("ops_model_array")
				}
				if o.modelElemPtr {
					c.Inc("ops_model_slice_of_pointers")
				}
			}
			if o.dropKey {
				c.Inc("ops_create_key_carried_but_omitted")
			}
			if m.soft {
				c.Inc("ops_on_soft_delete_model")
				if len(o.dead) > 0 {
					c.Inc("ops_update_with_soft_deleted_rows")
				}
				if o.unscoped {
					c.Inc("ops_update_unscoped")
				}
				if nDeadAddressed > 0 {
					c.Inc("ops_update_conditions_or_key_match_soft_deleted_row")
				}
			}
			if cf := condForm(o); strings.Contains(cf, "o") {
				c.Inc("ops_update_conditions_joined_with_or_" + cf)
				if nDeadAddressed > 0 {
					c.Inc("ops_update_or_conditions_match_soft_deleted_row")
				}
			}
			if o.returning != "" {
				c.Inc("ops_" + o.family + "_with_returning_" + o.returning)
				if o.second {
					c.Inc("ops_second_finisher_on_handle_with_returning")
				}
			}
			if nEmpty > 0 {
				c.Inc("ops_empty_nonnil_collection_value_written")
			}
			if o.reordered {
				c.Inc("ops_chain_calls_reordered")
			}
			if o.noTable {
				c.Inc("ops_chain_without_table")
			}
			if len(o.sel) > 0 {
				c.Inc("ops_select_form_" + o.selForm)
			}
			if o.omitJoin != "" {
				c.Inc("ops_omit_one_comma_joined_string")
				for _, n := range o.omit[1:] {
					if n.fi >= 0 && !n.byCol && strings.Contains(o.omitJoin, " ") {
						c.Inc("ops_omit_comma_joined_blank_before_field_name")
						break
					}
				}
			}
			for _, n := range append(append([]nameRef{}, o.sel...), o.omit...) {
				if n.qual {
					c.Inc("names_table_qualified_column")
				}
			}
			if nDefKept > 0 && len(o.recs) > 1 {
				c.Inc("ops_batch_default_field_value_kept_out")
			}
			c.Add("rows_outside_target_checked", len(m.rows)-len(p.target))
			if len(p.target) > 0 && len(p.target) < len(m.rows) {
				c.Inc("ops_strict_subset_target")
			}
			if len(p.target) == 0 && (o.family == "updates-struct" || o.family == "updates-map" || o.family == "update" || o.family == "updatecolumns") {
				c.Inc("ops_empty_target")
			}
			if nRelCarried > 0 {
				c.Inc("ops_relation_fields_carry_records")
				c.Inc("ops_relation_fields_carry_records_" + o.family)
			}
			if nRelDenied > 0 {
				c.Inc("ops_relation_without_permission_checked")
				c.Add("relations_without_permission_tables_unchanged", nRelDenied)
				for _, rc := range rcs {
					if rc.keep {
						c.Inc("relation_denied_" + rc.rl.typ + "_" + rc.rl.perm)
					}
				}
			}
			if o.ocWhere != nil {
				c.Inc("ops_" + o.family + "_conditional(OnConflict.Where)")
				out := 0
				for _, rc := range o.recs {
					if k, ok := m.recKey(rc); ok && m.seedFor(normL(k)) != nil && !o.ocKeys[normL(k)] {
						out++
					}
				}
				if out > 0 {
					c.Inc("ops_conditional_upsert_conflicting_row_outside_condition")
					c.Add("rows_conflicting_outside_onconflict_where_checked", out)
				}
				if len(p.target) > 0 && out > 0 {
					c.Inc("ops_conditional_upsert_condition_splits_conflicting_rows")
				}
			}
			if o.ocTarget != nil {
				c.Inc("ops_upsert_with_target_predicate(TargetWhere)")
			}
			if o.batch > 0 && strings.HasPrefix(o.kind, "upsert-") {
				c.Inc("ops_upsert_through_CreateInBatches")
			}
			nontrivial := nMust+nRefresh > 0 || nDenied+nNarrow+nAssocKept > 0 || nRelDenied > 0 || (o.ocWhere != nil && len(p.target) < countConflicts(m, o)) || (o.foc != nil && o.foc.wantFound && o.foc.assign == nil)
			if nontrivial {
				c.Inc("ops_nontrivial")
				var ph, fm []string
				for t := range permsHit {
					ph = append(ph, t)
				}
				sort.Strings(ph)
				for t := range o.forms {
					fm = append(fm, t)
				}
				sort.Strings(fm)
				spell := ""
				for _, n := range append(append([]nameRef{}, o.sel...), o.omit...) {
					if n.fi >= 0 {
						if n.qual {
							spell += "q"
						} else if n.byCol {
							spell += "c"
						} else {
							spell += "f"
						}
					}
				}
				if len(spell) > 2 {
					spell = spell[:2]
				}
				var dh []string
				for t := range defsHit {
					dh = append(dh, t)
				}
				sort.Strings(dh)
				var du []string
				for t := range dupHit {
					du = append(du, t)
				}
				sort.Strings(du)
				c.Shape(o.kind, o.tform, o.selMode, spell, ph, fm, nMust > 0, nRefresh > 0, nNarrow > 0, nZero > 0, len(p.target) > 1, m.pk.k.name, len(m.pks), dh, o.dropKey, o.reordered, listForm(o),
					nEmb > 0, m.layoutName(), du, sliceForm(m, o), nEmpty > 0, o.returning, o.second, extraForm(m, o), o.noTable,
					relShape, upsertForm(m, o, p), nDeadAddressed > 0)
				if c.WantSample() && i == 5 {
					c.Sample(map[string]interface{}{"model": m.decls(), "operation": desc, "target_rows": p.target, "sql": sqlOf(evs),
						"checked": fmt.Sprintf("%d written cells, %d denied, %d narrowed, %d refreshed, %d rows outside the target unchanged", nMust, nDenied, nNarrow, nRefresh, len(m.rows)-len(p.target))})
				}
			}
		}
	}
}

func countConflicts(m *model, o *op) int {
	n := 0
	for _, rc := range o.recs {
		if k, ok := m.recKey(rc); ok && m.seedFor(normL(k)) != nil {
			n++
		}
	}
	return n
}

// upsertForm: the OnConflict part of the case shape.
func upsertForm(m *model, o *op, p *prediction) string {
	if !strings.HasPrefix(o.kind, "upsert-") {
		return ""
	}
	return fmt.Sprintf("where=%v split=%v target=%v cols=%v batch=%v", o.ocWhere != nil, o.ocWhere != nil && len(p.target) > 0 && len(p.target) < countConflicts(m, o), o.ocTarget != nil, o.ocCols, o.batch > 0)
}

// extraForm: the FirstOrCreate / association part of the case shape.
func extraForm(m *model, o *op) string {
	switch {
	case o.foc != nil:
		fo := o.foc
		f := func(rc *rec, isMap bool) string {
			switch {
			case rc == nil:
				return "-"
			case isMap:
				return "map"
			}
			return "struct"
		}
		return fmt.Sprintf("foc found=%v model=%v attrs=%s assign=%s inline=%v", fo.wantFound, o.useModel, f(fo.attrs, fo.attrsMap), f(fo.assign, fo.assignMap), fo.inline)
	case o.assoc != nil:
		a := o.assoc
		var others []string
		for _, mm := range a.mem {
			for n := range mm {
				others = append(others, n)
			}
		}
		sort.Strings(others)
		return fmt.Sprintf("assoc %s ptr=%v fk=%v slice=%v/%v table=%v argslice=%v mem=%v", a.rel.typ, a.rel.ptr, a.rel.fk != nil && a.rel.fk.k.name != "", a.slice, a.elemPtr, a.withTable, a.argSlice, others)
	case updateKind(o.kind):
		// the join of the chain's conditions, and on a soft-delete model: are soft-deleted rows matched
		return condForm(o) + " " + softForm(m, o)
	}
	if m.soft {
		return "soft-model"
	}
	return ""
}

// condForm: how the conditions of the chain are joined: "" | w | ww | wo | woo | wwo | wwoo.
func condForm(o *op) string {
	s := ""
	for _, c := range o.conds {
		if c.or {
			s += "o"
		} else {
			s += "w"
		}
	}
	return s
}

// softForm: on a soft-delete model, what the soft-deleted rows of an update look like.
func softForm(m *model, o *op) string {
	switch {
	case !m.soft:
		return ""
	case len(o.dead) == 0:
		return "soft:none-dead"
	case o.unscoped:
		return "soft:unscoped"
	}
	return "soft:dead-rows"
}

// sliceForm: what the elements of a Model(slice) look like (part of the case shape).
func sliceForm(m *model, o *op) string {
	if !o.modelSlice {
		return ""
	}
	out := "slice"
	if o.modelArray {
		out = "array"
	}
	if o.modelElemPtr {
		out += "-ptr"
	}
	for _, k := range o.modelElems {
		if m.keyIsZero(k) && !strings.Contains(out, "+nokey") {
			out += "+nokey"
		} else if !m.keyIsZero(k) && !m.fullKey(k) && !strings.Contains(out, "+zeropart") {
			out += "+zeropart"
		}
	}
	return out
}

// listForm: how the lists of names were handed to Select / Omit (part of the case shape).
func listForm(o *op) string {
	out := ""
	if len(o.sel) > 0 {
		out = "S:" + o.selForm
	}
	if len(o.omit) > 0 {
		if o.omitJoin != "" {
			out += " O:joined" + strings.ReplaceAll(o.omitJoin, " ", "_")
		} else {
			out += " O:variadic"
		}
	}
	return out
}

// recOfKey: the record of a create-type operation that produced the new row k (records are
// inserted in order; rows with database-assigned keys are matched by position).
func recOfKey(m *model, o *op, k string) *rec {
	for _, rc := range o.recs {
		if key, ok := m.recKey(rc); ok && normL(key) == k {
			return rc
		}
	}
	if len(o.recs) > 0 {
		return o.recs[0] // database-assigned keys: batches are uniform per default field (uniformDefaults)
	}
	return nil
}

func (m *model) blockedCol(col string) bool {
	for _, f := range m.fields {
		if f.col == col && f.blocked {
			return true
		}
	}
	return false
}

func contains(xs []string, x string) bool {
	for _, y := range xs {
		if y == x {
			return true
		}
	}
	return false
}

func p0keys(m *model) []string {
	var out []string
	for _, r := range m.rows {
		out = append(out, normL(r.key))
	}
	return out
}

var Engine = &core.Engine{
	ID:    "C10",
	Level: "exploration",
	Rule: "per case one model type built with reflect.StructOf (key int64 / uint / string / composite (int64,string); 3..7 fields of 20 Go types incl. pointers, sql.Null* and four kinds whose Go kind is Slice or Map (5 picks in 24): []byte, []string and map[string]int64 under serializer:json, and a named slice type that is its own driver.Valuer / sql.Scanner (type:text); custom column names, one random permission tag each out of <-:create, <-:update, <-:false, <-, ->, ->;<-:create, ->;<-:update, ->:false;<-:create, ->:false;<-, ->:false, -, -:migration, -:all; about 3 data fields in 10 also carry a default value in either tag order - default:(SQL expression) or default:null, which only the database evaluates (schema.FieldsWithDefaultDBValue), or a literal default:N / default:text gorm writes itself for a zero value - with the same DEFAULT in the table's DDL; 0..3 tracked time fields: UpdatedAt/CreatedAt by name, autoUpdateTime (time, seconds, milli, nano), autoCreateTime); in half of the models the non-key fields are spread over the top level and 1..2 EMBEDDED STRUCTS (embedded by tag or anonymously, by value or by pointer, with or without embeddedPrefix, one level of nesting) and 0..2 columns get a DUPLICATE field of the same Go name on a path of another length: " +
		"a field without any permission (<-:false;->:false in either tag order) on the shorter path (top level) declared after - 1 in 3: before - the embedded struct whose writable field keeps serving the column, a field without any permission on the longer path, or a promoted field with a random permission tag shadowed by the outer field that owns the column (left zero); duplicates without permission carry non-zero values 3 times in 4, which must never reach the column; " +
		"the table is created with raw SQL and holds 3..6 rows of unique sentinels; half of the composite-key models seed keys whose parts may be zero ((0,'a'), (1,'')); 12 writes per case, each on a re-seeded table: " +
		"Create(struct | slice | []*T | map | []map), CreateInBatches, upsert (DoUpdates AssignmentColumns / Assignments, UpdateAll with or without the key named as conflict target, DoNothing; conflicting and new keys mixed; through Create or - one upsert of 2+ records in four - CreateInBatches(.., 1..2); CONDITIONAL UPSERT: 2 in 5 of the DoUpdates / UpdateAll upserts with a conflicting key carry OnConflict.Where = clause.Where{Exprs: 1..2 comparisons (=, <>, >, <=, IN) of a key column or a plain int / string data column of the STORED row}, each spelled as raw clause.Expr (bare, table-qualified 'tbl.col', for a single key also 'excluded.key'), as typed clause.Eq / Neq / Gt / Lte / IN with a bare, table-qualified or clause.CurrentTable column, or - 1 in 6 - as clause.Not of the opposite comparison, aimed at a strict subset of the conflicting rows: a stored row whose key conflicts but which does not satisfy the condition must keep every cell, the conflicting rows that satisfy it change as in an unconditional upsert, new keys are inserted; 1 upsert in 5 with a named conflict target also carries OnConflict.TargetWhere with a predicate every row satisfies), Save (existing key, new key, zero key, slice, under a Where), Updates(struct by value/pointer, value = model), Updates(map), Update, UpdateColumn, UpdateColumns(struct | map) x Select/Omit (none, names, '*', '*'+Omit, names+Omit, Omit('*'); each name spelled as field name, column name or - 1 column spelling in 6 - column name qualified with the written table 'tbl.col'; the list of names handed over as Select(a, b, c), Select([]string{..}), Select(a, []string{..}), Select([]string{..}, c), Select([]string{a}, []string{..}), Omit(a, b, c) or - 2 in 5 lists of two or more names - ONE comma-joined string Omit(\"a,b\" | \"a, b\" | \"a , b\") with every mix of spellings at every position) x values zero / non-zero / pointer-to-zero / nil / gorm.Expr / for the slice and map kinds an EMPTY BUT NON-NIL value ([]byte{}, []string{}, map[string]int64{}, StrList{}: not the zero value of its type, so Updates(struct), UpdateColumns(struct), Save and every insert must write it - an empty blob, \"[]\", \"{}\" - while nil is the zero value; 1 non-zero collection value in 3 in structs, the \"zero\" slot of map values and DoUpdates assignments) x targets Model(key), Where (8 forms, 1..2), Model(key)+Where, Model(slice | array, of T | *T, of keys)[+Where] whose elements may have a zero key PART (composite keys), repeat a key (1 in 6) or carry no key at all (1 in 5; one time in three as the last element), missing key, value = model [+Where]; creates whose records carry integer keys while the key column is omitted / left unselected (1 in 5: the database must assign the key); one operation in three runs its chain calls (Model, Where, Select, Omit, Clauses, Attrs, Assign) in a random order; one update in three carries Clauses(clause.Returning{}) or a Returning naming 1..3 columns (UPDATE ... RETURNING scanned back into the model value), one struct create / upsert / Save in five does; REUSED HANDLE: after one update in three (no new Session) a SECOND update finisher - any of Updates(struct | map), Update, UpdateColumn, UpdateColumns(struct | map) with its own values - is called on the same *gorm.DB handle, either on the variable holding the chain (tx := db.Table(..).Model(..).Where(..).Select(..).Clauses(..); tx.Update(..); tx.Updates(..)) or on the handle the first finisher returned (the chained spelling ....Updates(a).UpdateColumns(b)), and after one Create / Create(slice) / CreateInBatches in four a second one with fresh records; the table is re-seeded with raw SQL between the two, so each finisher is checked on its own against the same prediction rules: it must write exactly ITS keys / non-zero fields to the rows the shared chain addresses; a column an INSERT may not write must hold the column's DDL default (else NULL); " +
		"FIRSTORCREATE (4 kinds in 38): db[.Model(&T{})].Where(..)[.Select/Omit][.Attrs(a)][.Assign(b)].FirstOrCreate(&dest[, cond]) with a and b each a map (every value form) or a struct by value / pointer (1..3 non-zero fields, pointer-to-zero included), Model(&T{}) on the chain one time in two, the single condition handed to the finisher instead of to Where one time in four, dest zero, carrying a key, or (not-found path) carrying values of its own; FOUND path (conditions of the 8 Where forms, none at all, or dest's key): with Assign the values of b must reach - exactly as Updates(map of b's keys / b's non-zero fields) would: permission tags, Select/Omit, refresh of tracked update time - the FOUND row only (first by primary key among the rows matching the conditions; 2..5 rows match in half of the cases) and no other row matching the conditions; with Attrs only nothing may be written; NOT-FOUND path (a new key as map condition, as string condition, or a fresh value of a data column as map / struct condition, dest with the new key or a database-assigned one): the created row is dest overlaid with the equality conditions, Attrs, then Assign, and obeys the rules of Create (create permission, Select/Omit, defaults); " +
		"ASSOCIATION MODE (7 kinds in 38, models with an association field that has every permission): one model in two has 1..2 association fields to static types - has-many Pets []C10Pet | []*C10Pet, has-one Toy, belongs-to Company with its foreign-key field CompanyID (int64 | *int64 | sql.NullInt64 | uint; an ordinary data field for every other operation), many2many Tags - with foreignKey / references / joinForeignKey named in the tag for all four key kinds; db[.Table(t)].Model(&owner | &[]T{o1, o2} | &[]*T{o1, o2}).Association(name).Append / Replace / Clear / Delete(records as pointers or one slice; existing, new and database-assigned keys) where every in-memory owner has the key of a seeded row and data fields that DIFFER from the row (the row changed behind its back), and one relation field in two - the relation itself or another one - already carries loaded / never-saved records: of the owner's table only the foreign key of the belongs-to relation may change (Append / Replace: the key of the linked record; Clear: NULL; Delete: NULL where the row is linked to a named record), in the owners' rows only; every other cell keeps its content; " +
		"RELATION FIELDS WITH PERMISSION TAGS: one model in two has 1..2 association fields (see association mode), each with a random permission tag in front of or behind its key names - none (8 in 23), <-:create, <-:update, <-:false, ->, ->;<-:create, <-, -:migration, -, -:all, <-:false;->:false - and in every struct value of a write (each record of Create / CreateInBatches / upsert / Save, the value of Updates / UpdateColumns, the Model value - every element of a Model(slice) - of Updates / Update / UpdateColumn(s)) every relation field carries, one time in two, 1..2 associated records (has-one / belongs-to: 1) with a new key, a key the database assigns or the key of a stored, unlinked record: the tables behind a relation (c10_pets | c10_toys | c10_companies | c10_tags + join table, re-seeded before and read back with raw SQL after every such write) must come back UNCHANGED when the relation field has no permission for the path the value takes - create for Create / CreateInBatches / new keys of an upsert or Save(slice) / Save of a zero key, update for Updates / Update / UpdateColumn(s) and for Save of an existing key whose UPDATE certainly runs, create-or-update (only a relation that has neither is certainly not written) for records whose key conflicts in an upsert or Save(slice), for Save of a new non-zero key, Save under conditions and a Save whose UPDATE may be empty (Save falls back to its upsert); " +
		"OR-JOINED CONDITIONS: two in five of the update chains addressed by conditions alone (key-less Model(&T{})) append 1..2 alternatives, Where(a)[.Where(b)].Or(c)[.Or(d)] with every condition one of the 8 Where forms (string with arguments, map, IN lists, composite 'k1 = ? AND k2 = ?'): exactly the rows of (a AND b) OR c OR d change; " +
		"SOFT-DELETE MODELS: one model in three has a top-level field DeletedAt gorm.DeletedAt (column deleted_at, declared at a random position behind the key, never given a value); all write paths run on such a model with every row live, and for the update finishers (Updates / Update / UpdateColumn(s), first and second finisher on a handle, every target form: Model key, Model(slice), the value as model, conditions, Or-joined conditions) three operations in four seed 1..n-1 of the rows as SOFT-DELETED (deleted_at holds a time): a soft-deleted row that matches the chain's conditions / the Model key - in particular one matching a non-last branch of an Or chain - must come back unchanged cell by cell (class soft-deleted-row-changed), unless the chain carries Unscoped() (one chain in five, as first or as last call of the chain), which makes it an ordinary target row; deleted_at itself must keep its content in every row outside the target set and may only keep it or become NULL (the zero field value under Select('*') / Save / UpdateAll) inside (class soft-delete-column-written); " +
		"one chain in four does not start with db.Table(name) (the table is the one of the model's schema); " +
		"distinct = (finisher, target form, Select/Omit mode and spelling, permission tags denied, value forms, which check classes occurred, key kind, kinds of default whose given value had to be kept out of an INSERT, key carried but omitted, chain calls reordered, call form of the Select list and of the Omit list incl. the separator of a comma-joined one, cells written through an embedded struct, embedding forms of the model, roles of the duplicate fields next to a checked cell, container and element forms of a Model(slice), an empty non-nil collection value had to be written, form of the RETURNING clause, first or second finisher on the handle, FirstOrCreate path / Model on the chain / forms of Attrs and Assign / inline condition, association type / pointer forms / owner container / records already carried, chain with or without Table, type and tag of every relation field that carried records and whether the path may write it, OnConflict form: condition / condition splits the conflicting rows / target predicate / key named / through CreateInBatches, join form of the conditions (w, ww, wo, woo, wwo, wwoo), soft-delete model with no / some soft-deleted rows / Unscoped, a soft-deleted row matched the conditions or the key); non-trivial = at least one cell had to be written or refreshed, or a given value had to be kept out by a permission tag / Select / Omit, or the records of a relation field without permission had to be kept out of the relation's tables, or a conflicting row outside the condition of a conditional upsert had to be left alone, or a differing in-memory value of an owner had to be kept out by association mode, or a found record had to be left alone for want of Assign",
	Assumptions: []string{
		"the table is created with raw SQL (the migrator is not under test); reflect.StructOf types have no name, so three chains in four start with db.Table(name) and the handle's NamingStrategy maps the empty type name to the table of the running case (stands for a TableName method; every case's type is made unique by a second tag key on its first field, gorm caches one schema per type); ignored fields (`-`, `-:all`) get a ghost column so that a write to them is visible",
		"`->:false` without a `<-` tag: the statement does not fix its write permission, the column is not checked in addressed rows (rows outside the target are)",
		"tracked time fields never carry a permission tag, and hook-running map updates / Update never name a tracked update-time field (refresh versus given value is not fixed by the statement)",
		"on inserts (Create, batch, map, upsert, Save of a new key) tracked time columns are not checked: the statement only fixes their refresh on updates; on upsert conflicts they are not checked either, except Save(slice) which must refresh tracked update-time fields",
		"upsert conflict rows: a column whose field may be updated but not created is not checked (excluded.<col> of a column the INSERT may not write); unlisted columns must stay, listed ones must take the new value unless the field denies update",
		"Select('*') with a struct value that is not the model writes the key column as well: such values carry the key of the single addressed row; otherwise struct values carry a zero key or the key of the addressed row; key fields are never named in Select/Omit of an update",
		"map keys of ignored fields are spelled by field name only (the column spelling of a field without column is a plain unknown column), and map creates never name an ignored field (gorm renders an INSERT with an empty column name, a plain SQL error that writes nothing)",
		"Create of several maps passes &[]map[string]interface{} (the non-pointer form fails in Scan of the RETURNING row on this dialect, which is not a write-set matter); every generated INSERT has at least one column (DEFAULT VALUES inserts are outside the statement)",
		"Omit('*') only on Updates/Update/UpdateColumn(s); Save of a new key and Save under a condition only with Omit; upsert with explicit DoUpdates without Select/Omit; UpdateAll only with Omit",
		"batches carry either only zero keys or only explicit keys; the new keys are then max+1.. (SQLite rowid) resp. the given ones; composite keys of records (creates, upserts, Save) and of STRUCT model values are always given completely (both parts non-zero): a struct value with a partly zero key is addressed by its non-zero parts only, which the statement does not fix; rows with a partly zero key are addressed by conditions and by the elements of a Model(slice), whose keys are taken literally, zero parts included",
		"conditions are evaluated by SQLite itself (raw SELECT) to get the target set; their rendering is C02's subject",
		"Or: only behind every Where of the chain (Where(a).Or(b).Where(c) renders a OR b AND c: which grouping is meant is not fixed by the statement), only on update chains whose Model value carries no key and is not a slice (how a key of the model value combines with an Or chain is not fixed: C02 reads it as one more AND unit of the last OR group), never on Save, FirstOrCreate or association chains; the reference evaluates (a AND b) OR c OR d with every condition parenthesised",
		"soft delete: the reading is that a soft-deleted row is outside every chain that is not Unscoped, so no update finisher may change any of its cells; soft-deleted rows exist only while an update finisher runs: Save of a record whose row is soft-deleted (UPDATE matches nothing, the fallback upsert rewrites the row), upserts conflicting with a soft-deleted row, FirstOrCreate and association calls over soft-deleted rows are not fixed by this statement and not generated; no operation hands a value over for the DeletedAt field (it is not among the model's data fields: never named in Select / Omit / a map, always zero in a struct), the field carries no permission tag and sits at the top level; RowsAffected is not checked",
		"default values: a zero struct value of a field with a default must end up as the default OR as the zero value (the statement does not say which); in an upsert conflict row the new value of such a field is not checked when it is zero or when the default is database-evaluated (UpdateAll leaves those columns out), while denied / omitted / unlisted columns must still stay; in a batch of maps a key only other maps carry is not checked on a default column (NULL versus default)",
		"within one batch of structs a database-evaluated default field is zero in every record or non-zero in every record (for a mixed batch gorm renders the DEFAULT keyword, which SQLite does not parse); time, slice and map fields only get default:null; key, tracked-time and ignored fields get no default",
		"a field tagged ->:false (not readable) gets no default: gorm adds RETURNING <col> for database-default fields and fails to scan it back into an unreadable field (Scan error / nil field dereference in gorm.Scan, later rows of the batch not inserted): a read-back matter outside this statement, see the report of the strengthening round",
		"the key column is omitted / left unselected on creates only for single integer keys (the database can assign one); string and composite keys are always written",
		"the chain calls commute: Table() (when present) always comes first, the finisher last, map conditions use column names (no model is needed to resolve them)",
		"one violation per distinct class of disagreement of an operation (so a known finding does not hide another class in the same operation); the known-finding signature upsert-doupdates-ignores-update-permission is only given to existing (conflicting) rows",
		"name lists: Omit's documented one-string form is a comma-separated list (separators: a comma with optional blanks around it; other separators gorm happens to split on are not generated); a comma-joined string given to Select is NOT generated (on write paths gorm takes it as one unknown name: not fixed by the statement); Select and Omit are each called at most once per chain (a second call replaces the first list: not fixed by the statement); the table-qualified spelling is only used with the column name and the statement's own table (db.Table(name)), never with a field name, another table, quotes or 'tbl.*'",
		"the value of Updates(struct) has the model's own type (different-schema values are not generated)",
		"Model(slice): an element without key (all key parts zero) addresses no row, the other elements still restrict the update; at least one element has a key; a slice whose LAST element has no key is reported under its own signature model-slice-last-element-without-key/<class>",
		"embedded structs: keys stay at the top level; Go field names are unique over the whole model except for the duplicate pairs, so the field-name spelling of Select/Omit/map keys is unambiguous; embedded pointers are non-nil whenever a field below them is set",
		"duplicate columns: exactly two fields share a column, they have the same Go name and sit on paths of DIFFERENT length (two fields on paths of equal length sharing a column, duplicates with another Go name via column:, and three or more fields per column are not generated: which field owns the column is not fixed by the statement); one of the two has either no permission at all (then the other one's rules apply unchanged: it is written where the statement says so, and the permission-less field's value never is) or is the deeper, promoted field shadowed by an outer field with some permission (Go's shadowing: the outer field owns the column, the inner one is always left zero); names and map keys address the owning field; duplicates carry no default and are never key, tracked-time or ignored fields",
		"slice and map kinds: a value handed over in a MAP (Updates(map), Update, UpdateColumn(s)(map), clause.Assignments) does not pass through the field's serializer, so map values of serializer:json fields are given in their stored form (the JSON text), nil or gorm.Expr; []byte and the Valuer type are given as Go values; conditions never compare such a column; the JSON texts contain no characters json.Marshal escapes",
		"RETURNING: named columns never include an unreadable (->:false) column - gorm fails to scan it back ('unsupported Scan, storing driver.Value type ... into type *struct') and the default transaction rolls the write back: the same read-back matter as the RETURNING of database-default fields above, outside this statement - and name all key columns or none (a part of a composite key scanned by position into the elements of a Model(slice) mixes the keys of different rows); map creates carry no Returning; CreateInBatches under Clauses(clause.Returning{}) (all columns) is generated since the panic it caused was repaired (const genBatchReturningAll)",
		"second finisher on a handle: only where what the handle addresses after the first finisher is fixed - not when the value is the model itself (assigned / loaded by the first finisher), not under RETURNING with a key-less Model(&T{}) (RETURNING loads the first returned row's key into it), not under RETURNING * with a Model(array of *T) (unfilled elements are left nil and the next finisher dereferences them), and not under RETURNING with a Model(slice) when the first finisher addressed no row (the slice is emptied); a column-update finisher leaves the handle in skip-hooks mode, so only column-update finishers follow one (whether a later Updates on that handle is hook-running is not fixed by the statement); Select('*') lets a second struct value follow only where it can carry the key of the single addressed row; a second create follows only plain Create / CreateInBatches of structs; violations of the second finisher have the signature second-finisher-on-handle/<family>/<class>",
		"FirstOrCreate: which record is 'first' is fixed by the primary key order only: cases where several matching rows share the smallest first key column (composite keys are ordered by their first column) or where the found key has a zero part are skipped (counter ops_firstorcreate_skipped_path_not_fixed), as are cases whose conditions select the other path than the generator aimed at; Model on the chain is the empty Model(&T{}) only (a key in Model is not a condition of the query but would be one of the update); Attrs / Assign never name collection kinds (a slice value of the Assign map is rendered as a value list), tracked update-time fields or, in struct form, unreadable (->:false) and ignored fields (a struct is read through its readable fields); a zero field of an Assign struct that Select names is not checked on the found path (Updates(struct) would write it, the found path hands over the non-zero fields as a map); on the not-found path maps carry plain values only (no gorm.Expr: they are set on dest with field.Set), string conditions are not taken over into dest, and conditions on data columns use plain int / string fields without default or tracked time; Select lists name all key columns (Select also narrows the query that loads the found record, which is then addressed by its key) and no ignored field; Select/Omit modes: none, names, '*', Omit(names)",
		"association mode: the statement fixes no Select list for the owner, so the reading is: the call writes a link, and of the owner's table only the belongs-to foreign key may change; whether linking refreshes the owner's tracked update-time columns is not checked; the tables of the associated records and the join table are re-seeded before every call and NOT inspected (link sets are C12's subject); no Select/Omit/Where on an association chain, no FullSaveAssociations, no Unscoped, no polymorphic or self-referential relation; owners are rows with a complete key; a slice of owners takes one argument per owner; a record whose key the database assigns is only handed to a single owner (the expected foreign key is then max(id)+1 of the seeded c10_companies); db.Table(name) in front of an association chain only for belongs-to and for Append on has-many / many2many (with Table the statements Replace / Clear / Delete run against the ASSOCIATED table of has-one / has-many and against the join table of many2many are redirected to the named table - UPDATE `owners` SET `owner_id`=NULL WHERE `c10_pets`.`owner_id` IN (..), DELETE FROM `owners` WHERE `c10_owner_tags`.`owner_id` IN (..) - and fail with 'no such column': not fixed by the statement); in the other operations the relation fields carry records as described under relation fields; violations have the signature association-<append|replace|clear|delete>/<class>, class association-owner-column-written for a cell that had to be left alone",
		"relation fields: the permission tag of a relation FIELD is read like that of any field - without create (update) permission, read-only or ignored, the create (update) of the owner writes nothing through it: no associated record saved, no stored one re-linked, no join row; what a relation WITH permission saves is not this property's subject: its tables are not inspected, and the owner's foreign-key cell of a belongs-to relation that may be written and carries a record is not predicted (gorm sets it to the record's key); a record whose key conflicts in an upsert / Save(slice) updates its row through the create callbacks, Save of a new non-zero key runs an UPDATE and then its fallback upsert, a Save whose UPDATE has no column to set falls back too: there only a relation with neither permission is checked; map creates and FirstOrCreate carry no associated records; ->:false alone is not used on relation fields; association mode is only run on relation fields with every permission (none, <-, -:migration: what association mode does with a relation it may not write is not fixed by the statement); violations have the class denied-relation-written (signature <family>/denied-relation-written)",
		"conditional upsert: OnConflict.Where is a condition of the chain (it reaches the statement through Clauses): a stored row whose key conflicts changes only when it satisfies it (class conflict-row-outside-onconflict-where-changed otherwise); the condition compares columns of the stored row with constants (no excluded.<data column>: for a column the INSERT may not write its value is not fixed), columns hold no NULL; DoNothing never carries a condition (DO NOTHING WHERE is no SQL); OnConflict.TargetWhere is the predicate of the conflict TARGET (index inference), not a row condition: it is only generated with a predicate every row satisfies (key IS NOT NULL / key <> an unused value), so that it can neither add nor remove a row under any reading, and only together with a named conflict target; a conditional UpdateAll for which no column may be updated is turned into DO NOTHING by gorm with the condition left in place (ON CONFLICT (..) DO NOTHING WHERE ..: a syntax error, nothing is inserted): reported under its own signature conditional-updateall-without-updatable-column-renders-do-nothing-where/error",
		"a permission-less duplicate on the shorter path is always declared AFTER the embedded struct that holds the writable field; declared before it, it is the first to claim the column and gorm keeps it (the writable field is ignored on every write path): which of two fields owns a column is not fixed by the statement, so that order is not generated",
	},
	Cases: func(tier string) int {
		if tier == "thorough" {
			return 150000
		}
		return 8000
	},
	Batch:         func(string) int { return 125 },
	Run:           run,
	Init:          initEnv,
	MinNontrivial: 300,
}

package c10

import (
	"fmt"
	"reflect"
	"sort"
	"strings"
	"sync"

	"gorm.io/gorm"
	"gorm.io/gorm/schema"

	"verif/core"
)

// ---- association mode: the owner's table under Append / Replace / Clear / Delete ---------------
//
// Association mode writes a LINK. The owner value handed to Model(...) is not the value of the write
// (the arguments of Append / Replace / Delete are), so of the owner's table only the foreign-key
// column of a belongs-to relation may change, in the rows of the owners only; every other column
// keeps its content even when the in-memory owner carries other (stale) values for it. The tables
// of the associated records are not inspected here (the link sets are C12's subject).

// The associated records are static types (a reflect.StructOf type cannot be the target of a
// relation by name); their tables are created once per process with raw SQL.
type C10Pet struct {
	ID        int64 `gorm:"primaryKey"`
	Name      string
	OwnerID   int64
	OwnerCode string
	OwnerK1   int64
	OwnerK2   string
}

type C10Toy struct {
	ID        int64 `gorm:"primaryKey"`
	Name      string
	OwnerID   int64
	OwnerCode string
	OwnerK1   int64
	OwnerK2   string
}

type C10Company struct {
	ID   int64 `gorm:"primaryKey"`
	Name string
}

type C10Tag struct {
	ID   int64 `gorm:"primaryKey"`
	Name string
}

var (
	tPet     = reflect.TypeOf(C10Pet{})
	tToy     = reflect.TypeOf(C10Toy{})
	tCompany = reflect.TypeOf(C10Company{})
	tTag     = reflect.TypeOf(C10Tag{})
)

const joinTable = "c10_owner_tags"

var childDDL = []string{
	"CREATE TABLE c10_pets (id INTEGER PRIMARY KEY, name TEXT, owner_id, owner_code, owner_k1, owner_k2)",
	"CREATE TABLE c10_toys (id INTEGER PRIMARY KEY, name TEXT, owner_id, owner_code, owner_k1, owner_k2)",
	"CREATE TABLE c10_companies (id INTEGER PRIMARY KEY, name TEXT)",
	"CREATE TABLE c10_tags (id INTEGER PRIMARY KEY, name TEXT)",
	"CREATE TABLE " + joinTable + " (owner_id, owner_code, owner_k1, owner_k2, tag_id)",
}

// caseNamer gives the unnamed model type of the running case its table: gorm derives the table of a
// type from its name, a reflect.StructOf type has none (the device stands for a TableName method).
type caseNamer struct {
	schema.NamingStrategy
	mu  sync.Mutex
	cur string
}

func (n *caseNamer) TableName(str string) string {
	if str == "" {
		n.mu.Lock()
		defer n.mu.Unlock()
		return n.cur
	}
	return n.NamingStrategy.TableName(str)
}

func (n *caseNamer) set(t string) {
	n.mu.Lock()
	n.cur = t
	n.mu.Unlock()
}

var namer = &caseNamer{}

type relation struct {
	name  string // Go field name
	typ   string // has-many | has-one | belongs-to | many2many
	ptr   bool   // []*C10Pet / *C10Toy / *C10Company / []*C10Tag
	tag   string
	fk    *field // belongs-to: the owner's foreign-key field
	index int    // index of the (top-level) struct field
	// permission tag of the relation FIELD: a relation without create (update) permission, a read-only
	// or an ignored one is never written - its records are not saved, its links not made - by a create
	// (update) of the owner
	perm      string
	canCreate bool
	canUpdate bool
	ignored   bool // "-", "-:all", "<-:false;->:false": gorm does not even parse the field as a relation
}

// relPerms: permission tags of relation fields (weights: 10 in 23 keep full permission).
var relPerms = []permSpec{
	{tag: "", create: true, update: true, weight: 8},
	{tag: "<-:create", create: true, weight: 3},
	{tag: "<-:update", update: true, weight: 2},
	{tag: "<-:false", weight: 2},
	{tag: "->", weight: 2},
	{tag: "->;<-:create", create: true, weight: 1},
	{tag: "<-", create: true, update: true, weight: 1},
	{tag: "-:migration", create: true, update: true, weight: 1},
	{tag: "-", ignored: true, weight: 1},
	{tag: "-:all", ignored: true, weight: 1},
	{tag: "<-:false;->:false", ignored: true, weight: 1},
}

// full: the relation field has every permission (association mode is only run on such relations).
func (rl *relation) full() bool { return rl.canCreate && rl.canUpdate && !rl.ignored }

// denied: may the records carried by the relation field NOT be written on the given paths?
func (rl *relation) denied(create, update bool) bool {
	if rl.ignored {
		return true
	}
	return !(create && rl.canCreate) && !(update && rl.canUpdate)
}

// tables: the tables a write through the relation touches.
func (rl *relation) tables() []string {
	switch rl.typ {
	case "has-many":
		return []string{"c10_pets"}
	case "has-one":
		return []string{"c10_toys"}
	case "belongs-to":
		return []string{"c10_companies"}
	}
	return []string{"c10_tags", joinTable}
}

// fullRels: the relations association mode may be run on.
func (m *model) fullRels() []*relation {
	var out []*relation
	for _, rl := range m.rels {
		if rl.full() {
			out = append(out, rl)
		}
	}
	return out
}

func (rl *relation) elemType() reflect.Type {
	switch rl.typ {
	case "has-many":
		return tPet
	case "has-one":
		return tToy
	case "belongs-to":
		return tCompany
	}
	return tTag
}

func (rl *relation) many() bool { return rl.typ == "has-many" || rl.typ == "many2many" }

func (rl *relation) goType() reflect.Type {
	t := rl.elemType()
	if rl.ptr {
		t = reflect.PtrTo(t)
	}
	if rl.many() {
		t = reflect.SliceOf(t)
	}
	return t
}

func (rl *relation) decl() string {
	tn := rl.elemType().Name()
	if rl.ptr {
		tn = "*" + tn
	}
	if rl.many() {
		tn = "[]" + tn
	}
	return rl.name + " " + tn + " `gorm:\"" + rl.tag + "\"` /* " + rl.typ + " */"
}

// genRelations: one model in two gets 1..2 association fields, each with a random permission tag
// (relPerms). Foreign keys and references are always named in the tag (the defaults are derived from
// the owner's type name, which is empty).
func (m *model) genRelations(r *core.Rand, add func(*field) *field) {
	if !r.Chance(1, 2) {
		return
	}
	var pkNames, ownFK, ownFKNames []string
	for _, f := range m.fields {
		if f.pk {
			pkNames = append(pkNames, f.name)
		}
	}
	switch {
	case len(pkNames) == 2:
		ownFKNames = []string{"OwnerK1", "OwnerK2"}
	case m.pk.k.class == "string":
		ownFKNames = []string{"OwnerCode"}
	default:
		ownFKNames = []string{"OwnerID"}
	}
	ownFK = ownFKNames
	types := []string{"has-many", "has-one", "belongs-to", "many2many"}
	p := r.Perm(len(types))
	n := core.Pick(r, []int{1, 1, 2})
	for i := 0; i < n; i++ {
		rl := &relation{typ: types[p[i]], ptr: r.Bool()}
		withRefs := len(pkNames) == 2 || r.Bool()
		switch rl.typ {
		case "has-many":
			rl.name = "Pets"
			rl.tag = "foreignKey:" + strings.Join(ownFK, ",")
			if withRefs {
				rl.tag += ";references:" + strings.Join(pkNames, ",")
			}
		case "has-one":
			rl.name = "Toy"
			rl.tag = "foreignKey:" + strings.Join(ownFK, ",")
			if withRefs {
				rl.tag += ";references:" + strings.Join(pkNames, ",")
			}
		case "belongs-to":
			rl.name = "Company"
			rl.tag = "foreignKey:CompanyID"
			if r.Bool() {
				rl.tag += ";references:ID"
			}
			f := &field{name: "CompanyID", col: "company_id", canCreate: true, canUpdate: true, fkOf: rl}
			f.k = core.Pick(r, []kind{kInt64, kInt64, kindNamed("*int64"), kindNamed("sql.NullInt64"), kUint})
			if r.Chance(1, 4) {
				f.col = "c_company_id"
				f.tag = "column:" + f.col
			}
			rl.fk = add(f)
		default:
			rl.name = "Tags"
			rl.tag = "many2many:" + joinTable + ";foreignKey:" + strings.Join(pkNames, ",") + ";joinForeignKey:" + strings.Join(ownFK, ",") + ";references:ID;joinReferences:TagID"
		}
		// the permission tag of the relation field, in front of or behind the key names
		tot := 0
		for _, ps := range relPerms {
			tot += ps.weight
		}
		x := r.Intn(tot)
		for _, ps := range relPerms {
			if x < ps.weight {
				rl.perm, rl.canCreate, rl.canUpdate, rl.ignored = ps.tag, ps.create, ps.update, ps.ignored
				break
			}
			x -= ps.weight
		}
		if rl.perm != "" {
			if r.Bool() {
				rl.tag = rl.perm + ";" + rl.tag
			} else {
				rl.tag += ";" + rl.perm
			}
		}
		m.rels = append(m.rels, rl)
	}
}

func kindNamed(n string) kind {
	for _, k := range kinds {
		if k.name == n {
			return k
		}
	}
	panic("kind " + n)
}

// kid: one associated record handed to gorm (id 0 = the database assigns the key).
type kid struct {
	id   int64
	name string
}

func kidLit(rl *relation, k kid, amp bool) string {
	s := rl.elemType().Name() + "{"
	if k.id != 0 {
		s += fmt.Sprintf("ID: %d, ", k.id)
	}
	s += fmt.Sprintf("Name: %q}", k.name)
	if amp {
		s = "&" + s
	}
	return s
}

func kidValue(rl *relation, k kid) reflect.Value { // *Child
	p := reflect.New(rl.elemType())
	p.Elem().FieldByName("ID").SetInt(k.id)
	p.Elem().FieldByName("Name").SetString(k.name)
	return p
}

// setRelation puts the records into the relation field of the owner *T.
func setRelation(owner reflect.Value, rl *relation, ks []kid) {
	fv := owner.Elem().Field(rl.index)
	if rl.many() {
		sl := reflect.MakeSlice(fv.Type(), 0, len(ks))
		for _, k := range ks {
			p := kidValue(rl, k)
			if rl.ptr {
				sl = reflect.Append(sl, p)
			} else {
				sl = reflect.Append(sl, p.Elem())
			}
		}
		fv.Set(sl)
		return
	}
	if len(ks) == 0 {
		return
	}
	p := kidValue(rl, ks[0])
	if rl.ptr {
		fv.Set(p)
	} else {
		fv.Set(p.Elem())
	}
}

func relationLit(rl *relation, ks []kid) string {
	if rl.many() {
		var parts []string
		for _, k := range ks {
			parts = append(parts, kidLit(rl, k, rl.ptr))
		}
		tn := "[]" + rl.elemType().Name()
		if rl.ptr {
			tn = "[]*" + rl.elemType().Name()
		}
		return tn + "{" + strings.Join(parts, ", ") + "}"
	}
	return kidLit(rl, ks[0], rl.ptr)
}

// assocOp: the association part of an operation.
type assocOp struct {
	rel  *relation
	verb string // append | replace | clear | delete
	// owners: in-memory owner values (key of a seeded row, data fields with values of their own);
	// one owner, or a slice of owners (Model(&[]T{..}) / Model(&[]*T{..})) with one argument each
	owners    []*rec
	slice     bool
	elemPtr   bool
	withTable bool // the chain starts with db.Table(name) (only where association mode works with it)
	// args: per owner (single owner: the whole argument list) the records of the call; argSlice: they
	// are handed over as one slice instead of one pointer each
	args     [][]kid
	argSlice bool
	// mem: relation fields the in-memory owners carry before the call (by owner, by relation name)
	mem []map[string][]kid
}

func (g *gen) genAssoc(o *op, kind string) {
	r, m := g.r, g.m
	a := &assocOp{rel: core.Pick(r, m.fullRels()), verb: strings.TrimPrefix(kind, "assoc-")}
	o.assoc = a
	o.family = "association-" + a.verb
	rl := a.rel
	frows := g.fullRows()
	n := 1
	if r.Chance(1, 4) && len(frows) >= 2 {
		n = 2
		a.slice = true
		a.elemPtr = r.Bool()
	}
	p := r.Perm(len(frows))
	o.tform = "owner"
	if a.slice {
		o.tform = "owner-slice"
	}
	autoUsed := false
	a.argSlice = rl.many() && a.verb != "clear" && r.Chance(1, 3)
	for i := 0; i < n; i++ {
		k := frows[p[i]].key
		rc := g.structRec(k)
		// the in-memory owner differs from its row: most data fields carry a value of their own
		for _, f := range m.fields {
			if !f.pk && isGoZero(f.k, rc.vals[f.idx].lv) && r.Chance(1, 2) {
				rc.vals[f.idx] = mval{form: "typed", lv: fresh(f.k.class, g.next())}
			}
		}
		a.owners = append(a.owners, rc)
		o.modelKeys = append(o.modelKeys, k)
		// the records of the call
		var ks []kid
		cnt := 1
		if rl.many() && a.verb != "delete" && (!a.slice || a.argSlice) {
			cnt = r.Range(1, 2) // a slice of owners takes exactly one argument per owner
		}
		for j := 0; j < cnt; j++ {
			kd := kid{name: fmt.Sprintf("n%d", g.next())}
			switch {
			case a.verb == "delete" && rl.typ == "belongs-to" && r.Bool():
				// the record the row is linked to (the seeded foreign key of the row)
				kd.id = frows[p[i]].cells[rl.fk.idx].v.(int64)
			case a.verb == "delete":
				kd.id = int64(r.Range(1, 2))
			case r.Chance(1, 3):
				kd.id = int64(r.Range(1, 2)) // an existing record
			case r.Chance(1, 2) && !autoUsed && !a.slice && cnt == 1:
				autoUsed = true // key assigned by the database
			default:
				kd.id = int64(40 + 10*i + j)
			}
			ks = append(ks, kd)
		}
		if a.verb == "clear" {
			ks = nil
		}
		a.args = append(a.args, ks)
		// what the in-memory owner already carries in its relation fields
		mem := map[string][]kid{}
		for _, x := range m.rels {
			if !r.Chance(1, 2) {
				continue
			}
			if x == rl {
				mem[x.name] = []kid{{id: 1, name: "loaded1"}} // a loaded record of the relation itself
			} else {
				mem[x.name] = []kid{{id: int64(70 + i), name: fmt.Sprintf("stale%d", g.next())}} // never saved
			}
		}
		a.mem = append(a.mem, mem)
	}
	// db.Table(name) in front of an association chain also redirects the statements association mode
	// runs against the associated table (Replace / Clear / Delete of has-one and has-many): only where
	// the owner's table is the only one addressed through the handle
	safe := (rl.typ == "belongs-to") || (a.verb == "append" && rl.many())
	a.withTable = safe && r.Chance(1, 3)
}

func seedChildren(m *model, ownerKey lval) {
	for _, q := range []string{"DELETE FROM c10_pets", "DELETE FROM c10_toys", "DELETE FROM c10_companies", "DELETE FROM c10_tags", "DELETE FROM " + joinTable} {
		_, err := H.SQL.Exec(q)
		must(err)
	}
	// the first owner is linked to pet 1, toy 1 and tag 1
	var own [4]interface{}
	parts := m.keyParts(ownerKey)
	switch {
	case len(parts) == 2:
		own[2], own[3] = parts[0].v, parts[1].v
	case m.pk.k.class == "string":
		own[1] = parts[0].v
	default:
		own[0] = parts[0].v
	}
	for _, t := range []string{"c10_pets", "c10_toys"} {
		_, err := H.SQL.Exec("INSERT INTO "+t+" (id, name, owner_id, owner_code, owner_k1, owner_k2) VALUES (1, 'old1', ?, ?, ?, ?), (2, 'old2', NULL, NULL, NULL, NULL)", own[0], own[1], own[2], own[3])
		must(err)
	}
	for _, t := range []string{"c10_companies", "c10_tags"} {
		_, err := H.SQL.Exec("INSERT INTO " + t + " (id, name) VALUES (1, 'old1'), (2, 'old2')")
		must(err)
	}
	_, err := H.SQL.Exec("INSERT INTO "+joinTable+" (owner_id, owner_code, owner_k1, owner_k2, tag_id) VALUES (?, ?, ?, ?, 1)", own[0], own[1], own[2], own[3])
	must(err)
}

// execAssoc runs the association call and returns its literal spelling and its error.
func execAssoc(db *gorm.DB, m *model, o *op) (desc string, err error) {
	a := o.assoc
	rl := a.rel
	var pre []string
	var owners []reflect.Value
	for i, rc := range a.owners {
		p := m.newStruct(rc.lvals(), rc.dvals)
		name := fmt.Sprintf("o%d", i+1)
		pre = append(pre, name+" := &"+m.structLit(rc.lvals(), rc.dvals))
		var rn []string
		for n := range a.mem[i] {
			rn = append(rn, n)
		}
		sort.Strings(rn)
		for _, n := range rn {
			for _, x := range m.rels {
				if x.name == n {
					setRelation(p, x, a.mem[i][n])
					pre = append(pre, name+"."+n+" = "+relationLit(x, a.mem[i][n]))
				}
			}
		}
		owners = append(owners, p)
	}
	tx := db
	desc = "db"
	if a.withTable {
		tx = tx.Table(m.table)
		desc += fmt.Sprintf(".Table(%q)", m.table)
	}
	if a.slice {
		et := m.typ
		tn := "[]T{*o1, *o2}"
		if a.elemPtr {
			et = reflect.PtrTo(m.typ)
			tn = "[]*T{o1, o2}"
		}
		sl := reflect.MakeSlice(reflect.SliceOf(et), 0, len(owners))
		for _, p := range owners {
			if a.elemPtr {
				sl = reflect.Append(sl, p)
			} else {
				sl = reflect.Append(sl, p.Elem())
			}
		}
		sp := reflect.New(sl.Type())
		sp.Elem().Set(sl)
		tx = tx.Model(sp.Interface())
		desc += ".Model(&" + tn + ")"
	} else {
		tx = tx.Model(owners[0].Interface())
		desc += ".Model(o1)"
	}
	as := tx.Association(rl.name)
	desc += fmt.Sprintf(".Association(%q)", rl.name)
	var args []interface{}
	var lits []string
	for _, ks := range a.args {
		if a.argSlice {
			sl := reflect.MakeSlice(reflect.SliceOf(rl.elemType()), 0, len(ks))
			var ls []string
			for _, k := range ks {
				sl = reflect.Append(sl, kidValue(rl, k).Elem())
				ls = append(ls, kidLit(rl, k, false))
			}
			sp := reflect.New(sl.Type())
			sp.Elem().Set(sl)
			args = append(args, sp.Interface())
			lits = append(lits, "&[]"+rl.elemType().Name()+"{"+strings.Join(ls, ", ")+"}")
			continue
		}
		for _, k := range ks {
			args = append(args, kidValue(rl, k).Interface())
			lits = append(lits, kidLit(rl, k, true))
		}
	}
	switch a.verb {
	case "append":
		err = as.Append(args...)
		desc += ".Append(" + strings.Join(lits, ", ") + ")"
	case "replace":
		err = as.Replace(args...)
		desc += ".Replace(" + strings.Join(lits, ", ") + ")"
	case "clear":
		err = as.Clear()
		desc += ".Clear()"
	default:
		err = as.Delete(args...)
		desc += ".Delete(" + strings.Join(lits, ", ") + ")"
	}
	return strings.Join(pre, "; ") + "; " + desc, err
}

// predictAssoc: of the owners' rows only the foreign key of a belongs-to relation may change.
func (p *prediction) predictAssoc(m *model, o *op) {
	a := o.assoc
	rl := a.rel
	nextAuto := int64(2) // c10_companies is seeded with ids 1, 2
	for i, rc := range a.owners {
		k, _ := m.recKey(rc)
		key := normL(k)
		sr := m.seedFor(key)
		re := p.rows[key]
		p.target = append(p.target, key)
		for _, f := range m.fields {
			cur := normL(sr.cells[f.idx])
			switch {
			case f.autoUpd != "":
				// whether linking refreshes the owner's tracked update time is not fixed by the statement
				re.cells[f.col] = cellExp{mode: mFree}
			case f == rl.fk:
				switch a.verb {
				case "append", "replace":
					kd := a.args[i][0]
					id := kd.id
					if id == 0 {
						nextAuto++
						id = nextAuto
					}
					re.cells[f.col] = cellExp{mode: mMust, want: normDB(id), why: "foreign key of the belongs-to relation: the key of the linked record"}
				case "clear":
					re.cells[f.col] = cellExp{mode: mMust, want: "NULL", why: "foreign key of the cleared belongs-to relation"}
				default:
					hit := false
					for _, ks := range a.args {
						for _, kd := range ks {
							if normDB(kd.id) == cur {
								hit = true
							}
						}
					}
					if hit {
						re.cells[f.col] = cellExp{mode: mMust, want: "NULL", why: "the row is linked to a record named in Delete"}
					} else {
						re.cells[f.col] = keep(cur, "association-owner-column-written", "the row is not linked to a record named in Delete")
					}
				}
			default:
				re.cells[f.col] = keep(cur, "association-owner-column-written", "association mode writes the link only: "+f.name+" is not a foreign key of "+rl.name)
			}
		}
	}
}

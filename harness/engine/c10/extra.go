package c10

import (
	"fmt"
	"strconv"
	"strings"

	"gorm.io/gorm/clause"

	"verif/core"
	"verif/vdb"
)

// ---- relation fields with permission tags ------------------------------------------------------
//
// A relation field is a field: when its tag denies create (update) permission, marks it read-only
// or ignores it, a create (update) of the owner must not write it - the records it carries are not
// saved, existing ones not re-linked, no join rows made. The struct values of the write paths
// (records of Create / CreateInBatches / upserts / Save, the value of Updates / UpdateColumns, and
// the Model value of every update finisher) therefore carry records in their relation fields, and
// the tables behind a relation the path may not write must come back unchanged. What a relation
// WITH permission saves is not this property's subject (its tables are not inspected).

// kidsFor: associated records for the relation fields of one struct value: every relation field is
// filled one time in two with 1..2 records (one for has-one / belongs-to): a new key, a key the
// database assigns, or the key of the stored, unlinked record 2.
func (g *gen) kidsFor() map[string][]kid {
	var out map[string][]kid
	for _, rl := range g.m.rels {
		if !g.r.Chance(1, 2) {
			continue
		}
		n := 1
		if rl.many() {
			n = g.r.Range(1, 2)
		}
		var ks []kid
		for j := 0; j < n; j++ {
			kd := kid{name: fmt.Sprintf("n%d", g.next())}
			switch g.r.Intn(5) {
			case 0:
				kd.id = 2 // a stored record (linked to no owner)
			case 1:
				// the database assigns the key
			default:
				kd.id = int64(100 + g.next())
			}
			ks = append(ks, kd)
		}
		if out == nil {
			out = map[string][]kid{}
		}
		out[rl.name] = ks
	}
	return out
}

// addKids fills the relation fields of the struct values of a write: of every struct record, and of
// the Model value (each element of a Model(slice)) of an update finisher.
func (g *gen) addKids(o *op) {
	if len(g.m.rels) == 0 || o.foc != nil || o.assoc != nil {
		return
	}
	if !o.isMap {
		for _, rc := range o.recs {
			rc.kids = g.kidsFor()
		}
	}
	if updateKind(o.kind) && o.useModel && !o.valueIsModel && !o.second {
		n := 1
		if o.modelSlice {
			n = len(o.modelElems)
		}
		for i := 0; i < n; i++ {
			o.modelKids = append(o.modelKids, g.kidsFor())
		}
	}
}

func (o *op) kidsOfModel(i int) map[string][]kid {
	if i < len(o.modelKids) {
		return o.modelKids[i]
	}
	return nil
}

// carriesKids: does a struct value of the operation carry records in a relation field?
func (o *op) carriesKids() bool {
	for _, rc := range o.recs {
		if len(rc.kids) > 0 {
			return true
		}
	}
	for _, mk := range o.modelKids {
		if len(mk) > 0 {
			return true
		}
	}
	return false
}

// holder: one struct value carrying associated records, with the write paths (create / update of the
// owner) on which gorm may save them.
type holder struct {
	kids           map[string][]kid
	create, update bool
	what           string
}

// relHolders: the struct values of o that carry associated records and the paths they take.
//
//	Create, CreateInBatches              create
//	upsert, Save(slice)                  create for a new key; a record whose key conflicts updates its
//	                                     row through the create path: both (only a relation that may
//	                                     neither be created nor updated is certainly not written)
//	Save(existing key)                   update - when the UPDATE certainly runs (a cell must be written
//	                                     or refreshed); else Save may fall back to its upsert: both
//	Save(new key), Save under conditions update, then the fallback upsert: both; zero key: create
//	Updates, Update, UpdateColumn(s)     update (the value and the Model value)
func relHolders(m *model, o *op, p *prediction) []holder {
	var out []holder
	for i, rc := range o.recs {
		if o.isMap || len(rc.kids) == 0 {
			continue
		}
		k, ok := m.recKey(rc)
		key := normL(k)
		conflict := ok && m.seedFor(key) != nil
		h := holder{kids: rc.kids, what: fmt.Sprintf("record %d", i+1)}
		switch o.kind {
		case "create", "create-slice", "create-batches":
			h.create = true
		case "upsert-cols", "upsert-assign", "upsert-all", "upsert-nothing", "save-slice":
			h.create, h.update = true, conflict
		case "save":
			h.update = true
			runs := false
			if re := p.rows[key]; re != nil {
				for _, e := range re.cells {
					if e.mode == mMust || e.mode == mRefresh {
						runs = true
					}
				}
			}
			h.create = !runs
		case "save-new":
			h.create, h.update = true, ok && !m.keyIsZero(k)
		case "save-cond":
			h.create, h.update = true, true
		default:
			h.update = true
			h.what = "the value"
		}
		out = append(out, h)
	}
	for i, mk := range o.modelKids {
		if len(mk) > 0 {
			out = append(out, holder{kids: mk, update: true, what: fmt.Sprintf("Model value %d", i+1)})
		}
	}
	return out
}

// relCheck: one relation some struct value of the operation carries records in; keep = no holder may
// write it, its tables must come back unchanged.
type relCheck struct {
	rl   *relation
	keep bool
	why  string
}

func relChecks(m *model, o *op, p *prediction) []relCheck {
	hs := relHolders(m, o, p)
	var out []relCheck
	for _, rl := range m.rels {
		carried, keep := false, true
		var paths []string
		for _, h := range hs {
			if len(h.kids[rl.name]) == 0 {
				continue
			}
			carried = true
			if !rl.denied(h.create, h.update) {
				keep = false
			}
			pt := "update"
			switch {
			case h.create && h.update:
				pt = "create or update"
			case h.create:
				pt = "create"
			}
			paths = append(paths, h.what+": "+pt)
		}
		if carried {
			out = append(out, relCheck{rl: rl, keep: keep, why: fmt.Sprintf("relation field %s `%s` may not be written on the path of the value that carries records in it (%s)", rl.name, rl.perm, strings.Join(paths, "; "))})
		}
	}
	return out
}

// freeForeignKeys: a belongs-to relation that MAY be written sets the owner's foreign key to the key
// of the record it carries: that cell of the addressed / inserted rows is not predicted.
func freeForeignKeys(m *model, p *prediction, rcs []relCheck) {
	for _, rc := range rcs {
		if rc.keep || rc.rl.fk == nil {
			continue
		}
		for k, re := range p.rows {
			if re.isNew || contains(p.target, k) {
				re.cells[rc.rl.fk.col] = cellExp{mode: mFree}
			}
		}
	}
}

var kidTableNames = []string{"c10_pets", "c10_toys", "c10_companies", "c10_tags", joinTable}

func dumpKidTables() map[string]string {
	out := map[string]string{}
	for _, t := range kidTableNames {
		out[t] = strings.Join(vdb.DumpTable(H.SQL, t), " ; ")
	}
	return out
}

// ---- conditional upsert ------------------------------------------------------------------------
//
// clause.OnConflict{Columns: key, Where: clause.Where{Exprs: ...}, DoUpdates | UpdateAll} renders
// ON CONFLICT (key) DO UPDATE SET ... WHERE cond: of the rows whose key conflicts only those that
// satisfy cond change (as the other upserts predict), every other conflicting row keeps all cells.
// TargetWhere (the predicate of the conflict TARGET, an index predicate) is no row condition; it is
// only generated with a predicate every row satisfies.

type ocCond struct {
	exprs []clause.Expression
	lit   string
	rsql  string // the same condition over the stored row, for a raw SELECT
	rargs []interface{}
}

func valLit(v interface{}) string {
	switch x := v.(type) {
	case string:
		return strconv.Quote(x)
	case int64:
		return fmt.Sprintf("int64(%d)", x)
	}
	return fmt.Sprintf("%#v", v)
}

// ocColumnExpr: one comparison of column col of the STORED row, spelled in one of the ways a caller
// can build it: raw clause.Expr (plain, table-qualified, for a key column also excluded.<key>, which
// equals the stored key on a conflict) or the typed clauses with a bare / table-qualified /
// clause.CurrentTable column; one time in six wrapped in clause.Not with the opposite operator.
func (g *gen) ocColumnExpr(f *field, opr string, vals []interface{}, singleKey bool) (clause.Expression, string, string, []interface{}) {
	r, m := g.r, g.m
	col := f.col
	// the condition for the raw SELECT
	rsql := col + " " + opr + " ?"
	rargs := vals[:1]
	if opr == "IN" {
		rsql = col + " IN " + inList(len(vals))
		rargs = vals
	}
	neg := r.Chance(1, 6)
	bopr := opr // the operator the expression is built with (negated again by clause.Not)
	if neg {
		bopr = map[string]string{"=": "<>", "<>": "=", ">": "<=", "<=": ">", "IN": "NOT IN"}[opr]
	}
	var ex clause.Expression
	var lit string
	var typedVals interface{}
	if _, ok := vals[0].(string); ok {
		var t []string
		for _, v := range vals {
			t = append(t, v.(string))
		}
		typedVals = t
	} else {
		var t []int64
		for _, v := range vals {
			t = append(t, v.(int64))
		}
		typedVals = t
	}
	form := r.Intn(6)
	if form == 5 && !(f.pk && singleKey) {
		form = r.Intn(5)
	}
	if bopr == "NOT IN" && form >= 2 && form <= 4 {
		form = r.Intn(2) // there is no typed NOT IN clause
	}
	switch form {
	case 0, 1, 5:
		name := col
		if form == 1 {
			name = m.table + "." + col
		} else if form == 5 {
			name = "excluded." + col
		}
		if bopr == "IN" || bopr == "NOT IN" {
			ex = clause.Expr{SQL: name + " " + bopr + " ?", Vars: []interface{}{typedVals}}
			lit = fmt.Sprintf("clause.Expr{SQL: %q, Vars: []interface{}{%s}}", name+" "+bopr+" ?", argLit(typedVals))
		} else {
			ex = clause.Expr{SQL: name + " " + bopr + " ?", Vars: []interface{}{vals[0]}}
			lit = fmt.Sprintf("clause.Expr{SQL: %q, Vars: []interface{}{%s}}", name+" "+bopr+" ?", valLit(vals[0]))
		}
	default:
		c := clause.Column{Name: col}
		clit := fmt.Sprintf("clause.Column{Name: %q}", col)
		if form == 3 {
			c.Table = m.table
			clit = fmt.Sprintf("clause.Column{Table: %q, Name: %q}", m.table, col)
		} else if form == 4 {
			c.Table = clause.CurrentTable
			clit = fmt.Sprintf("clause.Column{Table: clause.CurrentTable, Name: %q}", col)
		}
		switch bopr {
		case "=":
			ex, lit = clause.Eq{Column: c, Value: vals[0]}, fmt.Sprintf("clause.Eq{Column: %s, Value: %s}", clit, valLit(vals[0]))
		case "<>":
			ex, lit = clause.Neq{Column: c, Value: vals[0]}, fmt.Sprintf("clause.Neq{Column: %s, Value: %s}", clit, valLit(vals[0]))
		case ">":
			ex, lit = clause.Gt{Column: c, Value: vals[0]}, fmt.Sprintf("clause.Gt{Column: %s, Value: %s}", clit, valLit(vals[0]))
		case "<=":
			ex, lit = clause.Lte{Column: c, Value: vals[0]}, fmt.Sprintf("clause.Lte{Column: %s, Value: %s}", clit, valLit(vals[0]))
		default:
			var ls []string
			for _, v := range vals {
				ls = append(ls, valLit(v))
			}
			ex, lit = clause.IN{Column: c, Values: vals}, fmt.Sprintf("clause.IN{Column: %s, Values: []interface{}{%s}}", clit, strings.Join(ls, ", "))
		}
	}
	if neg {
		ex, lit = clause.Not(ex), "clause.Not("+lit+")"
	}
	return ex, lit, rsql, rargs
}

// conflictWhere: the condition of a conditional upsert: 1..2 comparisons (AND) of key or plain data
// columns of the stored row, aimed at a strict subset of the conflicting rows.
func (g *gen) conflictWhere(conflicts []seedRow) *ocCond {
	r, m := g.r, g.m
	var cols []*field
	for _, f := range m.fields {
		if f.ignored || f.k.wrap != "plain" || !(f.k.class == "int" || f.k.class == "uint" || f.k.class == "string") {
			continue
		}
		cols = append(cols, f)
	}
	oc := &ocCond{}
	n := 1
	if r.Chance(1, 4) {
		n = 2
	}
	var lits, sqls []string
	for i := 0; i < n; i++ {
		f := core.Pick(r, cols)
		if r.Chance(1, 3) {
			f = core.Pick(r, m.pks)
		}
		pivot := core.Pick(r, conflicts)
		oprs := []string{"IN", "IN", "=", "<>"}
		if f.k.class != "string" {
			oprs = append(oprs, ">", "<=")
		}
		opr := core.Pick(r, oprs)
		vals := []interface{}{pivot.cells[f.idx].v}
		if opr == "IN" {
			// the values of a random set of rows: each conflicting row one time in two, the others one time in three
			vals = nil
			seen := map[string]bool{}
			in := map[string]bool{}
			for _, rw := range conflicts {
				in[normL(rw.key)] = true
			}
			for _, rw := range m.rows {
				take := r.Chance(1, 3)
				if in[normL(rw.key)] {
					take = r.Bool()
				}
				v := rw.cells[f.idx].v
				if take && !seen[normDB(v)] {
					seen[normDB(v)] = true
					vals = append(vals, v)
				}
			}
			if len(vals) == 0 {
				vals = []interface{}{pivot.cells[f.idx].v}
			}
		}
		ex, lit, rsql, rargs := g.ocColumnExpr(f, opr, vals, !m.composite())
		oc.exprs = append(oc.exprs, ex)
		lits = append(lits, lit)
		sqls = append(sqls, "("+rsql+")")
		oc.rargs = append(oc.rargs, rargs...)
	}
	oc.lit = strings.Join(lits, ", ")
	oc.rsql = strings.Join(sqls, " AND ")
	return oc
}

// targetPredicate: a predicate of the conflict target that every row satisfies.
func (g *gen) targetPredicate() *ocCond {
	f := g.m.pk
	if g.r.Bool() {
		q := f.col + " IS NOT NULL"
		return &ocCond{exprs: []clause.Expression{clause.Expr{SQL: q}}, lit: fmt.Sprintf("clause.Expr{SQL: %q}", q)}
	}
	var v interface{} = int64(-77)
	if f.k.class == "string" {
		v = "no-such-key"
	}
	return &ocCond{exprs: []clause.Expression{clause.Neq{Column: clause.Column{Name: f.col}, Value: v}},
		lit: fmt.Sprintf("clause.Neq{Column: clause.Column{Name: %q}, Value: %s}", f.col, valLit(v))}
}

// genConflictClauses decides the Where / TargetWhere / Columns of the OnConflict clause of an upsert.
func (g *gen) genConflictClauses(o *op) {
	r, m := g.r, g.m
	if o.kind == "upsert-nothing" {
		return // DO NOTHING takes no condition
	}
	var conflicts []seedRow
	for _, rc := range o.recs {
		if k, ok := m.recKey(rc); ok {
			if sr := m.seedFor(normL(k)); sr != nil {
				conflicts = append(conflicts, *sr)
			}
		}
	}
	if o.kind == "upsert-all" {
		o.ocCols = r.Bool() // UpdateAll with or without the key named as conflict target
	}
	if len(conflicts) > 0 && r.Chance(2, 5) {
		o.ocWhere = g.conflictWhere(conflicts)
	}
	if (o.kind != "upsert-all" || o.ocCols) && r.Chance(1, 5) {
		o.ocTarget = g.targetPredicate()
	}
}

// keysWhere: the keys of the stored rows a raw condition selects.
func keysWhere(m *model, rsql string, rargs []interface{}) map[string]bool {
	rows, err := vdb.RowMaps(H.SQL, "SELECT * FROM `"+m.table+"` WHERE "+rsql, rargs...)
	must(err)
	out := map[string]bool{}
	for _, r := range rows {
		var ks []string
		for _, f := range m.pks {
			ks = append(ks, normDB(r[f.col]))
		}
		out[strings.Join(ks, "|")] = true
	}
	return out
}

package c10

import (
	"fmt"
	"sort"
	"strconv"
	"time"

	"verif/vdb"
)

// The write-set predictor: a transcription of the property statement.
//
//   Updates(struct)          writes the non-zero fields of the value
//   Updates(map) / Update    write every given key (zero values, nil, expressions included)
//   Save                     writes all fields
//   Select / Omit            narrow (only the selected, never the omitted) or widen (a selected
//                            zero field of a struct is written; "*" selects every field)
//   permission tags          a field without create (update) permission, a read-only or an ignored
//                            field is never written by a create (update) on any path
//   tracked update time      refreshed by every hook-running update unless omitted; never by
//                            UpdateColumn(s)
//   rows                     only rows matching the chain's conditions AND the model value's key
//   default values           a column an INSERT may not write (no create permission, omitted, not
//                            selected) keeps what the table's DDL gives it: its DEFAULT, else NULL
//
// Everything the statement leaves open is mFree (not checked), see Engine.Assumptions.

const (
	mKeep = iota
	mMust
	mFree
	mRefresh
)

type cellExp struct {
	mode   int
	want   string
	alt    string // mMust: a second acceptable content ("" = none)
	absent string // new rows: content of the cell when the INSERT does not name the column
	cls    string // violation class when the expectation fails
	why    string
}

type rowExp struct {
	key   string
	isNew bool
	cells map[string]cellExp
}

type prediction struct {
	rows   map[string]*rowExp
	order  []string
	target []string // keys of existing rows the operation addresses
	sigFor map[string]string
	// keys carried by records of a create whose key column is omitted / not selected: the
	// database assigns the key, a row with the carried key must not appear
	unwrittenKeys map[string]bool
}

type selInfo struct {
	selAll, omitAll bool
	sel, omit       map[int]bool
	restricted      bool
}

func selinfo(o *op) selInfo {
	s := selInfo{sel: map[int]bool{}, omit: map[int]bool{}}
	for _, n := range o.sel {
		if n.fi < 0 {
			s.selAll = true
		} else {
			s.sel[n.fi] = true
		}
	}
	for _, n := range o.omit {
		if n.fi < 0 {
			s.omitAll = true
		} else {
			s.omit[n.fi] = true
		}
	}
	s.restricted = len(o.sel) > 0 && !s.selAll
	return s
}

func (s selInfo) omitted(fi int) bool  { return s.omitAll || s.omit[fi] }
func (s selInfo) selected(fi int) bool { return s.selAll || s.sel[fi] }

// allowed: may a given value for field fi be written under the Select/Omit calls?
func (s selInfo) allowed(fi int) (bool, string, string) {
	if s.omitted(fi) {
		return false, "omitted-column-written", "the field is omitted"
	}
	if s.restricted && !s.sel[fi] {
		return false, "unselected-column-written", "Select names other fields only"
	}
	return true, "", ""
}

func (m *model) seedFor(key string) *seedRow {
	for i := range m.rows {
		if normL(m.rows[i].key) == key {
			return &m.rows[i]
		}
	}
	return nil
}

func newPrediction(m *model) *prediction {
	p := &prediction{rows: map[string]*rowExp{}, sigFor: map[string]string{}, unwrittenKeys: map[string]bool{}}
	for _, r := range m.rows {
		re := &rowExp{key: normL(r.key), cells: map[string]cellExp{}}
		for _, f := range m.fields {
			re.cells[f.col] = cellExp{mode: mKeep, want: normL(r.cells[f.idx]), cls: "nontarget-row-changed", why: "the row is outside the target set"}
		}
		p.rows[re.key] = re
		p.order = append(p.order, re.key)
	}
	return p
}

func keep(want, cls, why string) cellExp { return cellExp{mode: mKeep, want: want, cls: cls, why: why} }

// updateRow: expectations for one existing row addressed by an update-type operation.
func (p *prediction) updateRow(m *model, o *op, rc *rec, key string) {
	si := selinfo(o)
	sr := m.seedFor(key)
	re := p.rows[key]
	for _, f := range m.fields {
		old := sr.cells[f.idx]
		cur := normL(old)
		switch {
		case f.ignored:
			re.cells[f.col] = keep(cur, "ignored-field-written", "field "+f.name+" is ignored (`"+f.perm+"`)")
			continue
		case f.free:
			re.cells[f.col] = cellExp{mode: mFree}
			continue
		}
		if f.autoUpd != "" && o.hooks {
			if si.omitted(f.idx) {
				re.cells[f.col] = keep(cur, "omitted-column-written", "tracked update-time field "+f.name+" is omitted")
			} else {
				re.cells[f.col] = cellExp{mode: mRefresh, cls: "autotime-not-refreshed", why: "tracked update-time field " + f.name + " must be refreshed by a hook-running update"}
			}
			continue
		}
		notGiven := "ungiven-column-written"
		if f.autoUpd != "" {
			notGiven = "autotime-touched-by-column-update"
		}
		mv, present := rc.vals[f.idx]
		given := false
		why := ""
		switch {
		case o.isMap:
			given = present
			why = "the map has no key for " + f.name
		case o.saveAll:
			given = !f.pk
			why = "the primary key is the condition of Save"
		case f.pk && o.valueIsModel:
			why = "the key of the model value is the condition"
		default:
			given = !isGoZero(f.k, mv.lv) || si.selected(f.idx)
			why = "zero field of the struct value, not selected"
			if notGiven == "ungiven-column-written" {
				notGiven = "zero-field-written"
			}
		}
		if !given {
			re.cells[f.col] = keep(cur, notGiven, why)
			continue
		}
		if ok, cls, w := si.allowed(f.idx); !ok {
			re.cells[f.col] = keep(cur, cls, w)
			continue
		}
		if !f.canUpdate {
			re.cells[f.col] = keep(cur, "denied-column-written", "field "+f.name+" `"+f.perm+"` has no update permission")
			continue
		}
		re.cells[f.col] = cellExp{mode: mMust, want: mv.stored(old), why: "given value of " + f.name}
	}
}

// newRow: expectations for a row inserted from rc (struct: every field is given; map: its keys).
// A column the INSERT must not name holds f.absent(): the column's DDL default, else NULL.
func (p *prediction) newRow(m *model, o *op, rc *rec, key string, autoKey bool) {
	si := selinfo(o)
	re := &rowExp{key: key, isNew: true, cells: map[string]cellExp{}}
	keepAbsent := func(f *field, cls, why string) cellExp {
		e := keep(f.absent(), cls, why)
		e.absent = f.absent()
		return e
	}
	for _, f := range m.fields {
		switch {
		case f.pk:
			want := key // database-assigned key
			if v, ok := rc.vals[f.idx]; ok && !isGoZero(f.k, v.lv) && !autoKey {
				want = normL(v.lv)
			}
			re.cells[f.col] = cellExp{mode: mMust, want: want, why: "key of the new row"}
			continue
		case f.ignored:
			re.cells[f.col] = keep("NULL", "ignored-field-written", "field "+f.name+" is ignored (`"+f.perm+"`)")
			continue
		case f.free, f.autoUpd != "", f.autoCre != "":
			re.cells[f.col] = cellExp{mode: mFree}
			continue
		}
		mv, present := rc.vals[f.idx]
		if o.isMap && !present {
			if f.def != "" && otherRecHas(o, rc, f.idx) {
				// a batch of maps writes NULL for a key only other maps have; NULL versus the
				// column default is not fixed by the statement
				re.cells[f.col] = cellExp{mode: mFree}
				continue
			}
			re.cells[f.col] = keepAbsent(f, "ungiven-column-written", "the map has no key for "+f.name)
			continue
		}
		if ok, cls, w := si.allowed(f.idx); !ok {
			re.cells[f.col] = keepAbsent(f, cls, w)
			continue
		}
		if !f.canCreate {
			re.cells[f.col] = keepAbsent(f, "denied-column-written", "field "+f.name+" `"+f.perm+"` has no create permission")
			continue
		}
		e := cellExp{mode: mMust, want: mv.stored(lval{null: true}), absent: f.absent(), why: "given value of " + f.name}
		if !o.isMap && f.def != "" && isGoZero(f.k, mv.lv) {
			// zero value of a field with a default: the default (written by gorm or left to the
			// database); the statement does not exclude writing the zero value itself
			e.want, e.alt, e.why = f.defStored, mv.stored(lval{null: true}), "zero value of "+f.name+", which has a default"
		}
		re.cells[f.col] = e
	}
	p.rows[key] = re
	p.order = append(p.order, key)
}

func otherRecHas(o *op, rc *rec, fi int) bool {
	for _, x := range o.recs {
		if x != rc {
			if _, ok := x.vals[fi]; ok {
				return true
			}
		}
	}
	return false
}

// conflictRow: expectations for an existing row hit by an upsert (or Save of a slice).
func (p *prediction) conflictRow(m *model, o *op, rc *rec, key string) {
	si := selinfo(o)
	sr := m.seedFor(key)
	re := p.rows[key]
	listed := map[int]bool{}
	for _, fi := range o.doCols {
		listed[fi] = true
	}
	assigned := map[int]mval{}
	for _, a := range o.doAssign {
		assigned[a.fi] = a.v
	}
	for _, f := range m.fields {
		old := sr.cells[f.idx]
		cur := normL(old)
		switch {
		case f.pk:
			re.cells[f.col] = keep(cur, "key-changed", "the conflicting key")
			continue
		case f.ignored:
			re.cells[f.col] = keep(cur, "ignored-field-written", "field "+f.name+" is ignored (`"+f.perm+"`)")
			continue
		case f.free:
			re.cells[f.col] = cellExp{mode: mFree}
			continue
		}
		if o.kind == "upsert-nothing" {
			re.cells[f.col] = keep(cur, "donothing-row-changed", "DoNothing on conflict")
			continue
		}
		if f.autoUpd != "" && o.kind == "save-slice" && !si.omitted(f.idx) {
			re.cells[f.col] = cellExp{mode: mRefresh, cls: "autotime-not-refreshed", why: "tracked update-time field " + f.name + " must be refreshed by Save"}
			continue
		}
		if !f.canUpdate {
			re.cells[f.col] = keep(cur, "denied-column-written", "field "+f.name+" `"+f.perm+"` has no update permission")
			continue
		}
		if f.autoUpd != "" || f.autoCre != "" {
			re.cells[f.col] = cellExp{mode: mFree}
			continue
		}
		// the new value of a field with a default: excluded.<col> of a zero value (the default, or
		// a column the INSERT leaves out) and whether UpdateAll lists a database-default column at
		// all are not fixed by the statement
		defOpen := f.def != "" && (isGoZero(f.k, rc.vals[f.idx].lv) || f.dbDefault())
		switch o.kind {
		case "upsert-cols":
			switch {
			case !listed[f.idx]:
				re.cells[f.col] = keep(cur, "unlisted-column-written", "not listed in DoUpdates")
			case defOpen && isGoZero(f.k, rc.vals[f.idx].lv):
				re.cells[f.col] = cellExp{mode: mFree}
			case !f.canCreate:
				re.cells[f.col] = cellExp{mode: mFree} // excluded.<col> of a column the insert may not write
			default:
				re.cells[f.col] = cellExp{mode: mMust, want: rc.vals[f.idx].stored(old), why: "listed in DoUpdates"}
			}
		case "upsert-assign":
			if v, ok := assigned[f.idx]; ok {
				re.cells[f.col] = cellExp{mode: mMust, want: v.stored(old), why: "assigned in DoUpdates"}
			} else {
				re.cells[f.col] = keep(cur, "unlisted-column-written", "not assigned in DoUpdates")
			}
		default: // UpdateAll, Save(slice)
			if ok, cls, w := si.allowed(f.idx); !ok {
				re.cells[f.col] = keep(cur, cls, w)
			} else if !f.canCreate || defOpen {
				re.cells[f.col] = cellExp{mode: mFree}
			} else {
				re.cells[f.col] = cellExp{mode: mMust, want: rc.vals[f.idx].stored(old), why: "UpdateAll: new value of " + f.name}
			}
		}
	}
}

// predict computes the expected table. condKeys: keys the chain's conditions select (nil = no condition).
func predict(m *model, o *op, condKeys map[string]bool) *prediction {
	p := newPrediction(m)
	inCond := func(k string) bool { return condKeys == nil || condKeys[k] }
	nextAuto := m.maxKey
	// rowKey: the key a new row gets (the given one, or the next rowid when no key is written)
	rowKey := func(rc *rec) (string, bool) {
		k, ok := m.recKey(rc)
		si := selinfo(o)
		written := ok
		for _, f := range m.pks {
			if a, _, _ := si.allowed(f.idx); !a {
				written = false
			}
		}
		if !written || m.keyIsZero(k) {
			if ok && !m.keyIsZero(k) {
				p.unwrittenKeys[normL(k)] = true
			}
			nextAuto++
			return strconv.FormatInt(nextAuto, 10), true
		}
		return normL(k), false
	}
	keyOf := func(rc *rec) string {
		k, _ := m.recKey(rc)
		return normL(k)
	}
	switch o.kind {
	case "firstorcreate", "firstorcreate-attrs", "firstorcreate-new":
		p.predictFoc(m, o, condKeys, rowKey)
	case "assoc-append", "assoc-replace", "assoc-clear", "assoc-delete":
		p.predictAssoc(m, o)
	case "create", "create-slice", "create-batches", "create-map", "create-maps":
		for _, rc := range o.recs {
			k, auto := rowKey(rc)
			p.newRow(m, o, rc, k, auto)
		}
	case "upsert-cols", "upsert-assign", "upsert-all", "upsert-nothing", "save-slice":
		for _, rc := range o.recs {
			k := keyOf(rc)
			if m.seedFor(k) != nil {
				if o.ocWhere != nil && !o.ocKeys[k] {
					// a conditional upsert: the stored row does not satisfy the condition of DO UPDATE
					for c, e := range p.rows[k].cells {
						e.cls = "conflict-row-outside-onconflict-where-changed"
						e.why = "the row's key conflicts, but the row does not satisfy OnConflict.Where"
						p.rows[k].cells[c] = e
					}
					continue
				}
				p.conflictRow(m, o, rc, k)
				p.target = append(p.target, k)
			} else {
				p.newRow(m, o, rc, k, false)
			}
		}
	case "save", "save-new", "save-cond":
		rc := o.recs[0]
		k := keyOf(rc)
		switch {
		case m.seedFor(k) == nil:
			nk, auto := rowKey(rc)
			p.newRow(m, o, rc, nk, auto)
		case inCond(k):
			p.updateRow(m, o, rc, k)
			p.target = append(p.target, k)
		default:
			// the row with the value's key does not match the chain's conditions: nothing may change
			for c, e := range p.rows[k].cells {
				e.cls = "save-fallback-upsert-ignores-conditions"
				e.why = "the row has the value's key but does not match the chain's conditions"
				p.rows[k].cells[c] = e
			}
		}
	default: // update family
		keys := map[string]bool{}
		for _, k := range o.modelKeys {
			keys[normL(k)] = true
		}
		for _, r := range m.rows {
			k := normL(r.key)
			if !inCond(k) {
				continue
			}
			if len(o.modelKeys) > 0 && !keys[k] {
				continue
			}
			if o.dead[k] && !o.unscoped {
				// a soft-deleted row is outside every chain that is not Unscoped
				for c, e := range p.rows[k].cells {
					e.cls = "soft-deleted-row-changed"
					e.why = "the row matches the conditions / the model key but is soft-deleted and the chain is not Unscoped"
					p.rows[k].cells[c] = e
				}
				continue
			}
			p.updateRow(m, o, o.recs[0], k)
			p.target = append(p.target, k)
		}
	}
	sort.Strings(p.order)
	return p
}

// refreshSet: the canonical contents a tracked update-time cell may hold after a refresh that
// happened while the logical clock moved from tick t0 (exclusive) to t1 (inclusive).
func refreshSet(f *field, t0, t1 int64) map[string]bool {
	out := map[string]bool{}
	for k := t0 + 1; k <= t1; k++ {
		t := vdb.Epoch.Add(time.Duration(k) * time.Second)
		switch f.autoUpd {
		case "time":
			out[normDB(t)] = true
		case "sec":
			out[normDB(t.Unix())] = true
		case "milli":
			out[normDB(t.UnixMilli())] = true
		case "nano":
			out[normDB(t.UnixNano())] = true
		}
	}
	return out
}

type problem struct {
	Row, Col, Class, Want, Got, Before, Why string
	NewRow                                  bool // the row is one the operation inserts
}

func (p problem) String() string {
	return fmt.Sprintf("row %s column %s: %s: got %s, want %s (before: %s) — %s", p.Row, p.Col, p.Class, p.Got, p.Want, p.Before, p.Why)
}

package c13

import (
	"fmt"

	"gorm.io/gorm"
)

// ---- an owner whose EVERY relation leads to a model with all nine hooks ---------------------------------------
//
// belongs to (Boss), has one (Account), has many (Pets, which have many Collars), many to many (Tags, through the
// join model HOwnerTag installed with SetupJoinTable). Hooks are declared by hand below (pointer receivers, one
// line each); every hook logs (hook, type, address, payload) and writes an audit row through the handle it is given.

type HBoss struct {
	ID   int64 `gorm:"primaryKey"`
	Name string
}

type HAccount struct {
	ID       int64 `gorm:"primaryKey"`
	HOwnerID *int64
	Number   string
}

type HCollar struct {
	ID     int64 `gorm:"primaryKey"`
	HPetID *int64
	Color  string
}

type HPet struct {
	ID       int64 `gorm:"primaryKey"`
	HOwnerID *int64
	Name     string
	Collars  []HCollar
}

type HTag struct {
	ID   int64 `gorm:"primaryKey"`
	Name string
}

type HOwnerTag struct {
	HOwnerID int64 `gorm:"primaryKey"`
	HTagID   int64 `gorm:"primaryKey"`
	Note     string
}

type HOwner struct {
	ID      int64 `gorm:"primaryKey"`
	Name    string
	N       int64
	BossID  *int64
	Boss    *HBoss
	Account *HAccount
	Pets    []HPet
	Tags    []HTag `gorm:"many2many:h_owner_tags"`
}

type HAudit struct {
	ID  int64 `gorm:"primaryKey"`
	Msg string
}

func (r *HBoss) hname() string     { return r.Name }
func (r *HAccount) hname() string  { return r.Number }
func (r *HCollar) hname() string   { return r.Color }
func (r *HPet) hname() string      { return r.Name }
func (r *HTag) hname() string      { return r.Name }
func (r *HOwnerTag) hname() string { return fmt.Sprintf("%d-%d", r.HOwnerID, r.HTagID) }
func (r *HOwner) hname() string    { return r.Name }

func (r *HBoss) BeforeSave(tx *gorm.DB) error { return hhook("BeforeSave", "HBoss", r, r.hname(), tx) }
func (r *HBoss) BeforeCreate(tx *gorm.DB) error {
	return hhook("BeforeCreate", "HBoss", r, r.hname(), tx)
}
func (r *HBoss) AfterCreate(tx *gorm.DB) error {
	return hhook("AfterCreate", "HBoss", r, r.hname(), tx)
}
func (r *HBoss) AfterSave(tx *gorm.DB) error { return hhook("AfterSave", "HBoss", r, r.hname(), tx) }
func (r *HBoss) BeforeUpdate(tx *gorm.DB) error {
	return hhook("BeforeUpdate", "HBoss", r, r.hname(), tx)
}
func (r *HBoss) AfterUpdate(tx *gorm.DB) error {
	return hhook("AfterUpdate", "HBoss", r, r.hname(), tx)
}
func (r *HBoss) BeforeDelete(tx *gorm.DB) error {
	return hhook("BeforeDelete", "HBoss", r, r.hname(), tx)
}
func (r *HBoss) AfterDelete(tx *gorm.DB) error {
	return hhook("AfterDelete", "HBoss", r, r.hname(), tx)
}
func (r *HBoss) AfterFind(tx *gorm.DB) error { return hhook("AfterFind", "HBoss", r, r.hname(), tx) }

func (r *HAccount) BeforeSave(tx *gorm.DB) error {
	return hhook("BeforeSave", "HAccount", r, r.hname(), tx)
}
func (r *HAccount) BeforeCreate(tx *gorm.DB) error {
	return hhook("BeforeCreate", "HAccount", r, r.hname(), tx)
}
func (r *HAccount) AfterCreate(tx *gorm.DB) error {
	return hhook("AfterCreate", "HAccount", r, r.hname(), tx)
}
func (r *HAccount) AfterSave(tx *gorm.DB) error {
	return hhook("AfterSave", "HAccount", r, r.hname(), tx)
}
func (r *HAccount) BeforeUpdate(tx *gorm.DB) error {
	return hhook("BeforeUpdate", "HAccount", r, r.hname(), tx)
}
func (r *HAccount) AfterUpdate(tx *gorm.DB) error {
	return hhook("AfterUpdate", "HAccount", r, r.hname(), tx)
}
func (r *HAccount) BeforeDelete(tx *gorm.DB) error {
	return hhook("BeforeDelete", "HAccount", r, r.hname(), tx)
}
func (r *HAccount) AfterDelete(tx *gorm.DB) error {
	return hhook("AfterDelete", "HAccount", r, r.hname(), tx)
}
func (r *HAccount) AfterFind(tx *gorm.DB) error {
	return hhook("AfterFind", "HAccount", r, r.hname(), tx)
}

func (r *HCollar) BeforeSave(tx *gorm.DB) error {
	return hhook("BeforeSave", "HCollar", r, r.hname(), tx)
}
func (r *HCollar) BeforeCreate(tx *gorm.DB) error {
	return hhook("BeforeCreate", "HCollar", r, r.hname(), tx)
}
func (r *HCollar) AfterCreate(tx *gorm.DB) error {
	return hhook("AfterCreate", "HCollar", r, r.hname(), tx)
}
func (r *HCollar) AfterSave(tx *gorm.DB) error {
	return hhook("AfterSave", "HCollar", r, r.hname(), tx)
}
func (r *HCollar) BeforeUpdate(tx *gorm.DB) error {
	return hhook("BeforeUpdate", "HCollar", r, r.hname(), tx)
}
func (r *HCollar) AfterUpdate(tx *gorm.DB) error {
	return hhook("AfterUpdate", "HCollar", r, r.hname(), tx)
}
func (r *HCollar) BeforeDelete(tx *gorm.DB) error {
	return hhook("BeforeDelete", "HCollar", r, r.hname(), tx)
}
func (r *HCollar) AfterDelete(tx *gorm.DB) error {
	return hhook("AfterDelete", "HCollar", r, r.hname(), tx)
}
func (r *HCollar) AfterFind(tx *gorm.DB) error {
	return hhook("AfterFind", "HCollar", r, r.hname(), tx)
}

func (r *HPet) BeforeSave(tx *gorm.DB) error { return hhook("BeforeSave", "HPet", r, r.hname(), tx) }
func (r *HPet) BeforeCreate(tx *gorm.DB) error {
	return hhook("BeforeCreate", "HPet", r, r.hname(), tx)
}
func (r *HPet) AfterCreate(tx *gorm.DB) error { return hhook("AfterCreate", "HPet", r, r.hname(), tx) }
func (r *HPet) AfterSave(tx *gorm.DB) error   { return hhook("AfterSave", "HPet", r, r.hname(), tx) }
func (r *HPet) BeforeUpdate(tx *gorm.DB) error {
	return hhook("BeforeUpdate", "HPet", r, r.hname(), tx)
}
func (r *HPet) AfterUpdate(tx *gorm.DB) error { return hhook("AfterUpdate", "HPet", r, r.hname(), tx) }
func (r *HPet) BeforeDelete(tx *gorm.DB) error {
	return hhook("BeforeDelete", "HPet", r, r.hname(), tx)
}
func (r *HPet) AfterDelete(tx *gorm.DB) error { return hhook("AfterDelete", "HPet", r, r.hname(), tx) }
func (r *HPet) AfterFind(tx *gorm.DB) error   { return hhook("AfterFind", "HPet", r, r.hname(), tx) }

func (r *HTag) BeforeSave(tx *gorm.DB) error { return hhook("BeforeSave", "HTag", r, r.hname(), tx) }
func (r *HTag) BeforeCreate(tx *gorm.DB) error {
	return hhook("BeforeCreate", "HTag", r, r.hname(), tx)
}
func (r *HTag) AfterCreate(tx *gorm.DB) error { return hhook("AfterCreate", "HTag", r, r.hname(), tx) }
func (r *HTag) AfterSave(tx *gorm.DB) error   { return hhook("AfterSave", "HTag", r, r.hname(), tx) }
func (r *HTag) BeforeUpdate(tx *gorm.DB) error {
	return hhook("BeforeUpdate", "HTag", r, r.hname(), tx)
}
func (r *HTag) AfterUpdate(tx *gorm.DB) error { return hhook("AfterUpdate", "HTag", r, r.hname(), tx) }
func (r *HTag) BeforeDelete(tx *gorm.DB) error {
	return hhook("BeforeDelete", "HTag", r, r.hname(), tx)
}
func (r *HTag) AfterDelete(tx *gorm.DB) error { return hhook("AfterDelete", "HTag", r, r.hname(), tx) }
func (r *HTag) AfterFind(tx *gorm.DB) error   { return hhook("AfterFind", "HTag", r, r.hname(), tx) }

func (r *HOwnerTag) BeforeSave(tx *gorm.DB) error {
	return hhook("BeforeSave", "HOwnerTag", r, r.hname(), tx)
}
func (r *HOwnerTag) BeforeCreate(tx *gorm.DB) error {
	return hhook("BeforeCreate", "HOwnerTag", r, r.hname(), tx)
}
func (r *HOwnerTag) AfterCreate(tx *gorm.DB) error {
	return hhook("AfterCreate", "HOwnerTag", r, r.hname(), tx)
}
func (r *HOwnerTag) AfterSave(tx *gorm.DB) error {
	return hhook("AfterSave", "HOwnerTag", r, r.hname(), tx)
}
func (r *HOwnerTag) BeforeUpdate(tx *gorm.DB) error {
	return hhook("BeforeUpdate", "HOwnerTag", r, r.hname(), tx)
}
func (r *HOwnerTag) AfterUpdate(tx *gorm.DB) error {
	return hhook("AfterUpdate", "HOwnerTag", r, r.hname(), tx)
}
func (r *HOwnerTag) BeforeDelete(tx *gorm.DB) error {
	return hhook("BeforeDelete", "HOwnerTag", r, r.hname(), tx)
}
func (r *HOwnerTag) AfterDelete(tx *gorm.DB) error {
	return hhook("AfterDelete", "HOwnerTag", r, r.hname(), tx)
}
func (r *HOwnerTag) AfterFind(tx *gorm.DB) error {
	return hhook("AfterFind", "HOwnerTag", r, r.hname(), tx)
}

func (r *HOwner) BeforeSave(tx *gorm.DB) error {
	return hhook("BeforeSave", "HOwner", r, r.hname(), tx)
}
func (r *HOwner) BeforeCreate(tx *gorm.DB) error {
	return hhook("BeforeCreate", "HOwner", r, r.hname(), tx)
}
func (r *HOwner) AfterCreate(tx *gorm.DB) error {
	return hhook("AfterCreate", "HOwner", r, r.hname(), tx)
}
func (r *HOwner) AfterSave(tx *gorm.DB) error { return hhook("AfterSave", "HOwner", r, r.hname(), tx) }
func (r *HOwner) BeforeUpdate(tx *gorm.DB) error {
	return hhook("BeforeUpdate", "HOwner", r, r.hname(), tx)
}
func (r *HOwner) AfterUpdate(tx *gorm.DB) error {
	return hhook("AfterUpdate", "HOwner", r, r.hname(), tx)
}
func (r *HOwner) BeforeDelete(tx *gorm.DB) error {
	return hhook("BeforeDelete", "HOwner", r, r.hname(), tx)
}
func (r *HOwner) AfterDelete(tx *gorm.DB) error {
	return hhook("AfterDelete", "HOwner", r, r.hname(), tx)
}
func (r *HOwner) AfterFind(tx *gorm.DB) error { return hhook("AfterFind", "HOwner", r, r.hname(), tx) }

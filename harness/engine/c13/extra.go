package c13

import (
	"fmt"
	"sort"
	"strings"

	"gorm.io/gorm"

	"verif/core"
)

// ---- hooks declared with value receivers, and with mixed receivers --------------------------------------
//
// Which receiver a hook is declared with is the model author's choice; "each applicable hook fires exactly
// once per affected in-memory record" does not depend on it. The generated family (vmodels_gen.go) has one
// type with all nine hooks on value receivers, nine types with a single value-receiver hook each, and two
// types that mix value and pointer receivers. Records are identified by Name (a value receiver sees a copy).

var vlog []string

func vhook(hook, typ, name string, tx *gorm.DB) error {
	vlog = append(vlog, hook+":"+typ+":"+name)
	return nil
}

var vReady bool

func vInit() {
	if vReady {
		return
	}
	if err := H.DB.Session(&gorm.Session{SkipHooks: true}).AutoMigrate(vModels...); err != nil {
		panic(err)
	}
	if err := H.DB.Session(&gorm.Session{SkipHooks: true}).AutoMigrate(&Pal{}); err != nil {
		panic(err)
	}
	vReady = true
}

var vOps = []string{"create", "save-new", "save-existing", "updates", "update", "delete", "first", "find"}
var vShapes = []string{"struct", "values", "pointers"}

var vApplicable = map[string][]string{
	"create":        {"BeforeSave", "BeforeCreate", "AfterCreate", "AfterSave"},
	"save-new":      {"BeforeSave", "BeforeCreate", "AfterCreate", "AfterSave"},
	"save-existing": {"BeforeSave", "BeforeUpdate", "AfterUpdate", "AfterSave"},
	"updates":       {"BeforeSave", "BeforeUpdate", "AfterUpdate", "AfterSave"},
	"update":        {"BeforeSave", "BeforeUpdate", "AfterUpdate", "AfterSave"},
	"delete":        {"BeforeDelete", "AfterDelete"},
	"first":         {"AfterFind"},
	"find":          {"AfterFind"},
}

func runValueRecv(c *core.Ctx, k int) {
	vInit()
	typ := vTypes[k%len(vTypes)]
	op := vOps[(k/len(vTypes))%len(vOps)]
	shape := vShapes[(k/(len(vTypes)*len(vOps)))%len(vShapes)]
	n := 1 + c.R.Intn(3)
	switch op {
	case "save-existing", "updates", "update", "first":
		shape, n = "struct", 1
	case "find":
		if shape == "struct" {
			shape = "values"
		}
	}
	if shape == "struct" {
		n = 1
	}
	table := H.DB.NamingStrategy.TableName(typ)
	if _, err := H.SQL.Exec("DELETE FROM `" + table + "`"); err != nil {
		panic(err)
	}
	var names []string
	var ids []int64
	for i := 0; i < n; i++ {
		names = append(names, fmt.Sprintf("%s_%d_%d", strings.ToLower(typ), c.Case, i))
		ids = append(ids, int64(10+i))
	}
	needRows := op != "create" && op != "save-new"
	if needRows {
		for i := range names {
			if _, err := H.SQL.Exec("INSERT INTO `"+table+"` (id, name, n) VALUES (?, ?, 1)", ids[i], names[i]); err != nil {
				panic(err)
			}
		}
	}
	var useIDs []int64
	if needRows {
		useIDs = ids
	}
	one, vals, ptrs, model := vMake(typ, names, useIDs)
	arg := map[string]interface{}{"struct": one, "values": vals, "pointers": ptrs}[shape]
	desc := fmt.Sprintf("%s %s(%s of %d %s)", op, typ, shape, n, typ)
	exec := func(db *gorm.DB) error {
		switch op {
		case "create":
			return db.Create(arg).Error
		case "save-new", "save-existing":
			return db.Save(arg).Error
		case "updates":
			return db.Model(arg).Updates(map[string]interface{}{"n": 2}).Error
		case "update":
			return db.Model(arg).Update("n", 3).Error
		case "delete":
			return db.Delete(arg).Error
		case "first":
			_, _, _, dst := vMake(typ, names, nil)
			return db.First(dst, ids[0]).Error
		case "find":
			_, dv, dp, _ := vMake(typ, names[:1], nil)
			if shape == "values" {
				return db.Model(model).Order("id").Find(dv).Error
			}
			return db.Model(model).Order("id").Find(dp).Error
		}
		panic(op)
	}
	vlog = nil
	err := exec(H.DB.Session(&gorm.Session{}))
	got := vlog
	vlog = nil
	c.Inc("value_receiver_runs")
	var problems []string
	if err != nil {
		problems = append(problems, "error: "+err.Error())
	}
	declared := map[string]bool{}
	for _, h := range vDeclared[typ] {
		declared[h] = true
	}
	count := map[string]int{}
	for _, e := range got {
		count[e]++
	}
	want := map[string]bool{}
	for _, h := range vApplicable[op] {
		if !declared[h] {
			continue
		}
		for _, nm := range names {
			k := h + ":" + typ + ":" + nm
			want[k] = true
			if count[k] != 1 {
				problems = append(problems, fmt.Sprintf("%s fired %d times for record %q, want exactly once", h, count[k], nm))
			}
		}
	}
	var extra []string
	for k, v := range count {
		if !want[k] {
			extra = append(extra, fmt.Sprintf("%s x%d", k, v))
		}
	}
	sort.Strings(extra)
	if len(extra) > 0 {
		problems = append(problems, "hooks that do not apply fired: "+strings.Join(extra, ", "))
	}
	// order of the phases per record
	pos := map[string]int{}
	for i, e := range got {
		pos[e] = i
	}
	ap := vApplicable[op]
	for _, nm := range names {
		last, lastH := -1, ""
		for _, h := range ap {
			k := h + ":" + typ + ":" + nm
			if count[k] != 1 {
				continue
			}
			if pos[k] < last {
				problems = append(problems, fmt.Sprintf("%s fired before %s for record %q", h, lastH, nm))
			}
			last, lastH = pos[k], h
		}
	}
	if len(problems) > 0 {
		sig := "value-receiver/" + op
		if vMixed[typ] {
			sig = "mixed-receiver/" + op
		}
		c.Violation(sig, map[string]interface{}{"op": desc, "declared": vDeclared[typ], "problems": problems, "hooks": strings.Join(got, " ")})
		return
	}
	// SkipHooks: none
	if needRows {
		H.SQL.Exec("DELETE FROM `" + table + "`")
		for i := range names {
			H.SQL.Exec("INSERT INTO `"+table+"` (id, name, n) VALUES (?, ?, 1)", ids[i], names[i])
		}
	} else {
		H.SQL.Exec("DELETE FROM `" + table + "`")
	}
	one, vals, ptrs, _ = vMake(typ, names, useIDs)
	arg = map[string]interface{}{"struct": one, "values": vals, "pointers": ptrs}[shape]
	vlog = nil
	err = exec(H.DB.Session(&gorm.Session{SkipHooks: true}))
	if len(vlog) != 0 || err != nil {
		c.Violation("value-receiver-skiphooks/"+op, map[string]interface{}{"op": desc, "problems": []string{fmt.Sprintf("SkipHooks session: %d hooks fired (%s), error %v", len(vlog), strings.Join(vlog, " "), err)}})
	}
	vlog = nil
	if len(got) > 0 {
		c.Shape("vrecv", typ, op, shape, len(got))
	}
}

// ---- one in-memory record reachable along several association paths of one Create ------------------------

type Pal struct {
	ID      int64 `gorm:"primaryKey"`
	Name    string
	Friends []*Pal `gorm:"many2many:pal_links"`
}

func (p *Pal) BeforeSave(tx *gorm.DB) error {
	return vhook("BeforeSave", "Pal", fmt.Sprintf("%p", p), tx)
}
func (p *Pal) BeforeCreate(tx *gorm.DB) error {
	return vhook("BeforeCreate", "Pal", fmt.Sprintf("%p", p), tx)
}
func (p *Pal) AfterCreate(tx *gorm.DB) error {
	return vhook("AfterCreate", "Pal", fmt.Sprintf("%p", p), tx)
}
func (p *Pal) AfterSave(tx *gorm.DB) error {
	return vhook("AfterSave", "Pal", fmt.Sprintf("%p", p), tx)
}

// runSharedGraph: root.Friends = [f1..fn]; every f_i lists a subset of the LATER friends (same pointers). All of
// them are in-memory records of the one Create; each is reachable along one or more paths and is one record.
func runSharedGraph(c *core.Ctx) {
	vInit()
	H.SQL.Exec("DELETE FROM pal_links")
	H.SQL.Exec("DELETE FROM pals")
	n := 2 + c.R.Intn(3)
	fs := make([]*Pal, n)
	for i := range fs {
		fs[i] = &Pal{Name: fmt.Sprintf("f%d_%d", i, c.Case)}
	}
	links := n
	var shape []string
	for i := 0; i < n-1; i++ {
		var sub []*Pal
		var idx []string
		for j := i + 1; j < n; j++ {
			if c.R.Intn(2) == 0 || (i == 0 && j == n-1) {
				sub = append(sub, fs[j])
				idx = append(idx, fmt.Sprint(j))
			}
		}
		fs[i].Friends = sub
		links += len(sub)
		shape = append(shape, fmt.Sprintf("f%d.Friends=[%s]", i, strings.Join(idx, ",")))
	}
	root := &Pal{Name: fmt.Sprintf("root_%d", c.Case), Friends: append([]*Pal(nil), fs...)}
	desc := fmt.Sprintf("db.Create(root) with root.Friends=[f0..f%d] (pointers), %s", n-1, strings.Join(shape, " "))
	vlog = nil
	err := H.DB.Session(&gorm.Session{}).Create(root).Error
	got := vlog
	vlog = nil
	c.Inc("shared_graph_runs")
	var problems []string
	if err != nil {
		problems = append(problems, "error: "+err.Error())
	}
	count := map[string]int{}
	for _, e := range got {
		count[e]++
	}
	all := append([]*Pal{root}, fs...)
	for i, p := range all {
		for _, h := range []string{"BeforeSave", "BeforeCreate", "AfterCreate", "AfterSave"} {
			if k := fmt.Sprintf("%s:Pal:%p", h, p); count[k] != 1 {
				who := "root"
				if i > 0 {
					who = fmt.Sprintf("f%d", i-1)
				}
				problems = append(problems, fmt.Sprintf("%s fired %d times for %s, want exactly once", h, count[k], who))
			}
		}
	}
	var np, nl int64
	H.SQL.QueryRow("SELECT count(*) FROM pals").Scan(&np)
	H.SQL.QueryRow("SELECT count(*) FROM pal_links").Scan(&nl)
	if int(np) != n+1 || int(nl) != links {
		problems = append(problems, fmt.Sprintf("%d rows and %d links stored, want %d and %d", np, nl, n+1, links))
	}
	if len(problems) > 0 {
		c.Violation("shared-record/create", map[string]interface{}{"op": desc, "problems": problems, "hooks": fmt.Sprint(len(got), " invocations")})
		return
	}
	c.Shape("shared", n, links)
}

package c13

import (
	"errors"
	"fmt"
	"sort"
	"strings"

	"gorm.io/gorm"

	"verif/core"
)

// ---- hooks declared with value receivers, and with mixed receivers --------------------------------------
//
// Which receiver a hook is declared with is the model author's choice; "each applicable hook fires exactly
// once per affected in-memory record" does not depend on it. The generated family (vmodels_gen.go) has one
// type with all nine hooks on value receivers, nine types with a single value-receiver hook each, and two
// types that mix value and pointer receivers. Records are identified by Name (a value receiver sees a copy).

var vlog []string

// vFailAt: the 1-based invocation of vhook that returns an error (0 = none)
var vFailAt int
var errVHook = errors.New("verif: hook refuses")

func vhook(hook, typ, name string, tx *gorm.DB) error {
	vlog = append(vlog, hook+":"+typ+":"+name)
	if vFailAt != 0 && len(vlog) == vFailAt {
		return errVHook
	}
	return nil
}

var vReady bool

func vInit() {
	if vReady {
		return
	}
	if err := H.DB.Session(&gorm.Session{SkipHooks: true}).AutoMigrate(vModels...); err != nil {
		panic(err)
	}
	if err := H.DB.Session(&gorm.Session{SkipHooks: true}).AutoMigrate(&Pal{}); err != nil {
		panic(err)
	}
	if err := H.DB.SetupJoinTable(&JPerson{}, "Addrs", &JPersonAddr{}); err != nil {
		panic(err)
	}
	if err := H.DB.Session(&gorm.Session{SkipHooks: true}).AutoMigrate(&JPerson{}, &JAddr{}, &JPersonAddr{}); err != nil {
		panic(err)
	}
	vReady = true
}

var vOps = []string{"create", "save-new", "save-existing", "updates", "update", "delete", "first", "find"}
var vShapes = []string{"struct", "values", "pointers"}

var vApplicable = map[string][]string{
	"create":        {"BeforeSave", "BeforeCreate", "AfterCreate", "AfterSave"},
	"save-new":      {"BeforeSave", "BeforeCreate", "AfterCreate", "AfterSave"},
	"save-existing": {"BeforeSave", "BeforeUpdate", "AfterUpdate", "AfterSave"},
	"updates":       {"BeforeSave", "BeforeUpdate", "AfterUpdate", "AfterSave"},
	"update":        {"BeforeSave", "BeforeUpdate", "AfterUpdate", "AfterSave"},
	"delete":        {"BeforeDelete", "AfterDelete"},
	"first":         {"AfterFind"},
	"find":          {"AfterFind"},
}

func runValueRecv(c *core.Ctx, k int) {
	vInit()
	typ := vTypes[k%len(vTypes)]
	op := vOps[(k/len(vTypes))%len(vOps)]
	shape := vShapes[(k/(len(vTypes)*len(vOps)))%len(vShapes)]
	n := 1 + c.R.Intn(3)
	switch op {
	case "save-existing", "updates", "update", "first":
		shape, n = "struct", 1
	case "find":
		if shape == "struct" {
			shape = "values"
		}
	}
	if shape == "struct" {
		n = 1
	}
	table := H.DB.NamingStrategy.TableName(typ)
	if _, err := H.SQL.Exec("DELETE FROM `" + table + "`"); err != nil {
		panic(err)
	}
	var names []string
	var ids []int64
	for i := 0; i < n; i++ {
		names = append(names, fmt.Sprintf("%s_%d_%d", strings.ToLower(typ), c.Case, i))
		ids = append(ids, int64(10+i))
	}
	needRows := op != "create" && op != "save-new"
	if needRows {
		for i := range names {
			if _, err := H.SQL.Exec("INSERT INTO `"+table+"` (id, name, n) VALUES (?, ?, 1)", ids[i], names[i]); err != nil {
				panic(err)
			}
		}
	}
	var useIDs []int64
	if needRows {
		useIDs = ids
	}
	one, vals, ptrs, model := vMake(typ, names, useIDs)
	arg := map[string]interface{}{"struct": one, "values": vals, "pointers": ptrs}[shape]
	desc := fmt.Sprintf("%s %s(%s of %d %s)", op, typ, shape, n, typ)
	exec := func(db *gorm.DB) error {
		switch op {
		case "create":
			return db.Create(arg).Error
		case "save-new", "save-existing":
			return db.Save(arg).Error
		case "updates":
			return db.Model(arg).Updates(map[string]interface{}{"n": 2}).Error
		case "update":
			return db.Model(arg).Update("n", 3).Error
		case "delete":
			return db.Delete(arg).Error
		case "first":
			_, _, _, dst := vMake(typ, names, nil)
			return db.First(dst, ids[0]).Error
		case "find":
			_, dv, dp, _ := vMake(typ, names[:1], nil)
			if shape == "values" {
				return db.Model(model).Order("id").Find(dv).Error
			}
			return db.Model(model).Order("id").Find(dp).Error
		}
		panic(op)
	}
	vlog = nil
	err := exec(H.DB.Session(&gorm.Session{}))
	got := vlog
	vlog = nil
	c.Inc("value_receiver_runs")
	var problems []string
	if err != nil {
		problems = append(problems, "error: "+err.Error())
	}
	declared := map[string]bool{}
	for _, h := range vDeclared[typ] {
		declared[h] = true
	}
	count := map[string]int{}
	for _, e := range got {
		count[e]++
	}
	want := map[string]bool{}
	for _, h := range vApplicable[op] {
		if !declared[h] {
			continue
		}
		for _, nm := range names {
			k := h + ":" + typ + ":" + nm
			want[k] = true
			if count[k] != 1 {
				problems = append(problems, fmt.Sprintf("%s fired %d times for record %q, want exactly once", h, count[k], nm))
			}
		}
	}
	var extra []string
	for k, v := range count {
		if !want[k] {
			extra = append(extra, fmt.Sprintf("%s x%d", k, v))
		}
	}
	sort.Strings(extra)
	if len(extra) > 0 {
		problems = append(problems, "hooks that do not apply fired: "+strings.Join(extra, ", "))
	}
	// order of the phases per record
	pos := map[string]int{}
	for i, e := range got {
		pos[e] = i
	}
	ap := vApplicable[op]
	for _, nm := range names {
		last, lastH := -1, ""
		for _, h := range ap {
			k := h + ":" + typ + ":" + nm
			if count[k] != 1 {
				continue
			}
			if pos[k] < last {
				problems = append(problems, fmt.Sprintf("%s fired before %s for record %q", h, lastH, nm))
			}
			last, lastH = pos[k], h
		}
	}
	if len(problems) > 0 {
		sig := "value-receiver/" + op
		if vMixed[typ] {
			sig = "mixed-receiver/" + op
		}
		c.Violation(sig, map[string]interface{}{"op": desc, "declared": vDeclared[typ], "problems": problems, "hooks": strings.Join(got, " ")})
		return
	}
	// SkipHooks: none
	if needRows {
		H.SQL.Exec("DELETE FROM `" + table + "`")
		for i := range names {
			H.SQL.Exec("INSERT INTO `"+table+"` (id, name, n) VALUES (?, ?, 1)", ids[i], names[i])
		}
	} else {
		H.SQL.Exec("DELETE FROM `" + table + "`")
	}
	one, vals, ptrs, _ = vMake(typ, names, useIDs)
	arg = map[string]interface{}{"struct": one, "values": vals, "pointers": ptrs}[shape]
	vlog = nil
	err = exec(H.DB.Session(&gorm.Session{SkipHooks: true}))
	if len(vlog) != 0 || err != nil {
		c.Violation("value-receiver-skiphooks/"+op, map[string]interface{}{"op": desc, "problems": []string{fmt.Sprintf("SkipHooks session: %d hooks fired (%s), error %v", len(vlog), strings.Join(vlog, " "), err)}})
	}
	vlog = nil
	if len(got) > 0 {
		c.Shape("vrecv", typ, op, shape, len(got))
	}
}

// ---- one in-memory record reachable along several association paths of one Create ------------------------

type Pal struct {
	ID      int64 `gorm:"primaryKey"`
	Name    string
	Friends []*Pal `gorm:"many2many:pal_links"`
}

func (p *Pal) BeforeSave(tx *gorm.DB) error {
	return vhook("BeforeSave", "Pal", fmt.Sprintf("%p", p), tx)
}
func (p *Pal) BeforeCreate(tx *gorm.DB) error {
	return vhook("BeforeCreate", "Pal", fmt.Sprintf("%p", p), tx)
}
func (p *Pal) AfterCreate(tx *gorm.DB) error {
	return vhook("AfterCreate", "Pal", fmt.Sprintf("%p", p), tx)
}
func (p *Pal) AfterSave(tx *gorm.DB) error {
	return vhook("AfterSave", "Pal", fmt.Sprintf("%p", p), tx)
}

// runSharedGraph: root.Friends = [f1..fn]; every f_i lists a subset of the LATER friends (same pointers). All of
// them are in-memory records of the one Create; each is reachable along one or more paths and is one record.
func runSharedGraph(c *core.Ctx) {
	vInit()
	H.SQL.Exec("DELETE FROM pal_links")
	H.SQL.Exec("DELETE FROM pals")
	n := 2 + c.R.Intn(3)
	fs := make([]*Pal, n)
	for i := range fs {
		fs[i] = &Pal{Name: fmt.Sprintf("f%d_%d", i, c.Case)}
	}
	links := n
	var shape []string
	for i := 0; i < n-1; i++ {
		var sub []*Pal
		var idx []string
		for j := i + 1; j < n; j++ {
			if c.R.Intn(2) == 0 || (i == 0 && j == n-1) {
				sub = append(sub, fs[j])
				idx = append(idx, fmt.Sprint(j))
			}
		}
		fs[i].Friends = sub
		links += len(sub)
		shape = append(shape, fmt.Sprintf("f%d.Friends=[%s]", i, strings.Join(idx, ",")))
	}
	root := &Pal{Name: fmt.Sprintf("root_%d", c.Case), Friends: append([]*Pal(nil), fs...)}
	desc := fmt.Sprintf("db.Create(root) with root.Friends=[f0..f%d] (pointers), %s", n-1, strings.Join(shape, " "))
	vlog = nil
	err := H.DB.Session(&gorm.Session{}).Create(root).Error
	got := vlog
	vlog = nil
	c.Inc("shared_graph_runs")
	var problems []string
	if err != nil {
		problems = append(problems, "error: "+err.Error())
	}
	count := map[string]int{}
	for _, e := range got {
		count[e]++
	}
	all := append([]*Pal{root}, fs...)
	for i, p := range all {
		for _, h := range []string{"BeforeSave", "BeforeCreate", "AfterCreate", "AfterSave"} {
			if k := fmt.Sprintf("%s:Pal:%p", h, p); count[k] != 1 {
				who := "root"
				if i > 0 {
					who = fmt.Sprintf("f%d", i-1)
				}
				problems = append(problems, fmt.Sprintf("%s fired %d times for %s, want exactly once", h, count[k], who))
			}
		}
	}
	var np, nl int64
	H.SQL.QueryRow("SELECT count(*) FROM pals").Scan(&np)
	H.SQL.QueryRow("SELECT count(*) FROM pal_links").Scan(&nl)
	if int(np) != n+1 || int(nl) != links {
		problems = append(problems, fmt.Sprintf("%d rows and %d links stored, want %d and %d", np, nl, n+1, links))
	}
	if len(problems) > 0 {
		c.Violation("shared-record/create", map[string]interface{}{"op": desc, "problems": problems, "hooks": fmt.Sprint(len(got), " invocations")})
		return
	}
	c.Shape("shared", n, links)
}

// ---- a many-to-many relation whose join rows are records of a model with hooks of its own ----------------------

type JPerson struct {
	ID    int64 `gorm:"primaryKey"`
	Name  string
	Addrs []JAddr `gorm:"many2many:j_person_addrs"`
}

type JAddr struct {
	ID   int64 `gorm:"primaryKey"`
	City string
}

// JPersonAddr is the join model (SetupJoinTable): gorm creates one record of it per link
type JPersonAddr struct {
	JPersonID int64 `gorm:"primaryKey"`
	JAddrID   int64 `gorm:"primaryKey"`
	Note      string
}

func (j *JPersonAddr) key() string { return fmt.Sprintf("%d-%d", j.JPersonID, j.JAddrID) }
func (j *JPersonAddr) BeforeSave(tx *gorm.DB) error {
	return vhook("BeforeSave", "JPersonAddr", j.key(), tx)
}
func (j *JPersonAddr) BeforeCreate(tx *gorm.DB) error {
	j.Note = "set-by-before-create"
	return vhook("BeforeCreate", "JPersonAddr", j.key(), tx)
}
func (j *JPersonAddr) AfterCreate(tx *gorm.DB) error {
	return vhook("AfterCreate", "JPersonAddr", j.key(), tx)
}
func (j *JPersonAddr) AfterSave(tx *gorm.DB) error {
	return vhook("AfterSave", "JPersonAddr", j.key(), tx)
}

var joinOps = []string{"create", "save", "append", "replace", "create-skiphooks"}

// runJoinHooks: every link row gorm creates is a record of the join model: its create hooks fire once per link,
// what BeforeCreate sets is stored, a refusing hook is returned and the whole operation undone; none under SkipHooks.
func runJoinHooks(c *core.Ctx, k int) {
	vInit()
	op := joinOps[k%len(joinOps)]
	for _, t := range []string{"j_person_addrs", "j_addrs", "j_people"} {
		if _, err := H.SQL.Exec("DELETE FROM " + t); err != nil {
			panic(err)
		}
	}
	n := 1 + c.R.Intn(3)
	mk := func() *JPerson {
		p := &JPerson{Name: fmt.Sprintf("p%d", c.Case)}
		for i := 0; i < n; i++ {
			p.Addrs = append(p.Addrs, JAddr{City: fmt.Sprintf("c%d_%d", c.Case, i)})
		}
		return p
	}
	run := func(failAt int) (err error, log []string) {
		for _, t := range []string{"j_person_addrs", "j_addrs", "j_people"} {
			H.SQL.Exec("DELETE FROM " + t)
		}
		db := H.DB.Session(&gorm.Session{SkipHooks: op == "create-skiphooks"})
		p := mk()
		var owner *JPerson
		if op == "append" || op == "replace" {
			owner = &JPerson{ID: 1, Name: "owner"}
			if _, e := H.SQL.Exec("INSERT INTO j_people(id,name) VALUES (1,'owner')"); e != nil {
				panic(e)
			}
		}
		vlog, vFailAt = nil, failAt
		switch op {
		case "create", "create-skiphooks":
			err = db.Create(p).Error
		case "save":
			err = db.Save(p).Error
		case "append":
			err = db.Model(owner).Association("Addrs").Append(p.Addrs)
		case "replace":
			err = db.Model(owner).Association("Addrs").Replace(p.Addrs)
		}
		log, vlog, vFailAt = vlog, nil, 0
		return
	}
	desc := fmt.Sprintf("%s of a person with %d new addresses through a many-to-many relation whose join model has hooks", op, n)
	err, log := run(0)
	c.Inc("join_model_hook_runs")
	var problems []string
	if err != nil {
		problems = append(problems, "error: "+err.Error())
	}
	count := map[string]int{}
	for _, e := range log {
		count[strings.SplitN(e, ":", 2)[0]+":"+strings.SplitN(e, ":", 3)[1]]++
	}
	links := vdbInts("SELECT count(*) FROM j_person_addrs")
	if links != int64(n) {
		problems = append(problems, fmt.Sprintf("%d link rows stored, want %d", links, n))
	}
	for _, h := range []string{"BeforeSave", "BeforeCreate", "AfterCreate", "AfterSave"} {
		want := n
		if op == "create-skiphooks" {
			want = 0
		}
		if got := count[h+":JPersonAddr"]; got != want {
			problems = append(problems, fmt.Sprintf("%s of the join model fired %d times for %d link records", h, got, n))
		}
	}
	if op != "create-skiphooks" {
		if bad := vdbInts("SELECT count(*) FROM j_person_addrs WHERE note <> 'set-by-before-create' OR note IS NULL"); bad != 0 {
			problems = append(problems, fmt.Sprintf("%d link rows do not hold the value BeforeCreate set", bad))
		}
	}
	if len(problems) > 0 {
		c.Violation("join-model-hooks/"+op, map[string]interface{}{"op": desc, "problems": problems, "hooks": strings.Join(log, " ")})
		return
	}
	// every invocation refuses once (create / save: one unit with the owner)
	if op == "create" || op == "save" {
		for j := 1; j <= len(log); j++ {
			ferr, flog := run(j)
			c.Inc("faulted_runs")
			var p []string
			if !errors.Is(ferr, errVHook) {
				p = append(p, fmt.Sprintf("invocation %d (%s) refused, the operation returned %v", j, log[j-1], ferr))
			}
			if left := vdbInts("SELECT (SELECT count(*) FROM j_people) + (SELECT count(*) FROM j_addrs) + (SELECT count(*) FROM j_person_addrs)"); left != 0 {
				p = append(p, fmt.Sprintf("invocation %d (%s) refused, %d rows of the operation stayed", j, log[j-1], left))
			}
			if len(flog) > len(log) {
				p = append(p, "more hooks fired than in the run without a failure")
			}
			if len(p) > 0 {
				c.Violation("join-model-hooks-fail/"+op, map[string]interface{}{"op": desc, "failed_invocation": j, "problems": p})
				break
			}
		}
	}
	c.Shape("joinhooks", op, n)
}

func vdbInts(q string) int64 {
	var n int64
	if err := H.SQL.QueryRow(q).Scan(&n); err != nil {
		panic(err)
	}
	return n
}

package c13

import (
	"fmt"
	"reflect"
	"strings"

	"gorm.io/gorm"

	"verif/core"
)

// ---- updates that write no column of the owner, updates over slices, association mode over owner slices ----------
//
// "For every ... update ... BeforeSave, BeforeUpdate, the statement, AfterUpdate, AfterSave" holds for every call of
// an update method, whatever ends up in its SET list. HOwner has no auto-update-time column, so an update whose
// values are all zero / excluded by Select or Omit, and the update association mode runs on the owner to save new
// records of a has-one / has-many / many-to-many relation, have nothing of the owner to write: the hooks of the
// owner still fire once each around the saving of the associated records, a refusal of any of them is returned and
// undoes those records. The owner argument is a struct, a value slice or a pointer slice; association mode over a
// slice of owners saves one owner after the other (one transaction each).

// hOwnerRef: the stored owner k as an in-memory record (key, payload and its boss key: nothing to change)
func hOwnerRef(id int64) *HOwner {
	boss := hBossOf[id]
	return &HOwner{ID: id, Name: fmt.Sprintf("o%d", id), BossID: &boss}
}

func hChildRecs(owner string, o *HOwner, rel string, vals interface{}) (recs []hRec, links int) {
	add := func(typ, name string) {
		recs = append(recs, hRec{typ: typ, name: name, byName: true, owner: owner, hooks: hCreateHooks})
	}
	pets := func(ps []HPet) {
		for _, p := range ps {
			add("HPet", p.Name)
			for _, cl := range p.Collars {
				add("HCollar", cl.Color)
			}
		}
	}
	switch v := vals.(type) {
	case *HAccount:
		add("HAccount", v.Number)
	case *HBoss:
		add("HBoss", v.Name)
	case *HPet:
		pets([]HPet{*v})
	case []HPet:
		pets(v)
	case *HTag:
		add("HTag", v.Name)
		links++
	case []HTag:
		for _, t := range v {
			add("HTag", t.Name)
		}
		links += len(v)
	case []*HTag:
		for _, t := range v {
			add("HTag", t.Name)
		}
		links += len(v)
	default:
		panic(fmt.Sprintf("%T", vals))
	}
	return
}

// hNewValues: new records of relation rel for one owner (i: position of the owner in the argument)
func hNewValues(r *core.Rand, rel, tag string, i int) (vals interface{}, desc string) {
	switch rel {
	case "Account":
		return &HAccount{Number: fmt.Sprintf("a%s_%d", tag, i)}, "&HAccount{new}"
	case "Boss":
		return &HBoss{Name: fmt.Sprintf("b%s_%d", tag, i)}, "&HBoss{new}"
	case "Pets":
		if r.Intn(3) == 0 {
			return &HPet{Name: fmt.Sprintf("p%s_%d", tag, i)}, "&HPet{new}"
		}
		// no collars: association mode selects the relation alone, what lies below it is not saved
		var ps []HPet
		for k := r.Range(1, 2); k > 0; k-- {
			ps = append(ps, HPet{Name: fmt.Sprintf("p%s_%d_%d", tag, i, k)})
		}
		return ps, fmt.Sprintf("[]HPet{%d new}", len(ps))
	case "Tags":
		switch r.Intn(3) {
		case 0:
			return &HTag{Name: fmt.Sprintf("t%s_%d", tag, i)}, "&HTag{new}"
		case 1:
			var ts []*HTag
			for k := r.Range(1, 2); k > 0; k-- {
				ts = append(ts, &HTag{Name: fmt.Sprintf("t%s_%d_%d", tag, i, k)})
			}
			return ts, fmt.Sprintf("[]*HTag{%d new}", len(ts))
		}
		var ts []HTag
		for k := r.Range(1, 2); k > 0; k-- {
			ts = append(ts, HTag{Name: fmt.Sprintf("t%s_%d_%d", tag, i, k)})
		}
		return ts, fmt.Sprintf("[]HTag{%d new}", len(ts))
	}
	panic(rel)
}

// hAssocSaveOp: db.Model(owner | &owners).Association(rel).Append / Replace(new records, one argument per owner)
func hAssocSaveOp(rel, verb, shape string) hOp {
	return hOp{"association-" + rel + "-" + verb + "-new-" + shape + "-owner", func(r *core.Rand, tag string) hCase {
		n := 1
		if shape != "struct" {
			n = r.Range(1, 3)
		}
		ids := r.Perm(3)[:n]
		seed := r.U64()
		var ptrs []*HOwner
		var vals []interface{}
		var descs []string
		build := func() interface{} {
			rr := core.NewRand(seed)
			vals, descs = nil, nil
			arg, ps := hOwnersArg(shape, func(i int) *HOwner { return hOwnerRef(int64(ids[i] + 1)) }, n)
			ptrs = ps
			for i := 0; i < n; i++ {
				v, d := hNewValues(rr, rel, tag, i)
				vals = append(vals, v)
				descs = append(descs, d)
			}
			return arg
		}
		build()
		var keys []string
		for _, i := range ids {
			keys = append(keys, fmt.Sprint(i+1))
		}
		hc := hCase{
			desc:           fmt.Sprintf("db.Model(%s of stored HOwner %s).Association(%q).%s(%s)", shape, strings.Join(keys, ","), rel, verb, strings.Join(descs, ", ")),
			exact:          "save",
			tolerateDelete: verb == "Replace",
			run: func(db *gorm.DB) error {
				arg := build()
				a := db.Model(arg).Association(rel)
				if a.Error != nil {
					return a.Error
				}
				if verb == "Replace" {
					return a.Replace(vals...)
				}
				return a.Append(vals...)
			},
			recs: func() (recs []hRec, links int) {
				for i, o := range ptrs {
					op := fmt.Sprintf("%p", o)
					recs = append(recs, hRec{ptr: op, typ: "HOwner", name: o.Name, hooks: hUpdateHooks})
					cr, l := hChildRecs(op, o, rel, vals[i])
					recs = append(recs, cr...)
					links += l
				}
				return
			},
		}
		switch {
		case shape == "struct" && verb == "Append" && (rel == "Pets" || rel == "Tags"):
			// one update of one owner: one transaction
			hc.atomic = true
		case shape == "struct":
			// Replace (and Append to a single-valued relation, which replaces) unlinks the old records with
			// statements of its own after the owner's save; a refusal ends the operation before them
			hc.manyTx, hc.refuse = true, "atomic"
		default:
			hc.manyTx, hc.refuse = true, "error"
		}
		return hc
	}}
}

// hEmptySetOp: an update of one stored owner whose SET list is empty
func hEmptySetOp(name, desc string, withNew, flat bool, upd func(db *gorm.DB) *gorm.DB) hOp {
	return hOp{name, func(r *core.Rand, tag string) hCase {
		id := int64(r.Range(1, 3))
		seed := r.U64()
		var owner *HOwner
		build := func() {
			rr := core.NewRand(seed)
			owner = hOwnerRef(id)
			if withNew {
				// new records in the relations of the model value are saved with it
				fresh := hNewOwner(rr, tag, 0)
				owner.Account, owner.Pets, owner.Tags = fresh.Account, fresh.Pets, fresh.Tags
				if len(owner.Pets) == 0 {
					owner.Pets = []HPet{{Name: "p" + tag}}
				}
				if flat {
					// a Select that names the relations saves those and nothing below them
					for i := range owner.Pets {
						owner.Pets[i].Collars = nil
					}
				}
			}
		}
		build()
		d := fmt.Sprintf("db.Model(&HOwner{ID: %d, Name: %q, BossID: its boss})", id, owner.Name)
		if withNew {
			d = fmt.Sprintf("db.Model(&HOwner{ID: %d, Name: %q, BossID: its boss, new records: %s})", id, owner.Name, hDescOwner(owner))
		}
		return hCase{
			desc:   d + desc,
			exact:  "save",
			atomic: true,
			run: func(db *gorm.DB) error {
				build()
				return upd(db.Model(owner)).Error
			},
			recs: func() (recs []hRec, links int) {
				op := fmt.Sprintf("%p", owner)
				recs = append(recs, hRec{ptr: op, typ: "HOwner", name: owner.Name, hooks: hUpdateHooks})
				if owner.Account != nil {
					recs = append(recs, hRec{ptr: fmt.Sprintf("%p", owner.Account), typ: "HAccount", name: owner.Account.Number, hooks: hCreateHooks, owner: op})
				}
				for i := range owner.Pets {
					recs = append(recs, hRec{ptr: fmt.Sprintf("%p", &owner.Pets[i]), typ: "HPet", name: owner.Pets[i].Name, hooks: hCreateHooks, owner: op})
					for j := range owner.Pets[i].Collars {
						recs = append(recs, hRec{ptr: fmt.Sprintf("%p", &owner.Pets[i].Collars[j]), typ: "HCollar", name: owner.Pets[i].Collars[j].Color, hooks: hCreateHooks, owner: op})
					}
				}
				for i := range owner.Tags {
					recs = append(recs, hRec{ptr: fmt.Sprintf("%p", &owner.Tags[i]), typ: "HTag", name: owner.Tags[i].Name, hooks: hCreateHooks, owner: op})
				}
				return recs, len(owner.Tags)
			},
		}
	}}
}

// hUpdateSliceOp: db.Model(&owners).Update / Updates over a value slice / pointer slice of stored owners
func hUpdateSliceOp(name, desc, shape string, upd func(db *gorm.DB) *gorm.DB) hOp {
	return hOp{name + "-" + shape, func(r *core.Rand, tag string) hCase {
		n := r.Range(1, 3)
		ids := r.Perm(3)[:n]
		var ptrs []*HOwner
		var keys []string
		for _, i := range ids {
			keys = append(keys, fmt.Sprint(i+1))
		}
		return hCase{
			desc:   fmt.Sprintf("db.Model(%s of stored HOwner %s)%s", shape, strings.Join(keys, ","), desc),
			exact:  "save",
			atomic: true,
			run: func(db *gorm.DB) error {
				var arg interface{}
				arg, ptrs = hOwnersArg(shape, func(i int) *HOwner { return hOwnerRef(int64(ids[i] + 1)) }, n)
				return upd(db.Model(arg)).Error
			},
			recs: func() (recs []hRec, links int) {
				for _, o := range ptrs {
					recs = append(recs, hRec{ptr: fmt.Sprintf("%p", o), typ: "HOwner", name: o.Name, hooks: hUpdateHooks})
				}
				return
			},
		}
	}}
}

func hSaveOps() (ops []hOp) {
	for _, sh := range hSharedShapes {
		ops = append(ops, hSharedBossOp(false, sh), hSharedBossOp(true, sh))
	}
	for _, rel := range []string{"Account", "Pets", "Tags", "Boss"} {
		for _, verb := range []string{"Append", "Replace"} {
			for _, sh := range hShapes {
				ops = append(ops, hAssocSaveOp(rel, verb, sh))
			}
		}
	}
	for _, withNew := range []bool{false, true} {
		sfx, d := "", ""
		if withNew {
			sfx, d = "-saving-new-records", " (the model value holds new associated records)"
		}
		ops = append(ops,
			hEmptySetOp("updates-zero-struct"+sfx, ".Updates(HOwner{})"+d, withNew, false, func(db *gorm.DB) *gorm.DB { return db.Updates(HOwner{}) }),
			hEmptySetOp("updates-empty-map"+sfx, ".Updates(map[string]interface{}{})"+d, withNew, false, func(db *gorm.DB) *gorm.DB { return db.Updates(map[string]interface{}{}) }),
			hEmptySetOp("updates-select-excludes-the-values"+sfx, ".Select(\"name\", \"Account\", \"Pets\", \"Tags\").Updates(map{n: 5})"+d, withNew, true, func(db *gorm.DB) *gorm.DB {
				return db.Select("name", "Account", "Pets", "Tags").Updates(map[string]interface{}{"n": 5})
			}),
			hEmptySetOp("updates-omit-excludes-the-values"+sfx, ".Omit(\"n\").Updates(HOwner{N: 5})"+d, withNew, false, func(db *gorm.DB) *gorm.DB { return db.Omit("n").Updates(HOwner{N: 5}) }),
		)
	}
	for _, sh := range []string{"values", "pointers"} {
		ops = append(ops,
			hUpdateSliceOp("update-over-owner", ".Update(\"n\", 9)", sh, func(db *gorm.DB) *gorm.DB { return db.Update("n", 9) }),
			hUpdateSliceOp("updates-map-over-owner", ".Updates(map{n: 9})", sh, func(db *gorm.DB) *gorm.DB {
				return db.Updates(map[string]interface{}{"n": 9})
			}),
			hUpdateSliceOp("updates-empty-map-over-owner", ".Updates(map{})", sh, func(db *gorm.DB) *gorm.DB { return db.Updates(map[string]interface{}{}) }),
		)
	}
	return
}

// ---- one belongs-to record shared by several elements of a created / saved slice or array ------------------------------
//
// "each applicable hook fires exactly once per affected in-memory record ... with associations carrying their own
// hooks": an in-memory record reachable from several elements of the argument (k owners whose Boss field holds the
// SAME pointer) is still one in-memory record. The shared bosses are new records with a caller-chosen (non-zero) key
// and no row; the other owners of the argument carry a new boss of their own without key, the key of a stored boss,
// or none. Argument shapes: value slice, pointer slice, pointer array, value array.

var hSharedShapes = []string{"values", "pointers", "pointer-array", "value-array"}

// hOwnersArgN: hOwnersArg plus the two array shapes (ptrs: the addresses gorm works on)
func hOwnersArgN(shape string, mk func(i int) *HOwner, n int) (arg interface{}, ptrs []*HOwner) {
	switch shape {
	case "pointer-array":
		a := reflect.New(reflect.ArrayOf(n, reflect.TypeOf((*HOwner)(nil)))).Elem()
		for i := 0; i < n; i++ {
			o := mk(i)
			a.Index(i).Set(reflect.ValueOf(o))
			ptrs = append(ptrs, o)
		}
		return a.Addr().Interface(), ptrs
	case "value-array":
		a := reflect.New(reflect.ArrayOf(n, reflect.TypeOf(HOwner{}))).Elem()
		for i := 0; i < n; i++ {
			a.Index(i).Set(reflect.ValueOf(*mk(i)))
			ptrs = append(ptrs, a.Index(i).Addr().Interface().(*HOwner))
		}
		return a.Addr().Interface(), ptrs
	}
	return hOwnersArg(shape, mk, n)
}

func hSharedBossOp(save bool, shape string) hOp {
	verb := "Create"
	if save {
		verb = "Save"
	}
	return hOp{strings.ToLower(verb) + "-shared-boss-" + shape, func(r *core.Rand, tag string) hCase {
		n := r.Range(2, 4)
		np := r.Range(1, 2) // shared bosses
		full := r.Intn(3) == 0
		// which boss each owner refers to: pool index, -1 a new boss of its own (no key), -2 the key of a stored boss, -3 none
		ref := make([]int, n)
		for i := range ref {
			switch x := r.Intn(6); {
			case x < 3:
				ref[i] = r.Intn(np)
			default:
				ref[i] = 2 - x // -1, -2, -3
			}
		}
		// at least two owners share the first pool record; their positions are random
		pp := r.Perm(n)
		ref[pp[0]], ref[pp[1]] = 0, 0
		base := int64(100 + 10*r.Intn(5))
		seed := r.U64()
		var ptrs []*HOwner
		build := func() interface{} {
			rr := core.NewRand(seed)
			pool := make([]*HBoss, np)
			for j := range pool {
				pool[j] = &HBoss{ID: base + int64(j), Name: fmt.Sprintf("bs%s_%d", tag, j)}
			}
			var arg interface{}
			arg, ptrs = hOwnersArgN(shape, func(i int) *HOwner {
				o := hNewOwner(rr, tag, i)
				o.Boss, o.BossID = nil, nil
				switch ref[i] {
				case -1:
					o.Boss = &HBoss{Name: fmt.Sprintf("b%s_%d", tag, i)}
				case -2:
					id := int64(1 + i%2)
					o.BossID = &id
				case -3:
				default:
					o.Boss = pool[ref[i]]
				}
				return o
			}, n)
			return arg
		}
		build()
		var ds []string
		for i, o := range ptrs {
			d := hDescOwner(o)
			if ref[i] >= 0 {
				d = strings.Replace(d, "Boss:new", fmt.Sprintf("Boss:shared#%d(ID:%d)", ref[i], base+int64(ref[i])), 1)
			}
			ds = append(ds, d)
		}
		sess := ""
		if full {
			sess = "Session(&Session{FullSaveAssociations: true})."
		}
		return hCase{
			desc:   fmt.Sprintf("db.%s%s(%s of new HOwner %s; owners with the same shared#j hold the same *HBoss, a new record with a preset key)", sess, verb, shape, strings.Join(ds, ", ")),
			exact:  "create",
			atomic: true,
			run: func(db *gorm.DB) error {
				arg := build()
				if full {
					db = db.Session(&gorm.Session{FullSaveAssociations: true})
				}
				if save {
					return db.Save(arg).Error
				}
				return db.Create(arg).Error
			},
			recs: func() ([]hRec, int) { return hWalk(ptrs) },
		}
	}}
}

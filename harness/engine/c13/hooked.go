package c13

import (
	"context"
	"errors"
	"fmt"
	"sort"
	"strings"

	"gorm.io/gorm"
	"gorm.io/gorm/clause"

	"verif/core"
	"verif/recdrv"
	"verif/vdb"
)

// ---- SkipHooks over every way a session is derived x every operation that runs further statements on its own ---------
//
// "SkipHooks sessions and the column-update methods run no hooks" is quantified over the operations, and an
// operation is more than its main statement: a Delete with selected relations deletes the associated rows (or the
// join rows) with statements of its own, association mode replaces / clears / deletes, Save and Updates write the
// associated records, Preload reads them, FindInBatches and Transaction hand a derived handle to user code. The
// family of hmodels.go gives EVERY model reachable that way all nine hooks, so a hook that runs anywhere below a
// SkipHooks session is seen. The same (operation, way the handle was derived) pair is first run with hooks: that
// run makes the case non-trivial (hooks do fire there), is checked exactly where the statement fixes the outcome
// (creates, deletes with selected relations) and has every hook invocation refused once.

type hEvent struct {
	Hook, Type, Ptr, Name string
	Mark                  int
}

func (e hEvent) String() string { return e.Hook + ":" + e.Type + ":" + e.Name }

var hLog []hEvent
var hFailAt int

func hhook(hook, typ string, ptr interface{}, name string, tx *gorm.DB) error {
	hLog = append(hLog, hEvent{Hook: hook, Type: typ, Ptr: fmt.Sprintf("%p", ptr), Name: name, Mark: H.Rec.Mark()})
	n := len(hLog)
	if hook != "AfterFind" && tx != nil {
		if err := tx.Exec("INSERT INTO h_audits(msg) VALUES (?)", hook+":"+typ+":"+name).Error; err != nil {
			return err
		}
	}
	if hFailAt != 0 && n == hFailAt {
		return errVHook
	}
	return nil
}

func hLogString(l []hEvent) string {
	s := make([]string, len(l))
	for i, e := range l {
		s[i] = e.String()
	}
	return strings.Join(s, " ")
}

func hLogShape(l []hEvent) string {
	s := make([]string, len(l))
	for i, e := range l {
		s[i] = e.Hook + ":" + e.Type
	}
	return strings.Join(s, " ")
}

var hTables = []string{"h_bosses", "h_owners", "h_accounts", "h_pets", "h_collars", "h_tags", "h_owner_tags", "h_audits"}

const hSeedSQL = `
DELETE FROM h_owner_tags; DELETE FROM h_collars; DELETE FROM h_pets; DELETE FROM h_accounts; DELETE FROM h_owners;
DELETE FROM h_tags; DELETE FROM h_bosses; DELETE FROM h_audits; DELETE FROM sqlite_sequence WHERE name LIKE 'h@_%' ESCAPE '@';
INSERT INTO h_bosses(id,name) VALUES (1,'b1'),(2,'b2');
INSERT INTO h_owners(id,name,n,boss_id) VALUES (1,'o1',1,1),(2,'o2',2,1),(3,'o3',3,2);
INSERT INTO h_accounts(id,h_owner_id,number) VALUES (1,1,'a1'),(2,2,'a2'),(3,3,'a3');
INSERT INTO h_pets(id,h_owner_id,name) VALUES (1,1,'p1'),(2,1,'p2'),(3,2,'p3'),(4,2,'p4'),(5,3,'p5'),(6,3,'p6');
INSERT INTO h_collars(id,h_pet_id,color) VALUES (1,1,'c1'),(2,2,'c2'),(3,3,'c3'),(4,4,'c4'),(5,5,'c5'),(6,6,'c6');
INSERT INTO h_tags(id,name) VALUES (1,'t1'),(2,'t2'),(3,'t3');
INSERT INTO h_owner_tags(h_owner_id,h_tag_id,note) VALUES (1,1,''),(1,2,''),(2,2,''),(2,3,''),(3,3,''),(3,1,'');
`

var hBossOf = map[int64]int64{1: 1, 2: 1, 3: 2}

var hReady bool
var hPre string

func hSeed() {
	if _, err := H.SQL.Exec(hSeedSQL); err != nil {
		panic(err)
	}
}

func hInit() {
	if hReady {
		return
	}
	if err := H.DB.SetupJoinTable(&HOwner{}, "Tags", &HOwnerTag{}); err != nil {
		panic(err)
	}
	if err := H.DB.Session(&gorm.Session{SkipHooks: true}).AutoMigrate(&HBoss{}, &HOwner{}, &HAccount{}, &HPet{}, &HCollar{}, &HTag{}, &HOwnerTag{}, &HAudit{}); err != nil {
		panic(err)
	}
	hSeed()
	hPre = vdb.Dump(H.SQL, hTables...)
	hReady = true
}

// ---- the ways a session is derived -------------------------------------------------------------------------------

type hKey struct{}

type hForm struct {
	name string
	with func(skip bool, op func(db *gorm.DB) error) error
}

func hBase(skip bool) *gorm.DB { return H.DB.Session(&gorm.Session{SkipHooks: skip}) }

func hInTx(tx *gorm.DB, op func(db *gorm.DB) error) error {
	if tx.Error != nil {
		return tx.Error
	}
	if err := op(tx); err != nil {
		tx.Rollback()
		return err
	}
	return tx.Commit().Error
}

var hForms = []hForm{
	{"db.Session(&Session{SkipHooks: true})", func(skip bool, op func(*gorm.DB) error) error {
		return op(hBase(skip))
	}},
	{"db.Session(&Session{SkipHooks: true, NewDB: true})", func(skip bool, op func(*gorm.DB) error) error {
		return op(H.DB.Session(&gorm.Session{SkipHooks: skip, NewDB: true}))
	}},
	{"db.Session(&Session{SkipHooks: true}).Session(&Session{NewDB: true})", func(skip bool, op func(*gorm.DB) error) error {
		return op(hBase(skip).Session(&gorm.Session{NewDB: true}))
	}},
	{"db.Session(&Session{SkipHooks: true}).Session(&Session{})", func(skip bool, op func(*gorm.DB) error) error {
		return op(hBase(skip).Session(&gorm.Session{}))
	}},
	{"db.Session(&Session{SkipHooks: true}).WithContext(ctx)", func(skip bool, op func(*gorm.DB) error) error {
		return op(hBase(skip).WithContext(context.WithValue(context.Background(), hKey{}, 1)))
	}},
	{"db.Session(&Session{SkipHooks: true}).Begin() ... Commit()", func(skip bool, op func(*gorm.DB) error) error {
		return hInTx(hBase(skip).Begin(), op)
	}},
	{"db.Session(&Session{SkipHooks: true, NewDB: true}).Begin() ... Commit()", func(skip bool, op func(*gorm.DB) error) error {
		return hInTx(H.DB.Session(&gorm.Session{SkipHooks: skip, NewDB: true}).Begin(), op)
	}},
	{"db.Begin().Session(&Session{SkipHooks: true}) ... Commit()", func(skip bool, op func(*gorm.DB) error) error {
		tx := H.DB.Begin()
		if tx.Error != nil {
			return tx.Error
		}
		if err := op(tx.Session(&gorm.Session{SkipHooks: skip})); err != nil {
			tx.Rollback()
			return err
		}
		return tx.Commit().Error
	}},
	{"db.Session(&Session{SkipHooks: true}).Transaction(fc)", func(skip bool, op func(*gorm.DB) error) error {
		return hBase(skip).Transaction(func(tx *gorm.DB) error { return op(tx) })
	}},
	{"db.Session(&Session{SkipHooks: true}).Transaction(tx.Transaction(fc))", func(skip bool, op func(*gorm.DB) error) error {
		return hBase(skip).Transaction(func(tx *gorm.DB) error {
			return tx.Transaction(func(tx2 *gorm.DB) error { return op(tx2) })
		})
	}},
	{"db.Session(&Session{SkipHooks: true}).Begin().Session(&Session{NewDB: true}) ... Commit()", func(skip bool, op func(*gorm.DB) error) error {
		tx := hBase(skip).Begin()
		if tx.Error != nil {
			return tx.Error
		}
		if err := op(tx.Session(&gorm.Session{NewDB: true})); err != nil {
			tx.Rollback()
			return err
		}
		return tx.Commit().Error
	}},
}

// ---- the operations ------------------------------------------------------------------------------------------------

type hRec struct {
	ptr, typ, name string
	// hooks this record must see exactly once each, in this order (nil: the hooks of the case's kind)
	hooks []string
	// byName: gorm works on a copy of the value the caller handed over (a record appended to the owner's relation
	// field in association mode): the record is identified by its type and payload
	byName bool
	// owner: address of the owner record between whose before- and after-hooks this record is saved ("": the
	// argument records as a whole)
	owner string
}

func (x hRec) key() string {
	if x.byName {
		return "n:" + x.typ + ":" + x.name
	}
	return x.ptr
}

var hCreateHooks = []string{"BeforeSave", "BeforeCreate", "AfterCreate", "AfterSave"}
var hUpdateHooks = []string{"BeforeSave", "BeforeUpdate", "AfterUpdate", "AfterSave"}
var hDeleteHooks = []string{"BeforeDelete", "AfterDelete"}

type hCase struct {
	desc string
	run  func(db *gorm.DB) error
	// kind of exact check of the run with hooks: "" (only: it fires hooks), "create", "delete", "save" (every record
	// of recs names its own hooks: updates of owners that save new associated records, association mode)
	exact string
	// save: delete hooks on model values gorm makes itself (Replace unlinking the old records) are not part of what
	// is demanded
	tolerateDelete bool
	// refuse: "" (atomic cases: "atomic"), "atomic" (every invocation refused once: error returned, everything undone,
	// no later phase), "error" (several transactions, e.g. one per owner: error returned, the refusing hook's own write
	// undone, no later phase for the refusing record, no transaction left open)
	refuse string
	// manyTx: the operation runs more than one transaction of its own (hook writes must still be inside one)
	manyTx bool
	// create: the in-memory records of the graph (known after run) and the number of link records
	recs func() (recs []hRec, links int)
	// delete: the argument records and the models of the selected relations (one internal model value each)
	relTypes []string
	// atomic: one operation = one transaction; a refused hook undoes everything
	atomic bool
	// column-update methods: no hook, with or without SkipHooks
	noHooks bool
}

type hOp struct {
	name string
	gen  func(r *core.Rand, tag string) hCase
}

func hNewOwner(r *core.Rand, tag string, i int) *HOwner {
	o := &HOwner{Name: fmt.Sprintf("o%s_%d", tag, i), N: int64(r.Intn(9))}
	switch r.Intn(3) {
	case 0:
		o.Boss = &HBoss{Name: fmt.Sprintf("b%s_%d", tag, i)}
	case 1:
		id := int64(1 + r.Intn(2))
		o.BossID = &id
	}
	if r.Bool() {
		o.Account = &HAccount{Number: fmt.Sprintf("a%s_%d", tag, i)}
	}
	for k := r.Intn(3); k > 0; k-- {
		p := HPet{Name: fmt.Sprintf("p%s_%d_%d", tag, i, k)}
		for m := r.Intn(3); m > 0; m-- {
			p.Collars = append(p.Collars, HCollar{Color: fmt.Sprintf("c%s_%d_%d_%d", tag, i, k, m)})
		}
		o.Pets = append(o.Pets, p)
	}
	for k := r.Intn(3); k > 0; k-- {
		o.Tags = append(o.Tags, HTag{Name: fmt.Sprintf("t%s_%d_%d", tag, i, k)})
	}
	return o
}

func hDescOwner(o *HOwner) string {
	nc := 0
	for _, p := range o.Pets {
		nc += len(p.Collars)
	}
	boss := "nil"
	if o.Boss != nil {
		boss = "new"
	} else if o.BossID != nil {
		boss = fmt.Sprintf("id=%d", *o.BossID)
	}
	return fmt.Sprintf("{%s Boss:%s Account:%v Pets:%d(Collars:%d) Tags:%d}", o.Name, boss, o.Account != nil, len(o.Pets), nc, len(o.Tags))
}

func hWalk(os []*HOwner) (recs []hRec, links int) {
	// an in-memory record reachable from several owners (the same pointer) is one record
	seen := map[string]bool{}
	add := func(p interface{}, typ, name string) {
		ptr := fmt.Sprintf("%p", p)
		if seen[ptr] {
			return
		}
		seen[ptr] = true
		recs = append(recs, hRec{ptr: ptr, typ: typ, name: name})
	}
	for _, o := range os {
		add(o, "HOwner", o.Name)
		if o.Boss != nil {
			add(o.Boss, "HBoss", o.Boss.Name)
		}
		if o.Account != nil {
			add(o.Account, "HAccount", o.Account.Number)
		}
		for i := range o.Pets {
			add(&o.Pets[i], "HPet", o.Pets[i].Name)
			for j := range o.Pets[i].Collars {
				add(&o.Pets[i].Collars[j], "HCollar", o.Pets[i].Collars[j].Color)
			}
		}
		for i := range o.Tags {
			add(&o.Tags[i], "HTag", o.Tags[i].Name)
		}
		links += len(o.Tags)
	}
	return
}

var hShapes = []string{"struct", "values", "pointers"}

// hOwnersArg builds the argument of the given shape; ptrs are the addresses gorm works on
func hOwnersArg(shape string, mk func(i int) *HOwner, n int) (arg interface{}, ptrs []*HOwner) {
	switch shape {
	case "struct":
		o := mk(0)
		return o, []*HOwner{o}
	case "values":
		us := make([]HOwner, n)
		for i := range us {
			us[i] = *mk(i)
			ptrs = append(ptrs, &us[i])
		}
		return &us, ptrs
	default:
		var us []*HOwner
		for i := 0; i < n; i++ {
			us = append(us, mk(i))
		}
		return &us, us
	}
}

func hCreateOp(save bool, shape string) hOp {
	verb := "Create"
	if save {
		verb = "Save"
	}
	return hOp{strings.ToLower(verb) + "-graph-" + shape, func(r *core.Rand, tag string) hCase {
		n := 1
		if shape != "struct" {
			n = r.Range(1, 3)
		}
		seed := r.U64()
		var ptrs []*HOwner
		build := func() interface{} {
			rr := core.NewRand(seed)
			var arg interface{}
			arg, ptrs = hOwnersArg(shape, func(i int) *HOwner { return hNewOwner(rr, tag, i) }, n)
			return arg
		}
		build()
		var ds []string
		for _, o := range ptrs {
			ds = append(ds, hDescOwner(o))
		}
		return hCase{
			desc:   fmt.Sprintf("db.%s(%s of new HOwner %s)", verb, shape, strings.Join(ds, ", ")),
			exact:  "create",
			atomic: true,
			run: func(db *gorm.DB) error {
				arg := build()
				if save {
					return db.Save(arg).Error
				}
				return db.Create(arg).Error
			},
			recs: func() ([]hRec, int) { return hWalk(ptrs) },
		}
	}}
}

var hRelModel = map[string]string{"Account": "HAccount", "Pets": "HPet", "Tags": "HOwnerTag"}

func hDeleteSelectOp(shape string, all bool) hOp {
	name := "delete-select-" + shape
	if all {
		name = "delete-select-associations-" + shape
	}
	return hOp{name, func(r *core.Rand, tag string) hCase {
		n := 1
		if shape != "struct" {
			n = r.Range(1, 3)
		}
		ids := r.Perm(3)[:n]
		var sel []string
		if all {
			sel = []string{clause.Associations}
		} else {
			for _, s := range []string{"Account", "Pets", "Tags"} {
				if r.Bool() {
					sel = append(sel, s)
				}
			}
			if len(sel) == 0 {
				sel = []string{core.Pick(r, []string{"Account", "Pets", "Tags"})}
			}
		}
		var rt []string
		if all {
			rt = []string{"HAccount", "HPet", "HOwnerTag"}
		} else {
			for _, s := range sel {
				rt = append(rt, hRelModel[s])
			}
		}
		var ptrs []*HOwner
		var keys []string
		for _, i := range ids {
			keys = append(keys, fmt.Sprint(i+1))
		}
		return hCase{
			desc:     fmt.Sprintf("db.Select(%q).Delete(%s of HOwner with ID %s)", sel, shape, strings.Join(keys, ",")),
			exact:    "delete",
			atomic:   true,
			relTypes: rt,
			run: func(db *gorm.DB) error {
				var arg interface{}
				arg, ptrs = hOwnersArg(shape, func(i int) *HOwner { return &HOwner{ID: int64(ids[i] + 1), Name: fmt.Sprintf("o%d", ids[i]+1)} }, n)
				args := make([]interface{}, len(sel)-1)
				for i, s := range sel[1:] {
					args[i] = s
				}
				return db.Select(sel[0], args...).Delete(arg).Error
			},
			recs: func() (recs []hRec, links int) {
				for _, o := range ptrs {
					recs = append(recs, hRec{ptr: fmt.Sprintf("%p", o), typ: "HOwner", name: o.Name})
				}
				return
			},
		}
	}}
}

func hSimple(name, desc string, run func(r *core.Rand, tag string, db *gorm.DB) error) hOp {
	return hOp{name, func(r *core.Rand, tag string) hCase {
		seed := r.U64()
		return hCase{desc: desc, run: func(db *gorm.DB) error { return run(core.NewRand(seed), tag, db) }}
	}}
}

func hAtomic(o hOp) hOp {
	g := o.gen
	o.gen = func(r *core.Rand, tag string) hCase { c := g(r, tag); c.atomic = true; return c }
	return o
}

func hNoHooks(o hOp) hOp {
	g := o.gen
	o.gen = func(r *core.Rand, tag string) hCase { c := g(r, tag); c.noHooks = true; return c }
	return o
}

func hAssocOp(rel, verb string, unscoped bool) hOp {
	name := "association-" + rel + "-" + verb
	if unscoped {
		name += "-unscoped"
	}
	un := ""
	if unscoped {
		un = ".Unscoped()"
	}
	return hSimple(name, fmt.Sprintf("db.Model(&HOwner{ID: k, BossID: its boss}).Association(%q)%s.%s(...) (new records for Append / Replace, the linked ones for Delete)", rel, un, verb),
		func(r *core.Rand, tag string, db *gorm.DB) error {
			id := int64(r.Range(1, 3))
			boss := hBossOf[id]
			owner := &HOwner{ID: id, Name: fmt.Sprintf("o%d", id), BossID: &boss}
			a := db.Model(owner).Association(rel)
			if a.Error != nil {
				return a.Error
			}
			if unscoped {
				a = a.Unscoped()
			}
			var fresh, linked, out interface{}
			switch rel {
			case "Account":
				fresh, linked, out = &HAccount{Number: "a" + tag}, &HAccount{ID: id}, &[]HAccount{}
			case "Pets":
				fresh, linked, out = []HPet{{Name: "p" + tag + "_1"}, {Name: "p" + tag + "_2", Collars: []HCollar{{Color: "c" + tag}}}}, []HPet{{ID: 2*id - 1}}, &[]HPet{}
			case "Tags":
				fresh, linked, out = []HTag{{Name: "t" + tag}, {ID: (id+1)%3 + 1, Name: "linked-elsewhere"}}, []HTag{{ID: id}}, &[]HTag{}
			case "Boss":
				fresh, linked, out = &HBoss{Name: "b" + tag}, &HBoss{ID: boss}, &[]HBoss{}
			}
			switch verb {
			case "Append":
				return a.Append(fresh)
			case "Replace":
				return a.Replace(fresh)
			case "Clear":
				return a.Clear()
			case "Delete":
				return a.Delete(linked)
			case "Find":
				return a.Find(out)
			case "Count":
				a.Count()
				return a.Error
			}
			panic(verb)
		})
}

func hBuildOps() []hOp {
	var ops []hOp
	for _, sh := range hShapes {
		ops = append(ops, hCreateOp(false, sh), hCreateOp(true, sh), hDeleteSelectOp(sh, false), hDeleteSelectOp(sh, true))
	}
	for _, rel := range []string{"Account", "Pets", "Tags", "Boss"} {
		for _, verb := range []string{"Append", "Replace", "Clear", "Delete", "Find", "Count"} {
			ops = append(ops, hAssocOp(rel, verb, false))
			if verb == "Replace" || verb == "Clear" || verb == "Delete" {
				ops = append(ops, hAssocOp(rel, verb, true))
			}
		}
	}
	ops = append(ops,
		hAtomic(hSimple("delete-struct", "db.Delete(&HOwner{ID: k})", func(r *core.Rand, tag string, db *gorm.DB) error {
			return db.Delete(&HOwner{ID: int64(r.Range(1, 3))}).Error
		})),
		hAtomic(hSimple("delete-values", "db.Delete(&[]HOwner{{ID: 1}, {ID: 3}})", func(r *core.Rand, tag string, db *gorm.DB) error {
			return db.Delete(&[]HOwner{{ID: 1}, {ID: 3}}).Error
		})),
		hAtomic(hSimple("delete-where", "db.Where(\"n >= ?\", 2).Delete(&HOwner{})", func(r *core.Rand, tag string, db *gorm.DB) error {
			return db.Where("n >= ?", 2).Delete(&HOwner{}).Error
		})),
		hAtomic(hSimple("delete-select-nested", "db.Select(\"Pets\", \"Pets.Collars\").Delete(&HOwner{ID: k})", func(r *core.Rand, tag string, db *gorm.DB) error {
			return db.Select("Pets", "Pets.Collars").Delete(&HOwner{ID: int64(r.Range(1, 3))}).Error
		})),
		hAtomic(hSimple("save-existing-full", "db.Session(&Session{FullSaveAssociations: true}).Save(&HOwner{ID: 1, Boss: {ID: 1}, Account: {ID: 1}, Pets: [{ID: 1, Collars: [{ID: 1}, {new}]}, {new}], Tags: [{ID: 1}, {new}]})",
			func(r *core.Rand, tag string, db *gorm.DB) error {
				one := int64(1)
				o := &HOwner{ID: 1, Name: "o1x", N: 5, BossID: &one, Boss: &HBoss{ID: 1, Name: "b1x"}, Account: &HAccount{ID: 1, HOwnerID: &one, Number: "a1x"},
					Pets: []HPet{{ID: 1, HOwnerID: &one, Name: "p1x", Collars: []HCollar{{ID: 1, HPetID: &one, Color: "c1x"}, {Color: "c" + tag}}}, {Name: "p" + tag}},
					Tags: []HTag{{ID: 1, Name: "t1x"}, {Name: "t" + tag}}}
				return db.Session(&gorm.Session{FullSaveAssociations: true}).Save(o).Error
			})),
		hAtomic(hSimple("save-existing", "db.Save(&HOwner{ID: 2, Account: {new}, Pets: [{ID: 3}, {new}], Tags: [{ID: 2}, {new}]})", func(r *core.Rand, tag string, db *gorm.DB) error {
			two, one := int64(2), int64(1)
			o := &HOwner{ID: 2, Name: "o2x", N: 6, BossID: &one, Account: &HAccount{Number: "a" + tag}, Pets: []HPet{{ID: 3, HOwnerID: &two, Name: "p3"}, {Name: "p" + tag}},
				Tags: []HTag{{ID: 2, Name: "t2"}, {Name: "t" + tag}}}
			return db.Save(o).Error
		})),
		hAtomic(hSimple("updates-struct-associations", "db.Model(&HOwner{ID: 3}).Updates(HOwner{Name: ..., Pets: [{new}], Account: {new}, Boss: {new}})", func(r *core.Rand, tag string, db *gorm.DB) error {
			return db.Model(&HOwner{ID: 3}).Updates(HOwner{Name: "u" + tag, Pets: []HPet{{Name: "p" + tag}}, Account: &HAccount{Number: "a" + tag}, Boss: &HBoss{Name: "b" + tag}}).Error
		})),
		hAtomic(hSimple("update", "db.Model(&HOwner{ID: k}).Update(\"n\", 9)", func(r *core.Rand, tag string, db *gorm.DB) error {
			return db.Model(&HOwner{ID: int64(r.Range(1, 3))}).Update("n", 9).Error
		})),
		hAtomic(hSimple("updates-map-where", "db.Model(&HOwner{}).Where(\"n >= ?\", 2).Updates(map{n: 9})", func(r *core.Rand, tag string, db *gorm.DB) error {
			return db.Model(&HOwner{}).Where("n >= ?", 2).Updates(map[string]interface{}{"n": 9}).Error
		})),
		hAtomic(hSimple("upsert", "db.Clauses(clause.OnConflict{UpdateAll: true}).Create(&[]HOwner{{ID: 1, ...}, {new}})", func(r *core.Rand, tag string, db *gorm.DB) error {
			return db.Clauses(clause.OnConflict{UpdateAll: true}).Create(&[]HOwner{{ID: 1, Name: "o1u", N: 4}, {ID: 50, Name: "o" + tag}}).Error
		})),
		hSimple("first-or-create-new", "db.Where(HOwner{Name: new}).FirstOrCreate(&HOwner{})", func(r *core.Rand, tag string, db *gorm.DB) error {
			return db.Where(HOwner{Name: "o" + tag}).FirstOrCreate(&HOwner{}).Error
		}),
		hSimple("first-or-create-assign", "db.Where(HOwner{Name: \"o1\"}).Assign(HOwner{N: 8}).FirstOrCreate(&HOwner{})", func(r *core.Rand, tag string, db *gorm.DB) error {
			return db.Where(HOwner{Name: "o1"}).Assign(HOwner{N: 8}).FirstOrCreate(&HOwner{}).Error
		}),
		hSimple("find-preload-nested", "db.Preload(\"Pets.Collars\").Preload(\"Account\").Preload(\"Tags\").Preload(\"Boss\").Find(&[]HOwner{})", func(r *core.Rand, tag string, db *gorm.DB) error {
			return db.Preload("Pets.Collars").Preload("Account").Preload("Tags").Preload("Boss").Order("id").Find(&[]HOwner{}).Error
		}),
		hSimple("first-preload-associations", "db.Preload(clause.Associations).First(&HOwner{}, k)", func(r *core.Rand, tag string, db *gorm.DB) error {
			return db.Preload(clause.Associations).First(&HOwner{}, r.Range(1, 3)).Error
		}),
		hSimple("find-joins-preload", "db.Joins(\"Account\").Joins(\"Boss\").Preload(\"Pets\").Find(&[]*HOwner{})", func(r *core.Rand, tag string, db *gorm.DB) error {
			return db.Joins("Account").Joins("Boss").Preload("Pets").Order("h_owners.id").Find(&[]*HOwner{}).Error
		}),
		hSimple("find-preload-below-joins", "db.Joins(\"Boss\").Preload(\"Pets.Collars\").Take(&HOwner{}, k)", func(r *core.Rand, tag string, db *gorm.DB) error {
			return db.Joins("Boss").Preload("Pets.Collars").Take(&HOwner{}, "h_owners.id = ?", r.Range(1, 3)).Error
		}),
		hSimple("find-in-batches-writing", "db.FindInBatches(&[]HOwner{}, 2, func(tx, n) { tx.Create(&HPet{...}); tx.Model(&batch[0]).Update(\"n\", 7); tx.Select(\"Account\").Delete(&batch[len-1]) })", func(r *core.Rand, tag string, db *gorm.DB) error {
			var batch []HOwner
			return db.Order("id").FindInBatches(&batch, 2, func(tx *gorm.DB, n int) error {
				if n > 3 {
					return errors.New("verif: FindInBatches does not end")
				}
				id := batch[0].ID
				if err := tx.Create(&HPet{HOwnerID: &id, Name: fmt.Sprintf("p%s_%d", tag, n)}).Error; err != nil {
					return err
				}
				if err := tx.Model(&batch[0]).Update("n", 7).Error; err != nil {
					return err
				}
				return tx.Select("Account").Delete(&batch[len(batch)-1]).Error
			}).Error
		}),
		hNoHooks(hSimple("update-column", "db.Model(&HOwner{ID: k}).UpdateColumn(\"n\", 5)", func(r *core.Rand, tag string, db *gorm.DB) error {
			return db.Model(&HOwner{ID: int64(r.Range(1, 3))}).UpdateColumn("n", 5).Error
		})),
		hNoHooks(hSimple("update-columns-map", "db.Model(&HOwner{ID: k}).UpdateColumns(map{n: 5, name: ...})", func(r *core.Rand, tag string, db *gorm.DB) error {
			return db.Model(&HOwner{ID: int64(r.Range(1, 3))}).UpdateColumns(map[string]interface{}{"n": 5, "name": "x" + tag}).Error
		})),
		hNoHooks(hSimple("update-columns-struct", "db.Model(&HOwner{ID: k}).UpdateColumns(HOwner{N: 5, Name: ...})", func(r *core.Rand, tag string, db *gorm.DB) error {
			return db.Model(&HOwner{ID: int64(r.Range(1, 3))}).UpdateColumns(HOwner{N: 5, Name: "x" + tag}).Error
		})),
		hNoHooks(hSimple("update-column-where-expr", "db.Model(&HOwner{}).Where(\"n >= ?\", 2).UpdateColumn(\"n\", gorm.Expr(\"n + ?\", 1))", func(r *core.Rand, tag string, db *gorm.DB) error {
			return db.Model(&HOwner{}).Where("n >= ?", 2).UpdateColumn("n", gorm.Expr("n + ?", 1)).Error
		})),
		hNoHooks(hSimple("update-columns-struct-associations", "db.Model(&HOwner{ID: k}).UpdateColumns(HOwner{N: 5, Pets: [{new}], Account: {new}})", func(r *core.Rand, tag string, db *gorm.DB) error {
			return db.Model(&HOwner{ID: int64(r.Range(1, 3))}).UpdateColumns(HOwner{N: 5, Pets: []HPet{{Name: "p" + tag}}, Account: &HAccount{Number: "a" + tag}}).Error
		})),
	)
	ops = append(ops, hSaveOps()...)
	return ops
}

var hOps = hBuildOps()

// ---- running one (operation, form) pair ------------------------------------------------------------------------------

type hResult struct {
	err    error
	log    []hEvent
	events []recdrv.Event
	dump   string
	ctr    recdrv.Counters
	audits []string
}

func hExec(f hForm, skip bool, failAt int, run func(db *gorm.DB) error) hResult {
	hSeed()
	hLog, hFailAt = nil, failAt
	base := H.Rec.Mark()
	err := f.with(skip, run)
	out := hResult{err: err, log: hLog, events: H.Rec.Since(base)}
	hLog, hFailAt = nil, 0
	out.ctr = H.Rec.Counters()
	out.dump = vdb.Dump(H.SQL, hTables...)
	if rows, err := vdb.RowMaps(H.SQL, "SELECT msg FROM h_audits ORDER BY id"); err == nil {
		for _, m := range rows {
			if a, ok := m["msg"].(string); ok {
				out.audits = append(out.audits, a)
			}
		}
	}
	return out
}

func hPhase(hook string) int {
	if strings.HasPrefix(hook, "Before") {
		return 0
	}
	return 2
}

// hCheckExact: the run with hooks of a create / a delete with selected relations / an update that saves records
// (expected: ok[i] tells whether invocation i is one the statement demands - only those are refused in turn)
func hCheckExact(hc hCase, r hResult) (problems []string, expected []bool) {
	add := func(f string, a ...interface{}) { problems = append(problems, fmt.Sprintf(f, a...)) }
	recs, links := hc.recs()
	count := map[string]int{}
	pos := map[string]int{}
	byType := map[string]int{}
	for i, e := range r.log {
		for _, k := range []string{e.Ptr + "/" + e.Hook, "n:" + e.Type + ":" + e.Name + "/" + e.Hook} {
			count[k]++
			pos[k] = i
		}
		byType[e.Type+"/"+e.Hook]++
	}
	hooks := hCreateHooks
	if hc.exact == "delete" {
		hooks = hDeleteHooks
	}
	known := map[string]bool{}
	owners := map[string]bool{}
	for _, x := range recs {
		hs := x.hooks
		if hs == nil {
			hs = hooks
		}
		if x.owner != "" {
			owners[x.owner] = true
		}
		for i, h := range hs {
			k := x.key() + "/" + h
			known[k] = true
			if count[k] != 1 {
				add("%s(%s %q) fired %d times, want exactly once", h, x.typ, x.name, count[k])
			} else if i > 0 && count[x.key()+"/"+hs[i-1]] == 1 && pos[x.key()+"/"+hs[i-1]] > pos[k] {
				add("%s fired after %s for %s %q", hs[i-1], h, x.typ, x.name)
			}
		}
	}
	// records gorm makes itself: one link record per link (create / save), one model value per selected relation (delete)
	internal := map[string]int{}
	if hc.exact == "delete" {
		for _, t := range hc.relTypes {
			internal[t] = 1
		}
	} else {
		internal["HOwnerTag"] = links
	}
	for t, n := range internal {
		for _, h := range hooks {
			if got := byType[t+"/"+h]; got != n {
				add("%s of %s fired %d times, want %d (one per record gorm writes for the relation)", h, t, got, n)
			}
		}
	}
	isPhaseHook := map[string]bool{}
	for _, h := range hooks {
		isPhaseHook[h] = true
	}
	expected = make([]bool, len(r.log))
	tolerated := make([]bool, len(r.log))
	for i, e := range r.log {
		if _, own := internal[e.Type]; known[e.Ptr+"/"+e.Hook] || known["n:"+e.Type+":"+e.Name+"/"+e.Hook] || (own && isPhaseHook[e.Hook]) {
			expected[i] = true
			continue
		}
		if hc.tolerateDelete && e.Type != "HOwner" && (e.Hook == "BeforeDelete" || e.Hook == "AfterDelete") {
			tolerated[i] = true
			continue
		}
		add("unexpected %s on a record that is not part of the operation (%s %q)", e.Hook, e.Type, e.Name)
	}
	if len(owners) > 0 {
		// one save per owner: what concerns an owner's associated records happens between that owner's before- and
		// after-hooks; a link record lies in the span of some owner
		type span struct{ lastBefore, firstAfter int }
		spans := map[string]*span{}
		for i, e := range r.log {
			if e.Type != "HOwner" {
				continue
			}
			sp := spans[e.Ptr]
			if sp == nil {
				sp = &span{-1, len(r.log)}
				spans[e.Ptr] = sp
			}
			if hPhase(e.Hook) == 0 {
				sp.lastBefore = i
			} else if sp.firstAfter == len(r.log) {
				sp.firstAfter = i
			}
		}
		ownerOf := map[string]string{}
		for _, x := range recs {
			if x.owner != "" {
				ownerOf[x.key()] = x.owner
			}
		}
		for i, e := range r.log {
			if e.Type == "HOwner" || tolerated[i] {
				continue
			}
			o, ok := ownerOf[e.Ptr]
			if !ok {
				o, ok = ownerOf["n:"+e.Type+":"+e.Name]
			}
			if ok {
				if sp := spans[o]; sp != nil && (i < sp.lastBefore || i > sp.firstAfter) {
					add("%s(%s %q) fired outside the span between the before- and the after-hooks of its owner", e.Hook, e.Type, e.Name)
				}
				continue
			}
			in := false
			for _, sp := range spans {
				if i > sp.lastBefore && i < sp.firstAfter {
					in = true
				}
			}
			if !in {
				add("%s(%s %q) fired outside the span between the before- and the after-hooks of every owner", e.Hook, e.Type, e.Name)
			}
		}
		return
	}
	// pipeline: everything that concerns the associated records happens between the before- and the after-hooks of
	// the argument records
	lastBefore, firstAfter := -1, len(r.log)
	for i, e := range r.log {
		if e.Type != "HOwner" {
			continue
		}
		if hPhase(e.Hook) == 0 {
			lastBefore = i
		} else if firstAfter == len(r.log) {
			firstAfter = i
		}
	}
	for i, e := range r.log {
		if tolerated[i] {
			continue
		}
		if e.Type == "HOwner" {
			if hPhase(e.Hook) == 0 && i > firstAfter {
				add("%s(HOwner %q) fired after an after-hook of the argument records", e.Hook, e.Name)
			}
			continue
		}
		if i < lastBefore || i > firstAfter {
			add("%s(%s %q) fired outside the span between the before- and the after-hooks of the argument records", e.Hook, e.Type, e.Name)
		}
	}
	return
}

// hCheckBalance: an operation that returned no error took every record it handed to a before-hook through the
// matching after-hook as well (each applicable hook exactly once per record): per record, BeforeSave and AfterSave,
// BeforeCreate and AfterCreate, BeforeUpdate and AfterUpdate, BeforeDelete and AfterDelete fired equally often
func hCheckBalance(r hResult) (problems []string) {
	type key struct{ ptr, typ, hook string }
	cnt := map[key]int{}
	name := map[string]string{}
	var order []key
	for _, e := range r.log {
		k := key{e.Ptr, e.Type, e.Hook}
		if cnt[k] == 0 {
			order = append(order, k)
		}
		cnt[k]++
		name[e.Ptr] = e.Name
	}
	for _, k := range order {
		if !strings.HasPrefix(k.hook, "Before") {
			continue
		}
		after := "After" + strings.TrimPrefix(k.hook, "Before")
		if b, a := cnt[k], cnt[key{k.ptr, k.typ, after}]; a != b {
			problems = append(problems, fmt.Sprintf("%s(%s %q) fired %d times, %s %d times, although the operation returned no error", k.hook, k.typ, name[k.ptr], b, after, a))
		}
	}
	for _, k := range order {
		if !strings.HasPrefix(k.hook, "After") || k.hook == "AfterFind" {
			continue
		}
		before := "Before" + strings.TrimPrefix(k.hook, "After")
		if cnt[key{k.ptr, k.typ, before}] == 0 {
			problems = append(problems, fmt.Sprintf("%s(%s %q) fired %d times, %s never", k.hook, k.typ, name[k.ptr], cnt[k], before))
		}
	}
	return
}

// hCheckTx: every write a hook makes through its handle runs inside a transaction of the operation; one: one operation =
// one transaction, and that one carries them all
func hCheckTx(r hResult, one bool) (problems []string) {
	var txid int64
	begins := 0
	for _, e := range r.events {
		if e.Kind == recdrv.KBegin {
			begins++
			if txid == 0 && e.Err == nil {
				txid = e.Tx
			}
		}
	}
	if one && begins != 1 {
		problems = append(problems, fmt.Sprintf("%d transactions were begun for one operation", begins))
	}
	for _, e := range r.events {
		if e.IsStatement() && strings.Contains(e.Query, "h_audits") && (e.Tx == 0 || (one && e.Tx != txid)) {
			problems = append(problems, fmt.Sprintf("a hook's write ran outside the operation's transaction (tx %d, operation tx %d): %s", e.Tx, txid, e.String()))
		}
	}
	return
}

func hCheckFailed(mode string, ff, r hResult, j int) (problems []string) {
	add := func(f string, a ...interface{}) { problems = append(problems, fmt.Sprintf(f, a...)) }
	if !errors.Is(r.err, errVHook) {
		add("the hook's error was not returned (got %v)", r.err)
	}
	if mode == "atomic" && r.dump != hPre {
		add("the operation was not rolled back completely")
	}
	if r.ctr.OpenTx != 0 {
		add("%d transactions left open", r.ctr.OpenTx)
	}
	if j-1 >= len(r.log) {
		add("failing invocation %d was never reached", j)
		return
	}
	failed := r.log[j-1]
	if mode != "atomic" {
		// one transaction per owner: the refusing hook's own write belongs to the transaction that is undone
		if failed.Hook != "AfterFind" {
			for _, a := range r.audits {
				if a == failed.String() {
					add("the write %s(%s %q) made through its handle is still stored after the hook refused", failed.Hook, failed.Type, failed.Name)
				}
			}
		}
		for _, e := range r.log[j:] {
			if e.Ptr == failed.Ptr && e.Type == failed.Type && hPhase(e.Hook) > hPhase(failed.Hook) {
				add("after %s(%s %q) was refused, %s of the same record still ran", failed.Hook, failed.Type, failed.Name, e.Hook)
			}
		}
		return
	}
	for _, e := range r.log[j:] {
		if e.Type != failed.Type || hPhase(e.Hook) != hPhase(failed.Hook) {
			add("after %s(%s %q) was refused, %s(%s %q) of a later phase still ran", failed.Hook, failed.Type, failed.Name, e.Hook, e.Type, e.Name)
		}
	}
	return
}

func runHooked(c *core.Ctx, k int) {
	hInit()
	total := len(hOps) * len(hForms)
	per := (total + 79) / 80 // the quick tier has 80 such cases: every pair once
	for d := 0; d < per; d++ {
		idx := (k*per + d) % total
		runHookedPair(c, hOps[idx%len(hOps)], hForms[(idx/len(hOps))%len(hForms)])
	}
	hSeed()
}

func runHookedPair(c *core.Ctx, op hOp, f hForm) {
	tag := fmt.Sprintf("_%d", c.Case)
	hc := op.gen(c.R.Fork(), tag)
	on := strings.Replace(f.name, "SkipHooks: true", "SkipHooks: false", 1)
	c.Inc("hooked_family_pairs")
	ff := hExec(f, false, 0, hc.run)
	var problems []string
	var expected []bool
	if ff.err != nil {
		problems = append(problems, "error: "+ff.err.Error())
	} else {
		if hc.exact != "" {
			problems, expected = hCheckExact(hc, ff)
			c.Inc("hooked_family_exact_sequence_checks")
		}
		if hc.atomic || hc.manyTx {
			problems = append(problems, hCheckTx(ff, !hc.manyTx)...)
		}
	}
	if len(problems) > 0 {
		c.Violation("hooked-family/"+op.name, map[string]interface{}{"op": hc.desc, "handle": on, "problems": problems, "hooks": hLogString(ff.log)})
		return
	}
	if p := hCheckBalance(ff); len(p) > 0 {
		c.Violation("hooked-family-unbalanced/"+op.name, map[string]interface{}{"op": hc.desc, "handle": on, "problems": p, "hooks": hLogString(ff.log)})
		return
	}
	if hc.noHooks && len(ff.log) != 0 {
		c.Violation("hooked-family-column-update-hooks/"+op.name, map[string]interface{}{"op": hc.desc, "handle": on,
			"problems": []string{"a column-update method ran hooks: " + hLogString(ff.log)}})
		return
	}
	// the same pair below SkipHooks: no hook of any model
	rs := hExec(f, true, 0, hc.run)
	c.Inc("hooked_family_skiphooks_runs")
	if len(rs.log) != 0 || rs.err != nil {
		types := map[string]bool{}
		for _, e := range rs.log {
			types[e.Type] = true
		}
		var ts []string
		for t := range types {
			ts = append(ts, t)
		}
		sort.Strings(ts)
		c.Violation("hooked-family-skiphooks/"+op.name, map[string]interface{}{"op": hc.desc, "handle": f.name, "hooks_of": ts,
			"problems": []string{fmt.Sprintf("%d hooks fired below SkipHooks (%s), error %v", len(rs.log), hLogString(rs.log), rs.err)}})
		return
	}
	if len(ff.log) > 0 {
		c.Shape("hooked", op.name, f.name)
		c.Inc("hooked_family_pairs_where_hooks_apply")
	}
	mode := hc.refuse
	if mode == "" && hc.atomic {
		mode = "atomic"
	}
	if mode == "" {
		return
	}
	// every invocation the statement demands is refused once
	for j := 1; j <= len(ff.log); j++ {
		if expected != nil && !expected[j-1] {
			continue
		}
		rf := hExec(f, false, j, hc.run)
		c.Inc("faulted_runs")
		if mode != "atomic" {
			c.Inc("faulted_runs_of_operations_with_one_transaction_per_owner")
		}
		if p := hCheckFailed(mode, ff, rf, j); len(p) > 0 {
			c.Violation("hooked-family-fail/"+op.name+"/"+ff.log[j-1].Hook+":"+ff.log[j-1].Type, map[string]interface{}{"op": hc.desc, "handle": on, "failed_invocation": j,
				"problems": p, "hooks_without_failure": hLogString(ff.log), "hooks_this_run": hLogString(rf.log)})
			break
		}
	}
}

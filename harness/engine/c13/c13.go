// Package c13: hooks run once per record, in documented order, in the operation's transaction.
//
// The model family of txm logs every hook invocation (hook, record identity, position in
// the driver event log, context) and writes an audit row through the *gorm.DB it is handed.
// Oracle (from the statement): exactly-once per affected in-memory record and applicable
// hook; before-hooks < statement < after-hooks, BeforeSave < BeforeCreate/Update,
// AfterCreate/Update < AfterSave, records in slice order; audit writes on the operation's
// own transaction; a failing hook (every invocation index is failed once) is returned,
// no later phase runs, everything is rolled back; SkipHooks / UpdateColumn(s) run no hook;
// values set by before-hooks are the values stored.
package c13

import (
	"context"
	"database/sql"
	"fmt"
	"strings"

	"gorm.io/gorm"

	"verif/core"
	"verif/recdrv"
	"verif/txm"
	"verif/vdb"
)

var H *vdb.Handle
var pre string

func initEnv(c *core.Ctx) {
	h, err := vdb.Open(vdb.Options{})
	if err != nil {
		panic(err)
	}
	if err := h.DB.AutoMigrate(txm.AllModels...); err != nil {
		panic(err)
	}
	H = h
	restore()
	pre = vdb.Dump(H.SQL, txm.AllTables...)
	txm.H.Enabled = true
	txm.H.Audit = true
	txm.H.SetCols = true
	txm.H.AfterProbe = true
	for _, r := range mustRows(H.SQL.Query("SELECT sql FROM sqlite_master WHERE sql IS NOT NULL AND name NOT LIKE 'sqlite_%' ORDER BY rowid")) {
		ddl = append(ddl, r)
	}
	txm.H.MarkFn = func() int { return H.Rec.Mark() }
}

var ddl []string

func mustRows(rows *sql.Rows, err error) (out []string) {
	if err != nil {
		panic(err)
	}
	defer rows.Close()
	for rows.Next() {
		var s string
		if err := rows.Scan(&s); err != nil {
			panic(err)
		}
		out = append(out, s)
	}
	return
}

// coldShape runs the operation as the FIRST use of its models on a fresh handle (tables created by raw
// DDL, so nothing has parsed a schema yet) and returns the hook sequence: which hooks a model has must
// not depend on whether the first statement saw it as struct, pointer slice or value slice.
func coldShape(run func(db *gorm.DB) *gorm.DB) (shape string, err error) {
	h, e := vdb.Open(vdb.Options{})
	if e != nil {
		panic(e)
	}
	defer h.Close()
	for _, q := range ddl {
		if _, e := h.SQL.Exec(q); e != nil {
			panic(e)
		}
	}
	if _, e := h.SQL.Exec(txm.SeedSQL); e != nil {
		panic(e)
	}
	txm.ResetHooks()
	mf := txm.H.MarkFn
	txm.H.MarkFn = nil
	res := run(h.DB.Session(&gorm.Session{}))
	txm.H.MarkFn = mf
	shape = txm.LogShape(txm.H.Log)
	txm.H.Log = nil
	return shape, res.Error
}

func restore() {
	if _, err := H.SQL.Exec(txm.SeedSQL); err != nil {
		panic(err)
	}
}

type result struct {
	err    error
	log    []txm.HookEvent
	events []recdrv.Event
	base   int
	dump   string
	ctr    recdrv.Counters
}

func execute(run func(db *gorm.DB) *gorm.DB, failHook int, skipHooks bool) result {
	return executeOn(run, failHook, skipHooks, true)
}

// executeOn: fresh = false keeps the database as the previous run left it (second use of the records)
func executeOn(run func(db *gorm.DB) *gorm.DB, failHook int, skipHooks bool, fresh bool) result {
	if fresh {
		restore()
	}
	txm.ResetHooks()
	txm.H.FailAt = failHook
	base := H.Rec.Mark()
	db := H.DB.Session(&gorm.Session{SkipHooks: skipHooks})
	res := run(db)
	out := result{err: res.Error, log: txm.H.Log, events: H.Rec.Since(base), base: base}
	txm.H.FailAt = 0
	txm.H.Log = nil
	out.ctr = H.Rec.Counters()
	out.dump = vdb.Dump(H.SQL, txm.AllTables...)
	return out
}

// phaseOf: 0 before, 2 after (1 is the statement).
func phaseOf(hook string) int {
	if strings.HasPrefix(hook, "Before") {
		return 0
	}
	return 2
}

type expect struct {
	ptr   string
	typ   string
	hooks []string
	name  string
}

// expectations derives, from the argument shape, which hooks are applicable to which
// in-memory record.
func expectations(op txm.Op) []expect {
	var out []expect
	var parentHooks []string
	switch op.Kind {
	case "Create", "CreateSlice", "CreatePtrSlice", "CreateInBatches", "SaveNew":
		parentHooks = []string{"BeforeSave", "BeforeCreate", "AfterCreate", "AfterSave"}
	case "SaveExisting", "FullSave", "Update", "UpdatesStruct", "UpdatesAssoc", "UpdatesReturning":
		parentHooks = []string{"BeforeSave", "BeforeUpdate", "AfterUpdate", "AfterSave"}
	case "Delete", "DeleteSelect", "DeleteSelectAll", "DeleteReturning", "DeleteSelectReturning":
		parentHooks = []string{"BeforeDelete", "AfterDelete"}
	case "UpdateColumn":
		parentHooks = nil
	}
	for _, u := range op.Records() {
		if parentHooks != nil {
			out = append(out, expect{ptr: fmt.Sprintf("%p", u), typ: "User", hooks: parentHooks, name: u.Name})
		}
		if strings.HasPrefix(op.Kind, "Delete") || op.Kind == "Update" || op.Kind == "UpdatesStruct" || op.Kind == "UpdatesReturning" || op.Kind == "UpdateColumn" {
			continue
		}
		for i := range u.Orders {
			out = append(out, expect{ptr: fmt.Sprintf("%p", &u.Orders[i]), typ: "Order", hooks: []string{"BeforeSave", "BeforeCreate", "AfterCreate", "AfterSave"}, name: u.Orders[i].Item})
		}
	}
	return out
}

func mainTable(kind string) string { return "users" }

// stmtIndex returns the positions (absolute marks) of statements writing to table.
func stmtMarks(r result, verbs []string, table string) []int {
	var out []int
	for i, e := range r.events {
		if !e.IsStatement() {
			continue
		}
		q := strings.ToUpper(e.Query)
		for _, v := range verbs {
			if strings.HasPrefix(q, v) && strings.Contains(e.Query, "`"+table+"`") {
				out = append(out, r.base+i)
			}
		}
	}
	return out
}

func checkFaultFree(op txm.Op, r result) (problems []string) {
	add := func(f string, a ...interface{}) { problems = append(problems, fmt.Sprintf(f, a...)) }
	if r.err != nil {
		add("fault-free run returned %v", r.err)
		return
	}
	exp := expectations(op)
	count := map[string]int{}
	pos := map[string]int{}
	for i, e := range r.log {
		k := e.Ptr + "/" + e.Hook
		count[k]++
		pos[k] = i
	}
	known := map[string]bool{}
	for _, x := range exp {
		for _, h := range x.hooks {
			k := x.ptr + "/" + h
			known[k] = true
			if count[k] != 1 {
				add("%s(%s %q) fired %d times, want exactly once", h, x.typ, x.name, count[k])
			}
		}
		// order within a record
		for i := 1; i < len(x.hooks); i++ {
			a, b := x.ptr+"/"+x.hooks[i-1], x.ptr+"/"+x.hooks[i]
			if count[a] == 1 && count[b] == 1 && pos[a] > pos[b] {
				add("%s fired after %s for %s %q", x.hooks[i-1], x.hooks[i], x.typ, x.name)
			}
		}
	}
	if op.Kind != "UpdatesWhere" && op.Kind != "DeleteWhere" {
		for _, e := range r.log {
			if !known[e.Ptr+"/"+e.Hook] {
				add("unexpected hook %s on a record that is not an argument of the operation (%s %q)", e.Hook, e.Type, e.Name)
			}
		}
	} else {
		// the only in-memory record is the (zero) model value: each hook exactly once
		c := map[string]int{}
		for _, e := range r.log {
			c[e.Hook]++
		}
		for h, n := range c {
			if n != 1 {
				add("%s fired %d times for the single model value", h, n)
			}
		}
		if len(c) == 0 {
			add("no hook fired")
		}
	}
	// statement between before- and after-hooks of the parent records
	verbs := []string{"INSERT", "UPDATE", "DELETE"}
	sm := stmtMarks(r, verbs, "users")
	if len(sm) == 0 && op.Kind != "UpdateColumn" {
		add("no statement on users observed")
	}
	for _, e := range r.log {
		if e.Type != "User" || len(sm) == 0 || op.Kind == "CreateInBatches" {
			continue
		}
		if phaseOf(e.Hook) == 0 && e.Mark > sm[0] {
			add("%s(User %q) fired after the statement", e.Hook, e.Name)
		}
		if phaseOf(e.Hook) == 2 && e.Mark <= sm[len(sm)-1] && op.Kind != "CreateInBatches" {
			add("%s(User %q) fired before the statement", e.Hook, e.Name)
		}
	}
	// documented pipeline: before-hooks, (belongs-to saves), the statement, has-one / has-many /
	// many-to-many saves with the children's own hooks, then the parent's after-hooks
	firstParentAfter, lastChild := -1, -1
	for i, e := range r.log {
		if e.Type == "User" && phaseOf(e.Hook) == 2 && firstParentAfter == -1 {
			firstParentAfter = i
		}
		if e.Type == "Order" {
			lastChild = i
			if len(sm) > 0 && e.Mark <= sm[0] {
				add("%s(Order %q) fired before the parent's statement", e.Hook, e.Name)
			}
		}
	}
	if firstParentAfter != -1 && lastChild > firstParentAfter && op.Kind != "CreateInBatches" {
		add("the parent's after-hooks started (position %d) before the associated records were saved (last child hook at %d)", firstParentAfter, lastChild)
	}
	// slice order
	var users []string
	for _, u := range op.Records() {
		users = append(users, fmt.Sprintf("%p", u))
	}
	for _, h := range []string{"BeforeSave", "BeforeCreate", "AfterCreate", "AfterSave"} {
		last := -1
		for _, p := range users {
			if i, ok := pos[p+"/"+h]; ok && count[p+"/"+h] == 1 {
				if i < last {
					add("%s did not fire in slice order", h)
				}
				last = i
			}
		}
	}
	// transaction identity: every audit write of a hook runs in the operation's transaction
	var txid int64
	for _, e := range r.events {
		if e.Kind == recdrv.KBegin && e.Err == nil {
			txid = e.Tx
			break
		}
	}
	begins := 0
	for _, e := range r.events {
		if e.Kind == recdrv.KBegin {
			begins++
		}
		if e.IsStatement() && strings.Contains(e.Query, "audits") {
			if e.Tx == 0 || e.Tx != txid {
				add("a hook's write ran outside the operation's transaction (tx %d, operation tx %d): %s", e.Tx, txid, e.String())
			}
		}
	}
	if begins != 1 {
		add("%d transactions were begun for one operation", begins)
	}
	// values set by before-hooks are the values stored
	for _, x := range exp {
		if x.typ != "User" {
			continue
		}
	}
	for _, u := range op.Records() {
		if u.ID == 0 {
			continue
		}
		rows, _ := vdb.RowMaps(H.SQL, "SELECT name, stamp, stamp2 FROM users WHERE id = ?", u.ID)
		if len(rows) != 1 {
			continue
		}
		name, _ := rows[0]["name"].(string)
		stamp, _ := rows[0]["stamp"].(string)
		stamp2, _ := rows[0]["stamp2"].(string)
		switch op.Kind {
		case "Create", "CreateSlice", "CreatePtrSlice", "CreateInBatches", "SaveNew":
			if stamp != "bs:"+name {
				add("user %q: value assigned in BeforeSave not stored (stamp=%q)", name, stamp)
			}
			if stamp2 != "bc:"+name {
				add("user %q: value set through SetColumn in BeforeCreate not stored (stamp2=%q)", name, stamp2)
			}
		case "SaveExisting", "FullSave":
			if stamp != "bs:"+name {
				add("user %q: value assigned in BeforeSave not stored by Save (stamp=%q)", name, stamp)
			}
			if stamp2 != "bu" {
				add("user %q: SetColumn in BeforeUpdate not stored (stamp2=%q)", name, stamp2)
			}
		case "Update", "UpdatesStruct", "UpdatesAssoc":
			if stamp2 != "bu" {
				add("user %q: SetColumn in BeforeUpdate not stored (stamp2=%q)", name, stamp2)
			}
		}
	}
	return
}

var bareCauses = []error{gorm.ErrRecordNotFound, context.Canceled, sql.ErrNoRows, gorm.ErrInvalidTransaction, sql.ErrTxDone}

func isCreate(k string) bool {
	return strings.HasPrefix(k, "Create") || k == "SaveNew"
}

func checkFailed(op txm.Op, ff result, r result, j int) (problems []string) {
	add := func(f string, a ...interface{}) { problems = append(problems, fmt.Sprintf(f, a...)) }
	if r.err == nil {
		add("the hook's error was not returned")
	} else if !txm.IsHookErr(r.err) {
		add("the returned error does not carry the hook's error: %v", r.err)
	}
	if r.dump != pre {
		add("the operation was not rolled back completely")
	}
	if r.ctr.OpenTx != 0 {
		add("%d transactions left open", r.ctr.OpenTx)
	}
	if j-1 >= len(r.log) {
		add("failing invocation %d was never reached", j)
		return
	}
	failed := r.log[j-1]
	// no later phase: order of phases in the fault-free log
	for _, e := range r.log[j:] {
		later := false
		switch {
		case failed.Type == "User" && phaseOf(failed.Hook) == 0:
			// parent's before-phase failed: nothing but the remaining before-hooks of parents
			later = !(e.Type == "User" && phaseOf(e.Hook) == 0)
		case failed.Type == "Order" && phaseOf(failed.Hook) == 0:
			later = !(e.Type == "Order" && phaseOf(e.Hook) == 0)
		case failed.Type == "Order" && phaseOf(failed.Hook) == 2:
			later = !(e.Type == "Order" && phaseOf(e.Hook) == 2)
		case failed.Type == "User" && phaseOf(failed.Hook) == 2:
			later = !(e.Type == "User" && phaseOf(e.Hook) == 2)
		}
		if later {
			add("after %s(%s %q) failed, %s(%s %q) of a later phase still ran", failed.Hook, failed.Type, failed.Name, e.Hook, e.Type, e.Name)
		}
	}
	if failed.Type == "User" && phaseOf(failed.Hook) == 0 {
		if sm := stmtMarks(r, []string{"INSERT", "UPDATE", "DELETE"}, "users"); len(sm) > 0 && op.Kind != "CreateInBatches" {
			add("the statement ran although a before-hook failed")
		}
	}
	return
}

var readKinds = []string{"FindAll", "First", "PreloadOrders", "FindCond", "FindMap", "Take", "FindInBatches"}

func runRead(c *core.Ctx, kind string) {
	var wantUsers, wantOrders int
	run := func(db *gorm.DB) *gorm.DB {
		switch kind {
		case "FindAll":
			wantUsers = 3
			return db.Find(&[]txm.User{})
		case "First":
			wantUsers = 1
			return db.First(&txm.User{})
		case "Take":
			wantUsers = 1
			return db.Take(&txm.User{}, 2)
		case "PreloadOrders":
			wantUsers, wantOrders = 3, 3
			return db.Preload("Orders").Order("id").Find(&[]*txm.User{})
		case "FindCond":
			wantUsers = 2
			return db.Where("age >= ?", 40).Find(&[]txm.User{})
		case "FindMap":
			return db.Model(&txm.User{}).Find(&[]map[string]interface{}{})
		case "FindInBatches":
			wantUsers = 3
			var us []txm.User
			return db.FindInBatches(&us, 2, func(tx *gorm.DB, batch int) error { return nil })
		}
		panic(kind)
	}
	r := execute(run, 0, false)
	var problems []string
	if r.err != nil {
		problems = append(problems, "error: "+r.err.Error())
	}
	if cs, cerr := coldShape(run); cerr != nil || cs != txm.LogShape(r.log) {
		problems = append(problems, fmt.Sprintf("as the first statement of a fresh handle the read fired [%s] (error %v), on a handle that had used the models before [%s]", cs, cerr, txm.LogShape(r.log)))
	}
	seen := map[string]int{}
	nu, no := 0, 0
	for _, e := range r.log {
		if e.Hook != "AfterFind" {
			problems = append(problems, "hook "+e.Hook+" fired on a read")
		}
		seen[e.Ptr]++
		if e.Type == "User" {
			nu++
		} else {
			no++
		}
	}
	for p, n := range seen {
		if n != 1 && kind != "FindInBatches" {
			problems = append(problems, fmt.Sprintf("AfterFind fired %d times for record %s", n, p))
		}
	}
	if nu != wantUsers || no != wantOrders {
		problems = append(problems, fmt.Sprintf("AfterFind fired for %d users and %d orders, loaded %d and %d", nu, no, wantUsers, wantOrders))
	}
	c.Inc("reads")
	if len(problems) > 0 {
		c.Violation("read/"+kind, map[string]interface{}{"op": kind, "problems": problems, "hooks": txm.LogString(r.log)})
		return
	}
	// SkipHooks: no AfterFind
	rs := execute(run, 0, true)
	if len(rs.log) != 0 {
		c.Violation("read-skiphooks/"+kind, map[string]interface{}{"op": kind, "problems": []string{"hooks fired in a SkipHooks session: " + txm.LogString(rs.log)}})
		return
	}
	// a failing AfterFind is returned
	for j := 1; j <= len(r.log); j++ {
		rf := execute(run, j, false)
		c.Inc("faulted_runs")
		if rf.err == nil || !txm.IsHookErr(rf.err) {
			c.Violation("read-fail/"+kind, map[string]interface{}{"op": kind, "problems": []string{fmt.Sprintf("AfterFind invocation %d failed but the error returned is %v", j, rf.err)}})
		}
	}
	if len(r.log) > 0 {
		c.Shape("read", kind, len(r.log))
	}
}

func run(c *core.Ctx) {
	if c.Case%5 == 4 {
		j := c.Case / 5
		switch {
		case j%3 == 0 && (j/3)%4 == 3:
			runSharedGraph(c)
			runJoinHooks(c, j/12)
			runHooked(c, j/3)
		case j%3 == 0:
			runRead(c, readKinds[(j/3)%len(readKinds)])
			runReadGens(c, j/3-j/12)
			runHooked(c, j/3)
		default:
			// three of the 288 (type, operation, shape) combinations per case: the quick tier covers all of them
			idx := (j/3)*2 + j%3 - 1
			for d := 0; d < 3; d++ {
				runValueRecv(c, (idx*3+d)%(len(vTypes)*len(vOps)*len(vShapes)))
			}
		}
		return
	}
	kind := txm.OpKinds[(c.Case-c.Case/5)%len(txm.OpKinds)]
	seed := c.R.U64()
	op := txm.GenOp(kind, seed)
	c.Logf("OP %s", op.Desc)
	ff := execute(op.Run, 0, false)
	c.Inc("operations")
	if p := checkFaultFree(op, ff); len(p) > 0 {
		c.Violation("order/"+kind, map[string]interface{}{"op": op.Desc, "problems": p, "hooks": txm.LogString(ff.log)})
		return
	}
	c.Add("hook_invocations_observed", len(ff.log))
	if len(ff.log) > 0 {
		c.Shape("op", kind, txm.LogShape(ff.log), len(op.Records()))
	}
	// the same operation as first use of a fresh handle
	if cs, cerr := coldShape(txm.GenOp(kind, seed).Run); cerr != nil || cs != txm.LogShape(ff.log) {
		c.Violation("cold-first-use/"+kind, map[string]interface{}{"op": op.Desc, "problems": []string{fmt.Sprintf("as the first statement of a fresh handle the operation fired [%s] (error %v), on a handle that had used the models before [%s]", cs, cerr, txm.LogShape(ff.log))}})
	}
	c.Inc("cold_first_use_runs")
	// the same records once more: a Delete of records whose rows are gone affects no row, its hooks
	// still fire once per in-memory record
	if kind == "Delete" {
		ff2 := execute(op.Run, 0, false)
		again := executeOn(op.Run, 0, false, false)
		if again.err != nil || txm.LogShape(again.log) != txm.LogShape(ff2.log) {
			c.Violation("second-delete/"+kind, map[string]interface{}{"op": op.Desc, "problems": []string{fmt.Sprintf("deleting the same in-memory records a second time (their rows are gone) fired [%s] (error %v), the first delete fired [%s]", txm.LogShape(again.log), again.err, txm.LogShape(ff2.log))}})
		}
		c.Inc("second_delete_runs")
	}
	// Save of a record that carries a key without a row: one Save, every phase once
	if kind == "SaveNew" {
		u := &txm.User{ID: 900 + int64(c.Case%50), Name: fmt.Sprintf("preset_%d", c.Case), Age: 30}
		rs := execute(func(db *gorm.DB) *gorm.DB { return db.Save(u) }, 0, false)
		cnt := map[string]int{}
		for _, e := range rs.log {
			if e.Type == "User" {
				cnt[e.Hook]++
			}
		}
		var p []string
		if rs.err != nil {
			p = append(p, "error: "+rs.err.Error())
		}
		if cnt["BeforeSave"] != 1 || cnt["AfterSave"] != 1 {
			p = append(p, fmt.Sprintf("BeforeSave fired %d times, AfterSave %d times for one Save of one record", cnt["BeforeSave"], cnt["AfterSave"]))
		}
		if cnt["BeforeCreate"]+cnt["BeforeUpdate"] != 1 || cnt["AfterCreate"]+cnt["AfterUpdate"] != 1 {
			p = append(p, fmt.Sprintf("create/update phase hooks: BeforeCreate %d BeforeUpdate %d AfterCreate %d AfterUpdate %d (one before and one after expected)", cnt["BeforeCreate"], cnt["BeforeUpdate"], cnt["AfterCreate"], cnt["AfterUpdate"]))
		}
		if rows, _ := vdb.RowMaps(H.SQL, "SELECT name, stamp FROM users WHERE id = ?", u.ID); len(rows) != 1 {
			p = append(p, fmt.Sprintf("%d rows stored for the saved key", len(rows)))
		} else if st, _ := rows[0]["stamp"].(string); st != "bs:"+u.Name {
			p = append(p, fmt.Sprintf("value assigned in BeforeSave not stored (stamp=%q)", st))
		}
		if len(p) > 0 {
			c.Violation("save-preset-key-without-row", map[string]interface{}{"op": "db.Save(&User{ID: preset, ...}) where no row has that key", "problems": p, "hooks": txm.LogString(rs.log)})
		}
		c.Inc("save_preset_key_runs")
	}
	// SkipHooks session
	rs := execute(op.Run, 0, true)
	c.Inc("skiphooks_runs")
	if len(rs.log) != 0 || rs.err != nil {
		c.Violation("skiphooks/"+kind, map[string]interface{}{"op": op.Desc, "problems": []string{fmt.Sprintf("SkipHooks session: %d hooks fired (%s), error %v", len(rs.log), txm.LogString(rs.log), rs.err)}})
	}
	if kind == "UpdateColumn" && len(ff.log) != 0 {
		c.Violation("updatecolumn-hooks", map[string]interface{}{"op": op.Desc, "problems": []string{"UpdateColumn ran hooks: " + txm.LogString(ff.log)}})
	}
	// fail every hook invocation once
	for j := 1; j <= len(ff.log); j++ {
		// one failing invocation in three fails with a bare library error value, as a hook that looks
		// something up and returns that call's error does
		if (c.Case+j)%3 == 0 {
			txm.H.Cause = bareCauses[(c.Case/3+j)%len(bareCauses)]
			txm.H.Bare = true
			c.Inc("faulted_runs_with_a_bare_error_value")
		}
		rf := execute(op.Run, j, false)
		txm.H.Cause, txm.H.Bare = nil, false
		c.Inc("faulted_runs")
		if p := checkFailed(op, ff, rf, j); len(p) > 0 {
			c.Violation("fail/"+kind+"/"+ff.log[j-1].Hook+":"+ff.log[j-1].Type, map[string]interface{}{"op": op.Desc, "failed_invocation": j, "problems": p,
				"hooks_fault_free": txm.LogString(ff.log), "hooks_this_run": txm.LogString(rf.log)})
			continue
		}
		c.Shape("fail", kind, ff.log[j-1].Hook, ff.log[j-1].Type, j, len(ff.log))
	}
	restore()
	if c.WantSample() && len(ff.log) > 5 {
		c.Sample(map[string]interface{}{"op": op.Desc, "hook_sequence": txm.LogString(ff.log), "failed_once_each": len(ff.log)})
	}
}

var Engine = &core.Engine{
	ID:    "C13",
	Level: "fault_enumeration",
	Rule: "SkipHooks matrix over a second model family whose EVERY related model (belongs to, has one, has many with a nested has many, many to many with a join model) declares all nine hooks: each of ~70 operations (about 110 with the update and association-mode operations named below) that run further statements on their own (Delete with selected relations / clause.Associations over struct, value slice and pointer slice, nested Select, association mode Append / Replace / Clear / Delete / Find / Count with and without Unscoped for each relation kind, Create / Save of new graphs, Save of an existing graph with and without FullSaveAssociations, Updates with associations, upsert, FirstOrCreate, nested Preload, Preload below Joins, FindInBatches whose callback writes through the handle it is given, UpdateColumn / UpdateColumns in five forms) is paired with each of 11 ways to derive the handle (Session{SkipHooks}, with NewDB in the same or a later Session call, a further Session / WithContext, Begin before and after the Session call, Transaction, nested Transaction): the pair is run with hooks (must fire hooks, creates and selected-relation deletes are checked exactly: once per in-memory record, once per link record / per selected relation for the records gorm makes itself, inside the span of the argument's before- and after-hooks, one transaction that also carries every hook's own write), then below SkipHooks (no hook of any model, no error), and for single-operation writes once per hook invocation with that invocation refused (error returned, everything undone, only the failing phase continues); column-update methods must fire nothing with hooks on either; the quick tier runs every (operation, handle) pair once; " +
		"the same family also runs, with exact sequence checks, the updates that write NO column of the owner (HOwner has no auto-update-time column): Updates(zero struct), Updates(empty map), a Select / an Omit that excludes every given value - each with and without new associated records held by the model value (saved between the owner's BeforeSave/BeforeUpdate and AfterUpdate/AfterSave, which fire once each although no UPDATE statement is issued) -, Update / Updates over a value slice and a pointer slice of 1..3 stored owners (per element, slice order), and association mode Append / Replace of NEW records for each relation kind over a struct owner, a value slice and a pointer slice of 1..3 owners with one argument per owner (single record, value slice, pointer slice): per owner the four update hooks once in order around the create hooks of its new records and of the link records; every demanded invocation is refused once: single owner = error returned and everything undone, owner slices (one transaction per owner) = error returned, the refusing hook's own write undone, no later phase for the refusing record, no transaction left open; every run with hooks that returns no error must be balanced per record (BeforeX and AfterX equally often); " +
		"the same family also creates / saves (Create, Save, every third time below Session{FullSaveAssociations}) a value slice, pointer slice, pointer array or value array of 2..4 new owners of which two or more (random positions) hold the SAME *HBoss - one in-memory belongs-to record reachable from several elements, a new record with a caller-chosen non-zero key and no row; up to two such shared records per argument, the other owners carry a new boss of their own without key, the key of a stored boss or none: every hook of the shared record once, between the owners' before- and after-hooks, one transaction, every invocation refused once (signatures hooked-family/create-shared-boss-<shape>, hooked-family/save-shared-boss-<shape>); " +
		"generated reads over the first family: 9 sources of the statement (conditions, Raw SQL, Raw SQL + Preload, Table, Model, column subset, Joins, Preload, Limit) x 14 finisher/destination forms (Find into value slice, pointer slice, value array and pointer array exactly as long as / two longer than the result, struct; First, Take, Last, First into a slice, FindInBatches, FirstOrInit, FirstOrCreate) x 0..3 matching rows (every fifth pass: none), a third of the non-raw ones executed twice on one chain value: the destination is read back and every element that holds a loaded record must have seen AfterFind exactly once on its own address with the loaded payload, nothing else (the unused tail of an array) any, preloaded orders once each; then SkipHooks (none), then every AfterFind invocation refused once (error returned); " +
		"a Delete is repeated on the same in-memory records (rows gone: same hooks), a Save of a record with a preset key and no row must run every phase once; every operation also runs as the first statement of a fresh handle (cold schema cache, raw DDL) and must fire the same hooks; after-hooks address the current record through the statement (SetColumn / Changed); the 16 write operation kinds of C05 over seeded record graphs (struct, value slice, pointer slice, batches; children with their own hooks) plus 7 read kinds (Find, First, Take, Preload, condition, map destination, FindInBatches); each operation is run fault-free (sequence, exactly-once, statement position, slice order, transaction identity of hook writes, stored before-hook values), in a SkipHooks session, and once per hook invocation index with that invocation failing; " +
		"distinct = (kind, hooks fired, records) resp. (kind, failing hook, type, first/last) resp. (source, finisher, matching rows, reused); non-trivial = at least one hook fired",
	Assumptions: []string{
		"records are identified by the address of the in-memory struct the hook receives",
		"for Updates/Delete by condition the only in-memory record is the model value handed to Model()/Delete(): each hook once",
		"a value assigned directly in BeforeSave must be stored by Create and Save; for Update/Updates only tx.Statement.SetColumn is the documented way and only that is checked",
		"CreateInBatches runs one create per batch: statement-position checks are per operation and skipped there, exactly-once and rollback are checked",
		"a handle gorm derives from a SkipHooks session - for its own further statements (association deletes, association mode, association saving, preloading) or to hand it to user code (Begin, the callbacks of Transaction and FindInBatches) - belongs to that session: no hook of any model may run through it",
		"a Delete with selected relations removes the associated rows through one internal model value per selected relation (the join model for many to many): BeforeDelete and AfterDelete of that model once each, the same reading as for Delete by condition; whether they run before or after the owner's statement is not fixed and not checked",
		"association mode and every update restricted by Select save the named relation and nothing below it: the new pets of those operations carry no collars; Replace unlinks the old records with statements of its own after the owner's save: delete hooks gorm runs there on model values of its own are neither demanded nor refused; association mode over a slice of owners saves owner after owner in a transaction each: complete rollback is demanded for a single owner only",
		"generated reads: a preloaded record sees AfterFind in the destination of the preload query before it is copied into its owner's field, so it is identified by payload, users by the address of the destination element; Take demands any one matching record; SQL handed over as text is not executed twice on one chain value and not finished with FindInBatches / FirstOrInit / FirstOrCreate (they rebuild the statement); arrays shorter than the result, Scan / Rows / ScanRows (whether they run AfterFind is not fixed by the statement) and pointer arrays longer than the result together with Preload (the preload itself panics on the nil tail, hooks or not) are not generated",
		"hooked family: graphs handed to Create / Save attach only NEW associated records (which hooks an already stored associated record sees when it is upserted is not fixed by the statement); association mode, Save of an existing graph, Updates with associations, upsert, FirstOrCreate and reads are run with hooks only to show that hooks apply (and, for the single-operation writes, for the refusal enumeration): their exact sequence is not demanded; empty slices and zero-key delete arguments are not generated",
		"a belongs-to record shared by several elements of one argument is generated only as ONE in-memory record (the same pointer) that carries a non-zero key: distinct in-memory values with equal keys (gorm writes the first and passes the others by: which of them is \"affected\" is not fixed by the statement) and a shared pointer WITHOUT key (no key to recognise it by) are not generated; has-one / has-many records are not shared between owners (a row has one owner)",
	},
	Cases: func(tier string) int {
		if tier == "thorough" {
			return 20 * 600
		}
		return 20 * 60
	},
	Batch:         func(string) int { return 10 },
	Run:           run,
	Init:          initEnv,
	MinNontrivial: 50,
}

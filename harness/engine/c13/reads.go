package c13

import (
	"errors"
	"fmt"
	"reflect"
	"sort"
	"strings"

	"gorm.io/gorm"

	"verif/core"
	"verif/txm"
)

// ---- generated reads: where the SQL comes from x how the query is finished x what it is loaded into -------------
//
// "AfterFind per loaded record" is quantified over every query: the statement may be built from conditions, be
// handed over as raw SQL (Raw(..).Find / First / Take / Last), name its table itself, select a column subset, join
// or preload a relation, carry a limit, or be a chain value that is executed a second time; it is finished with Find,
// First, Take, Last, FindInBatches, FirstOrInit or FirstOrCreate; the destination is a struct, a value slice, a
// pointer slice or an array (of values or pointers) that is exactly as long as, or longer than, the result. The
// oracle reads the destination after the call: every element that holds a loaded record saw AfterFind exactly once,
// on its own address and with the loaded payload; nothing else saw a hook (the unused tail of an array holds no
// record); preloaded orders likewise. The number of matching rows (0..3) comes from the seed data.

type seedUser struct {
	id     int64
	name   string
	age    int
	orders []string
}

var seedUsers = []seedUser{{1, "ann", 30, []string{"pen", "ink"}}, {2, "bob", 40, []string{"cup"}}, {3, "cy", 50, nil}}

// thresholds of "age >= ?" and the number of users they select
var readThresholds = []int{0, 30, 40, 50, 60}

var readSources = []string{"conditions", "raw-sql", "table", "model", "select-columns", "joins", "preload", "raw-sql-preload", "limit"}
var readFinishers = []string{"find-values", "find-pointers", "find-array-longer", "find-array-exact", "find-pointer-array-longer", "find-pointer-array-exact",
	"find-struct", "first", "take", "last", "first-slice", "find-in-batches", "first-or-init", "first-or-create"}

func readComboValid(src, fin string) bool {
	raw := strings.HasPrefix(src, "raw-sql")
	switch fin {
	case "find-in-batches", "first-or-init", "first-or-create":
		// they rebuild the statement (offsets, a create): not meaningful over SQL handed over as text
		return !raw && src != "limit"
	case "first", "take", "last", "first-slice", "find-struct":
		return src != "limit"
	case "find-pointer-array-longer":
		// preloading walks the nil tail of the array as well (a panic in the preload, no matter of hooks): not generated
		return src != "preload" && src != "raw-sql-preload"
	}
	return true
}

type loadedRec struct {
	ptr, name string
	orders    []loadedRec
}

// readPart: one execution of a finisher: what the destination holds afterwards and which part of the hook log is its
type readPart struct {
	res      *gorm.DB
	loaded   []loadedRec
	from, to int
	// byNameOnly: the destination is reused by the finisher itself (FindInBatches): records are identified by payload
	byNameOnly bool
	destLen    int
}

func userRec(u *txm.User) loadedRec {
	l := loadedRec{ptr: fmt.Sprintf("%p", u), name: u.Name}
	for i := range u.Orders {
		l.orders = append(l.orders, loadedRec{ptr: fmt.Sprintf("%p", &u.Orders[i]), name: u.Orders[i].Item})
	}
	return l
}

// newArray: a pointer to a zero [n]User or [n]*User
func newArray(n int, ptrElems bool) reflect.Value {
	et := reflect.TypeOf(txm.User{})
	if ptrElems {
		et = reflect.PtrTo(et)
	}
	return reflect.New(reflect.ArrayOf(n, et))
}

type readCase struct {
	src, fin  string
	threshold int
	reuse     bool
	batch     int
	desc      string
	// expectation from the seed data
	match []seedUser
	// run executes the query (twice on one chain value when reuse) and returns the parts
	parts []readPart
}

func genRead(r *core.Rand, src, fin string, empty bool) *readCase {
	rc := &readCase{src: src, fin: fin}
	if empty && fin != "first-or-create" && !strings.HasSuffix(fin, "-array-exact") {
		rc.threshold = 60
	} else {
		rc.threshold = readThresholds[r.Intn(4)]
	}
	for _, u := range seedUsers {
		if u.age >= rc.threshold {
			rc.match = append(rc.match, u)
		}
	}
	// a chain value executed twice: SQL handed over as text is consumed by its execution, the rest is reusable
	rc.reuse = !strings.HasPrefix(src, "raw-sql") && fin != "first-or-create" && r.Intn(3) == 0
	rc.batch = r.Range(1, 3)
	return rc
}

func (rc *readCase) source(db *gorm.DB) (*gorm.DB, string) {
	a := rc.threshold
	ordered := func(q *gorm.DB, d string) (*gorm.DB, string) {
		switch rc.fin {
		case "first", "last", "first-slice", "take", "first-or-init", "first-or-create", "find-in-batches":
			return q, d
		}
		return q.Order("users.id"), d + ".Order(\"users.id\")"
	}
	switch rc.src {
	case "conditions":
		return ordered(db.Where("age >= ?", a), fmt.Sprintf("db.Where(\"age >= ?\", %d)", a))
	case "raw-sql":
		return db.Raw("SELECT * FROM users WHERE age >= ? ORDER BY id", a), fmt.Sprintf("db.Raw(\"SELECT * FROM users WHERE age >= ? ORDER BY id\", %d)", a)
	case "raw-sql-preload":
		return db.Raw("SELECT * FROM users WHERE age >= ? ORDER BY id", a).Preload("Orders"), fmt.Sprintf("db.Raw(\"SELECT * FROM users WHERE age >= ? ORDER BY id\", %d).Preload(\"Orders\")", a)
	case "table":
		return ordered(db.Table("users").Where("age >= ?", a), fmt.Sprintf("db.Table(\"users\").Where(\"age >= ?\", %d)", a))
	case "model":
		return ordered(db.Model(&txm.User{}).Where("age >= ?", a), fmt.Sprintf("db.Model(&User{}).Where(\"age >= ?\", %d)", a))
	case "select-columns":
		return ordered(db.Select("id", "name", "age").Where("age >= ?", a), fmt.Sprintf("db.Select(\"id\", \"name\", \"age\").Where(\"age >= ?\", %d)", a))
	case "joins":
		return ordered(db.Joins("Company").Where("users.age >= ?", a), fmt.Sprintf("db.Joins(\"Company\").Where(\"users.age >= ?\", %d)", a))
	case "preload":
		return ordered(db.Preload("Orders").Where("age >= ?", a), fmt.Sprintf("db.Preload(\"Orders\").Where(\"age >= ?\", %d)", a))
	case "limit":
		return ordered(db.Where("age >= ?", a).Limit(2), fmt.Sprintf("db.Where(\"age >= ?\", %d).Limit(2)", a))
	}
	panic(rc.src)
}

// want: the names of the users the finisher loads (nil, false: any single one of match - Take)
func (rc *readCase) want() (names []string, anyOne bool) {
	m := rc.match
	if rc.src == "limit" && len(m) > 2 {
		m = m[:2]
	}
	if len(m) == 0 {
		return nil, false
	}
	raw := strings.HasPrefix(rc.src, "raw-sql")
	if raw && rc.fin == "first-slice" {
		// the limit First adds is not part of the text
		for _, u := range m {
			names = append(names, u.name)
		}
		return
	}
	switch rc.fin {
	case "first", "first-slice", "find-struct", "first-or-init", "first-or-create":
		return []string{m[0].name}, false
	case "last":
		if raw {
			// the text decides the order
			return []string{m[0].name}, false
		}
		return []string{m[len(m)-1].name}, false
	case "take":
		if raw {
			return []string{m[0].name}, false
		}
		return nil, true
	}
	for _, u := range m {
		names = append(names, u.name)
	}
	return
}

func (rc *readCase) preloads() bool { return rc.src == "preload" || rc.src == "raw-sql-preload" }

// finish runs the finisher on q with a destination of its own
func (rc *readCase) finish(q *gorm.DB) (p readPart, desc string) {
	p.from = len(txm.H.Log)
	defer func() { p.to = len(txm.H.Log) }()
	one := func(res *gorm.DB, u *txm.User) {
		p.res = res
		p.destLen = 1
		if res.Error == nil && (u.ID != 0 || u.Name != "") {
			p.loaded = []loadedRec{userRec(u)}
		}
	}
	arr := func(n int, ptrElems bool) {
		av := newArray(n, ptrElems)
		p.res = q.Find(av.Interface())
		p.destLen = n
		rows := int(p.res.RowsAffected)
		for i := 0; i < n && i < rows; i++ {
			ev := av.Elem().Index(i)
			if ptrElems {
				if ev.IsNil() {
					continue
				}
				p.loaded = append(p.loaded, userRec(ev.Interface().(*txm.User)))
			} else {
				p.loaded = append(p.loaded, userRec(ev.Addr().Interface().(*txm.User)))
			}
		}
	}
	n := len(rc.match)
	if rc.src == "limit" && n > 2 {
		n = 2
	}
	switch rc.fin {
	case "find-values":
		var us []txm.User
		p.res = q.Find(&us)
		for i := range us {
			p.loaded = append(p.loaded, userRec(&us[i]))
		}
		p.destLen = len(us)
		return p, ".Find(&[]User{})"
	case "find-pointers":
		var us []*txm.User
		p.res = q.Find(&us)
		for _, u := range us {
			p.loaded = append(p.loaded, userRec(u))
		}
		p.destLen = len(us)
		return p, ".Find(&[]*User{})"
	case "find-array-longer":
		arr(n+2, false)
		return p, fmt.Sprintf(".Find(&[%d]User{})", n+2)
	case "find-array-exact":
		if n == 0 {
			n = 1
		}
		arr(n, false)
		return p, fmt.Sprintf(".Find(&[%d]User{})", n)
	case "find-pointer-array-longer":
		arr(n+2, true)
		return p, fmt.Sprintf(".Find(&[%d]*User{})", n+2)
	case "find-pointer-array-exact":
		if n == 0 {
			n = 1
		}
		arr(n, true)
		return p, fmt.Sprintf(".Find(&[%d]*User{})", n)
	case "find-struct":
		u := &txm.User{}
		one(q.Find(u), u)
		return p, ".Find(&User{})"
	case "first":
		u := &txm.User{}
		one(q.First(u), u)
		return p, ".First(&User{})"
	case "take":
		u := &txm.User{}
		one(q.Take(u), u)
		return p, ".Take(&User{})"
	case "last":
		u := &txm.User{}
		one(q.Last(u), u)
		return p, ".Last(&User{})"
	case "first-or-init":
		u := &txm.User{}
		res := q.FirstOrInit(u)
		p.res, p.destLen = res, 1
		if res.Error == nil && u.ID != 0 {
			p.loaded = []loadedRec{userRec(u)}
		}
		return p, ".FirstOrInit(&User{})"
	case "first-or-create":
		u := &txm.User{}
		one(q.FirstOrCreate(u), u)
		return p, ".FirstOrCreate(&User{})"
	case "first-slice":
		var us []txm.User
		p.res = q.First(&us)
		for i := range us {
			p.loaded = append(p.loaded, userRec(&us[i]))
		}
		p.destLen = len(us)
		return p, ".First(&[]User{})"
	case "find-in-batches":
		var us []txm.User
		p.byNameOnly = true
		rounds := 0
		p.res = q.FindInBatches(&us, rc.batch, func(tx *gorm.DB, batch int) error {
			if rounds++; rounds > 5 {
				return errors.New("verif: FindInBatches does not end")
			}
			for i := range us {
				p.loaded = append(p.loaded, userRec(&us[i]))
			}
			return nil
		})
		p.destLen = len(p.loaded)
		return p, fmt.Sprintf(".FindInBatches(&[]User{}, %d, fc)", rc.batch)
	}
	panic(rc.fin)
}

func (rc *readCase) run(db *gorm.DB) *gorm.DB {
	rc.parts = nil
	q, d := rc.source(db)
	if !rc.reuse {
		p, fd := rc.finish(q)
		rc.parts = append(rc.parts, p)
		rc.desc = d + fd
		return p.res
	}
	q = q.Session(&gorm.Session{})
	var res *gorm.DB
	for i := 0; i < 2; i++ {
		p, fd := rc.finish(q)
		rc.parts = append(rc.parts, p)
		rc.desc = "q := " + d + ".Session(&Session{}); q" + fd + "; q" + fd
		res = p.res
		if res.Error != nil {
			break
		}
	}
	return res
}

// check: the hook log of one part against what its destination holds
func (rc *readCase) check(p readPart, log []txm.HookEvent) (problems []string) {
	add := func(f string, a ...interface{}) { problems = append(problems, fmt.Sprintf(f, a...)) }
	names, anyOne := rc.want()
	notFound := false
	switch rc.fin {
	case "first", "take", "last", "first-slice":
		notFound = len(rc.match) == 0
	}
	if notFound {
		if !errors.Is(p.res.Error, gorm.ErrRecordNotFound) {
			add("no row matches: error %v, want ErrRecordNotFound", p.res.Error)
		}
	} else if p.res.Error != nil {
		add("error: %v", p.res.Error)
	}
	// what was loaded (ground truth: the seed data)
	var got []string
	for _, l := range p.loaded {
		got = append(got, l.name)
	}
	if anyOne {
		ok := false
		for _, u := range rc.match {
			ok = ok || (len(got) == 1 && got[0] == u.name)
		}
		if !ok {
			add("loaded %v, want one of the matching users", got)
		}
	} else if fmt.Sprint(got) != fmt.Sprint(names) {
		add("loaded %v, want %v", got, names)
	}
	// AfterFind exactly once per loaded record, on the element of the destination that holds it
	type key struct{ ptr, typ, name string }
	cnt := map[key]int{}
	for _, e := range log {
		if e.Hook != "AfterFind" {
			add("hook %s(%s %q) fired on a read", e.Hook, e.Type, e.Name)
			continue
		}
		k := key{e.Ptr, e.Type, e.Name}
		if p.byNameOnly || e.Type != "User" {
			// a preloaded record sees its hook in the destination of the preload query and is then copied into the
			// relation field of its owner: identified by payload
			k.ptr = ""
		}
		cnt[k]++
	}
	expect := func(l loadedRec, typ string) {
		k := key{l.ptr, typ, l.name}
		if p.byNameOnly || typ != "User" {
			k.ptr = ""
		}
		if cnt[k] != 1 {
			add("AfterFind fired %d times for the loaded %s %q (on the record the destination holds), want exactly once", cnt[k], typ, l.name)
		}
		delete(cnt, k)
	}
	wantOrders := map[string][]string{}
	for _, u := range seedUsers {
		wantOrders[u.name] = u.orders
	}
	for _, l := range p.loaded {
		expect(l, "User")
		if rc.preloads() {
			var os []string
			for _, o := range l.orders {
				os = append(os, o.name)
				expect(o, "Order")
			}
			sort.Strings(os)
			w := append([]string(nil), wantOrders[l.name]...)
			sort.Strings(w)
			if fmt.Sprint(os) != fmt.Sprint(w) {
				add("user %q: preloaded orders %v, want %v", l.name, os, w)
			}
		}
	}
	var rest []string
	for k, n := range cnt {
		rest = append(rest, fmt.Sprintf("%s %q x%d", k.typ, k.name, n))
	}
	sort.Strings(rest)
	if len(rest) > 0 {
		add("AfterFind fired for what is no loaded record of the destination: %s", strings.Join(rest, ", "))
	}
	return
}

func runReadGen(c *core.Ctx, src, fin string, empty bool) {
	rc := genRead(c.R.Fork(), src, fin, empty)
	c.Inc("generated_reads")
	ff := execute(rc.run, 0, false)
	desc := rc.desc
	sig := src + "/" + fin
	var problems []string
	for i, p := range rc.parts {
		for _, s := range rc.check(p, ff.log[p.from:p.to]) {
			if len(rc.parts) > 1 {
				s = fmt.Sprintf("execution %d: %s", i+1, s)
			}
			problems = append(problems, s)
		}
	}
	if len(problems) > 0 {
		// a class of its own: the hooks are right, but the dispatch goes on over the unused (nil) tail of a pointer array
		if fin == "find-pointer-array-longer" && len(problems) == len(rc.parts) && errors.Is(ff.err, gorm.ErrInvalidValue) {
			only := true
			for _, s := range problems {
				only = only && strings.Contains(s, "error: "+gorm.ErrInvalidValue.Error())
			}
			if only {
				c.Violation("read-gen/pointer-array-longer-than-result-invalid-value", map[string]interface{}{"op": desc, "matching_rows": len(rc.match), "problems": problems, "hooks": txm.LogString(ff.log)})
				return
			}
		}
		c.Violation("read-gen/"+sig, map[string]interface{}{"op": desc, "matching_rows": len(rc.match), "problems": problems, "hooks": txm.LogString(ff.log)})
		return
	}
	if len(ff.log) > 0 {
		c.Shape("read-gen", src, fin, len(rc.match), rc.reuse)
	} else {
		c.Inc("generated_reads_loading_nothing")
	}
	// SkipHooks: no AfterFind, same outcome
	rs := execute(rc.run, 0, true)
	if len(rs.log) != 0 || (rs.err == nil) != (ff.err == nil) {
		c.Violation("read-gen-skiphooks/"+sig, map[string]interface{}{"op": desc, "problems": []string{fmt.Sprintf("SkipHooks session: %d hooks fired (%s), error %v (with hooks: %v)", len(rs.log), txm.LogString(rs.log), rs.err, ff.err)}})
		return
	}
	// every AfterFind invocation refuses once: the error is returned
	for j := 1; j <= len(ff.log); j++ {
		rf := execute(rc.run, j, false)
		c.Inc("faulted_runs")
		if rf.err == nil || !txm.IsHookErr(rf.err) {
			c.Violation("read-gen-fail/"+sig, map[string]interface{}{"op": desc, "failed_invocation": j, "problems": []string{fmt.Sprintf("AfterFind invocation %d (%s) failed but the error returned is %v", j, ff.log[j-1].String(), rf.err)},
				"hooks_without_failure": txm.LogString(ff.log), "hooks_this_run": txm.LogString(rf.log)})
			break
		}
	}
}

var readCombos = func() (out [][2]string) {
	for _, f := range readFinishers {
		for _, s := range readSources {
			if readComboValid(s, f) {
				out = append(out, [2]string{s, f})
			}
		}
	}
	return
}()

// runReadGens: slot k of the read cases; readsPerSlot combinations each, every fifth pass over the combinations with
// a condition no row matches
func runReadGens(c *core.Ctx, k int) {
	for d := 0; d < readsPerSlot; d++ {
		idx := k*readsPerSlot + d
		combo := readCombos[idx%len(readCombos)]
		pass := idx / len(readCombos)
		runReadGen(c, combo[0], combo[1], pass%5 == 4)
	}
	restore()
}

// the quick tier has 60 read slots: five passes over the combinations
var readsPerSlot = (len(readCombos)*5 + 59) / 60

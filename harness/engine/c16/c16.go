// Package c16: Save, upsert and FirstOrCreate/FirstOrInit converge to the documented state.
//
// Two oracles. (1) A reference map keyed by primary key: what rows and column values must
// exist after every step of a sequence over a 4-value key space (tracked timestamps are never
// part of the model). (2) A metamorphic relation: the outcome of a chain (error, RowsAffected,
// returned record, full table dump, whether a write reached the driver) must not change when
// `Session(&gorm.Session{})` or `WithContext(ctx)` is inserted at any position of the chain.
// Every variant starts from the restored pre-state with the logical clock reset, so the two
// runs of gorm are comparable byte for byte.
package c16

import (
	"context"
	"database/sql"
	"fmt"
	"reflect"
	"sort"
	"strings"
	"time"

	"gorm.io/gorm"
	"gorm.io/gorm/clause"

	"verif/core"
	"verif/recdrv"
	"verif/vdb"
)

// ---- models -----------------------------------------------------------------

type Acct struct {
	ID        int64 `gorm:"primaryKey"`
	Code      string
	Name      string
	Age       int64
	Email     string
	Score     int64
	CreatedAt time.Time
	UpdatedAt time.Time
}

func (Acct) TableName() string { return "accts" }

type SAcct struct {
	ID        int64 `gorm:"primaryKey"`
	Code      string
	Name      string
	Age       int64
	Email     string
	Score     int64
	CreatedAt time.Time
	UpdatedAt time.Time
	DeletedAt gorm.DeletedAt
}

func (SAcct) TableName() string { return "s_accts" }

type UAcct struct {
	ID        int64  `gorm:"primaryKey"`
	Code      string `gorm:"uniqueIndex:ux_u_accts_code"`
	Name      string
	Age       int64
	Email     string
	Score     int64
	CreatedAt time.Time
	UpdatedAt time.Time
}

func (UAcct) TableName() string { return "u_accts" }

type family struct {
	name  string // Go type name
	table string
	typ   reflect.Type
	soft  bool
	uniq  bool
}

var families = []*family{
	{name: "Acct", table: "accts", typ: reflect.TypeOf(Acct{})},
	{name: "SAcct", table: "s_accts", typ: reflect.TypeOf(SAcct{}), soft: true},
	{name: "UAcct", table: "u_accts", typ: reflect.TypeOf(UAcct{}), uniq: true},
}

var (
	H      *vdb.Handle
	seedT  = time.Date(2029, 1, 1, 0, 0, 0, 0, time.UTC)
	delT   = time.Date(2029, 6, 6, 6, 6, 6, 0, time.UTC)
	hasSeq bool
)

type ctxKey struct{}

var userCtx = context.WithValue(context.Background(), ctxKey{}, "c16")

func must(err error) {
	if err != nil {
		panic(err)
	}
}

func initEnv(c *core.Ctx) {
	h, err := vdb.Open(vdb.Options{})
	must(err)
	must(h.DB.AutoMigrate(&Acct{}, &SAcct{}, &UAcct{}))
	H = h
	n := vdb.Ints(h.SQL, "SELECT count(*) FROM sqlite_master WHERE name='sqlite_sequence'")
	hasSeq = len(n) == 1 && n[0] == 1
}

// ---- reference rows ---------------------------------------------------------

// row is the model's view of one record: every user column plus "is soft-deleted".
type row struct {
	ID    int64
	Code  string
	Name  string
	Age   int64
	Email string
	Score int64
	Del   bool
}

func (r row) String() string {
	return fmt.Sprintf("{id:%d code:%q name:%q age:%d email:%q score:%d deleted:%v}", r.ID, r.Code, r.Name, r.Age, r.Email, r.Score, r.Del)
}

func toInt(v interface{}) int64 {
	switch x := v.(type) {
	case int:
		return int64(x)
	case int64:
		return x
	}
	panic(fmt.Sprintf("not an int: %T", v))
}

func (r *row) set(col string, v interface{}) {
	switch col {
	case "id":
		r.ID = toInt(v)
	case "code":
		r.Code = v.(string)
	case "name":
		r.Name = v.(string)
	case "age":
		r.Age = toInt(v)
	case "email":
		r.Email = v.(string)
	case "score":
		r.Score = toInt(v)
	case "deleted_at":
		r.Del = v.(bool)
	default:
		panic("unknown column " + col)
	}
}

func (r row) get(col string) interface{} {
	switch col {
	case "id":
		return r.ID
	case "code":
		return r.Code
	case "name":
		return r.Name
	case "age":
		return r.Age
	case "email":
		return r.Email
	case "score":
		return r.Score
	case "deleted_at":
		return r.Del
	}
	panic("unknown column " + col)
}

func (r row) matches(col string, v interface{}) bool {
	switch x := r.get(col).(type) {
	case int64:
		return x == toInt(v)
	case string:
		return x == v.(string)
	}
	return false
}

// sameButID compares all user columns except the key.
func sameButID(a, b row) bool { a.ID, b.ID = 0, 0; return a == b }

var fieldOf = map[string]string{"id": "ID", "code": "Code", "name": "Name", "age": "Age", "email": "Email", "score": "Score"}

// state is the reference map keyed by primary key. Keys < 0 are placeholders for rows whose
// key the database assigns (they are matched by content).
type state map[int64]row

func (s state) clone() state {
	o := state{}
	for k, v := range s {
		o[k] = v
	}
	return o
}

func (s state) keys() []int64 {
	out := make([]int64, 0, len(s))
	for k := range s {
		out = append(out, k)
	}
	sort.Slice(out, func(i, j int) bool { return out[i] < out[j] })
	return out
}

func (s state) lines() []string {
	out := []string{}
	for _, k := range s.keys() {
		out = append(out, s[k].String())
	}
	return out
}

func (s state) byCode(code string) (row, bool) {
	for _, k := range s.keys() {
		if s[k].Code == code {
			return s[k], true
		}
	}
	return row{}, false
}

// diff compares the expected map with the actual table.
func (exp state) diff(act state) []string {
	var problems []string
	var pending []row // placeholders
	for _, k := range exp.keys() {
		if k < 0 {
			pending = append(pending, exp[k])
			continue
		}
		a, ok := act[k]
		if !ok {
			problems = append(problems, fmt.Sprintf("row with key %d is missing, expected %s", k, exp[k]))
		} else if a != exp[k] {
			problems = append(problems, fmt.Sprintf("row %d is %s, expected %s", k, a, exp[k]))
		}
	}
	for _, k := range act.keys() {
		if _, ok := exp[k]; ok {
			continue
		}
		hit := -1
		for i, p := range pending {
			if sameButID(p, act[k]) {
				hit = i
				break
			}
		}
		if hit < 0 {
			problems = append(problems, fmt.Sprintf("unexpected row %s", act[k]))
			continue
		}
		pending = append(pending[:hit], pending[hit+1:]...)
	}
	for _, p := range pending {
		problems = append(problems, fmt.Sprintf("a new row with columns %s (key assigned by the database) is missing", p))
	}
	return problems
}

// ---- building gorm values ---------------------------------------------------

func (f *family) fill(e reflect.Value, r row) {
	e.FieldByName("ID").SetInt(r.ID)
	e.FieldByName("Code").SetString(r.Code)
	e.FieldByName("Name").SetString(r.Name)
	e.FieldByName("Age").SetInt(r.Age)
	e.FieldByName("Email").SetString(r.Email)
	e.FieldByName("Score").SetInt(r.Score)
	if f.soft && r.Del {
		e.FieldByName("DeletedAt").Set(reflect.ValueOf(gorm.DeletedAt{Time: delT, Valid: true}))
	}
}

func (f *family) ptr(r row) interface{} {
	v := reflect.New(f.typ)
	f.fill(v.Elem(), r)
	return v.Interface()
}

func (f *family) slicePtr(rs []row) interface{} {
	sl := reflect.MakeSlice(reflect.SliceOf(f.typ), len(rs), len(rs))
	for i, r := range rs {
		f.fill(sl.Index(i), r)
	}
	p := reflect.New(sl.Type())
	p.Elem().Set(sl)
	return p.Interface()
}

func (f *family) rowFrom(e reflect.Value) row {
	r := row{
		ID:    e.FieldByName("ID").Int(),
		Code:  e.FieldByName("Code").String(),
		Name:  e.FieldByName("Name").String(),
		Age:   e.FieldByName("Age").Int(),
		Email: e.FieldByName("Email").String(),
		Score: e.FieldByName("Score").Int(),
	}
	if f.soft {
		r.Del = e.FieldByName("DeletedAt").Interface().(gorm.DeletedAt).Valid
	}
	return r
}

func (f *family) rowsFrom(dest interface{}) []row {
	e := reflect.ValueOf(dest).Elem()
	if e.Kind() == reflect.Slice {
		out := make([]row, e.Len())
		for i := range out {
			out[i] = f.rowFrom(e.Index(i))
		}
		return out
	}
	return []row{f.rowFrom(e)}
}

// lit renders a record as the Go literal the engine passes to gorm.
func (f *family) lit(r row) string {
	var p []string
	if r.ID != 0 {
		p = append(p, fmt.Sprintf("ID:%d", r.ID))
	}
	if r.Code != "" {
		p = append(p, fmt.Sprintf("Code:%q", r.Code))
	}
	if r.Name != "" {
		p = append(p, fmt.Sprintf("Name:%q", r.Name))
	}
	if r.Age != 0 {
		p = append(p, fmt.Sprintf("Age:%d", r.Age))
	}
	if r.Email != "" {
		p = append(p, fmt.Sprintf("Email:%q", r.Email))
	}
	if r.Score != 0 {
		p = append(p, fmt.Sprintf("Score:%d", r.Score))
	}
	if r.Del {
		p = append(p, "DeletedAt:gorm.DeletedAt{Time:T, Valid:true}")
	}
	return f.name + "{" + strings.Join(p, ", ") + "}"
}

// kvs is a set of column/value pairs in one of the three forms gorm accepts.
type kvs struct {
	Form string // struct | map | kv
	Cols []string
	Vals []interface{} // string or int64
}

func (k *kvs) args(f *family) []interface{} {
	switch k.Form {
	case "struct":
		v := reflect.New(f.typ).Elem()
		for i, c := range k.Cols {
			fv := v.FieldByName(fieldOf[c])
			switch x := k.Vals[i].(type) {
			case string:
				fv.SetString(x)
			default:
				fv.SetInt(toInt(x))
			}
		}
		return []interface{}{v.Interface()}
	case "map":
		m := map[string]interface{}{}
		for i, c := range k.Cols {
			if n, ok := k.Vals[i].(int64); ok {
				m[c] = int(n)
			} else {
				m[c] = k.Vals[i]
			}
		}
		return []interface{}{m}
	default: // key, value
		if n, ok := k.Vals[0].(int64); ok {
			return []interface{}{k.Cols[0], int(n)}
		}
		return []interface{}{k.Cols[0], k.Vals[0]}
	}
}

func (k *kvs) desc(f *family) string {
	var p []string
	for i, c := range k.Cols {
		v := fmt.Sprintf("%v", k.Vals[i])
		if s, ok := k.Vals[i].(string); ok {
			v = fmt.Sprintf("%q", s)
		}
		switch k.Form {
		case "struct":
			p = append(p, fieldOf[c]+":"+v)
		case "map":
			p = append(p, fmt.Sprintf("%q:%s", c, v))
		default:
			p = append(p, fmt.Sprintf("%q, %s", c, v))
		}
	}
	switch k.Form {
	case "struct":
		return f.name + "{" + strings.Join(p, ", ") + "}"
	case "map":
		return "map[string]interface{}{" + strings.Join(p, ", ") + "}"
	}
	return p[0]
}

func (k *kvs) applyTo(r *row) {
	for i, c := range k.Cols {
		r.set(c, k.Vals[i])
	}
}

// ---- operations -------------------------------------------------------------

type ocSpec struct {
	Rule   string   // nothing | cols | assign | all
	Target []string // nil | [id] | [code]
	Cols   []string // rule cols (may contain deleted_at in the soft family)
	Lit    kvs      // rule assign (Form map)
}

func (o *ocSpec) clause() clause.OnConflict {
	oc := clause.OnConflict{}
	for _, t := range o.Target {
		oc.Columns = append(oc.Columns, clause.Column{Name: t})
	}
	switch o.Rule {
	case "nothing":
		oc.DoNothing = true
	case "cols":
		oc.DoUpdates = clause.AssignmentColumns(o.Cols)
	case "assign":
		m := map[string]interface{}{}
		for i, c := range o.Lit.Cols {
			m[c] = o.Lit.Vals[i]
		}
		oc.DoUpdates = clause.Assignments(m)
	case "all":
		oc.UpdateAll = true
	}
	return oc
}

func (o *ocSpec) desc() string {
	var p []string
	if len(o.Target) > 0 {
		var cs []string
		for _, t := range o.Target {
			cs = append(cs, fmt.Sprintf("{Name:%q}", t))
		}
		p = append(p, "Columns:[]clause.Column{"+strings.Join(cs, ",")+"}")
	}
	switch o.Rule {
	case "nothing":
		p = append(p, "DoNothing:true")
	case "cols":
		p = append(p, fmt.Sprintf("DoUpdates:clause.AssignmentColumns(%q)", o.Cols))
	case "assign":
		p = append(p, "DoUpdates:clause.Assignments("+o.Lit.desc(nil)+")")
	case "all":
		p = append(p, "UpdateAll:true")
	}
	return "clause.OnConflict{" + strings.Join(p, ", ") + "}"
}

type chainStep struct {
	Kind string // where | attrs | assign | clauses
	KV   kvs
	OC   *ocSpec
}

func (s *chainStep) apply(f *family, db *gorm.DB) *gorm.DB {
	switch s.Kind {
	case "where":
		a := s.KV.args(f)
		return db.Where(a[0], a[1:]...)
	case "attrs":
		return db.Attrs(s.KV.args(f)...)
	case "assign":
		return db.Assign(s.KV.args(f)...)
	default:
		return db.Clauses(s.OC.clause())
	}
}

func (s *chainStep) desc(f *family) string {
	switch s.Kind {
	case "where":
		return "Where(" + s.KV.desc(f) + ")"
	case "attrs":
		return "Attrs(" + s.KV.desc(f) + ")"
	case "assign":
		return "Assign(" + s.KV.desc(f) + ")"
	}
	return "Clauses(" + s.OC.desc() + ")"
}

type op struct {
	Kind   string // save | upsert | init | create
	Recs   []row
	Slice  bool
	Steps  []chainStep
	Inline *kvs
}

func (o *op) oc() *ocSpec {
	for i := range o.Steps {
		if o.Steps[i].Kind == "clauses" {
			return o.Steps[i].OC
		}
	}
	return nil
}

func (o *op) find(kind string) *kvs {
	for i := range o.Steps {
		if o.Steps[i].Kind == kind {
			return &o.Steps[i].KV
		}
	}
	return nil
}

func (o *op) conds() []*kvs {
	var out []*kvs
	for i := range o.Steps {
		if o.Steps[i].Kind == "where" {
			out = append(out, &o.Steps[i].KV)
		}
	}
	if o.Inline != nil {
		out = append(out, o.Inline)
	}
	return out
}

// desc renders the literal Go chain; pos/kind describe the inserted call (pos < 0: none).
func (o *op) desc(f *family, pos int, kind string) string {
	ins := ""
	if pos >= 0 {
		if kind == "session" {
			ins = "Session(&gorm.Session{})"
		} else {
			ins = "WithContext(ctx)"
		}
	}
	parts := []string{"db"}
	for i := range o.Steps {
		if i == pos {
			parts = append(parts, ins)
		}
		parts = append(parts, o.Steps[i].desc(f))
	}
	if pos == len(o.Steps) {
		parts = append(parts, ins)
	}
	var arg string
	if o.Kind == "save" || o.Kind == "upsert" {
		if o.Slice {
			var ls []string
			for _, r := range o.Recs {
				ls = append(ls, f.lit(r))
			}
			arg = "&[]" + f.name + "{" + strings.Join(ls, ", ") + "}"
		} else {
			arg = "&" + f.lit(o.Recs[0])
		}
	} else {
		arg = "&" + f.name + "{}"
		if o.Inline != nil {
			arg += ", " + o.Inline.desc(f)
		}
	}
	fin := map[string]string{"save": "Save", "upsert": "Create", "init": "FirstOrInit", "create": "FirstOrCreate"}[o.Kind]
	return strings.Join(parts, ".") + "." + fin + "(" + arg + ")"
}

// ---- raw state access -------------------------------------------------------

func readState(f *family) state {
	rows, err := H.SQL.Query("SELECT id, code, name, age, email, score, deleted FROM (SELECT *, " + delExpr(f) + " AS deleted FROM `" + f.table + "`) ORDER BY id")
	must(err)
	defer rows.Close()
	s := state{}
	for rows.Next() {
		var r row
		var code, name, email sql.NullString
		var age, score sql.NullInt64
		var del int64
		must(rows.Scan(&r.ID, &code, &name, &age, &email, &score, &del))
		r.Code, r.Name, r.Email, r.Age, r.Score, r.Del = code.String, name.String, email.String, age.Int64, score.Int64, del != 0
		if !code.Valid || !name.Valid || !email.Valid || !age.Valid || !score.Valid {
			r.Code += "<NULL column>"
		}
		s[r.ID] = r
	}
	must(rows.Err())
	return s
}

func delExpr(f *family) string {
	if f.soft {
		return "(deleted_at IS NOT NULL)"
	}
	return "0"
}

type snapshot struct {
	cols []string
	rows [][]interface{}
	seq  sql.NullInt64
}

func takeSnap(f *family) snapshot {
	var s snapshot
	rows, err := H.SQL.Query("SELECT * FROM `" + f.table + "` ORDER BY id")
	must(err)
	s.cols, _ = rows.Columns()
	for rows.Next() {
		vals := make([]interface{}, len(s.cols))
		ptrs := make([]interface{}, len(s.cols))
		for i := range vals {
			ptrs[i] = &vals[i]
		}
		must(rows.Scan(ptrs...))
		for i, v := range vals {
			if b, ok := v.([]byte); ok {
				vals[i] = string(b)
			}
		}
		s.rows = append(s.rows, vals)
	}
	rows.Close()
	if hasSeq {
		H.SQL.QueryRow("SELECT seq FROM sqlite_sequence WHERE name = ?", f.table).Scan(&s.seq)
	}
	return s
}

func restore(f *family, s snapshot) {
	_, err := H.SQL.Exec("DELETE FROM `" + f.table + "`")
	must(err)
	if len(s.rows) > 0 {
		ph := "(" + strings.TrimSuffix(strings.Repeat("?,", len(s.cols)), ",") + ")"
		q := "INSERT INTO `" + f.table + "` (`" + strings.Join(s.cols, "`,`") + "`) VALUES "
		var args []interface{}
		for i, r := range s.rows {
			if i > 0 {
				q += ","
			}
			q += ph
			args = append(args, r...)
		}
		_, err = H.SQL.Exec(q, args...)
		must(err)
	}
	if hasSeq {
		_, err = H.SQL.Exec("DELETE FROM sqlite_sequence WHERE name = ?", f.table)
		must(err)
		if s.seq.Valid {
			_, err = H.SQL.Exec("INSERT INTO sqlite_sequence(name, seq) VALUES (?, ?)", f.table, s.seq.Int64)
			must(err)
		}
	}
}

func seed(f *family, rs []row) {
	_, err := H.SQL.Exec("DELETE FROM `" + f.table + "`")
	must(err)
	if hasSeq {
		_, err = H.SQL.Exec("DELETE FROM sqlite_sequence WHERE name = ?", f.table)
		must(err)
	}
	for _, r := range rs {
		if f.soft {
			var d interface{}
			if r.Del {
				d = delT
			}
			_, err = H.SQL.Exec("INSERT INTO `"+f.table+"` (id,code,name,age,email,score,created_at,updated_at,deleted_at) VALUES (?,?,?,?,?,?,?,?,?)",
				r.ID, r.Code, r.Name, r.Age, r.Email, r.Score, seedT, seedT, d)
		} else {
			_, err = H.SQL.Exec("INSERT INTO `"+f.table+"` (id,code,name,age,email,score,created_at,updated_at) VALUES (?,?,?,?,?,?,?,?)",
				r.ID, r.Code, r.Name, r.Age, r.Email, r.Score, seedT, seedT)
		}
		must(err)
	}
}

// ---- executing one chain ----------------------------------------------------

type outcome struct {
	Err     string
	RA      int64
	Ret     string
	RetRows []row
	Dump    []string
	Rows    state
	Writes  []string
	dest    interface{}
}

func isWrite(ev recdrv.Event) bool {
	switch ev.Kind {
	case recdrv.KExec, recdrv.KQuery, recdrv.KStmtExec, recdrv.KStmtQuery:
	default:
		return false
	}
	q := strings.ToUpper(strings.TrimSpace(ev.Query))
	for _, p := range []string{"INSERT", "UPDATE", "DELETE", "REPLACE"} {
		if strings.HasPrefix(q, p) {
			return true
		}
	}
	return false
}

func exec(f *family, o *op, pos int, kind string) *outcome {
	H.Clock.Reset()
	db := H.DB
	ins := func(i int) {
		if i != pos {
			return
		}
		if kind == "session" {
			db = db.Session(&gorm.Session{})
		} else {
			db = db.WithContext(userCtx)
		}
	}
	for i := range o.Steps {
		ins(i)
		db = o.Steps[i].apply(f, db)
	}
	ins(len(o.Steps))
	var dest interface{}
	var res *gorm.DB
	mark := H.Rec.Mark()
	switch o.Kind {
	case "save", "upsert":
		if o.Slice {
			dest = f.slicePtr(o.Recs)
		} else {
			dest = f.ptr(o.Recs[0])
		}
		if o.Kind == "save" {
			res = db.Save(dest)
		} else {
			res = db.Create(dest)
		}
	default:
		dest = reflect.New(f.typ).Interface()
		var inl []interface{}
		if o.Inline != nil {
			inl = o.Inline.args(f)
		}
		if o.Kind == "init" {
			res = db.FirstOrInit(dest, inl...)
		} else {
			res = db.FirstOrCreate(dest, inl...)
		}
	}
	out := &outcome{RA: res.RowsAffected, dest: dest}
	if res.Error != nil {
		out.Err = res.Error.Error()
	}
	for _, ev := range H.Rec.Since(mark) {
		if isWrite(ev) {
			out.Writes = append(out.Writes, ev.Query)
		}
	}
	out.Ret = fmt.Sprintf("%+v", reflect.ValueOf(dest).Elem().Interface())
	out.RetRows = f.rowsFrom(dest)
	out.Dump = vdb.DumpTable(H.SQL, f.table)
	out.Rows = readState(f)
	return out
}

func (a *outcome) sameAs(b *outcome) bool {
	return a.Err == b.Err && a.RA == b.RA && a.Ret == b.Ret && (len(a.Writes) > 0) == (len(b.Writes) > 0) &&
		strings.Join(a.Dump, "\n") == strings.Join(b.Dump, "\n")
}

func (a *outcome) view() map[string]interface{} {
	var ret []string
	for _, r := range a.RetRows {
		ret = append(ret, r.String())
	}
	return map[string]interface{}{"error": a.Err, "rows_affected": a.RA, "returned": ret, "table": a.Rows.lines(), "write_statements": a.Writes}
}

// ---- reference model --------------------------------------------------------

type expect struct {
	skip  string // not decided by the statement: do not execute
	st    state  // expected table
	ret   *row   // expected returned record (FirstOr* only)
	retID bool   // ret.ID is meaningful
	found bool
}

// modelSave: Save stores the full value whether or not its key exists.
func modelSave(f *family, st state, o *op) expect {
	e := expect{st: st.clone()}
	next := int64(-1)
	seen := map[int64]bool{}
	for _, r := range o.Recs {
		if r.ID != 0 && seen[r.ID] {
			e.skip = "duplicate key inside one slice"
			return e
		}
		seen[r.ID] = true
		if f.uniq {
			if b, ok := e.st.byCode(r.Code); ok && b.ID != r.ID {
				e.skip = "unique violation on a column that is not the key"
				return e
			}
		}
		if r.ID == 0 {
			r.ID = next
			next--
		}
		e.st[r.ID] = r
	}
	return e
}

// modelUpsert: Create + OnConflict leaves exactly what the rule defines.
func modelUpsert(f *family, st state, o *op) expect {
	e := expect{st: st.clone()}
	oc := o.oc()
	next := int64(-1)
	for _, r := range o.Recs {
		var a, b *row
		if r.ID != 0 {
			if x, ok := e.st[r.ID]; ok {
				a = &x
			}
		}
		if f.uniq {
			if x, ok := e.st.byCode(r.Code); ok {
				b = &x
			}
		}
		var conf *row
		target := oc.Target
		if len(target) == 0 && oc.Rule == "all" {
			target = []string{"id"} // documented: UpdateAll uses the primary key as default conflict target
		}
		switch {
		case len(target) == 0:
			if a != nil && b != nil && a.ID != b.ID {
				e.skip = "two different rows conflict"
				return e
			}
			conf = a
			if conf == nil {
				conf = b
			}
		case target[0] == "id":
			if b != nil && (a == nil || a.ID != b.ID) {
				e.skip = "unique violation outside the conflict target"
				return e
			}
			conf = a
		default: // code
			if a != nil && (b == nil || a.ID != b.ID) {
				e.skip = "unique violation outside the conflict target"
				return e
			}
			conf = b
		}
		if conf == nil {
			if r.ID == 0 {
				r.ID = next
				next--
			}
			e.st[r.ID] = r
			continue
		}
		n := *conf
		switch oc.Rule {
		case "nothing":
		case "cols":
			for _, c := range oc.Cols {
				n.set(c, r.get(c))
			}
		case "assign":
			oc.Lit.applyTo(&n)
		case "all":
			id := n.ID
			n = r
			n.ID = id
		}
		if f.uniq && n.Code != conf.Code {
			if x, ok := e.st.byCode(n.Code); ok && x.ID != n.ID {
				e.skip = "the conflict update itself violates a unique index"
				return e
			}
		}
		e.st[n.ID] = n
	}
	return e
}

// modelFirstOr: first match unchanged, else conditions + Attrs; Assign applied in both cases.
func modelFirstOr(f *family, st state, o *op, useAttrs, useAssign bool) expect {
	e := expect{st: st.clone()}
	var first *row
	for _, k := range st.keys() {
		r := st[k]
		if r.Del {
			continue
		}
		ok := true
		for _, c := range o.conds() {
			for i, col := range c.Cols {
				if !r.matches(col, c.Vals[i]) {
					ok = false
				}
			}
		}
		if ok {
			first = &r
			break
		}
	}
	asg := o.find("assign")
	if !useAssign {
		asg = nil
	}
	att := o.find("attrs")
	if !useAttrs {
		att = nil
	}
	if first != nil {
		ret := *first
		if asg != nil {
			asg.applyTo(&ret)
		}
		e.found, e.ret, e.retID = true, &ret, true
		if o.Kind == "create" {
			e.st[ret.ID] = ret
		}
		return e
	}
	ret := row{}
	for _, c := range o.conds() {
		c.applyTo(&ret)
	}
	if att != nil {
		att.applyTo(&ret)
	}
	if asg != nil {
		asg.applyTo(&ret)
	}
	e.ret, e.retID = &ret, ret.ID != 0 || o.Kind == "init"
	if o.Kind == "create" {
		n := ret
		if n.ID == 0 {
			n.ID = -1
		} else if _, ok := st[n.ID]; ok {
			e.skip = "the record built from the conditions carries a key that is already stored"
			return e
		}
		e.st[n.ID] = n
	}
	return e
}

func model(f *family, st state, o *op) expect {
	switch o.Kind {
	case "save":
		return modelSave(f, st, o)
	case "upsert":
		return modelUpsert(f, st, o)
	}
	return modelFirstOr(f, st, o, true, true)
}

// ---- generation -------------------------------------------------------------

var (
	names  = []string{"a", "b", "c"}
	ages   = []int64{0, 20, 30}
	emails = []string{"", "x@e", "y@e"}
	scores = []int64{0, 5, 7}
)

func randVal(r *core.Rand, col string, nonzero bool) interface{} {
	for {
		var v interface{}
		switch col {
		case "id":
			v = int64(r.Range(1, 4))
		case "code":
			v = fmt.Sprintf("c%d", r.Range(1, 5))
		case "name":
			v = core.Pick(r, names)
		case "age":
			v = core.Pick(r, ages)
		case "email":
			v = core.Pick(r, emails)
		case "score":
			v = core.Pick(r, scores)
		}
		if nonzero && (v == int64(0) || v == "") {
			continue
		}
		return v
	}
}

func genRow(r *core.Rand, f *family, st state, id int64) row {
	x := row{ID: id}
	for _, c := range []string{"code", "name", "age", "email", "score"} {
		x.set(c, randVal(r, c, false))
	}
	if f.uniq {
		// mostly keep the code consistent with the key so that the conflict target decides
		if old, ok := st[id]; ok && r.Chance(2, 3) {
			x.Code = old.Code
		} else if r.Chance(1, 2) {
			for try := 0; try < 6; try++ {
				if _, taken := st.byCode(x.Code); !taken {
					break
				}
				x.Code = fmt.Sprintf("c%d", r.Range(1, 9))
			}
		}
	}
	if f.soft && r.Chance(1, 8) {
		x.Del = true
	}
	return x
}

func genRecs(r *core.Rand, f *family, st state) (recs []row, slice bool) {
	slice = r.Chance(2, 5)
	n := 1
	if slice {
		n = r.Range(1, 3)
	}
	zero := r.Chance(1, 5)
	ids := r.Perm(4)
	for i := 0; i < n; i++ {
		id := int64(0)
		if !zero {
			id = int64(ids[i] + 1)
		}
		x := genRow(r, f, st, id)
		if f.uniq {
			for _, p := range recs {
				for p.Code == x.Code {
					x.Code = fmt.Sprintf("c%d", r.Range(1, 9))
				}
			}
		}
		recs = append(recs, x)
	}
	return
}

func pickCols(r *core.Rand, from []string, lo, hi int) []string {
	n := r.Range(lo, hi)
	if n > len(from) {
		n = len(from)
	}
	p := r.Perm(len(from))
	var out []string
	for i := 0; i < n; i++ {
		out = append(out, from[p[i]])
	}
	sort.Strings(out)
	return out
}

func genKVs(r *core.Rand, form string, cols []string, like *row) kvs {
	k := kvs{Form: form}
	for _, c := range cols {
		var v interface{}
		if like != nil && r.Chance(3, 4) {
			v = like.get(c)
			if form == "struct" && (v == int64(0) || v == "") {
				v = randVal(r, c, true)
			}
		} else {
			v = randVal(r, c, form == "struct")
		}
		k.Cols = append(k.Cols, c)
		k.Vals = append(k.Vals, v)
	}
	return k
}

func without(all []string, drop ...[]string) []string {
	var out []string
	for _, c := range all {
		keep := true
		for _, d := range drop {
			for _, x := range d {
				if x == c {
					keep = false
				}
			}
		}
		if keep {
			out = append(out, c)
		}
	}
	return out
}

func genOp(r *core.Rand, f *family, st state) *op {
	kinds := []string{"save", "save", "save", "upsert", "upsert", "upsert", "upsert", "init", "init", "init", "create", "create", "create", "create"}
	if f.uniq {
		kinds = []string{"save", "save", "upsert", "upsert", "upsert", "upsert", "upsert"}
	}
	o := &op{Kind: core.Pick(r, kinds)}
	switch o.Kind {
	case "save":
		o.Recs, o.Slice = genRecs(r, f, st)
	case "upsert":
		o.Recs, o.Slice = genRecs(r, f, st)
		oc := &ocSpec{Rule: core.Pick(r, []string{"nothing", "cols", "assign", "all"})}
		targets := [][]string{nil, {"id"}}
		if f.uniq {
			targets = append(targets, []string{"code"}, []string{"code"})
		}
		oc.Target = core.Pick(r, targets)
		upd := []string{"name", "age", "email", "score", "code"}
		switch oc.Rule {
		case "cols":
			oc.Cols = pickCols(r, upd, 1, 3)
			if f.soft && r.Chance(1, 4) {
				oc.Cols = append(oc.Cols, "deleted_at")
			}
		case "assign":
			oc.Lit = genKVs(r, "map", pickCols(r, upd[:4], 1, 2), nil)
		}
		o.Steps = []chainStep{{Kind: "clauses", OC: oc}}
	default:
		// conditions: values mostly taken from a stored row (soft-deleted ones included)
		var like *row
		if ks := st.keys(); len(ks) > 0 && r.Chance(3, 4) {
			x := st[ks[r.Intn(len(ks))]]
			like = &x
		}
		var condCols []string
		if !r.Chance(1, 12) {
			condCols = pickCols(r, []string{"name", "age", "email", "id"}, 1, 2)
		}
		// split the condition columns over Where calls and the inline argument
		var groups [][]string
		if len(condCols) == 2 && r.Bool() {
			groups = [][]string{{condCols[0]}, {condCols[1]}}
		} else if len(condCols) > 0 {
			groups = [][]string{condCols}
		}
		for gi, g := range groups {
			k := genKVs(r, core.Pick(r, []string{"struct", "map"}), g, like)
			if gi == len(groups)-1 && r.Chance(1, 3) {
				o.Inline = &k
			} else {
				o.Steps = append(o.Steps, chainStep{Kind: "where", KV: k})
			}
		}
		forms := []string{"struct", "map", "kv"}
		rest := without([]string{"name", "age", "email", "score", "code"}, condCols)
		var attrCols []string
		if r.Chance(2, 3) {
			form := core.Pick(r, forms)
			n := 2
			if form == "kv" {
				n = 1
			}
			attrCols = pickCols(r, rest, 1, n)
			o.Steps = append(o.Steps, chainStep{Kind: "attrs", KV: genKVs(r, form, attrCols, nil)})
		}
		if r.Chance(1, 2) {
			form := core.Pick(r, forms)
			n := 2
			if form == "kv" {
				n = 1
			}
			cols := pickCols(r, []string{"name", "age", "email", "score", "code"}, 1, n)
			o.Steps = append(o.Steps, chainStep{Kind: "assign", KV: genKVs(r, form, cols, nil)})
		}
		// any order of Where / Attrs / Assign
		p := r.Perm(len(o.Steps))
		steps := make([]chainStep, len(o.Steps))
		for i, j := range p {
			steps[i] = o.Steps[j]
		}
		o.Steps = steps
	}
	return o
}

func keyClass(st state, r row) string {
	if r.ID == 0 {
		return "zero"
	}
	x, ok := st[r.ID]
	switch {
	case !ok:
		return "missing"
	case x.Del:
		return "softdeleted"
	}
	return "live"
}

func shapeOf(f *family, st state, o *op, e expect) string {
	var p []string
	p = append(p, f.name, o.Kind)
	switch o.Kind {
	case "save", "upsert":
		p = append(p, fmt.Sprint(o.Slice))
		for _, r := range o.Recs {
			p = append(p, keyClass(st, r))
			if f.uniq {
				_, hit := st.byCode(r.Code)
				p = append(p, fmt.Sprint("code", hit))
			}
		}
		if oc := o.oc(); oc != nil {
			p = append(p, oc.Rule, strings.Join(oc.Target, ","), fmt.Sprint(len(oc.Cols), len(oc.Lit.Cols)))
		}
	default:
		p = append(p, fmt.Sprint("found", e.found))
		for _, s := range o.Steps {
			p = append(p, s.Kind+":"+s.KV.Form+fmt.Sprint(len(s.KV.Cols)))
		}
		if o.Inline != nil {
			p = append(p, "inline:"+o.Inline.Form)
		}
	}
	return strings.Join(p, "|")
}

// ---- one case ---------------------------------------------------------------

// report records a violation and counts it per signature (the violation list is capped, counters are not).
func report(c *core.Ctx, sig string, detail interface{}) {
	c.Inc("violation:" + sig)
	c.Violation(sig, detail)
}

func noTime(s state) string { return strings.Join(s.lines(), "\n") }

func run(c *core.Ctx) {
	r := c.R
	H.Rec.Reset()
	f := families[c.Case%len(families)]
	var init []row
	for id := int64(1); id <= 4; id++ {
		if r.Chance(3, 5) {
			x := genRow(r, f, state{}, id)
			x.Del = f.soft && r.Chance(2, 5)
			if f.uniq {
				x.Code = fmt.Sprintf("c%d", id)
			}
			init = append(init, x)
		}
	}
	seed(f, init)
	st := readState(f)
	nSteps := r.Range(3, 8)
	viol := 0
	p9Reported := false
	for step := 0; step < nSteps && viol < 2; step++ {
		bad := false
		o := genOp(r, f, st)
		e := model(f, st, o)
		lit := o.desc(f, -1, "")
		if e.skip != "" {
			c.Inc("steps_not_generated:" + e.skip)
			continue
		}
		c.Logf("STEP %d table=%v  %s", step, st.lines(), lit)
		c.Inc("steps")
		c.Inc("op_" + o.Kind)
		pre := takeSnap(f)
		base := exec(f, o, -1, "")
		post := takeSnap(f)
		detail := func(extra map[string]interface{}) map[string]interface{} {
			d := map[string]interface{}{"model": f.name, "table_before": st.lines(), "chain": lit, "observed": base.view()}
			for k, v := range extra {
				d[k] = v
			}
			return d
		}

		// (1) reference model
		var problems []string
		if base.Err != "" {
			problems = append(problems, "the call returned an error: "+base.Err)
		}
		problems = append(problems, e.st.diff(base.Rows)...)
		if e.ret != nil && base.Err == "" {
			got := base.RetRows[0]
			if (e.retID && got != *e.ret) || (!e.retID && !sameButID(got, *e.ret)) {
				problems = append(problems, fmt.Sprintf("returned record %s, expected %s (key compared: %v)", got, *e.ret, e.retID))
			}
		}
		if o.Kind == "save" && base.Err == "" {
			// the full value, zero-valued fields included, is what is stored under the record's key
			for i, rec := range base.RetRows {
				want := o.Recs[i]
				want.ID = rec.ID
				if got, ok := base.Rows[rec.ID]; !ok || got != want {
					problems = append(problems, fmt.Sprintf("after Save the row under the record's key %d is %v, the saved value is %s", rec.ID, got, want))
				}
			}
		}
		if len(problems) > 0 {
			viol++
			bad = true
			report(c, "model-"+o.Kind, detail(map[string]interface{}{"expected_table": e.st.lines(), "problems": problems,
				"note": "keys < 0 in expected_table stand for keys assigned by the database"}))
		}
		// (2) write bounds
		if o.Kind == "init" && len(base.Writes) > 0 {
			viol++
			bad = true
			report(c, "firstorinit-writes", detail(nil))
		}
		if o.Kind == "create" {
			changed := 0
			before := map[string]bool{}
			for _, rw := range pre.rows {
				before[fmt.Sprint(rw...)] = true
			}
			for _, rw := range post.rows {
				if !before[fmt.Sprint(rw...)] {
					changed++
				}
			}
			if changed > 1 || len(post.rows) > len(pre.rows)+1 || len(post.rows) < len(pre.rows) {
				viol++
				bad = true
				report(c, "firstorcreate-multi-write", detail(map[string]interface{}{"rows_written": changed}))
			}
			if changed > 0 {
				c.Inc("firstorcreate_wrote_a_row")
			}
		}

		// (3) metamorphic: Session / WithContext at every position
		type dev struct {
			Chain    string                 `json:"chain"`
			Observed map[string]interface{} `json:"observed"`
			Class    string                 `json:"class"`
		}
		var devs, drops []dev
		variants := 0
		idx := func(kind string) int {
			for i := range o.Steps {
				if o.Steps[i].Kind == kind {
					return i
				}
			}
			return -1
		}
		for pos := 0; pos <= len(o.Steps); pos++ {
			for _, kind := range []string{"session", "ctx"} {
				restore(f, pre)
				v := exec(f, o, pos, kind)
				variants++
				if v.sameAs(base) {
					continue
				}
				d := dev{Chain: o.desc(f, pos, kind), Observed: v.view(), Class: "differs"}
				explained := false
				if (o.Kind == "init" || o.Kind == "create") && (o.find("attrs") != nil || o.find("assign") != nil) && v.Err == "" {
					// most plausible explanation first: exactly the calls placed before the inserted one are lost
					ia, ib := idx("attrs"), idx("assign")
					first := [2]bool{!(ia >= 0 && ia < pos), !(ib >= 0 && ib < pos)}
					for _, m := range [][2]bool{first, {false, true}, {true, false}, {false, false}} {
						if (!m[0] && ia < 0) || (!m[1] && ib < 0) || (m[0] && m[1]) {
							continue
						}
						alt := modelFirstOr(f, st, o, m[0], m[1])
						if alt.skip != "" || len(alt.st.diff(v.Rows)) > 0 {
							continue
						}
						got := v.RetRows[0]
						if (alt.retID && got == *alt.ret) || (!alt.retID && sameButID(got, *alt.ret)) {
							d.Class = fmt.Sprintf("behaves like the chain with Attrs kept=%v, Assign kept=%v", m[0], m[1])
							explained = true
							where := func(i int) string {
								switch {
								case i < 0:
									return "absent"
								case i < pos:
									return "before-the-call"
								}
								return "after-the-call"
							}
							c.Inc(fmt.Sprintf("p9:%s:%s:attrs-%s(kept=%v):assign-%s(kept=%v)", o.Kind, kind, where(idx("attrs")), m[0], where(idx("assign")), m[1]))
							break
						}
					}
				}
				if explained {
					drops = append(drops, d)
				} else {
					devs = append(devs, d)
				}
			}
		}
		c.Add("variants_run", variants)
		note := "every variant ran on the restored table with the logical clock reset; only the inserted call differs"
		if len(drops) > 0 {
			bad = true
			c.Inc("steps_with_dropped_attrs_assign")
			if !p9Reported { // one literal witness per case, all of them counted
				p9Reported = true
				report(c, "session-drops-attrs-assign", detail(map[string]interface{}{"deviating_variants": drops, "variants_run": variants, "note": note}))
			}
		}
		if len(devs) > 0 {
			viol++
			bad = true
			report(c, "metamorphic-"+o.Kind, detail(map[string]interface{}{"deviating_variants": devs, "variants_run": variants, "note": note}))
		}
		restore(f, post)

		// (4) Save twice equals Save once (tracked timestamps aside)
		if o.Kind == "save" && base.Err == "" {
			once := noTime(base.Rows)
			res := H.DB.Save(base.dest)
			twice := readState(f)
			c.Inc("save_twice_checks")
			if res.Error != nil || noTime(twice) != once {
				viol++
				bad = true
				report(c, "save-twice", detail(map[string]interface{}{"second_save_error": fmt.Sprint(res.Error), "table_after_second_save": twice.lines()}))
			}
		}

		if !bad {
			c.Shape(shapeOf(f, st, o, e))
			c.Inc("nontrivial_steps")
			switch o.Kind {
			case "save", "upsert":
				for _, rec := range o.Recs {
					c.Inc(o.Kind + "_key_" + keyClass(st, rec))
				}
				if oc := o.oc(); oc != nil {
					c.Inc("upsert_rule_" + oc.Rule)
				}
			default:
				if e.found {
					c.Inc(o.Kind + "_found")
				} else {
					c.Inc(o.Kind + "_not_found")
					if f.soft {
						for _, k := range st.keys() {
							if x := st[k]; x.Del {
								m := len(o.conds()) > 0
								for _, cd := range o.conds() {
									for i, col := range cd.Cols {
										m = m && x.matches(col, cd.Vals[i])
									}
								}
								if m {
									c.Inc(o.Kind + "_only_softdeleted_match")
									break
								}
							}
						}
					}
				}
			}
			if c.WantSample() && step == 2 {
				c.Sample(map[string]interface{}{"model": f.name, "table_before": st.lines(), "chain": lit, "table_after": base.Rows.lines(),
					"variants_compared": variants})
			}
		}
		st = readState(f)
	}
}

var Engine = &core.Engine{
	ID:    "C16",
	Level: "exploration",
	Rule: "sequences of 3..8 steps over keys 1..4 (plus database-assigned keys) on three models (plain, soft-delete, unique secondary column), seeded with raw SQL (soft-deleted rows included); " +
		"steps: Save of a struct or slice (zero / live / soft-deleted / missing key, zero-valued fields), Create + OnConflict{DoNothing | AssignmentColumns(subset) | Assignments(map) | UpdateAll} x conflict target {none, id, code} x single/slice, " +
		"FirstOrInit / FirstOrCreate with 0..2 condition columns as struct or map in Where calls and/or inline, Attrs and Assign in struct / map / key-value form in any order; " +
		"every chain is executed once plain and once per (position 0..len, Session | WithContext) on the restored pre-state; Save is applied a second time; " +
		"distinct = (model, finisher, key classes, rule, target, forms and order of chain calls, found); non-trivial = the step was executed and all its variants were compared",
	Assumptions: []string{
		"created_at / updated_at are never part of the reference model (tracked timestamps); they are compared only between two runs of gorm (baseline vs. variant, logical clock reset)",
		"RowsAffected and the returned record of Save / Create+OnConflict are compared between baseline and variants only; the statement does not fix their values",
		"a slice never carries the same non-zero key twice, and never mixes zero and non-zero keys (the statement does not say which value wins resp. how keys are back-filled)",
		"steps whose outcome is decided by a unique index that is not the conflict target (or by two different conflicting rows) are not generated; FirstOrCreate whose conditions carry a key that is physically stored but does not match is not generated",
		"Attrs never names a condition column; one Attrs and one Assign call per chain at most; key-value form with a single pair; conditions are equalities combined by AND (no Or/Not)",
		"Save of a value whose key belongs to a soft-deleted row: the statement's 'stores the full value whether or not its key already exists' is read physically - afterwards the row under that key holds the value including its DeletedAt",
		"an OnConflict rule is read physically too: a soft-deleted row with the same key conflicts, and UpdateAll / AssignmentColumns(deleted_at) overwrite deleted_at with the new value's",
	},
	Cases: func(tier string) int {
		if tier == "thorough" {
			return 160000
		}
		return 12000
	},
	Batch:         func(string) int { return 100 },
	Run:           run,
	Init:          initEnv,
	MinNontrivial: 300,
}

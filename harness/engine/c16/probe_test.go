package c16

import (
	"fmt"
	"testing"

	"gorm.io/gorm"
	"gorm.io/gorm/clause"
	"verif/vdb"
)

func TestProbe(t *testing.T) {
	h, err := vdb.Open(vdb.Options{})
	must(err)
	must(h.DB.AutoMigrate(&Acct{}, &SAcct{}, &UAcct{}, &CAcct{}, &PAcct{}))
	H = h
	f := families[0]
	seed(f, []row{{ID: 1, Code: "c1", Name: "a", Age: 30, Score: 5}})
	show := func(tag string, res *gorm.DB) {
		var q string
		for _, ev := range h.Rec.Since(0) {
			if isWrite(ev) {
				q = ev.Query
			}
		}
		fmt.Println(tag, "err=", res.Error, "ra=", res.RowsAffected, "\n   ", q, "\n   ", readState(f).lines())
	}
	oc := clause.OnConflict{Columns: []clause.Column{{Name: "id"}}, DoUpdates: clause.AssignmentColumns([]string{"name", "age"}),
		Where: clause.Where{Exprs: []clause.Expression{clause.Lt{Column: clause.Column{Table: "accts", Name: "age"}, Value: clause.Column{Table: "excluded", Name: "age"}}}}}
	show("lt-false", h.DB.Clauses(oc).Create(&Acct{ID: 1, Name: "b", Age: 20}))
	show("lt-true", h.DB.Clauses(oc).Create(&Acct{ID: 1, Name: "b", Age: 40}))
	oc.Where = clause.Where{Exprs: []clause.Expression{clause.Gt{Column: clause.Column{Table: "accts", Name: "score"}, Value: 5}}}
	show("gt-lit-false", h.DB.Clauses(oc).Create(&Acct{ID: 1, Name: "c", Age: 20}))
	oc.Where = clause.Where{Exprs: []clause.Expression{clause.Eq{Column: clause.Column{Table: clause.CurrentTable, Name: "score"}, Value: 5}, clause.Neq{Column: clause.Column{Table: "excluded", Name: "name"}, Value: "c"}}}
	show("curtable-eq-and-neq", h.DB.Clauses(oc).Create(&Acct{ID: 1, Name: "d", Age: 20}))
	oc.Where = clause.Where{Exprs: []clause.Expression{clause.Expr{SQL: "accts.age < excluded.age AND accts.score = ?", Vars: []interface{}{5}}}}
	show("expr", h.DB.Clauses(oc).Create(&Acct{ID: 1, Name: "e", Age: 50}))
	// UpdateAll + Where
	oc2 := clause.OnConflict{UpdateAll: true, Where: clause.Where{Exprs: []clause.Expression{clause.Gt{Column: clause.Column{Table: "accts", Name: "score"}, Value: 5}}}}
	show("all-where-false", h.DB.Clauses(oc2).Create(&Acct{ID: 1, Name: "f", Age: 1}))
	oc2.Where = clause.Where{Exprs: []clause.Expression{clause.Gte{Column: clause.Column{Table: "accts", Name: "score"}, Value: 5}}}
	show("all-where-true", h.DB.Clauses(oc2).Create(&Acct{ID: 1, Name: "f", Age: 1}))
	// TargetWhere
	oc3 := clause.OnConflict{Columns: []clause.Column{{Name: "id"}}, DoUpdates: clause.AssignmentColumns([]string{"name"}),
		TargetWhere: clause.Where{Exprs: []clause.Expression{clause.Gt{Column: clause.Column{Name: "age"}, Value: 1000}}}}
	show("targetwhere-only", h.DB.Clauses(oc3).Create(&Acct{ID: 1, Name: "g"}))
	oc3.Where = clause.Where{Exprs: []clause.Expression{clause.Gt{Column: clause.Column{Table: "accts", Name: "score"}, Value: 5}}}
	show("targetwhere+where-false", h.DB.Clauses(oc3).Create(&Acct{ID: 1, Name: "h"}))
	oc3.DoNothing, oc3.DoUpdates = true, nil
	show("nothing+where", h.DB.Clauses(oc3).Create(&Acct{ID: 1, Name: "h"}))
	// mixed
	oc4 := clause.OnConflict{DoUpdates: append(clause.AssignmentColumns([]string{"name"}), clause.Assignments(map[string]interface{}{"score": 7, "age": gorm.Expr("accts.age + excluded.age + ?", 1)})...)}
	show("mixed", h.DB.Clauses(oc4).Create(&Acct{ID: 1, Name: "m", Age: 100}))
	// or
	oc.Where = clause.Where{Exprs: []clause.Expression{clause.Or(clause.Eq{Column: clause.Column{Table: "accts", Name: "score"}, Value: 99}, clause.Eq{Column: clause.Column{Table: "accts", Name: "name"}, Value: "zz"})}}
	show("or-false", h.DB.Clauses(oc).Create(&Acct{ID: 1, Name: "n", Age: 3}))
	// UAcct with code target + TargetWhere
	fu := families[2]
	seed(fu, []row{{ID: 1, Code: "c1", Name: "a", Age: 30, Score: 5}})
	oc5 := clause.OnConflict{Columns: []clause.Column{{Name: "code"}}, DoUpdates: clause.AssignmentColumns([]string{"name"}),
		TargetWhere: clause.Where{Exprs: []clause.Expression{clause.Gt{Column: clause.Column{Name: "age"}, Value: 1000}}}}
	res := h.DB.Clauses(oc5).Create(&UAcct{ID: 3, Code: "c1", Name: "g"})
	fmt.Println("u targetwhere", res.Error, readState(fu).lines())
	fc := families[3]
	seed(fc, []row{{Comp: fc, Tenant: "d", Rev: 1, Code: "c1", Name: "a", Age: 30, Score: 5}})
	oc6 := clause.OnConflict{Columns: []clause.Column{{Name: "tenant"}, {Name: "revision"}}, DoUpdates: clause.AssignmentColumns([]string{"name"}),
		TargetWhere: clause.Where{Exprs: []clause.Expression{clause.Gt{Column: clause.Column{Name: "age"}, Value: 1000}}}}
	res = h.DB.Clauses(oc6).Create(&CAcct{Tenant: "d", Revision: 1, Name: "g"})
	fmt.Println("c targetwhere", res.Error, readState(fc).lines())
	// pointer forms
	var a Acct
	res = h.DB.Where(&Acct{Name: "zz"}).Attrs(&Acct{Age: 44}).Assign(&Acct{Score: 9}).FirstOrInit(&a, &Acct{Email: "q"})
	fmt.Println("ptr forms", res.Error, a.Name, a.Age, a.Score, a.Email)
}

package c17

import (
	"fmt"
	"testing"

	"gorm.io/gorm"
)

func TestScratch(t *testing.T) {
	type op func(p interface {
		Register(string, func(*gorm.DB)) error
	}) error
	_ = op(nil)
	var trace []string
	rec := func(n string) func(*gorm.DB) { return func(*gorm.DB) { trace = append(trace, n) } }
	try := func(title string, f func(db *gorm.DB) []error) {
		db, _ := gorm.Open(nil, nil)
		errs := f(db)
		trace = nil
		db.Callback().Raw().Execute(db.Session(&gorm.Session{NewDB: true}))
		fmt.Printf("%-60s errs=%v fired=%v\n", title, errs, trace)
	}
	try("dup plain", func(db *gorm.DB) []error {
		p := db.Callback().Raw()
		return []error{p.Register("a", rec("a")), p.Register("x", rec("x1")), p.Register("z", rec("z")), p.Register("x", rec("x2"))}
	})
	try("dup before(a)", func(db *gorm.DB) []error {
		p := db.Callback().Raw()
		return []error{p.Register("a", rec("a")), p.Register("x", rec("x1")), p.Register("z", rec("z")), p.Before("a").Register("x", rec("x2"))}
	})
	try("dup after(z)", func(db *gorm.DB) []error {
		p := db.Callback().Raw()
		return []error{p.Register("a", rec("a")), p.Register("x", rec("x1")), p.Register("z", rec("z")), p.After("z").Register("x", rec("x2"))}
	})
	try("dup before(*)", func(db *gorm.DB) []error {
		p := db.Callback().Raw()
		return []error{p.Register("a", rec("a")), p.Register("x", rec("x1")), p.Register("z", rec("z")), p.Before("*").Register("x", rec("x2"))}
	})
	try("dup after(*)", func(db *gorm.DB) []error {
		p := db.Callback().Raw()
		return []error{p.Register("a", rec("a")), p.After("*").Register("x", rec("x1")), p.Register("z", rec("z")), p.Register("x", rec("x2"))}
	})
	try("dup before(*) first", func(db *gorm.DB) []error {
		p := db.Callback().Raw()
		return []error{p.Register("a", rec("a")), p.Before("*").Register("x", rec("x1")), p.Register("z", rec("z")), p.Register("x", rec("x2"))}
	})
	try("Before(*).Replace", func(db *gorm.DB) []error {
		p := db.Callback().Raw()
		return []error{p.Register("a", rec("a")), p.Register("x", rec("x1")), p.Register("z", rec("z")), p.Before("*").Replace("x", rec("x2"))}
	})
	try("After(z).Replace", func(db *gorm.DB) []error {
		p := db.Callback().Raw()
		return []error{p.Register("a", rec("a")), p.Register("x", rec("x1")), p.Register("z", rec("z")), p.After("z").Replace("x", rec("x2"))}
	})
	try("Before(a).Replace", func(db *gorm.DB) []error {
		p := db.Callback().Raw()
		return []error{p.Register("a", rec("a")), p.Register("x", rec("x1")), p.Register("z", rec("z")), p.Before("a").Replace("x", rec("x2"))}
	})
	try("Before(a).Remove", func(db *gorm.DB) []error {
		p := db.Callback().Raw()
		return []error{p.Register("a", rec("a")), p.Register("x", rec("x1")), p.Register("z", rec("z")), p.Before("a").Remove("x")}
	})
	try("Before(*).Remove", func(db *gorm.DB) []error {
		p := db.Callback().Raw()
		return []error{p.Register("a", rec("a")), p.Register("x", rec("x1")), p.Register("z", rec("z")), p.Before("*").Remove("x")}
	})
	try("dup, remove, register", func(db *gorm.DB) []error {
		p := db.Callback().Raw()
		return []error{p.Register("a", rec("a")), p.Register("x", rec("x1")), p.Register("z", rec("z")), p.Before("a").Register("x", rec("x2")), p.Remove("x"), p.After("a").Register("x", rec("x3"))}
	})
	try("dup builtin plain", func(db *gorm.DB) []error {
		p := db.Callback().Raw()
		return []error{p.Register("a", rec("a")), p.Register("gorm:raw", rec("raw2"))}
	})
	try("dup builtin after a", func(db *gorm.DB) []error {
		p := db.Callback().Raw()
		return []error{p.Register("a", rec("a")), p.After("a").Register("gorm:raw", rec("raw2"))}
	})
}

// Package c17: callback registration honours Before/After and never disturbs the
// built-in order.
//
// A case is ONE registration sequence on ONE of the six pipelines. Every function the
// sequence registers is a recording stub; the pipeline is then executed for real
// (Create / Find / Updates / Delete / Rows / Exec against SQLite) and the order in which
// the stubs fire is what the oracle sees - gorm's unexported callback slices are never
// read. Built-ins are observed in two complementary ways, each on a fresh handle:
//
//	B: every built-in is wrapped by a recording function through Replace before the
//	   sequence under test runs;
//	A: pristine registry; the built-ins are seen through their effects in the same global
//	   event sequence as the stubs: driver begin / INSERT,UPDATE,DELETE,SELECT per table /
//	   commit (recdrv hook) and the model's Before*/After* hooks.
//
// Oracle (reference model of the statement, see model()): a sequence either returns an
// error (accepted, nothing else required) or every live callback fires exactly once per
// pipeline execution with the handler registered last, no removed/replaced handler
// fires, every Before/After constraint whose target runs is respected, the built-ins
// fire in their original relative order, and a Replace'd callback keeps its position
// relative to every other callback (differential run without the Replace steps).
// A name that was given a second entry while it existed (Register under an existing name,
// Replace carrying Before/After) is held to what the statement still fixes: the handler handed
// over by the LAST call under the name fires exactly once (that call returned nil: its function
// is a registered, non-removed callback, or has taken the place of the callback of that name),
// no handler twice, a handler that a Replace (plain or carrying a request) replaced does not fire,
// and after a Remove none of them fires - whichever way the second entry came about. (Whether the
// OLDER handler of a name that was merely registered again fires as well is left open.) The call that made the
// NEWEST entry returned nil, so the named Before/After it carried has to hold for the handler of
// the name that fires (gorm either moves the callback or reports "conflicting callback"); and a
// callback that names such a name in its own Before/After still has to fire on that side of it
// (the name fires once, wherever that is).
// A BUILT-IN name that was given further entries and never removed still stands for a built-in callback under
// either reading of the repeated call (one callback defined anew / a further callback next to the persisting
// built-in): when exactly one handler of the name fires, it has to fire where the built-in stood relative to
// the other built-ins - "with the built-in callbacks in their original relative order" - or a call had to
// return an error (builtin-order:registered-again / :multi-entry / :replace-request).
// "The pipeline runs every callback exactly once" is demanded of every run of the pipeline, not
// only of a healthy statement: after the healthy execution the same handle executes the pipeline
// again, once per entry (see entries): a second time; with an error attached to the statement
// before the first callback runs (AddError in the chain, a failing scope, a destination that
// Statement.Parse rejects, a nil pointer, a transaction handle whose begin failed); with the
// driver failing a call half-way; through a DryRun session and a transaction handle. Each of
// these executions is held to the same model (mode A sees only the stubs of a statement that
// failed before the pipeline: the pristine built-ins are no-ops then). Finally (mode B) further
// registration calls are made on the registry that has been executed - a new callback, a Replace,
// a Remove - and the pipeline is executed once more: the whole is an ordinary sequence.
// A sequence that ends the process (unbounded recursion in the sorter) is attributed by
// the core runner to the case (signature "fatal"); the literal sequence is left at the
// head of the child's output file, so it shows up in the violation detail.
//
// Violation signatures (suffix "+star" when the sequence uses "*" anywhere):
//
//	fatal                         the process ended while the sequence was applied/executed
//	fatal:satisfiable-request     same, and after every call of the sequence an order
//	                              satisfying everything requested so far existed
//	panic                         recovered panic
//	not-once:missing / :repeated  a live callback fired 0 / >1 times in one execution
//	removed-ran                   a removed callback fired
//	removed-ran:multi-entry       same, and the name had more than one entry (Register of an existing
//	                              name / Replace with Before/After) when Remove was called
//	removed-ran:registered-again  a handler taken out by Remove fired after the name was registered anew
//	stale-handler                 a replaced handler fired instead of the replacement
//	stale-handler:multi-entry     a name with several entries was Replace'd, only older handlers fired
//	stale-handler:registered-again
//	                              a name that existed was registered again (nil returned): the handler of that
//	                              call never fired, an older handler of the name did
//	stale-handler:replace-request a name that existed was Replace'd by a call carrying Before/After (nil
//	                              returned): the new handler never fired, a replaced one did
//	replaced-ran:multi-entry      the new handler of such a Replace fired and so did a handler it replaced
//	not-once:missing:multi-entry  a name with several entries, not removed: none of its handlers fired
//	<the four above>:older-star   same, and an OLDER entry of the name carries Before("*") / After("*") where the
//	                              newest entry does not (gorm's pre-sort of the registry then puts the older entry
//	                              behind the newest one); no +star, /single-request, /single-step suffix
//	<..>:older-star:rewritten     same, the newest entry carries that "*" request too, but another Register/Replace
//	                              call names the callback (precondition of the sorter's known rewriting of stored
//	                              requests, which then takes the "*" request off the newest entry)
//	side:before / side:after      a Before/After(name) constraint is broken although an
//	                              order satisfying all requested constraints exists
//	side:star                     same for Before/After("*") (weak reading, see Assumptions), the callback
//	                              carries a named request of its own on the other side (Before(x).After("*"))
//	side:star:rewritten           same, it carries none, but another Register/Replace call names it
//	side:star:earlier-life        same, neither, but the name was removed earlier and a call that registered it
//	                              in that earlier life carried a named request
//	side:star:other               same, no named request touches the callback or an earlier life of its name
//	side:before:multi-entry / side:after:multi-entry
//	                              a name that existed was registered again with Before/After(t), the call
//	                              returned nil, the name fires on the other side of t
//	side:before:replace-request / side:after:replace-request
//	                              same, the newest entry was made by Before/After(t).Replace
//	side:<..>:multi-target        (suffix) the callback named by the broken request has several entries
//	side:multi-entry:rewritten / side:multi-target:rewritten
//	                              as the four above, and the structural precondition of the sorter's known
//	                              rewriting of stored requests holds: another Register/Replace call names
//	                              the callback that lost its side, or an earlier call under its name carried
//	                              a named request (one class for either side and either kind of call)
//	contradiction-accepted:named:multi-entry / :star:multi-entry
//	                              no order satisfies everything requested, but one does when the requests
//	                              involving names with several entries are left out; no call returned an error
//	contradiction-accepted:multi-entry:rewritten / contradiction-accepted:multi-target:rewritten
//	                              same, one of those requests meets the rewriting precondition
//	contradiction-accepted:named  the named constraints (+ built-in order) cannot all hold,
//	                              no call returned an error, a constraint is broken
//	contradiction-accepted:star   satisfiable without the "*" constraints, not with them
//	builtin-order                 built-ins fired in another relative order
//	builtin-order:registered-again
//	                              a BUILT-IN name was registered again while it existed (never removed), no call under
//	                              the name ever carried a request, every call returned nil: the handler of the name
//	                              that fires is not where the built-in stood among the other built-ins
//	builtin-order:multi-entry / builtin-order:replace-request
//	                              same, some entry of the name carried a Before/After request (the newest entry made
//	                              by Register / by a Replace carrying a request): nil was returned, so the built-in order
//	                              had to be kept. (These three take no part in the satisfiability question that splits
//	                              side:* from contradiction-accepted:*, and are never renamed by it.)
//	replace-position              a Replace'd callback changed sides relative to another one
//	<class>@repeat                a problem of the second execution on the same handle that the
//	                              first (healthy) execution does not have
//	<class>@failed-statement      same, execution of a statement that carried an error before the
//	                              first callback ran
//	<class>@driver-fault          same, execution during which the driver failed a call
//	<class>@session               same, execution through a DryRun session / a transaction handle
//	(problems of the execution that follows the late registration calls carry the plain signatures:
//	the sequence including those calls is an ordinary sequence)
package c17

import (
	"context"
	"errors"
	"fmt"
	"os"
	"os/exec"
	"runtime/debug"
	"sort"
	"strconv"
	"strings"
	"time"

	"gorm.io/gorm"

	"verif/core"
	"verif/recdrv"
	"verif/vdb"
)

// ---- names ------------------------------------------------------------------

const (
	userBase = 100 // user name ids: userBase+i = "u<i+1>"
	idNX     = 200 // a name that is never registered
	idStar   = 201 // "*"
	none     = 255
)

const (
	opRegister = iota
	opReplace
	opRemove
)

type pipeline struct {
	name      string // accessor on db.Callback()
	builtins  []string
	reduced   []int        // built-in alphabet of the length-3 enumeration
	invisible map[int]bool // built-ins without an externally visible effect (mode A)
	table     string       // Statement.Table of the executed operation
}

var pipelines = []pipeline{
	{name: "Create", table: "c17_mains", reduced: []int{0, 3, 6},
		builtins: []string{"gorm:begin_transaction", "gorm:before_create", "gorm:save_before_associations", "gorm:create",
			"gorm:save_after_associations", "gorm:after_create", "gorm:commit_or_rollback_transaction"}},
	{name: "Query", table: "c17_mains", reduced: []int{0, 1, 2},
		builtins: []string{"gorm:query", "gorm:preload", "gorm:after_query"}},
	{name: "Update", table: "c17_mains", reduced: []int{0, 4, 7}, invisible: map[int]bool{1: true},
		builtins: []string{"gorm:begin_transaction", "gorm:setup_reflect_value", "gorm:before_update", "gorm:save_before_associations",
			"gorm:update", "gorm:save_after_associations", "gorm:after_update", "gorm:commit_or_rollback_transaction"}},
	{name: "Delete", table: "c17_mains", reduced: []int{0, 3, 5},
		builtins: []string{"gorm:begin_transaction", "gorm:before_delete", "gorm:delete_before_associations", "gorm:delete",
			"gorm:after_delete", "gorm:commit_or_rollback_transaction"}},
	{name: "Row", table: "c17_mains", reduced: []int{0}, builtins: []string{"gorm:row"}},
	{name: "Raw", table: "", reduced: []int{0}, builtins: []string{"gorm:raw"}},
}

func (p *pipeline) nameOf(id int) string {
	switch {
	case id == idStar:
		return "*"
	case id == idNX:
		return "nx"
	case id >= userBase:
		return fmt.Sprintf("u%d", id-userBase+1)
	}
	return p.builtins[id]
}

func (p *pipeline) full() []int {
	out := make([]int, len(p.builtins))
	for i := range out {
		out[i] = i
	}
	return out
}

// step is one registration call.
type step struct {
	Op   uint8
	Name uint8
	Bef  uint8 // none or a name id
	Aft  uint8
}

func (p *pipeline) stepDesc(i int, s step) string {
	q := func(id uint8) string { return fmt.Sprintf("%q", p.nameOf(int(id))) }
	pre := "db.Callback()." + p.name + "()"
	switch {
	case s.Bef != none && s.Aft != none && afterFirst(i, s):
		pre += ".After(" + q(s.Aft) + ").Before(" + q(s.Bef) + ")"
	default:
		if s.Bef != none {
			pre += ".Before(" + q(s.Bef) + ")"
		}
		if s.Aft != none {
			pre += ".After(" + q(s.Aft) + ")"
		}
	}
	switch s.Op {
	case opReplace:
		return fmt.Sprintf("%s.Replace(%s, stub%d)", pre, q(s.Name), i)
	case opRemove:
		return fmt.Sprintf("%s.Remove(%s)", pre, q(s.Name))
	}
	return fmt.Sprintf("%s.Register(%s, stub%d)", pre, q(s.Name), i)
}

// afterFirst: with both requests given, in which order the chain methods are called (it must not
// matter); fixed by the step so that every enumerated sequence has one literal form.
func afterFirst(i int, s step) bool {
	return (i+int(s.Name)+int(s.Bef)+int(s.Aft))%2 == 1
}

func (p *pipeline) seqDesc(seq []step) []string {
	out := make([]string, len(seq))
	for i, s := range seq {
		out[i] = p.stepDesc(i, s)
	}
	return out
}

// ---- enumeration of the bounded space ----------------------------------------

// enumState is what decides which calls are available next: how many user names were
// introduced (names are canonical: the k-th new name is u<k>) and which of them exist.
type enumState struct {
	k    int
	live uint8
}

// opsAt lists, in canonical order, every call of the bounded space available in state st.
//
//	Register name : the next fresh user name, or a user name introduced earlier - removed since,
//	                or still existing (a second entry under that name; with single, such a call
//	                carries at most one request)
//	targets       : {none} + built-ins of the alphabet + user names introduced so far (not
//	                the name itself) + the next name that will be introduced (forward
//	                reference; stays unknown when no later call introduces it) + "*"
//	Replace/Remove: built-ins of the alphabet + user names introduced so far + unknown "nx"
func opsAt(st enumState, alpha []int, single bool) []step {
	var out []step
	regNames := []int{userBase + st.k}
	for i := 0; i < st.k; i++ {
		regNames = append(regNames, userBase+i)
	}
	for _, n := range regNames {
		tg := []int{none}
		tg = append(tg, alpha...)
		for i := 0; i < st.k; i++ {
			if userBase+i != n {
				tg = append(tg, userBase+i)
			}
		}
		fwd := userBase + st.k
		if n == fwd {
			fwd++
		}
		tg = append(tg, fwd, idStar)
		dup := n < userBase+st.k && st.live&(1<<uint(n-userBase)) != 0
		for _, b := range tg {
			for _, a := range tg {
				if dup && single && b != none && a != none {
					continue
				}
				out = append(out, step{Op: opRegister, Name: uint8(n), Bef: uint8(b), Aft: uint8(a)})
			}
		}
	}
	var rr []int
	rr = append(rr, alpha...)
	for i := 0; i < st.k; i++ {
		rr = append(rr, userBase+i)
	}
	rr = append(rr, idNX)
	for _, n := range rr {
		out = append(out, step{Op: opReplace, Name: uint8(n), Bef: none, Aft: none})
	}
	for _, n := range rr {
		out = append(out, step{Op: opRemove, Name: uint8(n), Bef: none, Aft: none})
	}
	return out
}

func (st enumState) next(s step) enumState {
	n := int(s.Name)
	if n < userBase || n >= idNX {
		return st
	}
	i := n - userBase
	switch s.Op {
	case opRegister:
		if i == st.k {
			st.k++
		}
		st.live |= 1 << uint(i)
	case opReplace:
		st.live |= 1 << uint(i)
	case opRemove:
		st.live &^= 1 << uint(i)
	}
	return st
}

type cntKey struct {
	na     int // size of the built-in alphabet
	st     enumState
	left   int
	single bool
}

var cntMemo = map[cntKey]int{}

// count = number of sequences of exactly `left` further calls from st.
func count(st enumState, alpha []int, left int, single bool) int {
	if left == 0 {
		return 1
	}
	k := cntKey{len(alpha), st, left, single}
	if v, ok := cntMemo[k]; ok {
		return v
	}
	n := 0
	for _, s := range opsAt(st, alpha, single) {
		n += count(st.next(s), alpha, left-1, single)
	}
	cntMemo[k] = n
	return n
}

func decode(alpha []int, length, idx int, single bool) []step {
	st := enumState{}
	seq := make([]step, 0, length)
	for left := length; left > 0; left-- {
		for _, s := range opsAt(st, alpha, single) {
			sz := count(st.next(s), alpha, left-1, single)
			if idx < sz {
				seq = append(seq, s)
				st = st.next(s)
				break
			}
			idx -= sz
		}
	}
	return seq
}

type block struct {
	pl, length int
	alpha      []int
	size       int
	move       bool // the "move a callback" family instead of the plain enumeration
	multi      bool // the "second entry under an existing name" family
	pos        bool // the "built-in given a second entry that carries a request" family
}

// moveSeq enumerates the family "register u1 and u2, remove one of them, register it
// again with other constraints" (150 sequences of length 4 per pipeline):
//
//	u1: plain | Before(u2) | After(u2)
//	u2: plain | Before(u1) | After(u1) | Before(main built-in) | After(main built-in)
//	removed and registered again: u1 | u2
//	new constraints: plain | Before(other) | After(other) | Before(main) | After(main)
const moveCount = 3 * 5 * 2 * 5

func moveSeq(p *pipeline, idx int) []step {
	mainB := p.reduced[len(p.reduced)/2]
	u1, u2 := userBase, userBase+1
	con := func(k, other int) (uint8, uint8) {
		switch k {
		case 1:
			return uint8(other), none
		case 2:
			return none, uint8(other)
		case 3:
			return uint8(mainB), none
		case 4:
			return none, uint8(mainB)
		}
		return none, none
	}
	c1 := idx % 3
	idx /= 3
	c2 := idx % 5
	idx /= 5
	which := idx % 2
	idx /= 2
	c3 := idx % 5
	s1 := step{Op: opRegister, Name: uint8(u1)}
	s1.Bef, s1.Aft = con(c1, u2)
	s2 := step{Op: opRegister, Name: uint8(u2)}
	s2.Bef, s2.Aft = con(c2, u1)
	x, y := u1, u2
	if which == 1 {
		x, y = u2, u1
	}
	s3 := step{Op: opRemove, Name: uint8(x), Bef: none, Aft: none}
	s4 := step{Op: opRegister, Name: uint8(x)}
	s4.Bef, s4.Aft = con(c3, y)
	return []step{s1, s2, s3, s4}
}

// multiSeq enumerates the family "a name x that exists is given a second entry, then a call is
// made on x" (sequences of length 3..6, 2 376 per pipeline). x is a user callback (u1, with a
// neighbour u2 registered after it) or the main built-in of the pipeline (neighbour u1).
//
//	x = u1 first registered: plain | Before(main) | After(main) | Before("*") | After("*")
//	neighbour y            : plain | Before(x) | After(x)
//	second entry for x     : Register | Before(b).Register | After(b).Register | Before(y).Register |
//	                         After(y).Register | After("*").Register | Before(b).Replace |
//	                         After(b).Replace | After(y).Replace | Before("*").Replace |
//	                         Before(b).After(y).Register | Before(y).Replace
//	                         (b = main built-in; for x = main built-in: the first built-in, or nothing
//	                         when the pipeline has one built-in only)
//	then                   : nothing | Remove(x) | Remove(x), Register(x) | Remove(x), After(y).Register(x) |
//	                         Replace(x) | Replace(x), Remove(x) | Before(y).Remove(x) |
//	                         Register(x) (third entry), Remove(x) | After(y).Register(x) (third entry) |
//	                         Before(b).Register(x) (third entry) | After(x).Register(u3) (a new callback
//	                         that names x)
//
// A second (third) entry that carries a request is made both where the position x already has
// satisfies the request and where it does not: the call has to return an error or x has to move.
const (
	multiSecond = 12
	multiTail   = 11
	multiUser   = 5 * 3 * multiSecond * multiTail
	multiBuilt  = 3 * multiSecond * multiTail
	multiCount  = multiUser + multiBuilt
)

func multiSeq(p *pipeline, idx int) []step {
	mainB := p.reduced[len(p.reduced)/2]
	x, y, b := userBase, userBase+1, mainB
	var seq []step
	reg := func(op, name, bef, aft int) {
		seq = append(seq, step{Op: uint8(op), Name: uint8(name), Bef: uint8(bef), Aft: uint8(aft)})
	}
	if idx < multiUser {
		c1 := idx % 5
		idx /= 5
		switch c1 {
		case 0:
			reg(opRegister, x, none, none)
		case 1:
			reg(opRegister, x, mainB, none)
		case 2:
			reg(opRegister, x, none, mainB)
		case 3:
			reg(opRegister, x, idStar, none)
		case 4:
			reg(opRegister, x, none, idStar)
		}
	} else {
		idx -= multiUser
		x, y, b = mainB, userBase, none
		if p.reduced[0] != mainB {
			b = p.reduced[0]
		}
	}
	c2 := idx % 3
	idx /= 3
	switch c2 {
	case 0:
		reg(opRegister, y, none, none)
	case 1:
		reg(opRegister, y, x, none)
	case 2:
		reg(opRegister, y, none, x)
	}
	c3 := idx % multiSecond
	idx /= multiSecond
	switch c3 {
	case 0:
		reg(opRegister, x, none, none)
	case 1:
		reg(opRegister, x, b, none)
	case 2:
		reg(opRegister, x, none, b)
	case 3:
		reg(opRegister, x, y, none)
	case 4:
		reg(opRegister, x, none, y)
	case 5:
		reg(opRegister, x, none, idStar)
	case 6:
		reg(opReplace, x, b, none)
	case 7:
		reg(opReplace, x, none, b)
	case 8:
		reg(opReplace, x, none, y)
	case 9:
		reg(opReplace, x, idStar, none)
	case 10:
		reg(opRegister, x, b, y)
	case 11:
		reg(opReplace, x, y, none)
	}
	switch idx % multiTail {
	case 1:
		reg(opRemove, x, none, none)
	case 2:
		reg(opRemove, x, none, none)
		reg(opRegister, x, none, none)
	case 3:
		reg(opRemove, x, none, none)
		reg(opRegister, x, none, y)
	case 4:
		reg(opReplace, x, none, none)
	case 5:
		reg(opReplace, x, none, none)
		reg(opRemove, x, none, none)
	case 6:
		reg(opRemove, x, y, none)
	case 7:
		reg(opRegister, x, none, none)
		reg(opRemove, x, none, none)
	case 8:
		reg(opRegister, x, none, y)
	case 9:
		reg(opRegister, x, b, none)
	case 10:
		reg(opRegister, userBase+2, none, x)
	}
	return seq
}

// posSeq enumerates the family "a BUILT-IN x is given a second entry that carries a request", over
// the full built-in alphabet of the pipeline (n built-ins: 16*n*(n+1) sequences of length 2..3):
//
//	first : Register(u1)                       (a user callback to name and to be named)
//	call  : Before(t).Replace(x) | After(t).Replace(x) | Before(t).Register(x) | After(t).Register(x)
//	x     : every built-in;  t : every other built-in, u1, "*"
//	then  : nothing | Remove(x) | Replace(x) | After(x).Register(u2)
//
// The call returns an error (the request contradicts the position x has) or nil: then the handler it
// handed over is the one that fires as x, once, and the replaced one does not.
func posCount(p *pipeline) int { n := len(p.builtins); return 16 * n * (n + 1) }

func posSeq(p *pipeline, idx int) []step {
	n := len(p.builtins)
	u1, u2 := userBase, userBase+1
	tail := idx % 4
	idx /= 4
	form := idx % 4
	idx /= 4
	ti := idx % (n + 1)
	x := idx / (n + 1)
	var tg []int
	for b := 0; b < n; b++ {
		if b != x {
			tg = append(tg, b)
		}
	}
	tg = append(tg, u1, idStar)
	t := tg[ti]
	seq := []step{{Op: opRegister, Name: uint8(u1), Bef: none, Aft: none}}
	s := step{Op: opReplace, Name: uint8(x), Bef: none, Aft: none}
	if form >= 2 {
		s.Op = opRegister
	}
	if form%2 == 0 {
		s.Bef = uint8(t)
	} else {
		s.Aft = uint8(t)
	}
	seq = append(seq, s)
	switch tail {
	case 1:
		seq = append(seq, step{Op: opRemove, Name: uint8(x), Bef: none, Aft: none})
	case 2:
		seq = append(seq, step{Op: opReplace, Name: uint8(x), Bef: none, Aft: none})
	case 3:
		seq = append(seq, step{Op: opRegister, Name: uint8(u2), Bef: none, Aft: uint8(x)})
	}
	return seq
}

// againSeq enumerates the family "a BUILT-IN x is registered again WITHOUT any request" (the way a plugin
// overrides a built-in: db.Callback().Create().Register("gorm:create", fn)), over the full built-in alphabet
// of the pipeline (n built-ins: 32*n + 2 sequences of length 1..n):
//
//	first : nothing | Register(u1) | Before(x).Register(u1) | After(x).Register(u1)
//	call  : Register(x)
//	then  : nothing | Register(x) (a third entry) | Replace(x) | Register(u2) | After(x).Register(u2) |
//	        Before(x).Register(u2) | Remove(y) | Replace(y)        (y = the built-in next to x: the following
//	        one, the preceding one for the last; nothing when x is the only built-in)
//	and   : every built-in of the pipeline registered again, in their own order | in reverse order
//
// No call carries a request that could ask x to move: x has to fire where the built-in stood.
func againCount(p *pipeline) int { return 32*len(p.builtins) + 2 }

func againSeq(p *pipeline, idx int) []step {
	n := len(p.builtins)
	u1, u2 := userBase, userBase+1
	var seq []step
	reg := func(op, name, bef, aft int) {
		seq = append(seq, step{Op: uint8(op), Name: uint8(name), Bef: uint8(bef), Aft: uint8(aft)})
	}
	if idx >= 32*n {
		for i := 0; i < n; i++ {
			if idx == 32*n {
				reg(opRegister, i, none, none)
			} else {
				reg(opRegister, n-1-i, none, none)
			}
		}
		return seq
	}
	tail := idx % 8
	idx /= 8
	first := idx % 4
	x := idx / 4
	y := x + 1
	if y == n {
		y = x - 1
	}
	switch first {
	case 1:
		reg(opRegister, u1, none, none)
	case 2:
		reg(opRegister, u1, x, none)
	case 3:
		reg(opRegister, u1, none, x)
	}
	reg(opRegister, x, none, none)
	switch tail {
	case 1:
		reg(opRegister, x, none, none)
	case 2:
		reg(opReplace, x, none, none)
	case 3:
		reg(opRegister, u2, none, none)
	case 4:
		reg(opRegister, u2, none, x)
	case 5:
		reg(opRegister, u2, x, none)
	case 6:
		if y >= 0 {
			reg(opRemove, y, none, none)
		}
	case 7:
		if y >= 0 {
			reg(opReplace, y, none, none)
		}
	}
	return seq
}

var blockCache = map[string][]block{}

func blocks(tier string) []block {
	if b, ok := blockCache[tier]; ok {
		return b
	}
	var out []block
	maxLen := 2
	if tier == "thorough" {
		maxLen = 3
	}
	for pl := range pipelines {
		p := &pipelines[pl]
		for l := 0; l <= maxLen; l++ {
			alpha := p.full()
			if l >= 3 {
				alpha = p.reduced
			}
			out = append(out, block{pl: pl, length: l, alpha: alpha, size: count(enumState{}, alpha, l, true)})
		}
		out = append(out, block{pl: pl, length: 4, size: moveCount, move: true})
		out = append(out, block{pl: pl, length: 5, size: multiCount, multi: true})
		out = append(out, block{pl: pl, length: 3, size: posCount(p), pos: true})
	}
	blockCache[tier] = out
	return out
}

func exhaustiveCases(tier string) int {
	n := 0
	for _, b := range blocks(tier) {
		n += b.size
	}
	return n
}

// againCases: the "built-in registered again without a request" family of every pipeline. Its cases are
// numbered behind the random ones, so that the cases of the older families keep their numbers (and seeds).
func againCases() int {
	n := 0
	for pl := range pipelines {
		n += againCount(&pipelines[pl])
	}
	return n
}

func randomCases(tier string) int {
	if tier == "thorough" {
		return 300000
	}
	return 5000
}

// ---- random sequences ----------------------------------------------------------

const poolSize = 5

func randomSeq(r *core.Rand, p *pipeline) []step {
	n := r.Range(3, 8)
	live := map[int]bool{}
	gone := map[int]bool{} // built-ins that a Remove hit (not registered again under that name)
	introduced := []int{}
	seq := make([]step, 0, n)
	target := func(self int) uint8 {
		for {
			var t int
			switch x := r.Intn(100); {
			case x < 40:
				t = r.Intn(len(p.builtins))
			case x < 80:
				t = userBase + r.Intn(poolSize)
			case x < 85:
				t = idNX
			default:
				t = idStar
			}
			if t != self {
				return uint8(t)
			}
		}
	}
	for len(seq) < n {
		x := r.Intn(100)
		var free []int
		for i := 0; i < poolSize; i++ {
			if !live[userBase+i] {
				free = append(free, userBase+i)
			}
		}
		if x >= 88 && len(introduced) > 0 && len(seq)+2 <= n {
			// "move" a callback: remove it and register it again with new constraints
			var liveUsers []int
			for _, u := range introduced {
				if live[u] {
					liveUsers = append(liveUsers, u)
				}
			}
			if len(liveUsers) > 0 {
				name := core.Pick(r, liveUsers)
				seq = append(seq, step{Op: opRemove, Name: uint8(name), Bef: none, Aft: none})
				s := step{Op: opRegister, Name: uint8(name), Bef: none, Aft: none}
				switch r.Intn(3) {
				case 0:
					s.Bef = target(name)
				case 1:
					s.Aft = target(name)
				default:
					s.Bef, s.Aft = target(name), target(name)
				}
				seq = append(seq, s)
				continue
			}
		}
		if r.Chance(3, 25) {
			// a second entry under a name that exists: Register of that name, or a Replace that
			// carries requests (gorm keeps both as entries of their own)
			var cand []int
			for _, u := range introduced {
				if live[u] {
					cand = append(cand, u)
				}
			}
			if len(cand) == 0 || r.Chance(1, 4) {
				for b := range p.builtins {
					if !gone[b] {
						cand = append(cand, b)
					}
				}
			}
			if len(cand) > 0 {
				name := core.Pick(r, cand)
				s := step{Op: opRegister, Name: uint8(name), Bef: none, Aft: none}
				switch y := r.Intn(100); {
				case y < 30:
				case y < 50:
					s.Bef = target(name)
				case y < 70:
					s.Aft = target(name)
				case y < 75:
					s.Bef, s.Aft = target(name), target(name)
				case y < 87:
					s.Op, s.Bef = opReplace, target(name)
				default:
					s.Op, s.Aft = opReplace, target(name)
				}
				seq = append(seq, s)
				continue
			}
		}
		if x < 65 && len(free) > 0 {
			name := core.Pick(r, free)
			s := step{Op: opRegister, Name: uint8(name), Bef: none, Aft: none}
			switch y := r.Intn(65); {
			case y < 12:
			case y < 33:
				s.Bef = target(name)
			case y < 54:
				s.Aft = target(name)
			default:
				s.Bef, s.Aft = target(name), target(name)
			}
			seq = append(seq, s)
			live[name] = true
			introduced = append(introduced, name)
			continue
		}
		var t int
		switch y := r.Intn(100); {
		case y < 35 || len(introduced) == 0 && y < 90:
			t = r.Intn(len(p.builtins))
		case y < 90:
			t = core.Pick(r, introduced)
		default:
			t = idNX
		}
		if x < 80 {
			seq = append(seq, step{Op: opReplace, Name: uint8(t), Bef: none, Aft: none})
			if t >= userBase && t < idNX {
				live[t] = true
			}
		} else {
			s := step{Op: opRemove, Name: uint8(t), Bef: none, Aft: none}
			if r.Chance(1, 6) {
				// the requests of a Remove call mean nothing: the callback is removed all the same
				if r.Bool() {
					s.Bef = target(t)
				} else {
					s.Aft = target(t)
				}
			}
			seq = append(seq, s)
			delete(live, t)
			if t < userBase {
				gone[t] = true
			}
		}
	}
	return seq
}

// ---- reference model of the statement --------------------------------------------

type nameState struct {
	live     bool
	weak     bool // exists only through a Replace of a name that did not exist: unspecified
	handler  int  // index of the step that registered the newest handler (-1 = built-in)
	bef, aft int  // constraints of the registration that created it
	replaced bool // a plain Replace hit it while it existed (position must be kept)
	// multi: the name was given a second entry while it existed (Register of an existing name, or a
	// Replace carrying Before/After). The statement fixes neither which of the handlers runs nor
	// where; it still fixes that some handler of the name runs, none of them more than once, that
	// the handler of a later plain Replace runs (mustLast) and that none runs after a Remove.
	multi     bool
	mustLast  bool  // the newest handler is the one that has to fire
	pastNamed bool  // the name had an earlier life (ended by Remove) in which a call registering it carried a named request
	namedBy   bool  // a Register/Replace call of another callback (live or removed since) names it in Before/After
	alts      []int // multi: the older handlers, still acceptable
	// multi: the requests carried by the call that made the NEWEST entry of the name (a Register under
	// the existing name, or a Replace carrying Before/After). Whatever becomes of the older entries,
	// this call asked for a side and returned nil: the handler of the name that fires has to be there.
	lastBef, lastAft int
	lastReplace      bool // that call was a Replace
	// olderNamed: a Register/Replace call under this name made BEFORE that call (in this or an earlier
	// life of the name) carried a named request. Together with namedBy this is the structural
	// precondition of the sorter's known rewriting of stored requests (cs[idx].before/after = c.name
	// lands on the newest entry of the name it hits).
	olderNamed bool
	// curBef / curAft: the requests of the newest entry of the name (of the registration that created it
	// while it has one entry). olderStarB / olderStarA: an OLDER entry of this life carries Before("*") /
	// After("*"). olderStar() is the structural precondition under which gorm's pre-sort of the registry
	// ("*" entries are moved behind the others) puts an older entry of the name behind the newest one.
	curBef, curAft         int
	olderStarB, olderStarA bool
	dead                   []int // handlers that belonged to the name when a Remove hit it (this and earlier lives)
	// entryReq: some call that made an entry under the name in this life (the first registration, a Register
	// under the existing name, a Replace carrying a request) carried a Before/After request. entries = number
	// of entries the name was given in this life.
	entryReq     bool
	entries      int
	removedMulti bool // the Remove that ended the current/last life hit a multi name
}

func has(l []int, v int) bool {
	for _, x := range l {
		if x == v {
			return true
		}
	}
	return false
}

// olderStar: an older entry of the name carries a "*" request on a side where the newest entry carries none.
func (ns *nameState) olderStar() bool {
	return ns.olderStarB && ns.curBef != idStar || ns.olderStarA && ns.curAft != idStar
}

// second files the requests of a new entry made under a name that exists.
func (ns *nameState) second(bef, aft int) {
	if ns.curBef == idStar {
		ns.olderStarB = true
	}
	if ns.curAft == idStar {
		ns.olderStarA = true
	}
	ns.curBef, ns.curAft = bef, aft
}

// unspec: the statement does not say where this callback has to be.
func (ns *nameState) unspec() bool { return ns.weak || ns.multi }

func model(p *pipeline, seq []step) map[int]*nameState {
	m := map[int]*nameState{}
	for i := range p.builtins {
		m[i] = &nameState{live: true, handler: -1, bef: none, aft: none, curBef: none, curAft: none, mustLast: true, entries: 1}
	}
	everNamed := map[int]bool{} // names whose Register/Replace calls so far carried a named (not "*") request
	fresh := func(n int, ns *nameState) {
		if old := m[n]; old != nil {
			ns.dead = old.dead
			ns.pastNamed = everNamed[n]
		}
		m[n] = ns
	}
	for i, s := range seq {
		n := int(s.Name)
		plain := s.Bef == none && s.Aft == none
		switch s.Op {
		case opRegister:
			if ns := m[n]; ns != nil && ns.live {
				// a second entry under a name that exists
				ns.alts = append(ns.alts, ns.handler)
				ns.handler, ns.multi, ns.mustLast = i, true, false
				ns.lastBef, ns.lastAft, ns.lastReplace, ns.olderNamed = int(s.Bef), int(s.Aft), false, everNamed[n]
				ns.second(int(s.Bef), int(s.Aft))
				ns.entries++
				ns.entryReq = ns.entryReq || !plain
			} else {
				// (a built-in name that was removed and is registered anew is no built-in any more: unspecified)
				fresh(n, &nameState{live: true, weak: n < userBase, handler: i, bef: int(s.Bef), aft: int(s.Aft), curBef: int(s.Bef), curAft: int(s.Aft), mustLast: true, entries: 1, entryReq: !plain})
			}
		case opReplace:
			if ns := m[n]; ns != nil && ns.live {
				if plain {
					if ns.multi {
						ns.alts = append(ns.alts, ns.handler)
					}
					ns.handler, ns.replaced, ns.mustLast = i, true, true
				} else {
					ns.alts = append(ns.alts, ns.handler)
					ns.handler, ns.multi, ns.mustLast = i, true, false
					ns.lastBef, ns.lastAft, ns.lastReplace, ns.olderNamed = int(s.Bef), int(s.Aft), true, everNamed[n]
					ns.second(int(s.Bef), int(s.Aft))
					ns.entries++
					ns.entryReq = true
				}
			} else {
				fresh(n, &nameState{live: true, weak: true, handler: i, bef: none, aft: none, curBef: none, curAft: none, mustLast: true})
			}
		case opRemove:
			if ns := m[n]; ns != nil && ns.live {
				ns.live = false
				ns.removedMulti = ns.multi
				ns.dead = append(append(ns.dead, ns.handler), ns.alts...)
			}
		}
		if s.Op != opRemove && (s.Bef != none && s.Bef != idStar || s.Aft != none && s.Aft != idStar) {
			everNamed[n] = true
		}
	}
	for _, s := range seq {
		if s.Op == opRemove {
			continue
		}
		for _, t := range []int{int(s.Bef), int(s.Aft)} {
			if ns := m[t]; ns != nil && t != int(s.Name) {
				ns.namedBy = true
			}
		}
	}
	return m
}

// ---- observation ---------------------------------------------------------------

type Par struct {
	ID   int64 `gorm:"primaryKey"`
	Name string
}

func (Par) TableName() string { return "c17_pars" }

type Kid struct {
	ID     int64 `gorm:"primaryKey"`
	Name   string
	MainID int64
}

func (Kid) TableName() string { return "c17_kids" }

type Main struct {
	ID    int64 `gorm:"primaryKey"`
	Name  string
	ParID *int64
	Par   *Par  `gorm:"foreignKey:ParID"`
	Kids  []Kid `gorm:"foreignKey:MainID"`
}

func (Main) TableName() string { return "c17_mains" }

type ev struct {
	name    int
	handler int
	table   string
}

type recorder struct {
	evs     []ev
	hookMap map[string]int // model hook -> built-in id (mode A)
	table   string         // Statement.Table of the executed operation (effects are filed under it)
}

// cur is the recorder of the pipeline execution in progress (children are single-threaded).
var cur *recorder

func hook(name string) {
	if cur == nil || cur.hookMap == nil {
		return
	}
	if id, ok := cur.hookMap[name]; ok {
		cur.evs = append(cur.evs, ev{name: id, handler: -1, table: cur.table})
	}
}

func (m *Main) BeforeCreate(*gorm.DB) error { hook("BeforeCreate"); return nil }
func (m *Main) AfterCreate(*gorm.DB) error  { hook("AfterCreate"); return nil }
func (m *Main) BeforeUpdate(*gorm.DB) error { hook("BeforeUpdate"); return nil }
func (m *Main) AfterUpdate(*gorm.DB) error  { hook("AfterUpdate"); return nil }
func (m *Main) BeforeDelete(*gorm.DB) error { hook("BeforeDelete"); return nil }
func (m *Main) AfterDelete(*gorm.DB) error  { hook("AfterDelete"); return nil }
func (m *Main) AfterFind(*gorm.DB) error    { hook("AfterFind"); return nil }

func stub(name, stepIdx int) func(*gorm.DB) {
	return func(db *gorm.DB) {
		if cur == nil {
			return
		}
		t := ""
		if db != nil && db.Statement != nil {
			t = db.Statement.Table
		}
		cur.evs = append(cur.evs, ev{name: name, handler: stepIdx, table: t})
	}
}

// effect maps a driver event / model hook of mode A to the built-in that causes it.
type effect struct {
	kind string // "begin", "end", "sql"
	pref string // statement prefix for "sql"
	id   int
}

var effects = [][]effect{
	{{"begin", "", 0}, {"sql", "INSERT INTO `c17_pars`", 2}, {"sql", "INSERT INTO `c17_mains`", 3}, {"sql", "INSERT INTO `c17_kids`", 4}, {"end", "", 6}},
	{{"sql", "SELECT * FROM `c17_mains`", 0}, {"sql", "SELECT * FROM `c17_kids`", 1}},
	{{"begin", "", 0}, {"sql", "INSERT INTO `c17_pars`", 3}, {"sql", "UPDATE `c17_mains`", 4}, {"sql", "INSERT INTO `c17_kids`", 5}, {"end", "", 7}},
	{{"begin", "", 0}, {"sql", "DELETE FROM `c17_kids`", 2}, {"sql", "DELETE FROM `c17_mains`", 3}, {"end", "", 5}},
	{{"sql", "SELECT `id` FROM `c17_mains`", 0}},
	{{"sql", "UPDATE c17_mains SET", 0}},
}

var hookMaps = []map[string]int{
	{"BeforeCreate": 1, "AfterCreate": 5},
	{"AfterFind": 2},
	{"BeforeUpdate": 2, "AfterUpdate": 6},
	{"BeforeDelete": 1, "AfterDelete": 4},
	nil,
	nil,
}

func driverHook(pl int) recdrv.Hook {
	effs := effects[pl]
	return func(e *recdrv.Event) error {
		if cur == nil {
			return nil
		}
		kind := ""
		switch e.Kind {
		case recdrv.KBegin:
			kind = "begin"
		case recdrv.KCommit, recdrv.KRollback:
			kind = "end"
		case recdrv.KExec, recdrv.KQuery:
			kind = "sql"
		default:
			return nil
		}
		for _, f := range effs {
			if f.kind == kind && (kind != "sql" || strings.HasPrefix(e.Query, f.pref)) {
				cur.evs = append(cur.evs, ev{name: f.id, handler: -1, table: cur.table})
				break
			}
		}
		return nil
	}
}

var ddl = []string{
	"CREATE TABLE c17_pars (id integer PRIMARY KEY AUTOINCREMENT, name text)",
	"CREATE TABLE c17_mains (id integer PRIMARY KEY AUTOINCREMENT, name text, par_id integer)",
	"CREATE TABLE c17_kids (id integer PRIMARY KEY AUTOINCREMENT, name text, main_id integer)",
	"INSERT INTO c17_pars(id,name) VALUES (1,'p1')",
	"INSERT INTO c17_mains(id,name,par_id) VALUES (1,'m1',1)",
	"INSERT INTO c17_kids(id,name,main_id) VALUES (1,'k1',1)",
}

func openHandle() *vdb.Handle {
	h, err := vdb.Open(vdb.Options{})
	if err != nil {
		panic(err)
	}
	for _, q := range ddl {
		if _, err := h.SQL.Exec(q); err != nil {
			panic(err)
		}
	}
	return h
}

// apply performs one registration call on the real registry.
func apply(db *gorm.DB, pl int, p *pipeline, i int, s step) error {
	pr := db.Callback().Create()
	switch pl {
	case 1:
		pr = db.Callback().Query()
	case 2:
		pr = db.Callback().Update()
	case 3:
		pr = db.Callback().Delete()
	case 4:
		pr = db.Callback().Row()
	case 5:
		pr = db.Callback().Raw()
	}
	name := p.nameOf(int(s.Name))
	fn := stub(int(s.Name), i)
	// the receiver of the call: the pipeline itself, or the object returned by Before / After
	var r registrar = pr
	switch {
	case s.Bef == none && s.Aft == none:
	case s.Aft == none:
		r = pr.Before(p.nameOf(int(s.Bef)))
	case s.Bef == none:
		r = pr.After(p.nameOf(int(s.Aft)))
	case afterFirst(i, s):
		r = pr.After(p.nameOf(int(s.Aft))).Before(p.nameOf(int(s.Bef)))
	default:
		r = pr.Before(p.nameOf(int(s.Bef))).After(p.nameOf(int(s.Aft)))
	}
	switch s.Op {
	case opReplace:
		return r.Replace(name, fn)
	case opRemove:
		return r.Remove(name)
	}
	return r.Register(name, fn)
}

// registrar is what the pipeline accessor and the Before/After builders have in common.
type registrar interface {
	Register(string, func(*gorm.DB)) error
	Replace(string, func(*gorm.DB)) error
	Remove(string) error
}

// wrapBuiltins (mode B) replaces every built-in by a recording wrapper around it.
func wrapBuiltins(db *gorm.DB, pl int, p *pipeline) error {
	for id, name := range p.builtins {
		var orig func(*gorm.DB)
		var rep func(string, func(*gorm.DB)) error
		switch pl {
		case 0:
			orig, rep = db.Callback().Create().Get(name), db.Callback().Create().Replace
		case 1:
			orig, rep = db.Callback().Query().Get(name), db.Callback().Query().Replace
		case 2:
			orig, rep = db.Callback().Update().Get(name), db.Callback().Update().Replace
		case 3:
			orig, rep = db.Callback().Delete().Get(name), db.Callback().Delete().Replace
		case 4:
			orig, rep = db.Callback().Row().Get(name), db.Callback().Row().Replace
		default:
			orig, rep = db.Callback().Raw().Get(name), db.Callback().Raw().Replace
		}
		if orig == nil {
			return fmt.Errorf("built-in %s not found by Get", name)
		}
		rec := stub(id, -1)
		if err := rep(name, func(d *gorm.DB) { rec(d); orig(d) }); err != nil {
			return fmt.Errorf("wrapping %s: %v", name, err)
		}
	}
	return nil
}

// ---- how the pipeline is entered ------------------------------------------------------
//
// The statement quantifies over registration sequences, but "the pipeline runs every registered,
// non-removed callback exactly once" speaks of ANY run of the pipeline: of a healthy statement, of
// one that reaches the callbacks with an error already attached (AddError in the chain, a failing
// scope, a model/destination that Statement.Parse rejects, a nil pointer, a handle that failed
// earlier), of one whose SQL fails half-way, of a second run on the same registry, and of a run
// through another kind of session. After the healthy execution every case therefore executes the
// pipeline again, once per entry below, on the same handle.

const (
	destNormal     = iota
	destUnparsable // a *int: Statement.Parse fails (unsupported data type, no table)
	destNilPtr     // a nil *Main: the schema parses, Statement.ReflectValue is invalid (ErrInvalidValue)
)

var errBoom = errors.New("c17: error attached to the statement before the pipeline runs")

// entry is one way of reaching processor.Execute.
type entry struct {
	name  string // literal form, %s = the operation
	group string // suffix of the violation signature ("" = the healthy base execution)
	// failed: the statement carries an error before the first callback runs. The built-ins are then
	// no-ops (no driver event, no model hook), so mode A sees the stubs only.
	failed bool
	onlyB  bool
	dest   int
	prep   func(h *vdb.Handle, caseNo int) (*gorm.DB, func())
}

func failingScope(tx *gorm.DB) *gorm.DB {
	tx.AddError(errBoom)
	return tx
}

var entries = []entry{
	{name: "db.%s"},
	{name: "db.%s (the same operation a second time on the same handle)", group: "repeat"},
	{name: "tx := db.Session(&gorm.Session{}); tx.AddError(err); tx.%s", group: "failed-statement", failed: true,
		prep: func(h *vdb.Handle, _ int) (*gorm.DB, func()) {
			tx := h.DB.Session(&gorm.Session{})
			tx.AddError(errBoom)
			return tx, nil
		}},
	{name: "db.Scopes(func(tx *gorm.DB) *gorm.DB { tx.AddError(err); return tx }).%s", group: "failed-statement", failed: true,
		prep: func(h *vdb.Handle, _ int) (*gorm.DB, func()) {
			return h.DB.Session(&gorm.Session{}).Scopes(failingScope), nil
		}},
	{name: "db.%s (n is an int: Statement.Parse rejects it)", group: "failed-statement", failed: true, dest: destUnparsable},
	{name: "db.%s (nilMain is a nil *Main: ErrInvalidValue)", group: "failed-statement", failed: true, dest: destNilPtr},
	{name: "tx := db.Begin() /* the driver fails the begin: tx.Error is set */; tx.%s", group: "failed-statement", failed: true, onlyB: true,
		prep: func(h *vdb.Handle, _ int) (*gorm.DB, func()) {
			var n int64
			h.Rec.SetHook(recdrv.FailNth(1, &recdrv.ErrInjected{At: "begin"}, &n))
			tx := h.DB.Begin()
			h.Rec.SetHook(nil)
			if tx.Error == nil { // (not expected; leave nothing open)
				return tx, func() { tx.Rollback() }
			}
			return tx, nil
		}},
	{name: "db.%s with the driver failing the (1 + case mod 3)-th call it receives (begin / statement / commit)", group: "driver-fault", onlyB: true,
		prep: func(h *vdb.Handle, caseNo int) (*gorm.DB, func()) {
			var n int64
			h.Rec.SetHook(recdrv.FailNth(1+caseNo%3, &recdrv.ErrInjected{At: "call"}, &n))
			return h.DB.Session(&gorm.Session{}), func() { h.Rec.SetHook(nil) }
		}},
	{name: "db.Session(&gorm.Session{DryRun: true}).%s", group: "session", onlyB: true,
		prep: func(h *vdb.Handle, _ int) (*gorm.DB, func()) {
			return h.DB.Session(&gorm.Session{DryRun: true}), nil
		}},
	{name: "tx := db.Begin(); tx.%s; tx.Rollback()", group: "session", onlyB: true,
		prep: func(h *vdb.Handle, _ int) (*gorm.DB, func()) {
			tx := h.DB.Begin()
			return tx, func() { tx.Rollback() }
		}},
}

// applies: which entries exist for a pipeline (Exec carries its own SQL: an unparsable model is
// not an error there).
func (e *entry) applies(pl int, modeB bool) bool {
	if e.onlyB && !modeB {
		return false
	}
	return !(e.dest == destUnparsable && pl == 5)
}

// table = Statement.Table of the execution (what the stubs file their events under).
func (e *entry) table(pl int) string {
	switch e.dest {
	case destUnparsable:
		return ""
	case destNilPtr:
		return "c17_mains"
	}
	return pipelines[pl].table
}

var opText = [][3]string{
	{`Create(&Main{Name: "m", Par: &Par{Name: "p"}, Kids: []Kid{{Name: "k"}}})`, `Create(&n)`, `Create(nilMain)`},
	{`Preload("Kids").Find(&mains)`, `Preload("Kids").Find(&n)`, `Find(nilMains)`},
	{`Model(&Main{ID: 1, ParID: &one, Par: &Par{Name: "p2"}, Kids: []Kid{{Name: "k2"}}}).Updates(map[string]interface{}{"name": "n2"})`,
		`Model(&n).Updates(map[string]interface{}{"name": "n2"})`, `Updates(nilMain)`},
	{`Select("Kids").Delete(&Main{ID: 1})`, `Delete(&n)`, `Delete(nilMain)`},
	{`Model(&Main{}).Select("id").Rows()`, `Model(&n).Select("id").Rows()`, `Model(nilMain).Select("id").Rows()`},
	{`Exec("UPDATE c17_mains SET name = name WHERE id = ?", 1)`, ``, `Model(nilMain).Exec("UPDATE c17_mains SET name = name WHERE id = ?", 1)`},
}

func (e *entry) desc(pl int) string { return fmt.Sprintf(e.name, opText[pl][e.dest]) }

// execute runs the pipeline's operation once.
func execute(db *gorm.DB, pl int, realRow bool, dest int) {
	one := int64(1)
	var n int
	var nilMain *Main
	rowsOf := func(tx *gorm.DB) {
		if rows, err := tx.Select("id").Rows(); err == nil && rows != nil {
			rows.Close()
		}
	}
	switch pl {
	case 0:
		switch dest {
		case destUnparsable:
			db.Create(&n)
		case destNilPtr:
			db.Create(nilMain)
		default:
			db.Create(&Main{Name: "m", Par: &Par{Name: "p"}, Kids: []Kid{{Name: "k"}}})
		}
	case 1:
		switch dest {
		case destUnparsable:
			db.Preload("Kids").Find(&n)
		case destNilPtr:
			var nilMains *[]Main
			db.Find(nilMains)
		default:
			var ms []Main
			db.Preload("Kids").Find(&ms)
		}
	case 2:
		switch dest {
		case destUnparsable:
			db.Model(&n).Updates(map[string]interface{}{"name": "n2"})
		case destNilPtr:
			db.Updates(nilMain)
		default:
			m := Main{ID: 1, ParID: &one, Par: &Par{Name: "p2"}, Kids: []Kid{{Name: "k2"}}}
			db.Model(&m).Updates(map[string]interface{}{"name": "n2"})
		}
	case 3:
		switch dest {
		case destUnparsable:
			db.Delete(&n)
		case destNilPtr:
			db.Delete(nilMain)
		default:
			db.Select("Kids").Delete(&Main{ID: 1})
		}
	case 4:
		// Rows() tolerates a pipeline whose gorm:row was replaced by a stub (and a statement that
		// failed); Row() is only scanned when the sequence left the built-in in place.
		switch {
		case dest == destUnparsable:
			rowsOf(db.Model(&n))
		case dest == destNilPtr:
			rowsOf(db.Model(nilMain))
		case realRow:
			var id int64
			db.Model(&Main{}).Select("id").Row().Scan(&id)
		default:
			rowsOf(db.Model(&Main{}))
		}
	case 5:
		if dest == destNilPtr {
			db.Model(nilMain).Exec("UPDATE c17_mains SET name = name WHERE id = ?", 1)
		} else {
			db.Exec("UPDATE c17_mains SET name = name WHERE id = ?", 1)
		}
	}
}

// execution is what one run of the pipeline fired.
type execution struct {
	entry *entry
	table string
	evs   []ev
}

type outcome struct {
	errStep int // index of the call that returned an error, -1 if none
	err     error
	evs     []ev        // the healthy base execution
	runs    []execution // every execution, the base one first
	setup   error
	// registration calls made after the pipeline had been executed (mode B), and the healthy
	// execution that followed them (nil: one of those calls returned an error - accepted)
	lateSteps []step
	late      *execution
}

const lateName = userBase + 8 // "u9": no generator uses it

// lateCalls are the registration calls made once the pipeline has been executed: the registry must
// take them up like any other call, requests included. By case number:
//
//	a new callback u9 is registered: plain | Before(main built-in) | After(lowest live user callback) |
//	                                 Before(lowest live user callback)      (case mod 4)
//	the lowest live user callback  : Replace | Register again (a second entry made late) |
//	                                 After("u9").Register again (a second entry whose request its
//	                                 position does not satisfy unless it already fires after u9: an
//	                                 error return, or it has to move)       (case/4 mod 3)
//	the highest other live user callback is removed.
//	a built-in that was never removed and that no Register/Replace call (of the sequence or above) names
//	in Before/After - the main built-in if it qualifies, else the first that does - is registered again
//	                                 without a request (a plugin overriding it late)   (case/12 mod 2 = 1)
//	                                 (a built-in that IS named would turn the requests naming it into requests
//	                                 towards a several-entry name and move known witnesses to other classes)
func lateCalls(p *pipeline, seq []step, caseNo int) []step {
	m := model(p, seq)
	var users []int
	for id, ns := range m {
		if id >= userBase && id < idNX && ns.live {
			users = append(users, id)
		}
	}
	sort.Ints(users)
	mainB := p.reduced[len(p.reduced)/2]
	first := step{Op: opRegister, Name: lateName, Bef: none, Aft: none}
	switch caseNo % 4 {
	case 1:
		if m[mainB].live {
			first.Bef = uint8(mainB)
		}
	case 2:
		if len(users) > 0 {
			first.Aft = uint8(users[0])
		}
	case 3:
		if len(users) > 0 {
			first.Bef = uint8(users[0])
		}
	}
	out := []step{first}
	if len(users) > 0 {
		s := step{Op: opReplace, Name: uint8(users[0]), Bef: none, Aft: none}
		switch (caseNo / 4) % 3 {
		case 1:
			s.Op = opRegister
		case 2:
			s.Op, s.Aft = opRegister, lateName
		}
		out = append(out, s)
	}
	if len(users) > 1 {
		out = append(out, step{Op: opRemove, Name: uint8(users[len(users)-1]), Bef: none, Aft: none})
	}
	if (caseNo/12)%2 == 1 {
		named := map[int]bool{}
		for _, l := range [][]step{seq, out} {
			for _, s := range l {
				if s.Op != opRemove {
					named[int(s.Bef)], named[int(s.Aft)] = true, true
				}
			}
		}
		for _, x := range append([]int{mainB}, p.full()...) {
			if ns := m[x]; ns.live && !ns.weak && !named[x] {
				out = append(out, step{Op: opRegister, Name: uint8(x), Bef: none, Aft: none})
				break
			}
		}
	}
	return out
}

// runSeq applies seq to a fresh handle and, when no call returned an error, executes the
// pipeline: the healthy base execution and (allEntries) once more per entry. modeB wraps the
// built-ins first.
func runSeq(pl int, seq []step, modeB, allEntries bool, caseNo int) outcome {
	p := &pipelines[pl]
	h := openHandle()
	defer h.Close()
	if modeB {
		if err := wrapBuiltins(h.DB, pl, p); err != nil {
			return outcome{errStep: -1, setup: err}
		}
	}
	for i, s := range seq {
		if err := apply(h.DB, pl, p, i, s); err != nil {
			return outcome{errStep: i, err: err}
		}
	}
	if h.DB.Error != nil {
		return outcome{errStep: len(seq) - 1, err: h.DB.Error}
	}
	rowIntact := true
	for _, s := range seq {
		if int(s.Name) < userBase {
			rowIntact = false
		}
	}
	out := outcome{errStep: -1}
	for ei := range entries {
		e := &entries[ei]
		if ei > 0 && !allEntries {
			break
		}
		if !e.applies(pl, modeB) {
			continue
		}
		rec := &recorder{table: e.table(pl)}
		if !modeB {
			rec.hookMap = hookMaps[pl]
			h.Rec.SetHook(driverHook(pl))
		}
		// (pipelines that run while the entry is prepared are not part of the observed execution)
		db, done := h.DB.Session(&gorm.Session{}), func() {}
		if e.prep != nil {
			if d, fn := e.prep(h, caseNo); fn != nil {
				db, done = d, fn
			} else {
				db = d
			}
		}
		cur = rec
		func() {
			defer func() { cur = nil }()
			execute(db, pl, ei == 0 && rowIntact, e.dest)
		}()
		done()
		h.Rec.SetHook(nil)
		out.runs = append(out.runs, execution{entry: e, table: rec.table, evs: rec.evs})
	}
	out.evs = out.runs[0].evs
	if modeB && allEntries {
		out.lateSteps = lateCalls(p, seq, caseNo)
		for j, s := range out.lateSteps {
			if err := apply(h.DB, pl, p, len(seq)+j, s); err != nil {
				return out
			}
		}
		rec := &recorder{table: p.table}
		cur = rec
		func() {
			defer func() { cur = nil }()
			execute(h.DB.Session(&gorm.Session{}), pl, false, destNormal)
		}()
		out.late = &execution{entry: &entries[0], table: p.table, evs: rec.evs}
	}
	return out
}

// ---- oracle ----------------------------------------------------------------------

type problem struct {
	class string
	text  string
}

type checkStats struct {
	constraints, star, removedAbsent, builtinPairs, onceChecked, skippedWeak, multiChecked int
}

// check compares one pipeline execution (events of one Statement.Table) with the model.
// touched (mode A only): the sequence replaced/removed a built-in, so the effects of the
// remaining built-ins are not all guaranteed to be visible. failed (mode A only): the statement
// reached the callbacks carrying an error, the pristine built-ins are no-ops without any effect.
func check(p *pipeline, m map[int]*nameState, trace []ev, modeA, touched, failed bool, st *checkStats) []problem {
	var out []problem
	add := func(class, f string, a ...interface{}) {
		out = append(out, problem{class, fmt.Sprintf(f, a...)})
	}
	// mode A: built-ins whose effects cannot be attributed
	hidden := map[int]bool{}
	if modeA {
		for id := range p.invisible {
			hidden[id] = true
		}
		// driver begin/commit are attributable to this pipeline's transaction built-ins
		// only while the operation runs inside the transaction opened by the pristine
		// gorm:begin_transaction (otherwise nested association writes open their own)
		if len(p.builtins) > 3 && !(m[0].live && m[0].handler == -1 && !m[0].weak) {
			hidden[0] = true
			hidden[len(p.builtins)-1] = true
		}
		if failed {
			for id := range p.builtins {
				hidden[id] = true
			}
		}
		kept := trace[:0:0]
		for _, e := range trace {
			if e.handler == -1 && e.name < userBase && hidden[e.name] {
				continue
			}
			kept = append(kept, e)
		}
		trace = kept
	}
	visible := func(id int) bool {
		// is the firing of id observable in this mode?
		return !modeA || id >= userBase || m[id].handler != -1 || !hidden[id]
	}
	pos := map[int][]int{}
	stale := map[int]bool{}
	type nh struct{ name, handler int }
	fired := map[nh]int{}
	for i, e := range trace {
		ns := m[e.name]
		switch {
		case ns == nil || !ns.live:
			if ns != nil && ns.removedMulti {
				add("removed-ran:multi-entry", "%s fired (handler of step %d) although it is not registered at the end of the sequence: the name had more than one entry when Remove was called, Remove has to take all of them out", p.nameOf(e.name), e.handler)
			} else {
				add("removed-ran", "%s fired (handler of step %d) although it is not registered at the end of the sequence", p.nameOf(e.name), e.handler)
			}
			continue
		case ns.handler == e.handler:
		case ns.multi && has(ns.alts, e.handler):
			// an older entry of a name that was given several: acceptable
		case has(ns.dead, e.handler):
			add("removed-ran:registered-again", "%s fired with the handler of step %d, which was taken out by a later Remove(%s); the name was registered again afterwards (handler of step %d)", p.nameOf(e.name), e.handler, p.nameOf(e.name), ns.handler)
			stale[e.name] = true
			continue
		default:
			add("stale-handler", "%s fired with the handler of step %d, the handler registered last is that of step %d", p.nameOf(e.name), e.handler, ns.handler)
			stale[e.name] = true
			continue
		}
		pos[e.name] = append(pos[e.name], i)
		fired[nh{e.name, e.handler}]++
	}
	ids := make([]int, 0, len(m))
	for id := range m {
		ids = append(ids, id)
	}
	sort.Ints(ids)
	for _, id := range ids {
		ns := m[id]
		if !ns.live {
			st.removedAbsent++
			continue
		}
		n := len(pos[id])
		if ns.multi {
			// several entries under one name: no handler twice, some handler at all, and the
			// handler of a later plain Replace in any case
			rep := false
			for _, h := range append([]int{ns.handler}, ns.alts...) {
				if k := fired[nh{id, h}]; k > 1 && !rep {
					rep = true
					add("not-once:repeated", "%s fired %d times with the handler of step %d in one pipeline execution", p.nameOf(id), k, h)
				}
			}
			if rep || ns.weak || stale[id] {
				continue
			}
			// The handler handed over by the LAST call under the name has to fire: that call returned nil,
			// so its function is a registered callback (Register) or has taken the place of the callback of
			// that name (Replace, with or without a request), and nothing removed or replaced it since.
			// (mode A, built-in name: the newest handler is a stub and always visible; the older one is the
			// pristine built-in, seen through its effect if it has a visible one)
			st.multiChecked++
			newest := fired[nh{id, ns.handler}]
			var olderRan []string
			for _, h := range ns.alts {
				if fired[nh{id, h}] > 0 {
					if h < 0 {
						olderRan = append(olderRan, "the built-in")
					} else {
						olderRan = append(olderRan, fmt.Sprintf("that of step %d", h))
					}
				}
			}
			sfx := ""
			if ns.olderStar() {
				sfx = ":older-star" // (an older entry carries a "*" request that the newest does not: the pre-sort reorders them)
			} else if (ns.olderStarB || ns.olderStarA) && ns.namedBy {
				// the newest entry carries the same "*" request, but another call names the callback: the
				// sorter's known rewriting of stored requests (cs[idx].before/after = c.name lands on the
				// newest entry of the name) takes the "*" request off the newest entry, the next compile
				// then pre-sorts the older entry behind it
				sfx = ":older-star:rewritten"
			}
			switch {
			case newest == 0 && n == 0:
				add("not-once:missing:multi-entry"+sfx, "%s is registered (more than once) and not removed but none of its handlers fired (the handler registered last is that of step %d)", p.nameOf(id), ns.handler)
			case newest == 0 && ns.mustLast:
				add("stale-handler:multi-entry"+sfx, "%s was Replace'd last by step %d but only older handlers of the name fired (%s)", p.nameOf(id), ns.handler, strings.Join(olderRan, ", "))
			case newest == 0 && ns.lastReplace:
				add("stale-handler:replace-request"+sfx, "%s existed and was Replace'd by step %d with a Before/After request (the call returned nil): the new handler never fired, a replaced one did (%s)", p.nameOf(id), ns.handler, strings.Join(olderRan, ", "))
			case newest == 0:
				add("stale-handler:registered-again"+sfx, "%s existed and was registered again by step %d (the call returned nil): the handler registered by that call never fired, an older one did (%s)", p.nameOf(id), ns.handler, strings.Join(olderRan, ", "))
			case len(olderRan) > 0 && (ns.mustLast || ns.lastReplace):
				add("replaced-ran:multi-entry"+sfx, "%s was Replace'd by step %d, its new handler fired, but so did a handler it replaced (%s)", p.nameOf(id), ns.handler, strings.Join(olderRan, ", "))
			}
			continue
		}
		if n > 1 {
			add("not-once:repeated", "%s fired %d times in one pipeline execution", p.nameOf(id), n)
			continue
		}
		if ns.weak || !visible(id) || stale[id] {
			continue
		}
		if modeA && id < userBase && ns.handler == -1 && touched {
			continue // effect of an untouched built-in next to a replaced/removed one: at most once
		}
		st.onceChecked++
		if n == 0 {
			add("not-once:missing", "%s is registered and not removed but did not fire", p.nameOf(id))
		}
	}
	at := func(id int) (int, bool) {
		if len(pos[id]) != 1 {
			return 0, false
		}
		return pos[id][0], true
	}
	// ordering requirements: Before/After constraints and the built-in order
	reqs, skipped := requirements(p, m, false)
	st.skippedWeak += skipped
	var ord []req
	for _, r := range reqs {
		x, ok1 := at(r.first)
		y, ok2 := at(r.second)
		if !ok1 || !ok2 {
			continue
		}
		switch {
		case strings.HasPrefix(r.class, "builtin-order"):
			st.builtinPairs++
		case strings.HasPrefix(r.class, "side:star"):
			st.star++
		default:
			st.constraints++
		}
		if x > y {
			ord = append(ord, r)
		}
	}
	if len(ord) > 0 {
		// was there an order satisfying everything that was requested? If not, the
		// statement demands an error return; name the class after what is contradictory:
		// the named requests, the "*" requests - and whether the contradiction is there without
		// the requirements that involve a name with several entries (the known classes) or only
		// with them (:multi-entry)
		var plainReqs []req
		multiSfx := ":multi-entry"
		reqs := noSlot(reqs)
		for _, r := range reqs {
			if r.sfx == "" {
				plainReqs = append(plainReqs, r)
			} else if strings.HasSuffix(r.sfx, ":rewritten") {
				multiSfx = ":multi-entry:rewritten" // (one of them meets the precondition of the known rewriting)
			}
		}
		over, overSfx := "", ""
		switch {
		case !satisfiable(plainReqs, false):
			over = "contradiction-accepted:named"
		case !satisfiable(plainReqs, true):
			over = "contradiction-accepted:star"
		case !satisfiable(reqs, false):
			over, overSfx = "contradiction-accepted:named", multiSfx
		case !satisfiable(reqs, true):
			over, overSfx = "contradiction-accepted:star", multiSfx
		}
		for _, r := range ord {
			pr := problem{r.class, r.text}
			if over != "" && !r.slot {
				sfx := r.sfx
				if sfx == "" {
					sfx = overSfx
					// (the callback that lost its side is named by another call - side:star:rewritten -:
					// the precondition of the known rewriting holds for it)
					if sfx != "" && strings.HasSuffix(r.class, ":rewritten") && !strings.HasSuffix(sfx, ":rewritten") {
						sfx += ":rewritten"
					}
				}
				if strings.HasSuffix(sfx, ":rewritten") {
					pr = problem{"contradiction-accepted" + sfx, "the requested constraints cannot all hold, yet no call returned an error: " + r.text}
				} else {
					pr = problem{over + sfx, "the requested constraints cannot all hold, yet no call returned an error: " + r.text}
				}
			}
			out = append(out, pr)
		}
	}
	return out
}

// req is one ordering requirement of the statement: first must fire before second.
type req struct {
	first, second int
	class, text   string
	// sfx: the part of class that says the requirement involves a name with several entries ("" for
	// the requirements of single-entry callbacks and the built-in order)
	sfx string
	// slot: the requirement that a built-in NAME with several entries fires where the built-in stood. It is
	// checked like any other, but it takes no part in the question whether what was requested is satisfiable:
	// the classes side:* / contradiction-accepted:* (and fatal:satisfiable-request) keep the extension they had
	// before this requirement existed, and a broken slot requirement is always reported under its own class.
	slot bool
}

func noSlot(reqs []req) []req {
	out := reqs[:0:0]
	for _, r := range reqs {
		if !r.slot {
			out = append(out, r)
		}
	}
	return out
}

// requirements derives from the model every ordering the statement demands of a pipeline
// in which no call returned an error (skipped = constraints naming a callback whose
// existence the statement does not define).
func requirements(p *pipeline, m map[int]*nameState, withWeak bool) (out []req, skipped int) {
	ids := make([]int, 0, len(m))
	for id := range m {
		ids = append(ids, id)
	}
	sort.Ints(ids)
	lastID := -1
	for id := range p.builtins {
		if ns := m[id]; !ns.live || ns.unspec() {
			continue
		}
		if lastID >= 0 {
			out = append(out, req{lastID, id, "builtin-order", fmt.Sprintf("built-in %s fired before built-in %s", p.nameOf(id), p.nameOf(lastID)), "", false})
		}
		lastID = id
	}
	// A BUILT-IN name that was given further entries while it existed (Register under the built-in's name,
	// Replace carrying a request) and was never removed. Under either reading of such a call - the name is
	// still the one built-in callback, its function defined anew; or the call added a callback of its own
	// and the built-in persists - a callback of that name stands where the built-in stood: the statement's
	// "built-in callbacks in their original relative order" holds for the handler of the name that fires
	// (checked when exactly one of them fires), or a call had to return an error. The plain chain above is
	// left as it is; these pairs link the name to its nearest specified neighbours on either side.
	for id := range p.builtins {
		ns := m[id]
		if !ns.live || ns.weak || !ns.multi {
			continue
		}
		// by what the entries of the name asked for: nothing at all (every call under the name was plain:
		// nothing ever asked for the name to move) / some entry carried a request
		class, sfx := "builtin-order:registered-again", ":multi-entry"
		if ns.entryReq {
			class = "builtin-order:multi-entry"
			if ns.lastReplace {
				class = "builtin-order:replace-request"
			}
		}
		spec := func(y int) bool { ys := m[y]; return ys.live && !ys.weak }
		for y := id - 1; y >= 0; y-- {
			if spec(y) {
				out = append(out, req{y, id, class, fmt.Sprintf("built-in name %s (%d entries, never removed) fired before built-in %s", p.nameOf(id), ns.entries, p.nameOf(y)), sfx, true})
				break
			}
		}
		for y := id + 1; y < len(p.builtins); y++ {
			if spec(y) {
				if !m[y].multi { // (a several-entry successor links itself to this one)
					out = append(out, req{id, y, class, fmt.Sprintf("built-in %s fired before built-in name %s (%d entries, never removed)", p.nameOf(y), p.nameOf(id), ns.entries), sfx, true})
				}
				break
			}
		}
	}
	for _, id := range ids {
		ns := m[id]
		if ns.live && ns.multi && !ns.weak && id < idNX {
			// a name with several entries: the named requests of the call that made the newest entry
			// (that call returned nil, so the name has to fire on the side it asked for - whichever of
			// the name's handlers it is that fires)
			for side, t := range []int{ns.lastBef, ns.lastAft} {
				if t == none || t == idStar || t == id {
					continue
				}
				ts := m[t]
				if ts == nil || !ts.live {
					continue
				}
				if ts.weak && !withWeak {
					skipped++
					continue
				}
				word, class := "before", "side:before"
				if side == 1 {
					word, class = "after", "side:after"
				}
				how, sfx := "registered again", ":multi-entry"
				if ns.lastReplace {
					how, sfx = "Replace'd", ":replace-request"
				}
				if ts.multi {
					sfx += ":multi-target"
				}
				if ns.namedBy || ns.olderNamed {
					// another call names this callback, or an earlier call under its name carried a named
					// request: the sorter's known rewriting of stored requests (cs[idx].before/after = c.name,
					// KF-C17-4 and its relatives) can land on the newest entry and replace what it asked for.
					// One class for this precondition, whatever the side and the kind of call
					class, sfx = "side", ":multi-entry:rewritten"
				}
				text := fmt.Sprintf("%s existed and was %s %s %s (the call returned nil) but fired on the other side of it", p.nameOf(id), how, word, p.nameOf(t))
				if side == 0 {
					out = append(out, req{id, t, class + sfx, text, sfx, false})
				} else {
					out = append(out, req{t, id, class + sfx, text, sfx, false})
				}
			}
		}
		if !ns.live || ns.unspec() || id < userBase {
			continue
		}
		for side, t := range []int{ns.bef, ns.aft} {
			if t == none {
				continue
			}
			word, class := "before", "side:before"
			if side == 1 {
				word, class = "after", "side:after"
			}
			sfx := ""
			mk := func(other int, cl, text string) {
				if side == 0 {
					out = append(out, req{id, other, cl, text, sfx, false})
				} else {
					out = append(out, req{other, id, cl, text, sfx, false})
				}
			}
			if t == idStar {
				// by structural precondition: the callback carries a named request of its own on the
				// other side (Before(x).After("*"): the known "star side ignored once the named request
				// placed it"); it carries none but another registration names it (the known rewriting of
				// stored requests can overwrite the star request); it has neither, but the name had an
				// earlier life, ended by Remove, whose registration carried a named request (requests
				// derived from it are known to survive the Remove); none of these
				starClass := "side:star:other"
				if o := []int{ns.aft, ns.bef}[side]; o != none && o != idStar {
					starClass = "side:star"
				} else if ns.namedBy {
					starClass = "side:star:rewritten"
				} else if ns.pastNamed {
					starClass = "side:star:earlier-life"
				}
				// weak reading of "*": every built-in and every callback registered
				// without any constraint
				for _, y := range ids {
					ys := m[y]
					if y == id || !ys.live || ys.unspec() {
						continue
					}
					if y >= userBase && (ys.bef != none || ys.aft != none) {
						continue
					}
					mk(y, starClass, fmt.Sprintf("%s was registered %s \"*\" but fired on the other side of %s", p.nameOf(id), word, p.nameOf(y)))
				}
				continue
			}
			ts := m[t]
			if ts == nil || !ts.live {
				continue
			}
			if ts.weak && !withWeak {
				skipped++
				continue
			}
			if ts.multi {
				// the named callback has several entries: where it fires is not fixed, but it fires once,
				// and this callback asked for a side of it
				sfx = ":multi-target"
				if ns.namedBy {
					// (another call names this callback: its stored request can be rewritten, as above)
					class, sfx = "side", ":multi-target:rewritten"
				}
				class += sfx
			}
			mk(t, class, fmt.Sprintf("%s was registered %s %s but fired on the other side of it", p.nameOf(id), word, p.nameOf(t)))
		}
	}
	return
}

// satisfiable reports whether some order meets all requirements (withStar: including the
// "*" ones).
func satisfiable(reqs []req, withStar bool) bool {
	succ := map[int][]int{}
	indeg := map[int]int{}
	for _, r := range reqs {
		if strings.HasPrefix(r.class, "side:star") && !withStar {
			continue
		}
		succ[r.first] = append(succ[r.first], r.second)
		indeg[r.second]++
		if _, ok := indeg[r.first]; !ok {
			indeg[r.first] = 0
		}
	}
	var q []int
	for n, d := range indeg {
		if d == 0 {
			q = append(q, n)
		}
	}
	done := 0
	for len(q) > 0 {
		n := q[0]
		q = q[1:]
		done++
		for _, s := range succ[n] {
			indeg[s]--
			if indeg[s] == 0 {
				q = append(q, s)
			}
		}
	}
	return done == len(indeg)
}

func groupByTable(evs []ev) map[string][]ev {
	g := map[string][]ev{}
	for _, e := range evs {
		g[e.table] = append(g[e.table], e)
	}
	return g
}

func traceDesc(p *pipeline, tr []ev) []string {
	out := make([]string, len(tr))
	for i, e := range tr {
		h := "built-in"
		if e.handler >= 0 {
			h = fmt.Sprintf("stub%d", e.handler)
		}
		out[i] = p.nameOf(e.name) + "/" + h
	}
	return out
}

// announce leaves the literal sequence at the head of the child's output file, so that a
// process-fatal error (reported by the core runner with the head of that file) carries
// the sequence that was executing.
func announce(c *core.Ctx, what string, lines []string) {
	c.Logf("%s: %s", what, strings.Join(lines, " ; "))
	if c.Verbose {
		return
	}
	if fi, err := os.Stderr.Stat(); err == nil && fi.Mode().IsRegular() {
		os.Stderr.Truncate(0)
		os.Stderr.Seek(0, 0)
		fmt.Fprintf(os.Stderr, "C17 case %d, %s, executing when the process ended:\n  %s\n", c.Case, what, strings.Join(lines, "\n  "))
	}
}

// risky reports whether at some prefix of the sequence the Before/After constraints
// among the existing user callbacks form a cycle. Such sequences are the ones seen to
// send the sorter into unbounded recursion, so they are first executed in a disposable
// process (probe): a process-fatal error is then recorded by this engine with the
// literal sequence, and the batch child survives with all its observations. Sequences
// that are not predicted but end the process anyway are still attributed by the runner.
func risky(p *pipeline, seq []step) bool {
	for n := 1; n <= len(seq); n++ {
		m := model(p, seq[:n])
		// a user callback that existed is removed: constraints that gorm derived from it
		// may survive in the registry (seen to recurse once the name is registered again)
		// (the recursion needs a later call that brings the name up again)
		if s := seq[n-1]; s.Op == opRemove && int(s.Name) >= userBase {
			again := false
			for _, l := range seq[n:] {
				if l.Name == s.Name || l.Bef == s.Name || l.Aft == s.Name {
					again = true
				}
			}
			if prev := model(p, seq[:n-1])[int(s.Name)]; again && prev != nil && prev.live {
				return true
			}
		}
		var reqs []req
		for id, ns := range m {
			if id < userBase || id >= idNX || !ns.live || ns.weak {
				continue
			}
			// targets: existing user callbacks, and names that exist only through a
			// Replace (pristine built-ins are settled first and were never seen to recurse)
			tgt := func(t int) bool {
				return t != idStar && t != none && m[t] != nil && m[t].live && (t >= userBase || m[t].weak)
			}
			if t := ns.bef; tgt(t) {
				reqs = append(reqs, req{first: id, second: t})
			}
			if t := ns.aft; tgt(t) {
				reqs = append(reqs, req{first: t, second: id})
			}
		}
		if !satisfiable(reqs, true) {
			return true
		}
	}
	return false
}

const probeEnv = "C17_PROBE"

// probe re-executes this case in a process of its own and reports whether that process
// ended with a Go runtime fatal error.
func probe(c *core.Ctx) (died bool, head string, err error) {
	exe, err := os.Executable()
	if err != nil {
		return false, "", err
	}
	ctx, cancel := context.WithTimeout(context.Background(), 120*time.Second)
	defer cancel()
	cmd := exec.CommandContext(ctx, exe, "-case", strconv.Itoa(c.Case), "-tier", c.Tier, "-seed", strconv.FormatUint(c.Seed, 10))
	cmd.Env = append(os.Environ(), probeEnv+"=1", "GOTRACEBACK=single")
	out, runErr := cmd.CombinedOutput()
	text := string(out)
	for _, l := range strings.Split(text, "\n") {
		if d, ok := strings.CutPrefix(l, "C17-PROBE-DIR "); ok && strings.Contains(d, "C17.replay.") {
			os.RemoveAll(strings.TrimSpace(d)) // the dying process could not remove its scratch dir
		}
	}
	if ctx.Err() != nil {
		return false, "", fmt.Errorf("probe timed out")
	}
	code := 0
	if ee, ok := runErr.(*exec.ExitError); ok {
		code = ee.ExitCode()
	} else if runErr != nil {
		return false, "", runErr
	}
	if code == 0 || code == 1 {
		return false, "", nil
	}
	first := ""
	if i := strings.Index(text, "fatal error:"); i >= 0 {
		text = text[i:]
		first, _, _ = strings.Cut(text, "\n")
	}
	// the frames of the goroutine that ran the sequence say where the recursion is
	if i := strings.Index(text, "\ngoroutine "); i >= 0 {
		text = text[i+1:]
	}
	if len(text) > 1200 {
		text = text[:1200]
	}
	return true, fmt.Sprintf("exit %d: %s | %s", code, first, text), nil
}

func caseSeq(c *core.Ctx) (pl int, seq []step, origin string) {
	idx := c.Case
	for _, b := range blocks(c.Tier) {
		if idx < b.size {
			if b.move {
				return b.pl, moveSeq(&pipelines[b.pl], idx), "exhaustive move-family"
			}
			if b.multi {
				return b.pl, multiSeq(&pipelines[b.pl], idx), "exhaustive second-entry-family"
			}
			if b.pos {
				return b.pl, posSeq(&pipelines[b.pl], idx), "exhaustive positioned-second-entry-of-a-built-in family"
			}
			return b.pl, decode(b.alpha, b.length, idx, true), fmt.Sprintf("exhaustive length %d", b.length)
		}
		idx -= b.size
	}
	if idx >= randomCases(c.Tier) {
		idx -= randomCases(c.Tier)
		for pl = range pipelines {
			if n := againCount(&pipelines[pl]); idx < n {
				return pl, againSeq(&pipelines[pl], idx), "exhaustive built-in-registered-again family"
			} else {
				idx -= n
			}
		}
	}
	pl = c.R.Intn(len(pipelines))
	return pl, randomSeq(c.R, &pipelines[pl]), "random"
}

// requestStats: does the sequence use "*"; how many Before / After requests it carries in all, and
// how many of its calls carry any (the requests of a Remove call leave with it).
func requestStats(seq []step) (usesStar bool, constrained, cSteps int) {
	for _, s := range seq {
		if s.Bef == idStar || s.Aft == idStar {
			usesStar = true
		}
		if s.Op != opRemove {
			if int(s.Bef) != none {
				constrained++
			}
			if int(s.Aft) != none {
				constrained++
			}
			if int(s.Bef) != none || int(s.Aft) != none {
				cSteps++
			}
		}
	}
	return
}

func run(c *core.Ctx) {
	pl, seq, origin := caseSeq(c)
	p := &pipelines[pl]
	desc := p.seqDesc(seq)
	m := model(p, seq)
	touched := false
	for _, s := range seq {
		if int(s.Name) < userBase {
			touched = true // Replace / Remove / a second Register under a built-in name
		}
	}
	usesStar, constrained, cSteps := requestStats(seq)
	c.Inc("pipeline_" + p.name)
	c.Inc(fmt.Sprintf("len_%d", len(seq)))
	c.Inc("origin_" + strings.Fields(origin)[0])

	if os.Getenv(probeEnv) != "" {
		fmt.Println("C17-PROBE-DIR " + c.Dir)
	} else if risky(p, seq) {
		c.Inc("probed_in_own_process")
		died, head, err := probe(c)
		if err != nil {
			c.Inconclusive("probe: " + err.Error())
			return
		}
		if died {
			c.Inc("fatal_in_probe")
			// was everything that was requested satisfiable after every call?
			sig := "fatal:satisfiable-request"
			for n := 1; n <= len(seq); n++ {
				if reqs, _ := requirements(p, model(p, seq[:n]), true); !satisfiable(noSlot(reqs), true) {
					sig = "fatal"
					break
				}
			}
			c.Inc("viol_" + sig)
			c.Violation(sig, map[string]interface{}{"pipeline": p.name, "sequence": desc, "origin": origin,
				"observed": "the process executing this sequence ended with a runtime fatal error (no error was returned, no pipeline ran)", "output_head": head})
			return
		}
	}

	report := func(mode string, probs []problem, trace []ev, extra map[string]interface{}) {
		byClass := map[string][]string{}
		var classes []string
		for _, pr := range probs {
			if _, ok := byClass[pr.class]; !ok {
				classes = append(classes, pr.class)
			}
			byClass[pr.class] = append(byClass[pr.class], pr.text)
		}
		for _, cl0 := range classes {
			// sequences that use "*" take a different path through the sorter (the
			// registry is re-sorted); keep them apart from "*"-free witnesses
			cl := cl0
			if usesStar && !strings.Contains(cl, "star") && !strings.HasSuffix(cl, ":rewritten") {
				cl += "+star"
			}
			// the known defects of the sorter all need two requests that interfere (one rewrites or
			// contradicts the other): a sequence with a single Before/After request is a class of its own
			// (:older-star names its structural precondition itself: one "*" request on an older entry)
			switch {
			case strings.Contains(cl0, ":older-star"):
			case constrained <= 1:
				cl += "/single-request"
			case cSteps == 1:
				cl += "/single-step" // one call carries both a Before and an After request, no other call carries any
			}
			c.Inc("viol_" + mode + "_" + cl)
			d := map[string]interface{}{"pipeline": p.name, "sequence": desc, "origin": origin, "observation_mode": mode,
				"every_call_returned": "nil", "problems": byClass[cl0], "fired": traceDesc(p, trace)}
			for k, v := range extra {
				d[k] = v
			}
			c.Violation(cl, d)
		}
	}

	// checkEntries holds every further execution of the pipeline (see entries) to the same model.
	// What the healthy execution already showed (baseProbs: the compiled order is the same for every
	// execution, so the known defects of the sorter show again) is not reported a second time; a
	// problem that only the other execution has gets a signature of its own: <class>@<entry group>.
	checkEntries := func(mode string, runs []execution, baseProbs []problem, baseTrace []ev, modeA bool) bool {
		seen := map[problem]bool{}
		for _, pr := range baseProbs {
			seen[pr] = true
		}
		found := false
		for _, ex := range runs[1:] {
			var main []ev
			nested := map[string][]ev{}
			var order []string
			for _, e := range ex.evs {
				switch {
				case e.table == ex.table:
					main = append(main, e)
				case modeA:
					// (mode A looks at the execution on the operation's own table only)
				default:
					if _, ok := nested[e.table]; !ok {
						order = append(order, e.table)
					}
					nested[e.table] = append(nested[e.table], e)
				}
			}
			var stE checkStats
			probs := check(p, m, main, modeA, touched, ex.entry.failed, &stE)
			for _, t := range order {
				var st2 checkStats
				for _, pr := range check(p, m, nested[t], false, false, false, &st2) {
					probs = append(probs, problem{pr.class, "nested execution on " + t + ": " + pr.text})
				}
			}
			c.Inc("entry_" + ex.entry.group + "_executions_" + mode)
			c.Add("entry_"+ex.entry.group+"_exactly_once_checked_"+mode, stE.onceChecked+stE.multiChecked)
			c.Add("entry_"+ex.entry.group+"_orderings_checked_"+mode, stE.constraints+stE.star+stE.builtinPairs)
			byClass := map[string][]string{}
			var classes []string
			for _, pr := range probs {
				if seen[pr] {
					continue
				}
				if _, ok := byClass[pr.class]; !ok {
					classes = append(classes, pr.class)
				}
				byClass[pr.class] = append(byClass[pr.class], pr.text)
			}
			for _, cl := range classes {
				found = true
				sig := cl + "@" + ex.entry.group
				c.Inc("viol_" + mode + "_" + sig)
				c.Violation(sig, map[string]interface{}{"pipeline": p.name, "sequence": desc, "origin": origin, "observation_mode": mode,
					"every_call_returned": "nil", "execution": ex.entry.desc(pl), "problems": byClass[cl],
					"fired": traceDesc(p, main), "fired_by_the_healthy_execution": traceDesc(p, baseTrace)})
			}
		}
		return found
	}

	var st checkStats
	ran := false
	bad := false
	// --- mode B
	announce(c, "sequence (built-ins wrapped through Replace first)", desc)
	ob := runSeq(pl, seq, true, true, c.Case)
	if ob.setup != nil {
		c.Violation("setup", map[string]interface{}{"pipeline": p.name, "error": ob.setup.Error()})
		return
	}
	if ob.errStep >= 0 {
		c.Inc("B_outcome_error")
		c.Logf("B: call %d returned %v", ob.errStep, ob.err)
	} else {
		c.Inc("B_outcome_ran")
		ran = true
		groups := groupByTable(ob.evs)
		main, ok := groups[p.table]
		if !ok {
			main = nil
		}
		c.Logf("B fired: %v", traceDesc(p, main))
		probs := check(p, m, main, false, false, false, &st)
		for t, g := range groups {
			if t == p.table {
				continue
			}
			c.Inc("B_nested_executions")
			var st2 checkStats
			for _, pr := range check(p, m, g, false, false, false, &st2) {
				probs = append(probs, problem{pr.class, "nested execution on " + t + ": " + pr.text})
			}
		}
		if len(probs) > 0 {
			bad = true
			report("B", probs, main, nil)
		}
		if checkEntries("B", ob.runs, probs, main, false) {
			bad = true
		}
		// registration calls made after the pipeline has been executed: the whole is an ordinary
		// sequence (an execution does not change the registry), held to its own model
		if ob.late == nil {
			c.Inc("late_calls_returned_error")
		} else {
			ext := append(append([]step{}, seq...), ob.lateSteps...)
			mL := model(p, ext)
			// (a broken ordering that the execution before the late calls already showed is the same
			// problem afterwards, also when the late calls change the class it falls under)
			const contra = "the requested constraints cannot all hold, yet no call returned an error: "
			seen := map[string]bool{}
			for _, pr := range probs {
				seen[strings.Replace(pr.text, contra, "", 1)] = true
			}
			gl := groupByTable(ob.late.evs)
			var stL checkStats
			var lp []problem
			for _, pr := range check(p, mL, gl[p.table], false, false, false, &stL) {
				if !seen[strings.Replace(pr.text, contra, "", 1)] {
					lp = append(lp, pr)
				}
			}
			for t, g := range gl {
				if t == p.table {
					continue
				}
				var st2 checkStats
				for _, pr := range check(p, mL, g, false, false, false, &st2) {
					if pr = (problem{pr.class, "nested execution on " + t + ": " + pr.text}); !seen[strings.Replace(pr.text, contra, "", 1)] {
						lp = append(lp, pr)
					}
				}
			}
			c.Inc("late_calls_executions")
			c.Add("late_calls_exactly_once_checked", stL.onceChecked+stL.multiChecked)
			c.Add("late_calls_removed_absence_checked", stL.removedAbsent)
			if len(lp) > 0 {
				bad = true
				d := p.seqDesc(ext)
				d = append(append(append([]string{}, d[:len(seq)]...), "/* the pipeline is executed: healthy, then once per entry of the Rule */"), d[len(seq):]...)
				// (the signature suffixes speak of the whole sequence, late calls included)
				s0, c0, k0 := usesStar, constrained, cSteps
				usesStar, constrained, cSteps = requestStats(ext)
				report("B", lp, gl[p.table], map[string]interface{}{"sequence": d, "fired_before_the_late_calls": traceDesc(p, main)})
				usesStar, constrained, cSteps = s0, c0, k0
			}
		}
		// Replace keeps the position: differential run without the Replace steps
		var repl []int
		for id, ns := range m {
			if ns.live && !ns.unspec() && ns.replaced {
				repl = append(repl, id)
			}
		}
		sort.Ints(repl)
		if len(repl) > 0 && len(probs) == 0 {
			var seq2 []step
			m2 := model(p, nil)
			for _, s := range seq {
				if s.Op == opReplace && s.Bef == none && s.Aft == none {
					if ns := m2[int(s.Name)]; ns != nil && ns.live {
						continue
					}
				}
				seq2 = append(seq2, s)
				m2 = model(p, seq2)
			}
			announce(c, "sequence without its Replace calls (reference run for the replaced position)", p.seqDesc(seq2))
			o2 := runSeq(pl, seq2, true, false, c.Case)
			if o2.errStep >= 0 || o2.setup != nil {
				c.Inc("replace_reference_errored")
			} else {
				ref := groupByTable(o2.evs)[p.table]
				posOf := func(tr []ev) map[int]int {
					out := map[int]int{}
					for i, e := range tr {
						out[e.name] = i
					}
					return out
				}
				pa, pb := posOf(main), posOf(ref)
				var rp []problem
				for _, x := range repl {
					xa, oka := pa[x]
					xb, okb := pb[x]
					if !oka || !okb {
						continue
					}
					c.Inc("replace_position_checked")
					for y, ya := range pa {
						yb, ok := pb[y]
						if !ok || y == x || m[y] == nil || m[y].multi {
							continue // (where a name with several entries goes is not specified)
						}
						if (xa < ya) != (xb < yb) {
							rp = append(rp, problem{"replace-position", fmt.Sprintf("after Replace, %s fires on the other side of %s than the callback it replaced", p.nameOf(x), p.nameOf(y))})
						}
					}
				}
				if len(rp) > 0 {
					bad = true
					report("B", rp, main, map[string]interface{}{"fired_without_replace": traceDesc(p, ref), "sequence_without_replace": p.seqDesc(seq2)})
				}
			}
		}
	}
	// --- mode A
	announce(c, "sequence (pristine registry)", desc)
	oa := runSeq(pl, seq, false, true, c.Case)
	if oa.errStep >= 0 {
		c.Inc("A_outcome_error")
		c.Logf("A: call %d returned %v", oa.errStep, oa.err)
	} else {
		c.Inc("A_outcome_ran")
		ran = true
		var main []ev
		for _, e := range oa.evs {
			if e.table == p.table {
				main = append(main, e)
			}
		}
		c.Logf("A fired: %v", traceDesc(p, main))
		var stA checkStats
		probs := check(p, m, main, true, touched, false, &stA)
		c.Add("A_constraints_checked", stA.constraints+stA.star)
		c.Add("A_builtin_effect_pairs_checked", stA.builtinPairs)
		if len(probs) > 0 {
			bad = true
			report("A", probs, main, nil)
		}
		if checkEntries("A", oa.runs, probs, main, true) {
			bad = true
		}
	}
	c.Add("constraints_checked", st.constraints)
	c.Add("star_constraints_checked", st.star)
	c.Add("removed_absence_checked", st.removedAbsent)
	c.Add("builtin_pairs_checked", st.builtinPairs)
	c.Add("exactly_once_checked", st.onceChecked)
	c.Add("multi_entry_names_checked", st.multiChecked)
	c.Add("constraints_skipped_unspecified_target", st.skippedWeak)
	if !ran {
		c.Inc("cases_error_outcome")
		return
	}
	c.Inc("cases_executed")
	if bad {
		return
	}
	// non-trivial: at least one user callback must run and at least one ordering,
	// removal or replacement requirement was actually evaluated
	userLive, removedSomething, replacedSomething := 0, false, false
	for id, ns := range m {
		if id >= userBase && ns.live && !ns.weak {
			userLive++
		}
		if !ns.live && (id < userBase || ns.handler >= 0) {
			removedSomething = true
		}
		if ns.live && ns.replaced {
			replacedSomething = true
		}
	}
	if st.constraints+st.star > 0 || removedSomething || replacedSomething || st.multiChecked > 0 {
		if userLive > 0 || removedSomething || replacedSomething {
			c.Shape(p.name, strings.Join(desc, ";"))
			c.Inc("nontrivial_cases")
			if c.WantSample() && len(seq) >= 2 && st.constraints > 0 {
				c.Sample(map[string]interface{}{"pipeline": p.name, "sequence": desc, "fired_with_wrapped_builtins": traceDesc(p, groupByTable(ob.evs)[p.table])})
			}
		}
	}
}

func initEnv(c *core.Ctx) {
	// a runaway recursion in the sorter ends the process at 8 MB of stack instead of 1 GB
	debug.SetMaxStack(8 << 20)
}

var Engine = &core.Engine{
	ID:    "C17",
	Level: "exploration",
	Rule: "one case = one registration sequence on one of the six pipelines (Create, Query, Update, Delete, Row, Raw), applied to a fresh gorm handle and followed by a real execution of the pipeline against SQLite, twice: with the built-ins wrapped by recording functions (B) and on the pristine registry with the built-ins seen through driver events and model hooks (A). " +
		"Calls: Register, Before(t).Register, After(t).Register, Before(t).After(t').Register (both chain orders), Replace, Remove; registered names: canonical fresh names, names removed earlier, and user names that exist at that moment (second entry under one name; in the enumeration such a call carries at most one request); targets t: every built-in of the pipeline, every user name introduced so far, the next name to be introduced (forward reference / unknown), '*'; Replace/Remove names: built-ins, user names, an unknown name. " +
		"Enumerated completely: all sequences of length 0..2 on every pipeline (quick and thorough); thorough adds all sequences of length 3 with the built-in alphabet reduced to {first, main, last} built-in on Create/Update/Delete (full on Query/Row/Raw). Also enumerated on every pipeline: the 150 'move' sequences of length 4 (register u1 and u2 with plain/Before/After constraints, remove one, register it again with other constraints) and the 2 376 'second entry' sequences of length 3..6 (a name x that exists - a user callback registered plain / Before / After a built-in / Before or After '*', or the main built-in - gets a second entry through Register or through Before/After(..).Replace, with a neighbour registered plain / Before(x) / After(x); or through Before(built-in).After(neighbour).Register / Before(neighbour).Replace - so that the request of the second entry is in some sequences already met by the position x has and in others not: the call then has to return an error or x has to move; then nothing | Remove(x) | Remove, Register again (plain / After(neighbour)) | Replace(x) | Replace, Remove | Before(neighbour).Remove(x) | third Register, Remove | a third entry After(neighbour) | a third entry Before(built-in) | a new callback registered After(x)). Also enumerated on every pipeline (n built-ins: 16*n*(n+1) sequences, 2 976 in all): a BUILT-IN x is given a second entry that carries a request, over the full built-in alphabet: Register(u1), then Before(t).Replace(x) | After(t).Replace(x) | Before(t).Register(x) | After(t).Register(x) for every built-in x and every t among the other built-ins, u1 and '*', then nothing | Remove(x) | Replace(x) | After(x).Register(u2). Also enumerated on every pipeline (32*n+2 sequences, 844 in all, numbered behind the random cases): a BUILT-IN x is registered again WITHOUT a request (a plugin overriding it), for every built-in x: nothing | Register(u1) | Before(x).Register(u1) | After(x).Register(u1), then Register(x), then nothing | Register(x) a third time | Replace(x) | Register(u2) | After(x).Register(u2) | Before(x).Register(u2) | Remove(neighbouring built-in) | Replace(neighbouring built-in); and every built-in of the pipeline registered again, in their own and in reverse order. Then random sequences of length 3..8 over 5 user names (forward and removed names as targets, unknown name, '*', remove-and-register-again moves, second entries under existing user and built-in names by Register or by a Replace carrying a request, Remove calls carrying a request): 5 000 quick / 300 000 thorough. " +
		"Entry into the pipeline: after the healthy execution (Create with belongs-to and has-many / Preload+Find / Model.Updates / Select.Delete / Row or Rows / Exec) EVERY case executes the pipeline again on the same handle, once per entry, and each execution is held to the same model: (repeat) the same operation a second time; (failed-statement: the statement carries an error before the first callback runs) tx.AddError on a session handle, a Scope that adds an error, a *int as model/destination (Statement.Parse fails; not for Exec), a nil *Main (ErrInvalidValue), a transaction handle from a Begin that the driver failed [B]; (driver-fault) [B] a healthy statement with the driver failing the (1 + case mod 3)-th call it receives (begin / statement / commit, also those of nested association writes); (session) [B] a DryRun session, a handle from db.Begin() rolled back afterwards. [B] = only with the wrapped built-ins; the others also on the pristine registry, where a failed statement shows the stubs only. A problem that the healthy execution already has is not reported again; a new one gets the signature <class>@<entry group>. Then, in mode B, 1..3 late registration calls are made on the executed registry - a new name u9 is registered (by case mod 4: plain | Before(main built-in) | After(lowest live user callback) | Before(lowest live user callback)); the lowest live user callback is (by case/4 mod 3) Replace'd | registered again (a second entry made late) | registered again After(\"u9\") (a request its position normally contradicts: error return or move); the highest other live user callback is removed; (case/12 mod 2 = 1) a built-in that was never removed and that no Register/Replace call names in Before/After (the main built-in if it qualifies, else the first that does) is registered again without a request - and the pipeline is executed once more, checked against the model of the sequence including those calls (plain signatures, suffixes computed over the whole sequence). " +
		"A name with several entries is held to: the handler handed over by the LAST call under the name (Register again, Replace carrying a request, or a later plain Replace) fires exactly once - in both observation modes, for user and built-in names (signatures stale-handler:registered-again, stale-handler:replace-request, stale-handler:multi-entry, not-once:missing:multi-entry; suffix :older-star when an older entry of the name carries a '*' request that the newest does not, :older-star:rewritten when the newest carries it too but another call names the callback) -, no handler twice, none after Remove, a handler replaced by a Replace (plain or carrying a request) does not fire next to the new one (replaced-ran:multi-entry), AND the named Before/After request of the call that made its newest entry holds (signatures side:before|after:multi-entry, :replace-request; :rewritten when another call names the callback or an earlier call under its name carried a named request); requests of other callbacks that name such a name are checked too (:multi-target). A BUILT-IN name with several entries that was never removed is, in addition, held to the built-in order: when exactly one handler of the name fires it fires between the nearest specified built-ins on either side, as the built-in did (builtin-order:registered-again when no call under the name carried a request, builtin-order:multi-entry / :replace-request otherwise); these requirements are left out when it is decided whether the requests are satisfiable, so the older classes keep their extension. " +
		"Ordering violations are classified by whether an order satisfying everything requested exists (side:*) or not (contradiction-accepted:*: the statement then demands an error return). distinct = (pipeline, literal sequence); non-trivial = no call returned an error, the pipeline ran, and at least one Before/After constraint with a running target, one removal, one replacement or one name with several entries was checked against the firing order",
	Assumptions: []string{
		"a second entry under a name that exists at that moment (Register of an existing user or built-in name; Replace carrying Before/After, which gorm stores as an entry of its own) IS generated. The statement does not say where such a name then runs, nor whether the OLDER handler of a name that was merely registered again still runs as a callback of its own; it does say that every registered, non-removed callback runs exactly once and that Replace puts the new function in the place of the replaced callback. Demanded therefore: the handler handed over by the last call under the name (that call returned nil and nothing removed or replaced the handler since) fires exactly once - under either reading of a repeated Register it is a registered callback -, a handler that a later Replace (plain, or carrying Before/After) replaced does not fire, no handler fires twice, after Remove(name) none of them fires (and a later Register of the name starts afresh), that the NAMED Before/After request carried by the call that made the newest entry holds for the handler that fires (that call returned nil; whether the name is one callback defined anew or several callbacks, this request stands), and that a callback naming such a name fires on the requested side of it. For a BUILT-IN name that was never removed the built-in order is demanded as well: either the name is still the one built-in callback (its function defined anew) or the built-in persists next to the new callback - in both readings a callback of that name stands in the built-in's place, so when exactly one handler of the name fires it has to be there (a call that asks the built-in to leave its place has to return an error, as the statement demands of every request that contradicts the built-in order; the unchanged gorm does). Not checked: the requests of the older entries of the name (a later registration may be read as superseding them), a '*' request of a second entry, the Replace position of such a name, the order of a several-entry USER name relative to callbacks that do not name it, and the built-in order when two handlers of the name fire",
		"a built-in name that was removed and is then registered again is treated the same way (position unspecified); the random generator does not produce it",
		"a callback never names itself in Before/After; the Before/After requests of a Remove call mean nothing (the callback is removed all the same); plain Replace and Remove are the only forms in the exhaustive enumeration; Match is not used",
		"'*' is read weakly: a callback registered Before(\"*\") (After(\"*\")) must fire before (after) every built-in and every callback registered without any Before/After; nothing is demanded relative to callbacks that carry constraints of their own",
		"Replace of a name that does not exist at that moment is generated, but the resulting callback is only required to fire at most once, and constraints naming it are not checked (the statement defines Replace by the replaced callback's position)",
		"the sequence stops at the first call that returns an error (accepted outcome); the pipeline is then not executed",
		"the statement's 'the pipeline runs every ... callback exactly once' is read as holding for every call of processor.Execute whatever the state of the statement: a statement that reaches the callbacks with db.Error already set still runs every registered callback once (the built-ins guard on db.Error themselves). Only finishers that always reach Execute are used (Create, Find, Updates, Delete, Rows, Exec); Row() is not used on a failed statement or in DryRun (it returns an empty *sql.Row there). Which error such a statement ends with is not checked",
		"an execution of the pipeline does not change the registry, so registration calls made after an execution are held to the model of the whole sequence; a late call that returns an error is an accepted outcome (the last execution is then skipped). Registration through a derived session or transaction handle, Match, a builder returned by Before/After used for more than one call, Before(a).Before(b) chains, and executions concurrent with registration are not generated",
		"entries marked [B] in the Rule are run with the wrapped built-ins only: on the pristine registry the effects of the built-ins under a driver fault, in DryRun or inside an outer transaction are not the ones mode A is keyed to",
		"position of a Replace'd callback = same side of every other callback as in a reference run of the sequence without its Replace calls (skipped when the reference run returns an error)",
		"mode A: gorm:setup_reflect_value has no visible effect and is only covered by mode B; when the sequence replaces or removes a built-in, the effects of the other built-ins are required at most once (their visibility may depend on the missing one)",
		"a sequence whose execution ends the process is a violation with signature 'fatal' (neither an error return nor a working pipeline): sequences whose constraints among existing user callbacks form a cycle are first executed in a process of their own (probe) so that the batch survives; any other process-fatal case is attributed by the runner's per-case log",
	},
	Cases:         func(tier string) int { return exhaustiveCases(tier) + randomCases(tier) + againCases() },
	Batch:         func(string) int { return 256 },
	Run:           run,
	Init:          initEnv,
	Exhaustive:    func(string) bool { return true },
	MinNontrivial: 1000,
}

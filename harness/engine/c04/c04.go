// Package c04: transaction blocks commit everything on success and nothing on error or panic.
//
// Programs are random trees of Transaction blocks (depth <= 4) with writes, reads and
// child blocks in between, every block assigned an outcome {return nil, return a sentinel
// error, panic(sentinel)}, parents propagating or swallowing a child's error; plus manual
// Begin / SavePoint / RollbackTo / Commit / Rollback sequences; optionally one injected
// driver fault (BEGIN, SAVEPOINT, statement or COMMIT). The reference is a snapshot-stack
// model advanced at the client boundary (a write counts when gorm reported success; a
// block's snapshot is restored when gorm reported its failure). Oracle: final table
// contents == model, read-your-writes inside blocks, error / panic identity, no open
// transaction at the driver and no checked-out connection afterwards. Statements outside any
// block run before and after it through the same handle (same texts: a prepared-statement cache has
// then seen them outside a transaction; the handle must stay usable); manual sequences may go on
// using the finished handle (every such call must fail); an outermost block may finish its own
// transaction (Transaction must then report the failure of its COMMIT).
//
// Round 8: the pool below the handle is the *sql.DB or a caller's own ConnPool wrapper (ConnPoolBeginner); the root
// handle is taken in one of several session forms (rootForms: Session{PrepareStmt} over a configured PrepareStmt
// stacks two statement caches, ...); statements come in the forms gorm executes along different paths (RETURNING
// updates / deletes, Save, raw Exec, database-assigned keys); blocks set and roll back to save points of their own;
// manual sequences run trees of blocks through the Begin() handle; Transaction / Begin are first tried on a handle
// that carries an error (nothing may start); a failed BEGIN must come back as the result and run nothing, and a
// failed driver call inside a block must be heard of by the caller.
package c04

import (
	"context"
	"database/sql"
	"errors"
	"fmt"
	"sort"
	"strings"
	"sync/atomic"

	"gorm.io/driver/sqlite"
	"gorm.io/gorm"
	"gorm.io/gorm/clause"
	"gorm.io/gorm/logger"

	"verif/core"
	"verif/dialects"
	"verif/recdrv"
	"verif/vdb"
)

type KV struct {
	ID int64 `gorm:"primaryKey"`
	V  string
}

// ghostID is non-zero while a "ghost" statement runs (an update / delete of a key no row has): the
// model's hooks then write a row with this key through the handle they are given. The statement itself
// affects no row; what its hook wrote belongs to the same (block or default) transaction.
var ghostID int64

// ghostWrote: the hook ran and its Create returned nil (a SkipHooks handle runs no hook; an injected fault
// may fail the hook's own statement)
var ghostWrote bool

func ghostWrite(tx *gorm.DB) error {
	if ghostID == 0 {
		return nil
	}
	id := ghostID
	ghostID = 0
	err := tx.Create(&KV{ID: id, V: "hook"}).Error
	ghostWrote = err == nil
	return err
}

func (k *KV) BeforeUpdate(tx *gorm.DB) error { return ghostWrite(tx) }
func (k *KV) BeforeDelete(tx *gorm.DB) error { return ghostWrite(tx) }

const ghostKey = int64(1) << 40

// cfg: the three configuration switches of the statement, and wrapped: the handle's connection pool is a caller's
// own gorm.ConnPool around the *sql.DB (it begins through the ConnPoolBeginner interface and hands out its own
// gorm.Tx; the shape of tests/connpool_test.go) instead of the *sql.DB itself.
type cfg struct{ prep, noNested, skipDefault, wrapped bool }

func (c cfg) String() string {
	s := fmt.Sprintf("PrepareStmt=%v DisableNestedTransaction=%v SkipDefaultTransaction=%v", c.prep, c.noNested, c.skipDefault)
	if c.wrapped {
		s += " ConnPool=wrapper(*sql.DB)"
	}
	return s
}

const nHandles = 16

var handles [nHandles]*vdb.Handle

func cfgOf(i int) cfg { return cfg{i&1 != 0, i&2 != 0, i&4 != 0, i&8 != 0} }

// poolWrap is a caller-side connection pool: every call goes to the *sql.DB below; transactions are begun through
// ConnPoolBeginner and come back as a txWrap (a gorm.Tx that is not a *sql.Tx).
type poolWrap struct{ db *sql.DB }

func (p *poolWrap) PrepareContext(ctx context.Context, q string) (*sql.Stmt, error) {
	return p.db.PrepareContext(ctx, q)
}
func (p *poolWrap) ExecContext(ctx context.Context, q string, a ...interface{}) (sql.Result, error) {
	return p.db.ExecContext(ctx, q, a...)
}
func (p *poolWrap) QueryContext(ctx context.Context, q string, a ...interface{}) (*sql.Rows, error) {
	return p.db.QueryContext(ctx, q, a...)
}
func (p *poolWrap) QueryRowContext(ctx context.Context, q string, a ...interface{}) *sql.Row {
	return p.db.QueryRowContext(ctx, q, a...)
}
func (p *poolWrap) BeginTx(ctx context.Context, opts *sql.TxOptions) (gorm.ConnPool, error) {
	tx, err := p.db.BeginTx(ctx, opts)
	if err != nil {
		return nil, err
	}
	return &txWrap{Tx: tx}, nil
}
func (p *poolWrap) GetDBConn() (*sql.DB, error) { return p.db, nil }

type txWrap struct{ *sql.Tx }

func initEnv(c *core.Ctx) {
	for i := range handles {
		k := cfgOf(i)
		conf := gorm.Config{PrepareStmt: k.prep, DisableNestedTransaction: k.noNested, SkipDefaultTransaction: k.skipDefault}
		h, err := vdb.Open(vdb.Options{Config: conf})
		if err != nil {
			panic(err)
		}
		if err := h.DB.AutoMigrate(&KV{}); err != nil {
			panic(err)
		}
		if k.wrapped {
			// the same database and recording driver, reached through the caller's own pool
			conf.Logger = logger.Discard
			conf.NowFunc = h.Clock.Now
			db, err := gorm.Open(dialects.VSQLite{Dialector: sqlite.Dialector{Conn: &poolWrap{db: h.SQL}}}, &conf)
			if err != nil {
				panic(err)
			}
			h.DB = db
		}
		handles[i] = h
	}
}

// rootForms: how the handle is obtained on which the outermost block / Begin() and the statements outside any
// block are called. Every form is a reusable session of the opened handle.
var rootForms = []string{"db", "db.Session{PrepareStmt}", "db.WithContext", "db.Session{NewDB}", "db.Debug", "db.Session{PrepareStmt,SkipHooks}.Session",
	"db.Session{SkipDefaultTransaction}", "db.Session{DisableNestedTransaction}", "db.Session{PrepareStmt}.Session{PrepareStmt}", "db.Session{Context}"}

func rootHandle(db *gorm.DB, form int) *gorm.DB {
	switch form {
	case 1:
		return db.Session(&gorm.Session{PrepareStmt: true})
	case 2:
		return db.WithContext(context.Background())
	case 3:
		return db.Session(&gorm.Session{NewDB: true})
	case 4:
		return db.Debug()
	case 5:
		return db.Session(&gorm.Session{PrepareStmt: true, SkipHooks: true}).Session(&gorm.Session{})
	case 6:
		return db.Session(&gorm.Session{SkipDefaultTransaction: true})
	case 7:
		return db.Session(&gorm.Session{DisableNestedTransaction: true})
	case 8:
		return db.Session(&gorm.Session{PrepareStmt: true}).Session(&gorm.Session{PrepareStmt: true})
	case 9:
		return db.Session(&gorm.Session{Context: context.WithValue(context.Background(), ctxKey{}, "c04")})
	}
	return db.Session(&gorm.Session{})
}

type ctxKey struct{}

type sentinel struct{ id int }

func (s *sentinel) Error() string { return fmt.Sprintf("sentinel-%d", s.id) }

type block struct {
	id        int
	outcome   int // 0 nil, 1 error, 2 panic
	items     []item
	propagate bool // propagate a child's error (else swallow and go on)
	recovers  bool // recover a child's panic and go on (the enclosing transaction must stay usable)
	sent      *sentinel
	// selfFinish (outermost block only): the function itself calls tx.Rollback() / tx.Commit() as its
	// last action and returns nil; Transaction's own COMMIT then fails and that error must come back
	selfFinish string
}

type item struct {
	kind  string // write | read | child | update | delete | ... | savepoint | rollto
	child *block
	via   int    // how the block's handle is derived before the statement (see derive)
	name  string // savepoint / rollto: the save point's name
}

// derive returns a handle derived from the block's transaction handle: whatever the
// caller derives inside a block must stay inside that transaction.
func derive(tx *gorm.DB, via int) *gorm.DB {
	switch via {
	case 1:
		return tx.Session(&gorm.Session{})
	case 2:
		return tx.Session(&gorm.Session{PrepareStmt: true})
	case 3:
		return tx.WithContext(context.Background())
	case 4:
		return tx.Session(&gorm.Session{NewDB: true})
	case 5:
		return tx.Debug()
	case 6:
		return tx.Session(&gorm.Session{PrepareStmt: true, SkipHooks: true}).Session(&gorm.Session{})
	}
	return tx
}

var viaNames = []string{"", "/Session", "/Session{PrepareStmt}", "/WithContext", "/Session{NewDB}", "/Debug", "/Session{PrepareStmt}.Session"}

type gen struct {
	r      *core.Rand
	blocks int
}

func (g *gen) via() int {
	if g.r.Bool() {
		return 0
	}
	return g.r.Intn(len(viaNames))
}

func (g *gen) block(depth int) *block {
	g.blocks++
	b := &block{id: g.blocks, propagate: g.r.Bool(), recovers: g.r.Bool()}
	b.sent = &sentinel{b.id}
	switch g.r.Intn(6) {
	case 0, 1:
		b.outcome = 1
	case 2:
		b.outcome = 2
	}
	n := g.r.Range(1, 5)
	// save points the block sets itself on its transaction handle (SavePoint / RollbackTo between its statements and
	// children); live: the ones a RollbackTo may still name (rolling back to one discards the later ones)
	var live []string
	for i := 0; i < n; i++ {
		switch k := g.r.Intn(8); {
		case k < 3 && g.r.Chance(1, 6):
			if len(live) > 0 && g.r.Bool() {
				at := g.r.Intn(len(live))
				b.items = append(b.items, item{kind: "rollto", name: live[at], via: g.via()})
				live = live[:at+1]
			} else {
				name := fmt.Sprintf("b%ds%d", b.id, i)
				live = append(live, name)
				b.items = append(b.items, item{kind: "savepoint", name: name, via: g.via()})
			}
		case k < 3:
			b.items = append(b.items, item{kind: core.Pick(g.r, writeKinds), via: g.via()})
		case k == 3 && g.r.Intn(3) == 0:
			b.items = append(b.items, item{kind: "batch", via: g.via()})
		case k == 3:
			b.items = append(b.items, item{kind: "read", via: g.via()})
		case k == 4:
			b.items = append(b.items, item{kind: core.Pick(g.r, mutateKinds), via: g.via()})
		default:
			if depth > 1 && g.blocks < 12 {
				b.items = append(b.items, item{kind: "child", child: g.block(depth - 1)})
			} else {
				b.items = append(b.items, item{kind: "write"})
			}
		}
	}
	return b
}

// writeKinds: an insert with a key chosen by the caller, or with a key the database assigns (the statement then
// reads its key back: INSERT ... RETURNING runs as a query, not as an exec).
var writeKinds = []string{"write", "write", "write", "write-auto"}

// mutateKinds: the statement forms gorm executes along different paths. update / delete: Model(&KV{ID}).Update, Delete(&KV{ID});
// -ret: the same with clause.Returning (executed as a query whose rows are scanned back); save: Save(&KV{ID, V}) of an
// existing row; exec: Exec("UPDATE kvs SET ...") (raw statement); ghost-*: see ghostID.
var mutateKinds = []string{"update", "delete", "update", "delete", "ghost-update", "ghost-delete", "update-ret", "update-ret", "delete-ret", "save", "exec"}

func (b *block) String() string {
	var parts []string
	for _, it := range b.items {
		if it.kind == "child" {
			parts = append(parts, it.child.String())
		} else if it.name != "" {
			parts = append(parts, it.kind+"("+it.name+")"+viaNames[it.via])
		} else {
			parts = append(parts, it.kind+viaNames[it.via])
		}
	}
	out := []string{"nil", "ERR", "PANIC"}[b.outcome]
	pr := ""
	if b.selfFinish != "" {
		out = "tx." + b.selfFinish + "();nil"
	}
	if b.propagate {
		pr = "^"
	}
	if b.recovers {
		pr += "r"
	}
	return fmt.Sprintf("T%d%s{%s => %s}", b.id, pr, strings.Join(parts, ","), out)
}

// world is the model + the observation state of one program run.
type world struct {
	h        *vdb.Handle
	k        cfg
	state    map[int64]string
	nextID   int64
	problems []string
	trace    []string
	outside  bool // the statement runs outside any block (runOutside)
	txOpts   bool // Transaction / Begin receive an explicit (zero) *sql.TxOptions
	// faultFree: no fault is injected in this run (results of blocks inside a manual sequence are then predicted)
	faultFree bool
	// injectedSeen counts statement-level results (write / update / delete / read through a gorm handle)
	// that carry the injected driver error: one driver call failed once, so at most one statement may
	// report it; a second report means an earlier failure was kept somewhere and handed out again
	injectedSeen int
	reads        int
	// rootForm: how the handle of the outermost block / Begin() / the outside statements is derived (rootForms)
	rootForm int
	// explicit: a Transaction block or a manual sequence is running (set by execute around it)
	explicit bool
	// firedIn: where the injected fault fired ("" = it did not): "explicit <kind> <query>" or "outside ..."
	firedExplicit bool
	firedAt       string
	// heard: some call of the program (a statement, SavePoint, Commit, Begin, a Transaction block) returned the
	// injected error
	heard bool
	// class of the first problem that belongs to one of the narrow classes (violation signature)
	class string
}

func (w *world) note(err error) error {
	var inj *recdrv.ErrInjected
	if err != nil && errors.As(err, &inj) {
		w.injectedSeen++
		w.heard = true
	}
	return err
}

// hear records that a call returned the injected error without counting it as a statement-level report (the
// result of a block repeats what a statement inside it returned; a manual handle keeps its error)
func (w *world) hear(err error) error {
	var inj *recdrv.ErrInjected
	if err != nil && errors.As(err, &inj) {
		w.heard = true
	}
	return err
}

func (w *world) add(f string, a ...interface{}) {
	w.problems = append(w.problems, fmt.Sprintf(f, a...))
}

// addc adds a problem of a narrow class (its own violation signature)
func (w *world) addc(class, f string, a ...interface{}) {
	if w.class == "" {
		w.class = class
	}
	w.add(f, a...)
}

// root returns a fresh handle of the program's root form
func (w *world) root() *gorm.DB { return rootHandle(w.h.DB, w.rootForm) }

func (w *world) snapshot() map[int64]string {
	m := make(map[int64]string, len(w.state))
	for k, v := range w.state {
		m[k] = v
	}
	return m
}

func (w *world) write(tx *gorm.DB) error {
	w.nextID++
	id := w.nextID
	v := fmt.Sprintf("v%d", id)
	err := w.note(tx.Create(&KV{ID: id, V: v}).Error)
	w.trace = append(w.trace, fmt.Sprintf("write %d -> %v", id, err))
	if err == nil {
		w.state[id] = v
	}
	return err
}

// writeAuto: an insert whose key the database assigns; the model takes the key gorm wrote back into the value.
func (w *world) writeAuto(tx *gorm.DB) error {
	w.nextID++
	kv := KV{V: fmt.Sprintf("a%d", w.nextID)}
	err := w.note(tx.Create(&kv).Error)
	w.trace = append(w.trace, fmt.Sprintf("write (key assigned by the database: %d) -> %v", kv.ID, err))
	if err == nil {
		if _, dup := w.state[kv.ID]; dup || kv.ID == 0 {
			w.add("an insert without a key reported key %d, which is zero or the key of an existing row", kv.ID)
			return nil
		}
		w.state[kv.ID] = kv.V
		if kv.ID > w.nextID {
			w.nextID = kv.ID
		}
	}
	return err
}

// batch: a CreateInBatches of five rows in batches of two whose third or fifth row collides with an existing key.
// The caller looks at the error and goes on. CreateInBatches runs its batches in a (nested) Transaction block of its
// own: with nested transactions enabled (or at top level with the default transaction) none of its rows stay;
// without a transaction of its own the batches before the failing one stay, and the statement says so
// ("unless nested transactions are disabled").
func (w *world) batch(tx *gorm.DB) error {
	var exist []int64
	for id := range w.state {
		exist = append(exist, id)
	}
	if len(exist) == 0 {
		return nil
	}
	sort.Slice(exist, func(i, j int) bool { return exist[i] < exist[j] })
	rows := make([]KV, 5)
	for i := range rows {
		w.nextID++
		rows[i] = KV{ID: w.nextID, V: fmt.Sprintf("b%d", w.nextID)}
	}
	at := 2 + 2*(int(w.nextID)%2) // row 2 (second batch) or row 4 (third batch)
	rows[at].ID = exist[0]
	res := tx.CreateInBatches(&rows, 2)
	err := w.note(res.Error)
	ownTx := !w.k.skipDefault && (w.outside || !w.k.noNested)
	var inj *recdrv.ErrInjected
	switch {
	case err == nil:
		w.add("a batch insert with a colliding key returned no error")
	case errors.As(err, &inj) && !ownTx:
		// without a transaction of its own and with an injected failure somewhere: what stayed is what the handle shows
		var got []int64
		ids := make([]int64, 0, 5)
		for i, r := range rows {
			if i != at {
				ids = append(ids, r.ID)
			}
		}
		if e := tx.Session(&gorm.Session{NewDB: true}).Model(&KV{}).Where("id IN ?", ids).Order("id").Pluck("id", &got).Error; e == nil {
			for _, id := range got {
				w.state[id] = fmt.Sprintf("b%d", id)
			}
		}
	case !ownTx:
		for i := 0; i < at/2*2; i++ {
			w.state[rows[i].ID] = rows[i].V
		}
	}
	w.trace = append(w.trace, fmt.Sprintf("batch insert of 5 (row %d collides, own transaction: %v) -> %v", at, ownTx, err))
	return nil
}

func (w *world) mutate(tx *gorm.DB, kind string) error {
	if strings.HasPrefix(kind, "ghost-") {
		w.nextID++
		id := w.nextID
		ghostID, ghostWrote = id, false
		var res *gorm.DB
		if kind == "ghost-update" {
			res = tx.Model(&KV{ID: ghostKey}).Update("v", "x")
		} else {
			res = tx.Delete(&KV{ID: ghostKey})
		}
		ghostID = 0
		w.note(res.Error)
		w.trace = append(w.trace, fmt.Sprintf("%s (no row matches; its hook writes %d: %v) -> %v", kind, id, ghostWrote, res.Error))
		// inside an explicit transaction what the hook wrote is part of that transaction whether or not the
		// statement after it failed; outside, the default transaction makes the whole call one unit
		if ghostWrote && (res.Error == nil || !w.outside) {
			w.state[id] = "hook"
		}
		if res.Error == nil {
			if res.RowsAffected != 0 {
				w.add("%s of a key no row has reported %d rows affected", kind, res.RowsAffected)
			}
		}
		return res.Error
	}
	// pick the lowest existing id deterministically
	var ids []int64
	for id := range w.state {
		ids = append(ids, id)
	}
	if len(ids) == 0 {
		return nil
	}
	sort.Slice(ids, func(i, j int) bool { return ids[i] < ids[j] })
	id := ids[len(ids)/2]
	if kind != "delete" && kind != "delete-ret" {
		nv := w.state[id] + "u"
		var res *gorm.DB
		switch kind {
		case "update":
			res = tx.Model(&KV{ID: id}).Update("v", nv)
		case "update-ret":
			var out []KV
			res = tx.Model(&out).Clauses(clause.Returning{}).Where("id = ?", id).Update("v", nv)
		case "save":
			res = tx.Save(&KV{ID: id, V: nv})
		case "exec":
			res = tx.Exec("UPDATE kvs SET v = ? WHERE id = ?", nv, id)
		default:
			panic("unknown statement kind " + kind)
		}
		err := w.note(res.Error)
		w.trace = append(w.trace, fmt.Sprintf("%s %d -> %v", kind, id, err))
		if err == nil {
			w.state[id] = nv
		}
		return err
	}
	var err error
	if kind == "delete-ret" {
		var out []KV
		err = w.note(tx.Clauses(clause.Returning{}).Where("id = ?", id).Delete(&out).Error)
	} else {
		err = w.note(tx.Delete(&KV{ID: id}).Error)
	}
	w.trace = append(w.trace, fmt.Sprintf("%s %d -> %v", kind, id, err))
	if err == nil {
		delete(w.state, id)
	}
	return err
}

func render(m map[int64]string) string {
	var ids []int64
	for id := range m {
		ids = append(ids, id)
	}
	sort.Slice(ids, func(i, j int) bool { return ids[i] < ids[j] })
	parts := make([]string, len(ids))
	for i, id := range ids {
		parts[i] = fmt.Sprintf("%d=%s", id, m[id])
	}
	return strings.Join(parts, " ")
}

func (w *world) read(tx *gorm.DB) error {
	var rows []KV
	w.reads++
	form := []string{"Find", "Rows", "Row"}[w.reads%3]
	var err error
	switch form {
	case "Find":
		err = w.note(tx.Order("id").Find(&rows).Error)
	case "Rows":
		// the same read through Rows() + ScanRows
		var rs *sql.Rows
		q := tx.Model(&KV{}).Order("id")
		rs, err = q.Rows()
		err = w.note(err)
		if err == nil {
			for rs.Next() {
				var r KV
				if e := q.ScanRows(rs, &r); e != nil {
					err = e
					break
				}
				rows = append(rows, r)
			}
			if e := rs.Err(); err == nil && e != nil {
				err = w.note(e)
			}
			rs.Close()
		}
	case "Row":
		// Row(): the number of rows and the highest key, read as one row on the block's connection; then the rows
		var n, max sql.NullInt64
		row := tx.Model(&KV{}).Select("count(*), max(id)").Row()
		if row == nil {
			err = errors.New("Row() returned nil")
		} else {
			err = w.note(row.Scan(&n, &max))
		}
		if err == nil {
			wantMax := int64(0)
			for id := range w.state {
				if id > wantMax {
					wantMax = id
				}
			}
			if n.Int64 != int64(len(w.state)) || max.Int64 != wantMax {
				w.add("Row() inside a block counted %d rows (highest key %d), the writes made so far define %d rows (highest key %d)", n.Int64, max.Int64, len(w.state), wantMax)
			}
			err = w.note(tx.Order("id").Find(&rows).Error)
		}
	}
	if err != nil {
		w.trace = append(w.trace, fmt.Sprintf("read(%s) -> %v", form, err))
		return err
	}
	got := map[int64]string{}
	for _, r := range rows {
		got[r.ID] = r.V
	}
	if render(got) != render(w.state) {
		w.add("read inside a block saw [%s], the writes made so far define [%s]", render(got), render(w.state))
	}
	w.trace = append(w.trace, "read ok")
	return nil
}

// runBlock executes b through db.Transaction; nested tells whether db is already in a transaction.
// The model follows the statement literally: a top-level block's writes are durable iff its
// function returned nil and the COMMIT succeeded at the driver; a nested block's writes are
// undone iff its function returned an error or panicked (and nested transactions are enabled).
func (w *world) runBlock(db *gorm.DB, b *block, nested bool) (err error) {
	snap := w.snapshot()
	mark := w.h.Rec.Mark()
	fnRan, fnOK := false, false
	settle := func() {
		if nested {
			if !w.k.noNested && !(fnRan && fnOK) {
				w.state = snap
			}
			return
		}
		committed := false
		for _, e := range w.h.Rec.Since(mark) {
			if e.Kind == recdrv.KCommit && e.Err == nil {
				committed = true
			}
		}
		if !(fnRan && fnOK && committed) {
			w.state = snap
		}
		if committed && !(fnRan && fnOK) {
			w.add("block T%d was committed although its function failed", b.id)
		}
	}
	defer func() {
		if p := recover(); p != nil {
			fnOK = false
			settle()
			panic(p)
		}
	}()
	var opts []*sql.TxOptions
	if w.txOpts {
		opts = append(opts, &sql.TxOptions{})
	}
	err = db.Transaction(func(tx *gorm.DB) (ferr error) {
		fnRan = true
		defer func() { fnOK = ferr == nil && recover2() }()
		saves := map[string]map[int64]string{}
		for _, it := range b.items {
			switch it.kind {
			case "savepoint":
				e := w.hear(derive(tx, it.via).SavePoint(it.name).Error)
				w.trace = append(w.trace, fmt.Sprintf("T%d: savepoint %s -> %v", b.id, it.name, e))
				if e != nil {
					return e
				}
				saves[it.name] = w.snapshot()
			case "rollto":
				e := w.hear(derive(tx, it.via).RollbackTo(it.name).Error)
				w.trace = append(w.trace, fmt.Sprintf("T%d: rollback to %s -> %v", b.id, it.name, e))
				if e != nil {
					return e
				}
				w.state = saves[it.name]
				saves[it.name] = w.snapshot()
			case "write":
				if e := w.write(derive(tx, it.via)); e != nil {
					return e
				}
			case "write-auto":
				if e := w.writeAuto(derive(tx, it.via)); e != nil {
					return e
				}
			case "update", "delete", "ghost-update", "ghost-delete", "update-ret", "delete-ret", "save", "exec":
				if e := w.mutate(derive(tx, it.via), it.kind); e != nil {
					return e
				}
			case "read":
				if e := w.read(derive(tx, it.via)); e != nil {
					return e
				}
			case "batch":
				if it.via == 6 {
					// (a SkipHooks session is fine, but keep the statement texts of via 6 for reads and writes)
					it.via = 0
				}
				w.batch(derive(tx, it.via))
			case "child":
				var e error
				func() {
					defer func() {
						if b.recovers {
							if p := recover(); p != nil {
								w.trace = append(w.trace, fmt.Sprintf("child T%d panicked with %v, recovered by T%d", it.child.id, p, b.id))
								if p != interface{}(it.child.sent) && !isDeeper(it.child, p) {
									w.add("panic value changed on its way through Transaction: %v", p)
								}
							}
						}
					}()
					e = w.runBlock(tx, it.child, true)
				}()
				w.trace = append(w.trace, fmt.Sprintf("child T%d returned %v", it.child.id, e))
				if e != nil && b.propagate {
					return e
				}
			}
		}
		switch b.selfFinish {
		case "Rollback":
			e := tx.Rollback().Error
			w.trace = append(w.trace, fmt.Sprintf("T%d calls tx.Rollback() itself -> %v", b.id, e))
			return nil
		case "Commit":
			e := w.hear(tx.Commit().Error)
			w.trace = append(w.trace, fmt.Sprintf("T%d calls tx.Commit() itself -> %v", b.id, e))
			return nil
		}
		switch b.outcome {
		case 1:
			return b.sent
		case 2:
			panic(b.sent)
		}
		return nil
	}, opts...)
	w.hear(err)
	settle()
	if !nested {
		// a failed BEGIN runs nothing and its error is the block's result
		for _, e := range w.h.Rec.Since(mark) {
			if e.Kind != recdrv.KBegin {
				continue
			}
			if e.Err != nil {
				var inj *recdrv.ErrInjected
				if fnRan {
					w.addc("begin", "BEGIN of block T%d failed at the driver (%v) but the block's function ran", b.id, e.Err)
				}
				if err == nil || (e.Inject && !errors.As(err, &inj)) {
					w.addc("begin", "BEGIN of block T%d failed at the driver with [%v]; Transaction returned [%v] instead of that error", b.id, e.Err, err)
				}
			}
			break
		}
	}
	if !nested && err == nil {
		committed := false
		for _, e := range w.h.Rec.Since(mark) {
			if e.Kind == recdrv.KCommit && e.Err == nil {
				committed = true
			}
		}
		if !committed {
			w.add("Transaction returned nil for block T%d but no COMMIT succeeded at the driver (its writes are not durable)", b.id)
		}
	}
	if fnRan && fnOK && err != nil && nested {
		w.add("nested block T%d's function returned nil but Transaction returned %v", b.id, err)
	}
	return err
}

// recover2 exists only to keep the deferred expression simple: a panicking function
// never reaches the assignment of ferr, so fnOK stays false.
func recover2() bool { return true }

type manualStep struct {
	kind string // write read save rollto commit rollback
	name string
	via  int
	late bool // issued on the handle after the transaction was finished
	// block: a tree of Transaction blocks run through the handle Begin() returned (tx.Transaction(fc)); the caller
	// looks at its error, recovers its panic, and goes on: the transaction must stay usable
	child *block
}

func genManual(r *core.Rand) []manualStep {
	var steps []manualStep
	var saves []string
	g := &gen{r: r}
	n := r.Range(2, 9)
	for i := 0; i < n; i++ {
		switch k := r.Intn(8); {
		case k < 3:
			steps = append(steps, manualStep{kind: core.Pick(r, writeKinds), via: r.Intn(len(viaNames)) * r.Intn(2)})
		case k == 3 && r.Bool():
			steps = append(steps, manualStep{kind: core.Pick(r, mutateKinds), via: r.Intn(len(viaNames)) * r.Intn(2)})
		case k == 4 && g.blocks < 6 && r.Bool():
			steps = append(steps, manualStep{kind: "block", child: g.block(r.Range(1, 2))})
		case k == 3:
			steps = append(steps, manualStep{kind: "read", via: r.Intn(len(viaNames)) * r.Intn(2)})
		case k < 6:
			name := fmt.Sprintf("s%d", len(saves)+1)
			saves = append(saves, name)
			steps = append(steps, manualStep{kind: "savepoint", name: name})
		default:
			if len(saves) > 0 {
				steps = append(steps, manualStep{kind: "rollto", name: core.Pick(r, saves)})
			} else {
				steps = append(steps, manualStep{kind: "write"})
			}
		}
	}
	steps = append(steps, manualStep{kind: core.Pick(r, []string{"commit", "commit", "rollback"})})
	// sometimes the caller goes on using the finished transaction handle: every such call must fail
	// and change nothing
	if r.Chance(1, 3) {
		for i, n := 0, r.Range(1, 2); i < n; i++ {
			steps = append(steps, manualStep{kind: core.Pick(r, []string{"commit", "rollback", "write", "read"}), late: true})
		}
	}
	return steps
}

func (w *world) runManual(base *gorm.DB, steps []manualStep) (finalErr error) {
	var opts []*sql.TxOptions
	if w.txOpts {
		opts = append(opts, &sql.TxOptions{})
	}
	mark := w.h.Rec.Mark()
	tx := base.Begin(opts...)
	pre := w.snapshot()
	w.hear(tx.Error)
	for _, e := range w.h.Rec.Since(mark) {
		if e.Kind == recdrv.KBegin && e.Err != nil {
			var inj *recdrv.ErrInjected
			if tx.Error == nil || (e.Inject && !errors.As(tx.Error, &inj)) {
				w.addc("begin", "BEGIN failed at the driver with [%v]; the handle returned by Begin() carries [%v] instead of that error", e.Err, tx.Error)
			}
		}
	}
	if tx.Error != nil {
		w.trace = append(w.trace, fmt.Sprintf("begin -> %v", tx.Error))
		return tx.Error
	}
	saves := map[string]map[int64]string{}
	order := []string{}
	abort := func(e error) error {
		tx.Rollback()
		w.state = pre
		return e
	}
	for _, s := range steps {
		if s.late {
			var e error
			switch s.kind {
			case "commit":
				e = tx.Commit().Error
			case "rollback":
				e = tx.Rollback().Error
			case "write":
				w.nextID++
				e = tx.Create(&KV{ID: w.nextID, V: "late"}).Error
			case "read":
				var rows []KV
				e = tx.Find(&rows).Error
			}
			w.trace = append(w.trace, fmt.Sprintf("%s on the finished transaction -> %v", s.kind, e))
			if e == nil {
				w.add("%s on a transaction that was already finished returned no error", s.kind)
			}
			continue
		}
		switch s.kind {
		case "write":
			if e := w.write(derive(tx, s.via)); e != nil {
				return abort(e)
			}
		case "read":
			if e := w.read(derive(tx, s.via)); e != nil {
				return abort(e)
			}
		case "write-auto":
			if e := w.writeAuto(derive(tx, s.via)); e != nil {
				return abort(e)
			}
		case "update", "delete", "ghost-update", "ghost-delete", "update-ret", "delete-ret", "save", "exec":
			if e := w.mutate(derive(tx, s.via), s.kind); e != nil {
				return abort(e)
			}
		case "block":
			var e error
			var pv interface{}
			func() {
				defer func() { pv = recover() }()
				e = w.runBlock(tx, s.child, true)
			}()
			w.trace = append(w.trace, fmt.Sprintf("tx.Transaction(T%d) returned %v (panic %v)", s.child.id, e, pv))
			if w.faultFree {
				we, wp := expectedTop(s.child)
				switch {
				case wp != nil && pv != interface{}(wp):
					w.add("panic value %v of block T%d did not reach the caller of tx.Transaction unchanged (got %v, error %v)", wp, s.child.id, pv, e)
				case wp == nil && pv != nil:
					w.add("unexpected panic %v out of block T%d", pv, s.child.id)
				case wp == nil && we != nil && e != error(we):
					w.add("tx.Transaction(T%d) returned %v, not the block's own error value %v", s.child.id, e, we)
				case wp == nil && we == nil && e != nil:
					w.add("all blocks of T%d succeed but tx.Transaction returned %v", s.child.id, e)
				}
			}
		case "savepoint":
			e := w.hear(tx.SavePoint(s.name).Error)
			w.trace = append(w.trace, fmt.Sprintf("savepoint %s -> %v", s.name, e))
			if e != nil {
				return abort(e)
			}
			saves[s.name] = w.snapshot()
			order = append(order, s.name)
		case "rollto":
			e := w.hear(tx.RollbackTo(s.name).Error)
			w.trace = append(w.trace, fmt.Sprintf("rollback to %s -> %v", s.name, e))
			if e != nil {
				return abort(e)
			}
			w.state = saves[s.name]
			// SQL semantics: savepoints established after s.name are gone; s.name stays
			for i, n := range order {
				if n == s.name {
					for _, later := range order[i+1:] {
						delete(saves, later)
					}
					order = order[:i+1]
					break
				}
			}
			saves[s.name] = w.snapshot()
		case "commit":
			e := w.hear(tx.Commit().Error)
			w.trace = append(w.trace, fmt.Sprintf("commit -> %v", e))
			if e != nil {
				w.state = pre
			}
			finalErr = e
		case "rollback":
			e := tx.Rollback().Error
			w.trace = append(w.trace, fmt.Sprintf("rollback -> %v", e))
			w.state = pre
			finalErr = e
		}
	}
	return finalErr
}

func faultCalls(evs []recdrv.Event) int {
	n := 0
	for _, e := range evs {
		switch e.Kind {
		case recdrv.KBegin, recdrv.KPrepare, recdrv.KExec, recdrv.KQuery, recdrv.KStmtExec, recdrv.KStmtQuery, recdrv.KCommit:
			if !strings.HasPrefix(e.Query, "ROLLBACK TO") {
				n++
			}
		}
	}
	return n
}

// failNth fails the n-th faultable call, never a ROLLBACK or ROLLBACK TO SAVEPOINT.
func failNth(n int, err error) (recdrv.Hook, *int64) {
	var count int64
	return func(ev *recdrv.Event) error {
		if ev.Kind == recdrv.KRollback || strings.HasPrefix(ev.Query, "ROLLBACK TO") {
			return nil
		}
		if int(atomic.AddInt64(&count, 1)) == n {
			return err
		}
		return nil
	}, &count
}

type program struct {
	root   *block
	manual []manualStep
	// statements issued through the root handle outside any block, before and after it: the same
	// statement texts as inside (so a prepared-statement cache has seen them outside a transaction),
	// and the handle must still be usable afterwards
	pre, post []item
	// cold: the configured statement cache (PrepareStmt configurations) is emptied before every run
	cold bool
	// viaConn: the outermost block (or the manual sequence) runs inside db.Connection(...), on a dedicated connection,
	// which must go back to the pool whatever the outcome
	viaConn bool
	// rootForm: index into rootForms
	rootForm int
	// txOpts: Transaction / Begin are given an explicit zero *sql.TxOptions
	txOpts bool
	// errHandle: before the block / sequence proper, the same entry point (Transaction resp. Begin) is called once on a
	// handle that already carries an error (errHandleForms); nothing may be started by it
	errHandle int
}

// errHandleForms: 1 a session of the root handle with AddError(e); 2 the value returned by a First() that found no
// row (a chain value carrying ErrRecordNotFound); 3 a session of such a value
var errHandleForms = []string{"", "h.AddError(e)", "db.Where(..).First(&v) found nothing", "db.Where(..).First(&v).Session found nothing"}

// errAttempt calls Transaction(fc) (manual: Begin()) on a handle that carries an error: fc must not run, the error of
// the handle must come back as it is, and no transaction / connection may stay behind (the caller of Begin() does what
// the documentation says: it looks at tx.Error and returns).
func (w *world) errAttempt(form int, manual bool) {
	eh := w.root()
	switch form {
	case 1:
		eh.AddError(&sentinel{id: -1})
	case 2, 3:
		var kv KV
		eh = eh.Where("id = ?", ghostKey).First(&kv)
		w.note(eh.Error)
		if form == 3 {
			eh = eh.Session(&gorm.Session{})
		}
	}
	want := eh.Error
	if want == nil {
		w.addc("errhandle", "harness: the handle (%s) carries no error", errHandleForms[form])
		return
	}
	var got error
	ran := false
	what := "Transaction(fc)"
	if manual {
		what = "Begin()"
		got = eh.Begin().Error
	} else {
		got = eh.Transaction(func(tx *gorm.DB) error {
			ran = true
			return nil
		})
	}
	w.trace = append(w.trace, fmt.Sprintf("%s on a handle that carries [%v] (%s) -> %v", what, want, errHandleForms[form], got))
	if ran {
		w.addc("errhandle", "%s on a handle that carries the error [%v] ran its function", what, want)
	}
	if got != want {
		w.addc("errhandle", "%s on a handle that carries the error [%v] returned [%v], not that error", what, want, got)
	}
	if ctr := w.h.Rec.Counters(); ctr.OpenTx != 0 {
		w.addc("errhandle", "%s on a handle that carries the error [%v] left %d transaction(s) open at the driver", what, want, ctr.OpenTx)
	}
	if n := w.h.SQL.Stats().InUse; n != 0 {
		w.addc("errhandle", "%s on a handle that carries the error [%v] left %d connection(s) checked out", what, want, n)
	}
}

func genOutside(r *core.Rand) []item {
	var out []item
	for i, n := 0, r.Intn(4); i < n; i++ {
		out = append(out, item{kind: core.Pick(r, []string{"write", "write", "write-auto", "read", "update", "delete", "ghost-update", "ghost-delete", "batch", "update-ret", "delete-ret", "save", "exec"}), via: r.Intn(len(viaNames)) * r.Intn(2)})
	}
	return out
}

func outsideString(items []item) string {
	parts := make([]string, len(items))
	for i, it := range items {
		parts[i] = it.kind + viaNames[it.via]
	}
	return strings.Join(parts, ",")
}

// runOutside executes statements outside any block; an error (only possible with an injected
// fault) leaves the model as it is.
func (w *world) runOutside(items []item, faultFree bool) {
	w.outside = true
	defer func() { w.outside = false }()
	for _, it := range items {
		db := derive(w.root(), it.via)
		var e error
		if strings.HasPrefix(it.kind, "ghost-") && w.k.skipDefault {
			// without the default transaction a failing statement legitimately keeps what its hook wrote
			continue
		}
		switch it.kind {
		case "write":
			e = w.write(db)
		case "write-auto":
			e = w.writeAuto(db)
		case "read":
			e = w.read(db)
		case "batch":
			e = w.batch(db)
		default:
			e = w.mutate(db, it.kind)
		}
		if e != nil && faultFree {
			w.add("%s outside any block failed: %v", it.kind, e)
		}
	}
}

func (p program) String() string {
	if len(p.pre)+len(p.post) > 0 {
		q := p
		q.pre, q.post = nil, nil
		return "[" + outsideString(p.pre) + "] " + q.String() + " [" + outsideString(p.post) + "]"
	}
	if p.root != nil {
		return p.root.String()
	}
	parts := make([]string, len(p.manual))
	for i, s := range p.manual {
		parts[i] = s.kind + viaNames[s.via]
		if s.child != nil {
			parts[i] = "tx.Transaction:" + s.child.String()
		}
		if s.name != "" {
			parts[i] += "(" + s.name + ")"
		}
	}
	return "Begin;" + strings.Join(parts, ";")
}

// execute runs the program once on handle hi with a fault at call k (0 = none).
func execute(hi int, p program, failAt int) (w *world, calls int, retErr error, panicVal interface{}) {
	h := handles[hi]
	if p.cold {
		// start from an empty statement cache: preparation is then part of the program and of its fault points
		if pdb, ok := h.DB.ConnPool.(*gorm.PreparedStmtDB); ok {
			pdb.Reset()
		}
	}
	if _, err := h.SQL.Exec("DELETE FROM kvs; INSERT INTO kvs(id,v) VALUES (1,'seed1'),(2,'seed2')"); err != nil {
		panic(err)
	}
	w = &world{h: h, k: cfgOf(hi), state: map[int64]string{1: "seed1", 2: "seed2"}, nextID: 100, rootForm: p.rootForm, txOpts: p.txOpts, faultFree: failAt == 0}
	// session-level switches of the root handle count like the configured ones
	switch rootForms[p.rootForm] {
	case "db.Session{SkipDefaultTransaction}":
		w.k.skipDefault = true
	case "db.Session{DisableNestedTransaction}":
		w.k.noNested = true
	}
	inj := &recdrv.ErrInjected{At: fmt.Sprintf("call %d", failAt)}
	if failAt > 0 {
		hook, _ := failNth(failAt, inj)
		h.Rec.SetHook(func(ev *recdrv.Event) error {
			err := hook(ev)
			if err != nil {
				// (a preparation that fails may be made up for: QueryRowContext of the statement cache runs the
				// query unprepared then; only calls that carry the operation itself must be heard of)
				w.firedExplicit = w.explicit && ev.Kind != recdrv.KPrepare
				w.firedAt = fmt.Sprintf("%s %s", ev.Kind, ev.Query)
			}
			return err
		})
	}
	mark := h.Rec.Mark()
	func() {
		defer func() {
			w.explicit = false
			if r := recover(); r != nil {
				panicVal = r
			}
		}()
		w.runOutside(p.pre, failAt == 0)
		if p.errHandle != 0 {
			w.errAttempt(p.errHandle, p.root == nil)
		}
		body := func(base *gorm.DB) error {
			w.explicit = true
			defer func() { w.explicit = false }()
			if p.root != nil {
				return w.runBlock(base, p.root, false)
			}
			return w.runManual(base, p.manual)
		}
		if p.viaConn {
			retErr = w.root().Connection(func(c *gorm.DB) error {
				return body(c.Session(&gorm.Session{}))
			})
		} else {
			retErr = body(w.root())
		}
	}()
	func() {
		defer func() {
			if r := recover(); r != nil {
				w.add("statement after the block panicked: %v", r)
			}
		}()
		w.runOutside(p.post, failAt == 0)
	}()
	h.Rec.SetHook(nil)
	calls = faultCalls(h.Rec.Since(mark))
	// final state
	got := map[int64]string{}
	rows, _ := vdb.RowMaps(h.SQL, "SELECT id, v FROM kvs")
	for _, r := range rows {
		got[r["id"].(int64)] = fmt.Sprint(r["v"])
	}
	if render(got) != render(w.state) {
		w.add("table holds [%s], the blocks' outcomes define [%s]", render(got), render(w.state))
	}
	if w.firedExplicit && !w.heard {
		w.addc("unreported", "the driver call [%s] failed inside the block / sequence but no call of the program returned that error", w.firedAt)
	}
	if w.injectedSeen > 1 {
		w.add("one driver call failed once, but %d statements returned that failure: an earlier failure was handed out again", w.injectedSeen)
	}
	if ctr := h.Rec.Counters(); ctr.OpenTx != 0 {
		w.add("%d transactions still open at the driver", ctr.OpenTx)
	}
	if n := h.SQL.Stats().InUse; n != 0 {
		w.add("%d connections still checked out", n)
	}
	return
}

// isDeeper reports whether p is the sentinel of b or of one of its descendants.
func isDeeper(b *block, p interface{}) bool {
	if p == interface{}(b.sent) {
		return true
	}
	for _, it := range b.items {
		if it.kind == "child" && isDeeper(it.child, p) {
			return true
		}
	}
	return false
}

// expectedTop computes, without faults, what the outermost block must return.
func expectedTop(b *block) (err *sentinel, pan *sentinel) {
	for _, it := range b.items {
		if it.kind != "child" {
			continue
		}
		ce, cp := expectedTop(it.child)
		if cp != nil {
			if b.recovers {
				continue
			}
			return nil, cp
		}
		if ce != nil && b.propagate {
			return ce, nil
		}
	}
	switch b.outcome {
	case 1:
		return b.sent, nil
	case 2:
		return nil, b.sent
	}
	return nil, nil
}

func run(c *core.Ctx) {
	r := c.R
	hi := c.Case % nHandles
	var p program
	if c.Case%5 == 4 {
		p.manual = genManual(r)
	} else {
		g := &gen{r: r}
		p.root = g.block(r.Range(1, 4))
		if r.Chance(1, 10) {
			p.root.selfFinish = core.Pick(r, []string{"Rollback", "Commit"})
			p.root.outcome = 0
		}
	}
	if r.Bool() {
		p.pre, p.post = genOutside(r), genOutside(r)
	}
	p.cold = (c.Case/nHandles)%2 == 1
	p.viaConn = (p.root == nil || p.root.selfFinish == "") && (c.Case/(2*nHandles))%4 == 3
	if r.Bool() {
		p.rootForm = r.Intn(len(rootForms))
	}
	p.txOpts = r.Chance(1, 4)
	if r.Chance(1, 4) {
		p.errHandle = r.Range(1, len(errHandleForms)-1)
	}
	desc := cfgOf(hi).String() + " :: on " + rootForms[p.rootForm] + " :: " + p.String()
	if p.cold && cfgOf(hi).prep {
		desc += " (cold statement cache)"
	}
	if p.viaConn {
		desc += " (inside db.Connection)"
	}
	if p.txOpts {
		desc += " (with &sql.TxOptions{})"
	}
	if p.errHandle != 0 {
		desc += " (first the same entry point on a handle that carries an error: " + errHandleForms[p.errHandle] + ")"
	}
	c.Logf("PROGRAM %s", desc)
	w, calls, err, pv := execute(hi, p, 0)
	c.Inc("programs")
	ps := p.String()
	for _, f := range []struct {
		name string
		on   bool
	}{
		{"programs_on_wrapped_pool", cfgOf(hi).wrapped},
		{"programs_on_derived_root_handle", p.rootForm != 0},
		{"programs_with_error_carrying_handle", p.errHandle != 0},
		{"programs_with_returning_update_or_delete", strings.Contains(ps, "-ret")},
		{"programs_with_savepoints_inside_blocks", p.root != nil && strings.Contains(ps, "savepoint(")},
		{"manual_sequences_with_blocks", p.root == nil && strings.Contains(ps, "tx.Transaction:")},
		{"manual_sequences", p.root == nil},
	} {
		if f.on {
			c.Inc(f.name)
		}
	}
	var problems []string
	problems = append(problems, w.problems...)
	if p.root != nil {
		we, wp := expectedTop(p.root)
		if p.root.selfFinish != "" && wp == nil && (we == nil || we == p.root.sent) {
			// the function finished the transaction itself and returned nil (unless a child's error was
			// propagated first): Transaction's own COMMIT must fail and the caller must hear about it
			if err == nil {
				problems = append(problems, "the block finished its transaction itself, Transaction's COMMIT cannot have succeeded, yet nil was returned")
			}
			we, wp, err, pv = nil, nil, nil, nil
		}
		switch {
		case wp != nil:
			if pv != interface{}(wp) {
				problems = append(problems, fmt.Sprintf("panic value %v did not reach the caller unchanged (got %v, error %v)", wp, pv, err))
			}
		case we != nil:
			if err != error(we) {
				problems = append(problems, fmt.Sprintf("returned error %v is not the block's own error value %v", err, we))
			}
			if pv != nil {
				problems = append(problems, fmt.Sprintf("unexpected panic %v", pv))
			}
		default:
			if err != nil || pv != nil {
				problems = append(problems, fmt.Sprintf("all blocks succeed but error=%v panic=%v", err, pv))
			}
		}
	} else if pv != nil {
		problems = append(problems, fmt.Sprintf("unexpected panic %v", pv))
	}
	if len(problems) > 0 {
		c.Violation(sigOf("faultfree", w), map[string]interface{}{"program": desc, "problems": problems, "trace": w.trace})
		return
	}
	depth := strings.Count(p.String(), "{")
	c.Shape("prog", hi, depth, len(w.state), err != nil, pv != nil, p.root == nil, p.rootForm, p.errHandle)
	if c.WantSample() && depth >= 3 {
		c.Sample(map[string]interface{}{"program": desc, "trace": w.trace, "final_rows": render(w.state), "driver_calls": calls})
	}
	// one injected fault at every faultable call of small programs (all of them when thorough)
	limit := 14
	if c.Thorough {
		limit = 40
	}
	if calls > limit {
		// sample 6 positions
		for t := 0; t < 6; t++ {
			runFault(c, hi, p, desc, r.Range(1, calls))
		}
		return
	}
	for k := 1; k <= calls; k++ {
		runFault(c, hi, p, desc, k)
	}
}

// sigOf: the violation signature: the base class (faultfree / fault), or, when the run has a problem of one of the
// narrow classes, base-<class> (errhandle: an entry point on a handle that carries an error; begin: a failed BEGIN ran
// the block or its error did not come back; unreported: a failed driver call inside a block nobody heard of).
func sigOf(base string, w *world) string {
	if w.class != "" {
		return base + "-" + w.class
	}
	return base
}

func runFault(c *core.Ctx, hi int, p program, desc string, k int) {
	w, _, err, pv := execute(hi, p, k)
	c.Inc("faulted_runs")
	problems := append([]string(nil), w.problems...)
	// if the fault surfaced to the caller it must be the injected error, unchanged
	var inj *recdrv.ErrInjected
	selfFinish := p.root != nil && p.root.selfFinish != "" // the fault is then followed by the failure of Transaction's own COMMIT: a combined error
	if err != nil && !selfFinish && strings.Contains(err.Error(), "injected fault") && !errors.As(err, &inj) {
		problems = append(problems, "the injected error reached the caller in altered form: "+err.Error())
	}
	_ = pv
	if len(problems) > 0 {
		c.Violation(sigOf("fault", w), map[string]interface{}{"program": desc, "fault_at_call": k, "problems": problems, "trace": w.trace, "returned": fmt.Sprint(err)})
		return
	}
	c.Shape("fault", hi, k, err != nil, pv != nil, len(w.state))
}

var Engine = &core.Engine{
	ID:    "C04",
	Level: "fault_enumeration",
	Rule: "seeded programs: trees of nested Transaction blocks (depth <= 4, <= 12 blocks; items: insert with a given key / with a key the database assigns, update, delete, the same with clause.Returning, Save, raw Exec, ghost statements whose hook writes, CreateInBatches with a colliding row, read (Find / Rows / Row), SavePoint / RollbackTo on the block's own handle, child block; outcome nil / sentinel error / panic(sentinel); parent propagates or swallows a child's error, recovers or passes a child's panic) and manual Begin/SavePoint/RollbackTo/Commit/Rollback sequences with the same statements and with trees of blocks run through the Begin() handle (one in three continuing on the finished handle), half of the programs with statements outside any block before and after it, one outermost block in ten finishing its own transaction, one program in four inside db.Connection, one in four with explicit *sql.TxOptions; " +
		"on 16 configurations {PrepareStmt, DisableNestedTransaction, SkipDefaultTransaction} x {pool = *sql.DB, pool = a caller's own ConnPool wrapper beginning through ConnPoolBeginner}, the root handle taken in one of 10 forms (db, Session{PrepareStmt} once and twice, WithContext, Session{Context}, Session{NewDB}, Debug, Session{PrepareStmt,SkipHooks}.Session, Session{SkipDefaultTransaction}, Session{DisableNestedTransaction}); one program in four first calls the same entry point (Transaction / Begin) on a handle that carries an error (AddError, a First() that found nothing, a session of it): nothing may run or stay open and that error must come back; " +
		"each program runs fault-free and then once per faultable driver call (BEGIN, SAVEPOINT, statements, preparations, COMMIT; all calls for programs with <= 14 calls (quick) / 40 (thorough), 6 sampled positions beyond): a failed BEGIN must run nothing and come back as the result, a failed call inside a block / sequence must be returned by some call of the program and by at most one statement; " +
		"distinct = (config, depth, rows, error, panic, manual, root form, error-handle form) resp. (config, fault position, error, panic, rows); non-trivial = every program writes and is checked against the snapshot-stack model",
	Assumptions: []string{
		"the model advances at the client boundary: a write counts when gorm reported success, a block's snapshot is restored when gorm reported the block's failure (so an injected fault needs no separate prediction)",
		"SAVEPOINT / ROLLBACK TO errors are returned (vsqlite dialector; the stock SQLite dialector of the external driver module swallows them); faults are never injected on ROLLBACK or ROLLBACK TO SAVEPOINT",
		"a failed COMMIT is modelled as 'the server rolled the transaction back'",
		"RollbackTo(name) keeps the savepoint itself and discards later ones (SQL semantics); a block only rolls back to save points it set itself and that are still live (a manual sequence may name a discarded one: the error ends the sequence with Rollback)",
		"session-level SkipDefaultTransaction / DisableNestedTransaction of the root handle count like the configured switches",
		"a failed preparation need not be reported (the statement cache runs a QueryRow unprepared instead); every other failed driver call inside a block / sequence must be returned by some call; for statements outside any block only durability is judged (their reporting is C05's subject)",
		"Transaction / Begin on a handle that carries an error is generated at top level only: what a nested block on such a handle does (with or without DisableNestedTransaction) is not fixed by the statement",
		"the rows handed back by UPDATE / DELETE ... RETURNING are not judged, only the statement's error and its durability; a block that fails after its own SavePoint returns at once (the handle keeps a save point's error by design)",
	},
	Cases: func(tier string) int {
		if tier == "thorough" {
			return nHandles * 6000
		}
		return nHandles * 600
	},
	Batch:         func(string) int { return 64 },
	Run:           run,
	Init:          initEnv,
	MinNontrivial: 200,
}

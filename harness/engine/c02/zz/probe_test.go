package zz

import (
	"fmt"
	"testing"

	"gorm.io/gorm"
	"gorm.io/gorm/clause"

	"verif/pred"
	"verif/vdb"
)

func TestProbe(t *testing.T) {
	h, err := vdb.Open(vdb.Options{})
	if err != nil {
		t.Fatal(err)
	}
	h.DB.AutoMigrate(&pred.Row{})
	reload := func() {
		h.SQL.Exec("DELETE FROM rws")
		for i := 0; i < 6; i++ {
			h.SQL.Exec("INSERT INTO rws(id,a,s,mark) VALUES (?,?,?,0)", i, i%3, "ab")
		}
	}
	show := func(name string, res *gorm.DB) {
		m := h.Rec.Mark()
		_ = m
		fmt.Printf("%-40s err=%v ra=%d left=%v marked=%v\n", name, res.Error, res.RowsAffected, vdb.Ints(h.SQL, "SELECT id FROM rws ORDER BY id"), vdb.Ints(h.SQL, "SELECT id FROM rws WHERE mark=7 ORDER BY id"))
	}
	db := func() *gorm.DB { return h.DB.Session(&gorm.Session{}) }
	last := func(mark int) string {
		for _, e := range h.Rec.Since(mark) {
			if e.IsStatement() {
				return fmt.Sprintf("%s %v", e.Query, e.Args)
			}
		}
		return ""
	}
	run := func(name string, f func() *gorm.DB) {
		reload()
		mk := h.Rec.Mark()
		res := f()
		show(name, res)
		fmt.Println("    ", last(mk))
	}
	u := func(id int64) *pred.Row { return &pred.Row{ID: id} }
	_ = u
	run("Model(&k).Delete(val keyless)", func() *gorm.DB { return db().Model(u(3)).Where("a >= ?", 0).Delete(pred.Row{}) })
	run("Model(val k).Delete(&keyless)", func() *gorm.DB { return db().Model(pred.Row{ID: 3}).Where("a >= ?", 0).Delete(&pred.Row{}) })
	run("Model(val k).Delete(val keyless)", func() *gorm.DB { return db().Model(pred.Row{ID: 3}).Where("a >= ?", 0).Delete(pred.Row{}) })
	run("Model(&&k).Delete(&&keyless)", func() *gorm.DB { x := u(3); y := u(0); return db().Model(&x).Where("a >= ?", 0).Delete(&y) })
	run("Model(&k).Delete(&&k2)", func() *gorm.DB { x := u(3); y := u(4); return db().Model(x).Where("a >= ?", 0).Delete(&y) })
	run("Updates(val with key)", func() *gorm.DB { return db().Where("a >= ?", 0).Updates(pred.Row{ID: 3, Mark: 7}) })
	run("Model(val slice).Update", func() *gorm.DB { return db().Model([]pred.Row{{ID: 3}, {}}).Where("a >= ?", 0).Update("mark", 7) })
	run("Model(val slice).Delete(&keyless)", func() *gorm.DB { return db().Model([]pred.Row{{ID: 3}, {}}).Where("a >= ?", 0).Delete(&pred.Row{}) })
	run("Model(&[]*).Delete(&keyless)", func() *gorm.DB { x := []*pred.Row{{ID: 3}, {}}; return db().Model(&x).Where("a >= ?", 0).Delete(&pred.Row{}) })
	run("Model(&&[]*).Delete(&keyless)", func() *gorm.DB { x := &[]*pred.Row{{ID: 3}, {}}; return db().Model(&x).Where("a >= ?", 0).Delete(&pred.Row{}) })
	run("Model(&k).Updates(&&struct)", func() *gorm.DB { y := &pred.Row{Mark: 7}; return db().Model(u(3)).Where("a >= ?", 0).Updates(&y) })
	// clauses
	eq := func(c string, v interface{}) clause.Expression { return clause.Eq{Column: c, Value: v} }
	run("Where.Clauses(Or(x))", func() *gorm.DB { return db().Model(&pred.Row{}).Where("a = ?", 0).Clauses(clause.Or(eq("id", 1))).Update("mark", 7) })
	run("Where.Where(Or(x))", func() *gorm.DB { return db().Model(&pred.Row{}).Where("a = ?", 0).Where(clause.Or(eq("id", 1))).Update("mark", 7) })
	run("Where.Not(Or(x))", func() *gorm.DB { return db().Model(&pred.Row{}).Where("a = ?", 0).Not(clause.Or(eq("id", 3))).Update("mark", 7) })
	run("Where.Or(Or(x))", func() *gorm.DB { return db().Model(&pred.Row{}).Where("a = ?", 0).Or(clause.Or(eq("id", 1))).Update("mark", 7) })
	run("Where.Clauses(a, b)", func() *gorm.DB { return db().Model(&pred.Row{}).Where("a = ?", 0).Clauses(eq("id", 3), clause.Or(eq("id", 1), eq("id", 3))).Update("mark", 7) })
	run("Where.Clauses(Expr OR)", func() *gorm.DB { return db().Model(&pred.Row{}).Where("a = ?", 0).Clauses(clause.Expr{SQL: "id = ? OR id = ?", Vars: []interface{}{1, 3}}).Update("mark", 7) })
	run("Where.Clauses(NamedExpr OR)", func() *gorm.DB { return db().Model(&pred.Row{}).Where("a = ?", 0).Clauses(clause.NamedExpr{SQL: "id = @x OR id = @y", Vars: []interface{}{map[string]interface{}{"x": 1, "y": 3}}}).Update("mark", 7) })
	run("Where.Clauses(Not(Or(x)))", func() *gorm.DB { return db().Model(&pred.Row{}).Where("a = ?", 0).Clauses(clause.Not(clause.Or(eq("id", 3)))).Update("mark", 7) })
	run("Where.Clauses(Or(And(Or(x))))", func() *gorm.DB { return db().Model(&pred.Row{}).Where("a = ?", 0).Clauses(clause.Or(clause.And(clause.Or(eq("id", 3))))).Update("mark", 7) })
	run("Where.Clauses(Or(a, Or(x)))", func() *gorm.DB { return db().Model(&pred.Row{}).Where("a = ?", 0).Clauses(clause.Or(eq("id", 1), clause.Or(eq("id", 3)))).Update("mark", 7) })
	run("tight1", func() *gorm.DB { return db().Model(&pred.Row{}).Where("a = ?OR\"id\" = ?", 0, 1).Where("id < ?", 3).Update("mark", 7) })
	run("tight2", func() *gorm.DB { return db().Model(&pred.Row{}).Where("s = 'zz'OR[id] = 1").Where("id > ?", 3).Update("mark", 7) })
	run("tight3", func() *gorm.DB { return db().Model(&pred.Row{}).Where("s = 'zz'/**/OR--c\n`id` = 1").Where("id > ?", 3).Update("mark", 7) })
	run("tight4", func() *gorm.DB { return db().Model(&pred.Row{}).Where("id IN ?OR(a = 1)AND id IN (?)", []int64{1, 2}, []int64{4}).Where("id > ?", 3).Update("mark", 7) })
}

package c02

import (
	"database/sql"
	"fmt"
	"strings"

	"gorm.io/gorm"
	"gorm.io/gorm/clause"

	"verif/core"
	"verif/pred"
)

// Unit forms of this engine on top of pred's:
//
//   rawtight   a raw string whose AND / OR stand directly next to something that is not whitespace or a parenthesis:
//              a placeholder (a = ?OR"b" = ?), a string literal ('ab'OR), a quoted identifier ("b", `b`, [b]),
//              a block comment (OR/**/b) or a line comment (OR--x<newline>b); values as placeholder or as literal
//   exprs      hand-built clause expressions, one or two values in one call: clause trees wrapped in single-member
//              clause.And / clause.Or (the shape gorm itself uses for "OR-joined"), clause.Expr and clause.NamedExpr
//              with AND / OR in their text, alone or as members of those wrappers
//   lgroup     a grouped sub-builder whose own calls use the two forms above and Clauses
//
// and one more way to attach a unit: db.Clauses(expr...) with plain expressions means the same as db.Where(expr...).

func isWordByte(c byte) bool {
	return c == '_' || c == '$' || (c >= '0' && c <= '9') || (c >= 'A' && c <= 'Z') || (c >= 'a' && c <= 'z')
}

type tightR struct {
	r     *core.Rand
	st    pred.Style
	named bool
	args  []interface{}
	names map[string]interface{}
	n     int
	tight int // number of keywords with a non-whitespace neighbour
}

func (w *tightR) col(c string) string {
	switch w.r.Intn(6) {
	case 0, 1:
		return `"` + c + `"`
	case 2:
		return "`" + c + "`"
	case 3:
		return "[" + c + "]"
	}
	return c
}

func lit(v interface{}) string {
	switch x := v.(type) {
	case int64:
		return fmt.Sprint(x)
	case string:
		return "'" + x + "'"
	case []int64:
		parts := make([]string, len(x))
		for i, e := range x {
			parts[i] = fmt.Sprint(e)
		}
		return "(" + strings.Join(parts, ",") + ")"
	case []string:
		parts := make([]string, len(x))
		for i, e := range x {
			parts[i] = "'" + e + "'"
		}
		return "(" + strings.Join(parts, ",") + ")"
	}
	panic("lit")
}

func (w *tightR) bind(v interface{}) string {
	if w.named {
		w.n++
		name := fmt.Sprintf("p%d", w.n)
		w.names[name] = v
		return "@" + name
	}
	w.args = append(w.args, v)
	return "?"
}

func (w *tightR) atom(n *pred.Node) string {
	c := w.col(n.Col)
	switch n.Cmp {
	case "ISNULL":
		return c + " IS NULL"
	case "NOTNULL":
		return c + " IS NOT NULL"
	case "IN":
		if w.r.Chance(1, 3) {
			return c + " IN " + lit(n.Val)
		}
		if !w.named && w.r.Bool() {
			return c + " IN (" + w.bind(n.Val) + ")"
		}
		return c + " IN " + w.bind(n.Val)
	}
	v := ""
	if w.r.Chance(2, 5) {
		v = lit(n.Val)
	} else {
		v = w.bind(n.Val)
	}
	if n.Cmp != "LIKE" && w.r.Chance(1, 4) && !strings.HasPrefix(v, "@") {
		return c + n.Cmp + v
	}
	return c + " " + n.Cmp + " " + v
}

func (w *tightR) kw(k string) string {
	if w.st.Case {
		switch w.r.Intn(3) {
		case 1:
			return strings.ToLower(k)
		case 2:
			return k[:1] + strings.ToLower(k[1:])
		}
	}
	return k
}

// join writes prev <gap> KEYWORD <gap> next; a gap may be empty only where the SQL tokenizer still sees the keyword
func (w *tightR) join(prev, k, next string) string {
	lw := isWordByte(prev[len(prev)-1])
	rw := isWordByte(next[0])
	var l, rg string
	switch {
	case w.named && lw:
		// an @name ends at whitespace only
		l = core.Pick(w.r, []string{" ", "\n", " /**/", "\t--x\n"})
	case lw:
		l = core.Pick(w.r, []string{" ", "/**/", "/**/", "--x\n", "\n/*c*/"})
	default:
		l = core.Pick(w.r, []string{"", "", "", "/**/", " ", "--x\n"})
	}
	if rw {
		rg = core.Pick(w.r, []string{" ", "/**/", "/**/", "--x\n", "/*c*/\t"})
	} else {
		rg = core.Pick(w.r, []string{"", "", "", "/**/", " ", "--x\n"})
	}
	if (l != " " && l != "\n") || rg != " " {
		w.tight++
	}
	return prev + l + w.kw(k) + rg + next
}

func (w *tightR) render(n *pred.Node, parent pred.Kind, top bool) string {
	switch n.Kind {
	case pred.Atom:
		s := w.atom(n)
		if w.r.Chance(1, 6) {
			return "(" + s + ")"
		}
		return s
	case pred.Not:
		return w.kw("NOT") + core.Pick(w.r, []string{" ", "", "/**/"}) + "(" + w.render(n.Kids[0], pred.Not, false) + ")"
	}
	op := "AND"
	if n.Kind == pred.Or {
		op = "OR"
	}
	s := ""
	for i, k := range n.Kids {
		p := w.render(k, n.Kind, false)
		if i == 0 {
			s = p
		} else {
			s = w.join(s, op, p)
		}
	}
	need := !top && ((parent == pred.And && n.Kind == pred.Or) || (parent == pred.Or && n.Kind == pred.And && w.r.Bool()) || (parent == n.Kind && w.r.Bool()))
	if need {
		return "(" + s + ")"
	}
	return s
}

// tightText renders the tree; ok is false when no keyword got a non-whitespace neighbour
func tightText(r *core.Rand, tree *pred.Node, st pred.Style, named bool) (w *tightR, s string) {
	w = &tightR{r: r, st: st, named: named, names: map[string]interface{}{}}
	s = w.render(tree, pred.True, true)
	return w, s
}

func tightTree(r *core.Rand) *pred.Node {
	n := r.Range(2, 3)
	ks := make([]*pred.Node, n)
	for i := range ks {
		ks[i] = pred.RandTree(r, r.Range(0, 1))
	}
	kind := pred.Or
	if r.Chance(1, 3) {
		kind = pred.And
	}
	return &pred.Node{Kind: kind, Kids: ks}
}

func namedArgs(r *core.Rand, names map[string]interface{}) []interface{} {
	if r.Bool() {
		return []interface{}{names}
	}
	var args []interface{}
	for i := 1; i <= len(names); i++ {
		k := fmt.Sprintf("p%d", i)
		args = append(args, sql.Named(k, names[k]))
	}
	return args
}

// tightRawUnit: a raw string (with '?' or @named arguments) handed to Where / Not / Or / a finisher
func tightRawUnit(r *core.Rand, st pred.Style) *pred.Unit {
	tree := tightTree(r)
	named := r.Chance(1, 4)
	w, s := tightText(r, tree, st, named)
	u := &pred.Unit{Form: "rawtight", Pos: tree, Neg: pred.NotOf(tree), Canon: false}
	if named && len(w.names) > 0 {
		u.Form = "namedtight"
		args := namedArgs(r, w.names)
		u.Desc = fmt.Sprintf("%q named%v", s, w.names)
		u.Query = func(*gorm.DB) (interface{}, []interface{}) { return s, args }
		return u
	}
	args := w.args
	u.Desc = fmt.Sprintf("%q %v", s, args)
	u.Query = func(*gorm.DB) (interface{}, []interface{}) { return s, args }
	return u
}

// member: one hand-built expression; whole = the statement defines its negation as NOT (expression)
type member struct {
	e     clause.Expression
	pos   *pred.Node
	whole bool
	desc  string
	canon bool
}

func exprMember(r *core.Rand, st pred.Style) member {
	switch r.Intn(10) {
	case 0, 1, 2, 3, 4:
		cu := pred.ClauseUnit(r, 1)
		q, _ := cu.Query(nil)
		k := cu.Pos.Kind
		return member{e: q.(clause.Expression), pos: cu.Pos, whole: k == pred.Atom || k == pred.Or || k == pred.Not, desc: cu.Pos.String(), canon: true}
	case 5, 6:
		ru := pred.RawUnit(r, pred.RandTree(r, r.Range(0, 2)), st, false)
		q, args := ru.Query(nil)
		return member{e: clause.Expr{SQL: q.(string), Vars: args}, pos: ru.Pos, whole: true, desc: "clause.Expr{" + ru.Desc + "}", canon: ru.Canon}
	case 7:
		tree := tightTree(r)
		w, s := tightText(r, tree, st, false)
		return member{e: clause.Expr{SQL: s, Vars: w.args}, pos: tree, whole: true, desc: fmt.Sprintf("clause.Expr{%q %v}", s, w.args)}
	case 8:
		tree := tightTree(r)
		w, s := tightText(r, tree, st, true)
		if len(w.names) == 0 {
			return member{e: clause.Expr{SQL: s}, pos: tree, whole: true, desc: fmt.Sprintf("clause.Expr{%q}", s)}
		}
		return member{e: clause.NamedExpr{SQL: s, Vars: namedArgs(r, w.names)}, pos: tree, whole: true, desc: fmt.Sprintf("clause.NamedExpr{%q %v}", s, w.names)}
	}
	ru := pred.RawUnit(r, pred.RandTree(r, r.Range(0, 2)), st, true)
	q, args := ru.Query(nil)
	if len(args) == 0 {
		return member{e: clause.Expr{SQL: q.(string)}, pos: ru.Pos, whole: true, desc: "clause.Expr{" + ru.Desc + "}", canon: ru.Canon}
	}
	return member{e: clause.NamedExpr{SQL: q.(string), Vars: args}, pos: ru.Pos, whole: true, desc: "clause.NamedExpr{" + ru.Desc + "}", canon: ru.Canon}
}

// wrappers that are safe next to other values of the same call (no bare single-member clause.Or on top)
var wrapMulti = []string{"none", "And(e)", "And(Or(e))", "Or(e,Or(f))", "Or(Or(e),f)"}
var wrapSingle = []string{"Or(e)", "Or(e)", "Or(e)", "Or(Or(e))", "Or(And(e))", "Not(Or(e))", "And(e)", "And(Or(e))", "Or(e,Or(f))", "Or(Or(e),f)", "none"}

// wrapped builds one value: a member inside single-member And / Or wrappers
func wrapped(r *core.Rand, st pred.Style, kinds []string) member {
	e := exprMember(r, st)
	kind := core.Pick(r, kinds)
	if kind == "Not(Or(e))" && !e.whole {
		// negation as a whole is defined for single conditions, raw strings and OR units
		kind = "Or(e)"
	}
	out := member{pos: e.pos, whole: e.whole, canon: e.canon}
	switch kind {
	case "none":
		return e
	case "Or(e)":
		out.e, out.desc = clause.Or(e.e), "clause.Or("+e.desc+")"
	case "Or(Or(e))":
		out.e, out.desc = clause.Or(clause.Or(e.e)), "clause.Or(clause.Or("+e.desc+"))"
	case "Or(And(e))":
		out.e, out.desc = clause.Or(clause.And(e.e)), "clause.Or(clause.And("+e.desc+"))"
	case "And(e)":
		out.e, out.desc = clause.And(e.e), "clause.And("+e.desc+")"
	case "And(Or(e))":
		out.e, out.desc = clause.And(clause.Or(e.e)), "clause.And(clause.Or("+e.desc+"))"
	case "Not(Or(e))":
		out.e, out.desc = clause.Not(clause.Or(e.e)), "clause.Not(clause.Or("+e.desc+"))"
		out.pos = pred.NotOf(e.pos)
	case "Or(e,Or(f))", "Or(Or(e),f)":
		f := exprMember(r, st)
		if kind == "Or(e,Or(f))" {
			out.e, out.desc = clause.Or(e.e, clause.Or(f.e)), "clause.Or("+e.desc+", clause.Or("+f.desc+"))"
		} else {
			out.e, out.desc = clause.Or(clause.Or(e.e), f.e), "clause.Or(clause.Or("+e.desc+"), "+f.desc+")"
		}
		out.pos = pred.OrOf(e.pos, f.pos)
		out.whole = true
		out.canon = e.canon && f.canon
	}
	return out
}

// exprUnit: one or two hand-built expressions in one call
func exprUnit(r *core.Rand, st pred.Style) *pred.Unit {
	var ms []member
	if r.Chance(1, 4) {
		ms = []member{wrapped(r, st, wrapMulti), wrapped(r, st, wrapMulti)}
	} else {
		ms = []member{wrapped(r, st, wrapSingle)}
	}
	vals := make([]interface{}, len(ms))
	descs := make([]string, len(ms))
	pos := make([]*pred.Node, len(ms))
	canon := true
	for i, m := range ms {
		vals[i], descs[i], pos[i] = m.e, m.desc, m.pos
		canon = canon && m.canon
	}
	u := &pred.Unit{Form: "exprs", Desc: strings.Join(descs, " , "), Pos: pred.AndOf(pos...), Canon: canon,
		Query: func(*gorm.DB) (interface{}, []interface{}) { return vals[0], vals[1:] }}
	if len(ms) == 1 && ms[0].whole {
		u.Neg = pred.NotOf(ms[0].pos)
	}
	return u
}

// viaClauses: the same unit, attached with db.Clauses(...) when the step is a Where step
func viaClauses(u *pred.Unit) *pred.Unit {
	cu := *u
	cu.Form = "Clauses:" + u.Form
	return &cu
}

func isViaClauses(s pred.GroupStep) bool {
	return s.Op == "where" && strings.HasPrefix(s.U.Form, "Clauses:")
}

func opName(s pred.GroupStep) string {
	if isViaClauses(s) {
		return "Clauses"
	}
	return strings.Title(s.Op)
}

// applyStep makes the step's condition call on d
func applyStep(d *gorm.DB, s pred.GroupStep) *gorm.DB {
	q, args := s.U.Query(H.DB)
	switch {
	case isViaClauses(s):
		exprs := []clause.Expression{q.(clause.Expression)}
		for _, a := range args {
			exprs = append(exprs, a.(clause.Expression))
		}
		return d.Clauses(exprs...)
	case s.Op == "where":
		return d.Where(q, args...)
	case s.Op == "not":
		return d.Not(q, args...)
	}
	return d.Or(q, args...)
}

// baseUnit: every unit form that is no grouped sub-builder of this engine
func baseUnit(r *core.Rand, st pred.Style) *pred.Unit {
	switch r.Intn(12) {
	case 0:
		return tightRawUnit(r, st)
	case 1:
		return exprUnit(r, st)
	}
	return pred.RandUnit(r, st)
}

// localGroup: db.Where(db.<2..3 calls>) whose calls carry the forms of this engine (always built from the root handle)
func localGroup(r *core.Rand, st pred.Style) *pred.Unit {
	n := r.Range(2, 3)
	steps := make([]pred.GroupStep, n)
	pureOr := true
	canon := true
	descs := make([]string, n)
	for i := range steps {
		var u *pred.Unit
		switch r.Intn(3) {
		case 0:
			u = tightRawUnit(r, st)
		case 1:
			u = exprUnit(r, st)
		default:
			u = pred.RandUnit(r, st)
			for u.Form == "multi" || u.Form == "group" {
				u = pred.RandUnit(r, st)
			}
		}
		op := "where"
		if i > 0 {
			op = core.Pick(r, []string{"where", "or", "or", "not"})
		} else if r.Chance(1, 5) {
			op = "not"
		}
		if op == "not" && u.Neg == nil {
			op = "where"
		}
		if op == "where" && (u.Form == "exprs" || u.Form == "clause") && r.Bool() {
			u = viaClauses(u)
		}
		if (i == 0 && op != "where") || (i > 0 && op != "or") {
			pureOr = false
		}
		steps[i] = pred.GroupStep{Op: op, U: u}
		descs[i] = opName(steps[i]) + "(" + u.Desc + ")"
		canon = canon && u.Canon
	}
	pos := pred.Infix(steps)
	g := &pred.Unit{Form: "lgroup", Desc: "group[" + strings.Join(descs, ".") + "]", Pos: pos, Canon: canon,
		Query: func(root *gorm.DB) (interface{}, []interface{}) {
			d := root.Session(&gorm.Session{})
			for _, s := range steps {
				d = applyStep(d, s)
			}
			return d, nil
		}}
	if pureOr {
		g.Neg = pred.NotOf(pos)
	}
	return g
}

// randUnit: the unit generator of this engine
func randUnit(r *core.Rand, st pred.Style) *pred.Unit {
	if r.Chance(1, 16) {
		return localGroup(r, st)
	}
	return baseUnit(r, st)
}
